"""In-kernel cross-check of the extracted model (thorough tier).

A sample of the harness's lines is rendered as Gallina terms and evaluated with `vm_compute`
inside Coq against the observed results; the OCaml runner (extraction + driver) already agreed
with the implementation on these lines, so this closes the triangle impl = extracted model =
model as the kernel evaluates it.  Only pure engines whose arguments are easy to render are
covered (metric, security); stateful engines rely on the extraction alone (stated in DESIGN.md).
"""
import os, re, subprocess


def cbytes(hexs):
    if hexs == "-" or hexs == "":
        return "([] : list Byte.byte)"
    return "[" + "; ".join("x" + hexs[i:i + 2] for i in range(0, len(hexs), 2)) + "]%byte"


def cN(dec):
    return "(%s)%%N" % dec


def cnat(dec):
    return "(%s)%%nat" % dec


def cbool(tok):
    return "true" if tok != "0" else "false"


def ami(tok):
    ip, port, idh = tok.split(":")
    idt = "None" if idh == "-" else "(Some (toN %s))" % cbytes(idh)
    return "(mkAmi (ap_of_ip %s %s) %s)" % (cbytes(ip), cN(port), idt)


def render(op, a, o):
    """returns a Gallina boolean expression or None when the line is not covered"""
    try:
        if op == "xor":
            return "bytes_eqb (xorl %s %s) %s" % (cbytes(a[0]), cbytes(a[1]), cbytes(o[0]))
        if op == "cmp":
            return "Z.eqb (cmp_int (cmp160 %s %s)) (%s)%%Z" % (cbytes(a[0]), cbytes(a[1]), o[0])
        if op == "distcmp":
            return "Z.eqb (cmp_int (cmp160 (distance %s %s) (distance %s %s))) (%s)%%Z" % (cbytes(a[0]), cbytes(a[2]), cbytes(a[1]), cbytes(a[2]), o[0])
        if op == "bitlen":
            return "N.eqb (bitlen %s) %s" % (cbytes(a[0]), cN(o[0]))
        if op == "iszero":
            return "Bool.eqb (is_zero %s) %s" % (cbytes(a[0]), cbool(o[0]))
        if op == "getbit":
            return "Bool.eqb (get_bit %s %s) %s" % (cbytes(a[0]), cnat(a[1]), cbool(o[0]))
        if op == "setbit":
            return "bytes_eqb (set_bit %s %s %s) %s" % (cbytes(a[0]), cnat(a[1]), cbool(a[2]), cbytes(o[0]))
        if op == "bucketidx":
            if o[0] == "panic":
                return "match bucket_index_bytes %s %s with None => true | Some _ => false end" % (cbytes(a[0]), cbytes(a[1]))
            return "match bucket_index_bytes %s %s with Some i => Nat.eqb i %s | None => false end" % (cbytes(a[0]), cbytes(a[1]), cnat(o[0]))
        if op == "randbucket":
            return "bytes_eqb (random_in_bucket_bytes %s %s %s) %s" % (cbytes(a[0]), cbytes(o[0]), cnat(a[1]), cbytes(o[0]))
        if op == "closer":
            return "Bool.eqb (closer_than (toN %s) %s %s) %s" % (cbytes(a[0]), ami(a[1]), ami(a[2]), cbool(o[0]))
        if op == "sha1":
            return "bytes_eqb (sha1 %s) %s" % (cbytes(a[0]), cbytes(o[0]))
        if op == "crc32c":
            return "N.eqb (crc32c %s) %s" % (cbytes(a[0]), cN(o[0]))
        if op == "b44buf":
            return "bytes_eqb (rb_buf %s %s (%s)%%Z) %s" % (cbytes(a[0]), cbytes(a[2]), a[1], cbytes(o[0]))
        if op == "b44checkin":
            code = "0" if o[0] == "ok" else o[0]
            if not code.lstrip("-").isdigit():
                return None
            it = lambda bv, cas, seq: "(rb_mk_item %s [] [] [] (%s)%%Z (%s)%%Z 0%%Z)" % (cbytes(bv), cas, seq)
            return "Z.eqb (rb_checkin %s %s) (%s)%%Z" % (it(a[2], a[1], a[0]), it(a[5], a[4], a[3]), code)
        if op == "b44target":
            i = "(rb_mk_item %s %s %s [] 0%%Z 0%%Z 0%%Z)" % (cbytes(a[0]), cbytes(a[1]), cbytes(a[2]))
            return "bytes_eqb (rb_target %s) %s" % (i, cbytes(o[0]))
        if op == "maskfor":
            return "bytes_eqb (mask_for_ip %s) %s" % (cbytes(a[0]), cbytes(o[0]))
        if op == "islocal":
            return "Bool.eqb (is_local_network %s) %s" % (cbytes(a[0]), cbool(o[0]))
        if op == "crcip":
            if o[0] == "panic":
                return "match crc_ip %s (byte_of_N %s) with None => true | Some _ => false end" % (cbytes(a[0]), cN(a[1]))
            return "match crc_ip %s (byte_of_N %s) with Some c => N.eqb c %s | None => false end" % (cbytes(a[0]), cN(a[1]), cN(o[0]))
        if op == "secure":
            if o[0] == "panic":
                return "match secure_node_id %s %s with None => true | Some _ => false end" % (cbytes(a[0]), cbytes(a[1]))
            return "match secure_node_id %s %s with Some i => bytes_eqb i %s | None => false end" % (cbytes(a[0]), cbytes(a[1]), cbytes(o[0]))
        if op == "issecure":
            if o[0] == "panic":
                return "match node_id_secure %s %s with None => true | Some _ => false end" % (cbytes(a[0]), cbytes(a[1]))
            return "match node_id_secure %s %s with Some b => Bool.eqb b %s | None => false end" % (cbytes(a[0]), cbytes(a[1]), cbool(o[0]))
    except (IndexError, ValueError):
        return None
    return None


IMPORTS = {
    "metric": "From Dht Require Import Base Int160 Order RunMetric.",
    "security": "From Dht Require Import Base Sha1 Crc32c Security.",
    "bep44": "From Dht Require Import Base Sha1 Bep44 RunBep44.",
}


def run(coq_dir, work_dir, engine, data_lines, sample=300):
    """returns dict(checked=n, failed=[(line)], log=...)"""
    if engine not in IMPORTS:
        return dict(checked=0, failed=[], log="engine not covered")
    exprs = []
    for l in data_lines:
        lhs, _, rhs = l.partition(" => ")
        t = lhs.split()
        if not t or len(lhs) > 3000:
            continue
        e = render(t[0], t[1:], rhs.split())
        if e:
            exprs.append((l, e))
    # an even sample over the renderable lines, every op kind represented
    if len(exprs) > sample:
        step = len(exprs) / float(sample)
        exprs = [exprs[int(i * step)] for i in range(sample)]
    if not exprs:
        return dict(checked=0, failed=[], log="no renderable line")
    os.makedirs(work_dir, exist_ok=True)
    path = os.path.join(work_dir, "cases_%s.v" % engine)
    with open(path, "w") as f:
        f.write("(* generated by bin/crosscheck.py *)\n%s\nFrom Coq Require Import ZArith NArith List Bool.\nImport ListNotations.\n" % IMPORTS[engine])
        f.write("Definition cases : list bool := [\n  %s\n].\n" % ";\n  ".join(e for _, e in exprs))
        f.write("Fixpoint failing (i : nat) (l : list bool) : list nat := match l with [] => [] | b :: r => (if b then [] else [i]) ++ failing (S i) r end.\n")
        f.write("Definition M := Eval vm_compute in failing 0 cases.\nPrint M.\n")
    p = subprocess.run(["timeout", "900", "coqc", "-Q", os.path.join(coq_dir, "gen"), "DhtGen", "-Q", os.path.join(coq_dir, "model"), "Dht", path],
                       stdout=subprocess.PIPE, stderr=subprocess.STDOUT, text=True, cwd=work_dir)
    out = p.stdout
    m = re.search(r"M\s*=\s*(\[.*?\])\s*:", out, flags=re.S)
    failed = []
    if p.returncode != 0 or not m:
        return dict(checked=len(exprs), failed=[("coqc failed", out[-800:])], log=out[-800:])
    idx = [int(x) for x in re.findall(r"\d+", m.group(1))]
    failed = [(exprs[i][0][:400], exprs[i][1][:400]) for i in idx if i < len(exprs)]
    return dict(checked=len(exprs), failed=failed, log="")
