"""In-kernel cross-check of the extracted model (thorough tier).

A sample of the harness's lines is rendered as Gallina terms and evaluated with `vm_compute`
inside Coq against the observed results; the OCaml runner (extraction + driver) already agreed
with the implementation on these lines, so this closes the triangle impl = extracted model =
model as the kernel evaluates it.  Only pure engines whose arguments are easy to render are
covered (metric, security, the pure bep44 lines) plus the `mpass` lines of the maint engine (a whole pass of the table
maintainer per line, compared by RunMaintCheck.rm_check); the other stateful engines rely on the extraction alone (DESIGN.md).
"""
import os, re, subprocess


def cbytes(hexs):
    if hexs == "-" or hexs == "":
        return "([] : list Byte.byte)"
    return "[" + "; ".join("x" + hexs[i:i + 2] for i in range(0, len(hexs), 2)) + "]%byte"


def cN(dec):
    return "(%s)%%N" % dec


def cnat(dec):
    return "(%s)%%nat" % dec


def cbool(tok):
    return "true" if tok != "0" else "false"


def ami(tok):
    ip, port, idh = tok.split(":")
    idt = "None" if idh == "-" else "(Some (toN %s))" % cbytes(idh)
    return "(mkAmi (ap_of_ip %s %s) %s)" % (cbytes(ip), cN(port), idt)


NOW = 1000000000000000000

def render_mpass(a, o):
    """a: tokens after the op name (idx, k=v ...); o: observed tokens"""
    kv = dict(t.split("=", 1) for t in a[1:] if "=" in t)
    def lst(s, sep):
        return [] if s in ("", "-") else s.split(sep)
    def age(s):
        return "None" if s == "-1" else "(Some (%d)%%Z)" % (NOW - int(s))
    def key(tok):      # iphex:port, already in the normalised form
        ip, port = tok.rsplit(":", 1)
        return "(%s, (%s)%%N)" % (cbytes(ip), port)
    def glist(items, ty):
        return "([%s] : list %s)" % ("; ".join(items), ty)
    cls = {"g": "0", "q": "1", "b": "2"}
    nodes, classes = [], []
    for t in lst(kv.get("nodes", ""), ","):
        slot, idh, ip, port, qa, ra, failed, c = t.split("/")
        nodes.append("(rm_node (toN %s) %s (%s)%%N %s %s %s (%s)%%nat)" % (cbytes(idh), cbytes(ip), port, age(qa), age(ra), "true" if failed == "1" else "false", slot))
        classes.append("(%s)%%N" % cls[c])
    answering = []
    for t in lst(kv.get("answers", ""), ","):
        idh, ip, port = t.split("/")
        answering.append("(toN %s, addr_key (mkAddr %s (%s)%%N))" % (cbytes(idh), cbytes(ip), port))
    others = []
    for t in lst(kv.get("oanswers", ""), ","):
        idh, ip, port = t.split("/")
        others.append("(toN %s, addr_key (mkAddr %s (%s)%%N))" % (cbytes(idh), cbytes(ip), port))
    fans = []
    for t in lst(kv.get("fanswers", ""), ","):
        idh, ip, port = t.split("/")
        fans.append("(toN %s, addr_key (mkAddr %s (%s)%%N))" % (cbytes(idh), cbytes(ip), port))
    boot, obs, after = [], [], []
    for t in o:
        if t.startswith("boot:"):
            boot = [key(x) for x in lst(t[5:], ";")]
        elif t.startswith("ping:") or t.startswith("refresh:"):
            kind, i, rest = t.split(":", 2)
            obs.append("(%s (%s)%%nat %s)" % ("ROPing" if kind == "ping" else "RORefresh", i, glist([key(x) for x in lst(rest, ";")], "rmk")))
        elif t.startswith("break:"):
            obs.append("(ROBreak (%s)%%nat)" % t[6:])
        elif t == "done":
            obs.append("RODone")
        elif t.startswith("after:"):
            for e in lst(t[6:], ";"):
                idh, k, c, f = e.split("/")
                after.append("(toN %s, %s, (%s)%%N, %s)" % (cbytes(idh), key(k), cls[c], "true" if f == "1" else "false"))
        else:
            return None
    return "rm_check (rm_cfg (toN %s) %s) (%d)%%Z %s %s %s %s %s %s %s %s %s" % (
        cbytes(kv["root"]), "true" if kv.get("nosec") == "1" else "false", NOW, "true" if kv.get("booted") == "1" else "false",
        glist(answering, "(N * (bytes * N))"), glist(others, "(N * (bytes * N))"), glist(fans, "(N * (bytes * N))"), glist(nodes, "node"), glist(classes, "N"),
        glist(boot, "rmk"), glist(obs, "rm_obs"), glist(after, "rm_after_entry"))


def render(op, a, o):
    """returns a Gallina boolean expression or None when the line is not covered"""
    try:
        if op == "mpass":
            return render_mpass(a, o)
        if op == "xor":
            return "bytes_eqb (xorl %s %s) %s" % (cbytes(a[0]), cbytes(a[1]), cbytes(o[0]))
        if op == "cmp":
            return "Z.eqb (cmp_int (cmp160 %s %s)) (%s)%%Z" % (cbytes(a[0]), cbytes(a[1]), o[0])
        if op == "distcmp":
            return "Z.eqb (cmp_int (cmp160 (distance %s %s) (distance %s %s))) (%s)%%Z" % (cbytes(a[0]), cbytes(a[2]), cbytes(a[1]), cbytes(a[2]), o[0])
        if op == "bitlen":
            return "N.eqb (bitlen %s) %s" % (cbytes(a[0]), cN(o[0]))
        if op == "iszero":
            return "Bool.eqb (is_zero %s) %s" % (cbytes(a[0]), cbool(o[0]))
        if op == "getbit":
            return "Bool.eqb (get_bit %s %s) %s" % (cbytes(a[0]), cnat(a[1]), cbool(o[0]))
        if op == "setbit":
            return "bytes_eqb (set_bit %s %s %s) %s" % (cbytes(a[0]), cnat(a[1]), cbool(a[2]), cbytes(o[0]))
        if op == "bucketidx":
            if o[0] == "panic":
                return "match bucket_index_bytes %s %s with None => true | Some _ => false end" % (cbytes(a[0]), cbytes(a[1]))
            return "match bucket_index_bytes %s %s with Some i => Nat.eqb i %s | None => false end" % (cbytes(a[0]), cbytes(a[1]), cnat(o[0]))
        if op == "randbucket":
            return "bytes_eqb (random_in_bucket_bytes %s %s %s) %s" % (cbytes(a[0]), cbytes(o[0]), cnat(a[1]), cbytes(o[0]))
        if op == "closer":
            return "Bool.eqb (closer_than (toN %s) %s %s) %s" % (cbytes(a[0]), ami(a[1]), ami(a[2]), cbool(o[0]))
        if op == "sha1":
            return "bytes_eqb (sha1 %s) %s" % (cbytes(a[0]), cbytes(o[0]))
        if op == "crc32c":
            return "N.eqb (crc32c %s) %s" % (cbytes(a[0]), cN(o[0]))
        if op == "b44buf":
            return "bytes_eqb (rb_buf %s %s (%s)%%Z) %s" % (cbytes(a[0]), cbytes(a[2]), a[1], cbytes(o[0]))
        if op == "b44checkin":
            code = "0" if o[0] == "ok" else o[0]
            if not code.lstrip("-").isdigit():
                return None
            it = lambda bv, cas, seq: "(rb_mk_item %s [] [] [] (%s)%%Z (%s)%%Z 0%%Z)" % (cbytes(bv), cas, seq)
            return "Z.eqb (rb_checkin %s %s) (%s)%%Z" % (it(a[2], a[1], a[0]), it(a[5], a[4], a[3]), code)
        if op == "b44target":
            i = "(rb_mk_item %s %s %s [] 0%%Z 0%%Z 0%%Z)" % (cbytes(a[0]), cbytes(a[1]), cbytes(a[2]))
            return "bytes_eqb (rb_target %s) %s" % (i, cbytes(o[0]))
        if op == "maskfor":
            return "bytes_eqb (mask_for_ip %s) %s" % (cbytes(a[0]), cbytes(o[0]))
        if op == "islocal":
            return "Bool.eqb (is_local_network %s) %s" % (cbytes(a[0]), cbool(o[0]))
        if op == "crcip":
            if o[0] == "panic":
                return "match crc_ip %s (byte_of_N %s) with None => true | Some _ => false end" % (cbytes(a[0]), cN(a[1]))
            return "match crc_ip %s (byte_of_N %s) with Some c => N.eqb c %s | None => false end" % (cbytes(a[0]), cN(a[1]), cN(o[0]))
        if op == "secure":
            if o[0] == "panic":
                return "match secure_node_id %s %s with None => true | Some _ => false end" % (cbytes(a[0]), cbytes(a[1]))
            return "match secure_node_id %s %s with Some i => bytes_eqb i %s | None => false end" % (cbytes(a[0]), cbytes(a[1]), cbytes(o[0]))
        if op == "issecure":
            if o[0] == "panic":
                return "match node_id_secure %s %s with None => true | Some _ => false end" % (cbytes(a[0]), cbytes(a[1]))
            return "match node_id_secure %s %s with Some b => Bool.eqb b %s | None => false end" % (cbytes(a[0]), cbytes(a[1]), cbool(o[0]))
    except (IndexError, ValueError):
        return None
    return None


IMPORTS = {
    "metric": "From Dht Require Import Base Int160 Order RunMetric.",
    "security": "From Dht Require Import Base Sha1 Crc32c Security.",
    "bep44": "From Dht Require Import Base Sha1 Bep44 RunBep44.",
    "maint": "From Dht Require Import Base Msg Server Maint RunServer RunMaint RunMaintCheck.",
}


def run(coq_dir, work_dir, engine, data_lines, sample=300):
    """returns dict(checked=n, failed=[(line)], log=...)"""
    if engine not in IMPORTS:
        return dict(checked=0, failed=[], log="engine not covered")
    exprs = []
    for l in data_lines:
        lhs, _, rhs = l.partition(" => ")
        t = lhs.split()
        if not t or (len(lhs) > 3000 and t[0] != "mpass"):
            continue
        e = render(t[0], t[1:], rhs.split())
        if e:
            exprs.append((l, e))
    # an even sample over the renderable lines, every op kind represented
    if engine == "maint":
        sample = min(sample, 24)      # a whole maintainer pass per line: ~2 s each inside Coq
    if len(exprs) > sample:
        step = len(exprs) / float(sample)
        exprs = [exprs[int(i * step)] for i in range(sample)]
    if not exprs:
        return dict(checked=0, failed=[], log="no renderable line")
    os.makedirs(work_dir, exist_ok=True)
    path = os.path.join(work_dir, "cases_%s.v" % engine)
    with open(path, "w") as f:
        f.write("(* generated by bin/crosscheck.py *)\n%s\nFrom Coq Require Import ZArith NArith List Bool.\nImport ListNotations.\n" % IMPORTS[engine])
        f.write("Definition cases : list bool := [\n  %s\n].\n" % ";\n  ".join(e for _, e in exprs))
        f.write("Fixpoint failing (i : nat) (l : list bool) : list nat := match l with [] => [] | b :: r => (if b then [] else [i]) ++ failing (S i) r end.\n")
        f.write("Definition M := Eval vm_compute in failing 0 cases.\nPrint M.\n")
    p = subprocess.run(["timeout", "900", "coqc", "-Q", os.path.join(coq_dir, "gen"), "DhtGen", "-Q", os.path.join(coq_dir, "model"), "Dht", path],
                       stdout=subprocess.PIPE, stderr=subprocess.STDOUT, text=True, cwd=work_dir)
    out = p.stdout
    m = re.search(r"M\s*=\s*(\[.*?\])\s*:", out, flags=re.S)
    failed = []
    if p.returncode != 0 or not m:
        return dict(checked=len(exprs), failed=[("coqc failed", out[-800:])], log=out[-800:])
    idx = [int(x) for x in re.findall(r"\d+", m.group(1))]
    failed = [(exprs[i][0][:400], exprs[i][1][:400]) for i in idx if i < len(exprs)]
    return dict(checked=len(exprs), failed=failed, log="")
