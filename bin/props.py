# Per-property configuration of bin/check.

SERVER_RULE = (
    "server engine: a real dht.Server on a fake PacketConn driven through generated event histories (scenarios table / "
    "methods / tokens / peers / queries / blocklist / misc / budget / bep44); after EVERY event the datagrams written, "
    "callbacks, peer-store calls, query completions, the routing-table snapshot (hook) and API counters are compared with "
    "the extracted model's step on the same event (relational where Go leaves a choice: eviction victim, node-list "
    "members/order, values order, transaction id); a case line is distinct by its full event text incl. its history "
    "position; every line exercises one model transition")

SERVER_TRUSTED = [
    "Go runtime, net/netip, x/time/rate (exact-budget limiter: rate 0), anacrolix/torrent/bencode (packets are encoded and "
    "decoded by the library in the server engine; the byte-level codec is C15's concern)",
    "sha1 (Gallina implementation, compared with crypto/sha1 by the security engine); ed25519 verdicts supplied per case by "
    "the harness (crypto/ed25519 on a reference-built buffer)",
    "the server model is of the repaired behaviour for D1/D4/D5/D6/D7 (fix: commits in /repo); events are compared at lock "
    "granularity, goroutine effects collected per event",
]


def server(extra_rule="", engines=("server",), trusted=(), assumptions=()):
    return dict(engines=list(engines), rule=SERVER_RULE + (" ; " + extra_rule if extra_rule else ""),
                trusted=SERVER_TRUSTED + list(trusted), assumptions=list(assumptions))


PROPS = {
    "C18": dict(
        engines=["metric"],
        rule="metric engine: structured 160-bit ids (all 160 shared-prefix lengths, single-bit flips, extremes, random) through "
             "every int160 primitive, bucket index and random-id-in-bucket for all 160 buckets, CloserThan over all ordered pairs/"
             "triples of a 24-element pool (id-less and equal-distance ties included), sorted-set op sequences and K-nearest push "
             "sequences; a case is distinct by its full input text; every case is non-trivial (it exercises one modelled operation)",
        trusted=["tie-break order of the K-nearest container (seeded maphash) assumed to be a strict total order on addresses",
                 "math/big BitLen, net/netip Addr.Compare, benbjohnson/immutable sorted map: modelled, compared by the harness"],
        assumptions=["maphash of distinct address strings does not collide"],
    ),
    "C01": server("plus: every server case runs in a child process; a dead child, a stuck serve loop, a probe ping without "
                  "reply or an API call that does not return is a direct violation"),
    "C05": server("oracle: bucket index = shared prefix, capacity 8, no duplicate (id,address), no own/zero id, "
                  "NumNodes/Stats/Nodes agree with the snapshot"),
    "C06": server("oracle: every appearing / disappearing table entry classified against the admission and eviction rules"),
    "C07": server("oracle: a Query returns a reply only for a datagram from its destination address echoing its t; one "
                  "completion per datagram"),
    "C08": server("oracle: destination, echoed t, at most one datagram, 203/204, response form, silence on non-queries"),
    "C09": server("oracle: node lists <= 8 distinct good responded contacts of the right family, nearest buckets first "
                  "relative to the query's target"),
    "C10": server("oracle: announce_peer/put with a token never issued to that IP or older than 15 min has no effect; a token "
                  "younger than 10 min is honoured"),
    "C11": server("oracle: get_peers values = announced endpoints (uint16 port, implied_port), BEP 32 family filtering, token present"),
    "C19": server("oracle: no datagram to a blocked address, no effect from a blocked source, passive node silent and its "
                  "queries carry ro=1"),
    "C20": server("oracle: with an exact-budget limiter (rate 0, burst b) the number of rated datagrams never exceeds b"),
}
