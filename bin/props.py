# Per-property configuration of bin/check.

SERVER_RULE = (
    "server engine: a real dht.Server on a fake PacketConn driven through generated event histories (scenarios table / "
    "methods / tokens / peers / queries / blocklist / misc / budget / bep44 / collide: peers' own queries carrying our outstanding transaction ids / tokens and methods over the configuration lattice peer store x announce hook x WaitToReply x query hook / peershook: a blocking OnAnnouncePeer hook released by the history / peerfam: get_peers over stored-peer families x requester address form x want x table families / autoid: table, peerfam, methods with ServerConfig.NodeId unset x PublicIP x NoSecurity, root = Server.ID() / roresp + rodirected: ro flag on responses and errors / intargs: port, implied_port, noseed, scrape, seq, cas and reply integers at and beyond their ranges, read back by get_peers of both families and get / putreject: every return path of put and get followed by more queries / veto: an OnQuery hook refusing one, several or all methods on open and enforcing nodes - senders of refused queries are admitted, refreshed and turned away exactly like those of answered ones / closest: more than K good contacts of one family over 2-4 adjacent buckets heard from in every order); after EVERY event the datagrams written, "
    "callbacks, peer-store calls, query completions, the routing-table snapshot (hook) and API counters are compared with "
    "the extracted model's step on the same event (relational where Go leaves a choice: eviction victim, node-list "
    "members/order, values order, transaction id); a case line is distinct by its full event text incl. its history "
    "position; every line exercises one model transition")

SERVER_TRUSTED = [
    "Go runtime, net/netip, x/time/rate (exact-budget limiter: rate 0), anacrolix/torrent/bencode (packets are encoded and "
    "decoded by the library in the server engine; the byte-level codec is C15's concern)",
    "sha1 (Gallina implementation, compared with crypto/sha1 by the security engine); ed25519 verdicts supplied per case by "
    "the harness (crypto/ed25519 on a reference-built buffer)",
    "the server model is of the repaired behaviour for D1/D4/D5/D6/D7 (fix: commits in /repo); events are compared at lock "
    "granularity, goroutine effects collected per event",
]


def server(extra_rule="", engines=("server",), trusted=(), assumptions=()):
    return dict(engines=list(engines), rule=SERVER_RULE + (" ; " + extra_rule if extra_rule else ""),
                trusted=SERVER_TRUSTED + list(trusted), assumptions=list(assumptions))


PROPS = {
    "C18": dict(
        engines=["metric"],
        rule="metric engine: structured 160-bit ids (all 160 shared-prefix lengths, single-bit flips, extremes, random) through "
             "every int160 primitive, bucket index and random-id-in-bucket for all 160 buckets, CloserThan over all ordered pairs/"
             "triples of a 24-element pool (id-less and equal-distance ties included), sorted-set op sequences and K-nearest push "
             "sequences; a case is distinct by its full input text; every case is non-trivial (it exercises one modelled operation)",
        trusted=["tie-break order of the K-nearest container (seeded maphash) assumed to be a strict total order on addresses",
                 "math/big BitLen, net/netip Addr.Compare, benbjohnson/immutable sorted map: modelled, compared by the harness"],
        assumptions=["maphash of distinct address strings does not collide"],
    ),
    "C01": server("plus: every server case runs in a child process; a dead child, a stuck serve loop, a probe ping without "
                  "reply or an API call that does not return is a direct violation; maint engine (oracle only): a Server running "
                  "TableMaintainer (bootstrap, questionable pings, bucket refresh) against simulated nodes answering with 16 hostile reply "
                  "strategies (no r dict, malformed error, short id, garbage nodes, truncated, wrong t, ...)", engines=("server", "maint")),
    "C05": server("oracle: bucket index = shared prefix, capacity 8, no duplicate (id,address), no own/zero id, "
                  "NumNodes/Stats/Nodes agree with the snapshot"),
    "C06": server("oracle: every appearing / disappearing table entry classified against the admission and eviction rules"),
    "C07": server("oracle: a Query returns a reply only for a datagram from its destination address echoing its t; one "
                  "completion per datagram"),
    "C08": server("oracle: destination, echoed t, at most one datagram, 203/204, response form, silence on non-queries"),
    "C09": server("oracle: node lists <= 8 distinct good responded contacts of the right family, nearest buckets first "
                  "relative to the query's target; a reply without values lists every wanted family that has a good contact at or "
                  "below the target's bucket; api engine, kind maintshare (oracle only): a real TableMaintainer with a short resend "
                  "delay on a table whose entries share an address or an id (stale entries beside a contact that answered moments "
                  "ago); probes before, during and after the questionable pings: every contact that answered and was never the "
                  "(address, id) of an unanswered ping stays listed", engines=("server", "api")),
    "C10": server("oracle: announce_peer/put with a token never issued to that IP or older than 15 min has no effect; a token "
                  "younger than 10 min is honoured"),
    "C11": server("oracle: get_peers values = announced endpoints (uint16 port, implied_port), BEP 32 family filtering, token present"),
    "C19": server("oracle: no datagram to a blocked address, no effect from a blocked source, passive node silent and its "
                  "queries carry ro=1"),
    "C20": server("oracle: with an exact-budget limiter (rate 0, burst b) the number of rated datagrams never exceeds b"),
    "C13": dict(
        engines=["bep44"],
        rule="bep44 engine: CheckIncoming over the full 7^4 x {same,other value} seq/cas grid {1,2,3,0,-1,MinInt64,MaxInt64}; "
             "Wrapper histories put;put;get over that grid, expiry boundary 0/60/119/120/121/500 min with and without refresh, random "
             "3-10 op histories over 4 targets; concurrent Wrapper.Put/Get on a store yielding at every Get/Put/Del: ALL interleavings "
             "of 2 threads, 3 threads sampled (quick) / all (thorough); real dht.Server on a fake conn: inbound put/get and Server.Put, "
             "stored and named seqs at the int64 extremes; store faults: chosen Get/Put/Del calls of the underlying Store fail with a "
             "non-ErrItemNotFound error during Wrapper.Put/Get, inbound put/get and Server.Put (model Bep44Fault.v); "
             "stores that copy / rebuild items (custom bep44.Store: by-value copies, bep44.Put records via ToPut/ToItem, bencoded blobs, "
             "rebuild on every Get): put;put;get;put;get over the seq grid, expiry boundary and refresh, random histories, inbound put/get and "
             "Server.Put, and ageing through REAL time under a 400 ms expiry (all kinds in lockstep; model Bep44Rebuild.v; oracle "
             "expired-item-served:by-true-age on the time since the accepted put returned). "
             "A case is distinct by its full input text; non-trivial = it executes at least one store call",
        trusted=["sync.Mutex provides mutual exclusion (modelled as a lock; goroutine wait states read from runtime.Stack)",
                 "interleaving granularity = the underlying Store's Get/Put/Del calls",
                 "virtual time via VerifAge in whole minutes; real time between operations < 1 min",
                 "real time under the 400 ms expiry: a read over a stamp-keeping store is compared only when the clock readings taken around "
                 "the call put the item on the side of the expiry the nominal pauses say (otherwise the case is dropped, `# ... dropped`)",
                 "crypto/ed25519 and crypto/sha1 (ed_verify is a parameter fed from the harness verdict table; sha1 is Dht.Sha1.sha1)"],
        assumptions=["the underlying Store is a finite map whose calls either take effect or fail without effect; it hands back the item "
                     "it was given, a copy of it, or an item rebuilt from the exported fields (then without the time stamp)"],
    ),
    "C12": dict(
        engines=["bep44", "server"],
        rule="bep44 engine: Check / Item.Target / Put.Target / MakeMutableTarget / bufferToSign on 40 values (every bencode shape; "
             "encodings of 998..1003 bytes) x salts 0,1,63,64,65,200 x 8 signature variants with real ed25519 keys (valid; valid for "
             "other salt/seq/value/key; bit-flipped; zero; immutable); the same items through Wrapper.Put histories, the server's put "
             "handler and Server.Put, with the store dumped after every operation; server engine scenario bep44: wire put/get with "
             "tokens, seq gating, expiry and a failing underlying store",
        trusted=["crypto/ed25519, crypto/sha1", "harness reference encoder of the signed buffer",
                 "bencode.Marshal (the value is modelled by its encoding)"] + SERVER_TRUSTED,
        assumptions=["client-side theorems (C12_client*) are tied by the lookups engine once integrated"],
    ),
    "C17": dict(
        engines=["security"],
        rule="security engine: every line is one call of the real code recomputed by the extracted model: SecureNodeId for all 8 seeds "
             "of the 2^20 masked IPv4 values (thorough: exhaustive; quick: 2^14 stratified; every 8th v4-mapped 16-byte), NodeIdSecure on "
             "random/secured/single-bit-flipped ids, maskForIP/isLocalNetwork/crcIP (hooks) on range boundaries of 10/8 172.16/12 "
             "192.168/16 169.254/16 127/8 fe80::/10 ::1, v4-mapped near misses, random IPv6, addresses of illegal length (panic = "
             "outcome), the 13 spec/test vectors, MakeDeterministicNodeID, ServerConfig.InitNodeId and NewServer(cfg).ID() on a fake "
             "PacketConn (relational for the random branch), HashTuple, sha1/crc32c on lengths 0..200 (thorough 0..1100, 64 KiB); "
             "a case is distinct by its full input text",
        trusted=["Go net.IP To4/IPNet.Contains/IsLoopback/IsLinkLocalUnicast transcribed in Security.v and compared by the engine",
                 "crypto/sha1 and hash/crc32 Castagnoli: executable Gallina implementations compared on every run; proofs use only "
                 "crc32c m < 2^32 and length (sha1 m) = 20 (both proved)",
                 "net.Addr.String()/Network() are inputs of the model (address formatting not modelled)"],
        assumptions=["RandomNodeID() can return any 20-byte value (random branch is a relation over it)",
                     "net.IP values of length 4 or 16 (other lengths: model and code both panic, compared but outside the theorems)"],
    ),
}

PROPS["C15"] = dict(
    engines=["codec"],
    rule="codec engine: every exported Unmarshal/Marshal Binary and Bencode method of the five compact types, NodeAddr, NodeInfo, ID and "
         "Error on all lengths 0..80 x 4 content patterns plus non-string bencode forms; bencode.Unmarshal/Marshal of krpc.Msg on the 13 "
         "fuzz seeds, the msg_test.go vectors, ~330 directed quirk cases and ~500 wrong-type cases per field; 547 generated messages over "
         "the full field set (one field at a time through all its choices, then random points of the product), each encoded, decoded, "
         "re-encoded and re-encoded again; a malformed stream of truncations at every offset, 1500 mutations, nesting to depth 5000, "
         "huge declared lengths and trailing bytes; the nodes file; forms (codec_hold.go): every compact list, NodeAddr, ID, Error and the "
         "BEP 33 bloom filter handed to bencode.Marshal by value, by pointer, pointer to pointer, as struct field by value / by pointer / "
         "interface{}, inside []interface{}, map[string]interface{}, map[string]T, map[string]*T and []T: the piece inside the container "
         "(mbf lines) is the value's own MarshalBencode, the container decodes back to the value and re-encodes to the identical bytes, "
         "krpc.Msg carries the same piece, a decoded value does not alias the input buffer; held results: the slices returned by every "
         "exported MarshalBinary / MarshalBencode are kept while further values and messages are encoded (same goroutine; 6 goroutines "
         "holding everything across a barrier) and only then printed (mb / mbc lines), compared with the copy taken at return and "
         "concatenated into hand-assembled responses that must equal bencode.Marshal of the krpc.Msg. A case is distinct by its input text.",
    trusted=["anacrolix/torrent/bencode internals (modelled byte-level incl. its quirks, differentially tested on every run)",
             "net.IP.To4/To16; 64-bit int", "tools/srcschema (struct tags of krpc/msg.go -> gen/KrpcSchema.v, pinned field by field)"],
    assumptions=["inputs of at most 2^27-1 bytes for the fixpoint clause only (the decoder's own string limit; every UDP datagram is far below)"],
)

PROPS["C14"] = dict(
    engines=["query", "lookups"],
    rule="query engine: real Server.Query on a fake conn: NumTries 0..4 x {time-out, late reply, cancel/close/reply inside or after the i-th "
         "send, i-th write fails, blocked, closed, double reply, reply-then-cancel, reply in the abandonment window (sender held in WriteTo), "
         "stale reply then next query} each repeated 20x; QueryRateLimiting x6 policies x tries 1..4 x budget 0..3 x reply after k-th send; "
         "lookups engine: Bootstrap / Announce / getput Get / Put with failing / empty / erroring StartingNodes x20, ctx / Close / "
         "StopTraversing at enumerated points; observables: datagrams per transaction id, result class, OutstandingTransactions, goroutine "
         "count back to baseline; distinct by the full case line / block",
    trusted=["goroutines / timers / Go scheduler are counted by the harness, not modelled; sender held through the fake conn and the injected QueryResendDelay"],
    assumptions=["the traversal issues finitely many DoQuery calls (C03/C04); weak fairness for liveness conclusions"],
)
# lookups engine, second case family (harness/cmd/h/lookups_stop.go)
PROPS["C14"]["rule"] += (" ; lookups engine, stop inside reply processing: the server's IP blocklist (consulted by TraversalNodeFilter under the "
                         "traversal's lock) parks the reply handler at the k-th of n candidates a reply reveals (nodes / nodes6) or at the responder's own "
                         "check; meanwhile StopTraversing / Close / ctx of Bootstrap, Get, Put / Get ending on another node's immutable value; after the stop "
                         "has returned the handler is released (Bootstrap: the remaining nodes answer after the stop with more candidates): the number of "
                         "traversal queries begun must stay what it was at the hold (line lkbegun against the model's TIssue count, oracle "
                         "query-started-after-stop:*); announce with a consumer that pauses after j responses while up to 3 more responses wait, then "
                         "StopTraversing / Close, then a slow resume; a child process dying in any lookups case is a C14 line (lookup-process-died:*)")
PROPS["C14"]["trusted"] += ["traversal.Operation calls its NodeFilter with the operation lock held (addNodeLocked / addClosest): the hold point of the "
                            "stop-inside-reply cases; recognised by a traversal frame on the blocklist's call stack"]
PROPS["C16"] = dict(
    engines=["lookups"],
    rule="lookups engine: Server.Announce / AnnounceTraversal on a fake conn against simulated networks of 3-14 nodes (distinct tokens, no token, "
         "empty token, values, KRPC error, undecodable reply, silent, lying node lists), 7 option combinations, Close / StopTraversing after "
         "0, 1, 2, n/2 replies, slow consumer, non-reading consumer; StopTraversing with deliveries pending then a slow but reading consumer: "
         "every response delivered exactly once; observables: announce_peer datagrams (dest, token, infohash, port, implied), Peers contents, "
         "Finished, goroutines at quiescence",
    trusted=["K-nearest container abstracted by push_incl / push_len (proved for lk_push, true of kn_push)", "Go scheduler; chansync"],
    assumptions=["after StopTraversing without Close() the consumer keeps reading Peers (API contract); Close() releases it"],
)
PROPS["C16"]["extra_props"] = ["E2E"]      # end-to-end composition announce owner <-> server (Props/E2E.v)
PROPS["C12"]["engines"] = ["bep44", "server", "lookups"]
PROPS["C12"]["rule"] += ("; lookups engine: real getput.Get / Put against simulated nodes with real ed25519 keys answering genuine / forged-value / "
                         "forged-seq / wrong-signer / wrong-key / other-salt / bit-flip / no-sig / key-without-seq / reused-signature / immutable "
                         "wrong-value replies")
PROPS["C12"]["assumptions"] = []
PROPS["C12"]["engines"] = ["bep44", "server", "lookups", "flood"]
PROPS["C12"]["rule"] += "; flood engine: 40 rounds of a get delivered just before a put of the next version: every get reply must verify under its key"
PROPS["C20"]["engines"] = ["server", "query"]
PROPS["C20"]["rule"] += "; query engine: QueryRateLimiting policy grid x exact budgets (per-send rated/wait predicate, give-back on failed write)"
PROPS["C01"]["engines"] = ["server", "maint", "flood", "query", "lookups"]
PROPS["C08"]["engines"] = ["server", "flood"]
PROPS["C08"]["rule"] += (" ; flood engine (oracle only): bursts of 24 (60) queries delivered back to back so that replies overlap in time, "
                         "x WaitToReply on/off x timed limiters: every reply attributed by transaction id must go to that query's source with its compact address"
                         " ; lower bound of the send budget (flood_recover.go): after an over-budget burst with refused replies, failed socket writes, refused / blocked / "
                         "pre-cancelled outbound sends and waits cancelled in flight, and a measured quiet time worth two tokens (or, with a zero-rate limiter, while "
                         "burst - datagrams written > 0), each single query must be answered")
PROPS["C20"]["engines"] = ["server", "query", "flood"]
PROPS["C20"]["rule"] += (" ; flood engine: timed limiters (rate 100..1000/s, burst 1..20): writes in every prefix window <= burst + rate x window "
                         "(one-sided, real time), replies dropped without budget (wait off) or delayed (wait on), errors never wait")
PROPS["C07"]["engines"] = ["server", "query"]
PROPS["C19"]["engines"] = ["server", "query", "lookups"]
PROPS["C19"]["rule"] += (" ; query engine: NumTries 0..4 with SetIPBlockList covering the destination inside or after the i-th send, also followed by "
                         "a reply from the now-blocked source: no further datagram may leave")
PROPS["C16"]["rule"] += " ; mixed 4-byte / IPv4-mapped / IPv6 node representations (starting nodes and nodes6 listings)"
# lookups engine, third case family (harness/cmd/h/lookups_block.go); a C19 run executes only these cases of the engine (VERIF_PROP)
PROPS["C19"]["rule"] += (" ; lookups engine, blocklist cases: Bootstrap / Announce / AnnounceTraversal / getput.Get / Put of a Server whose blocklist is "
                         "configured, installed before the lookup, and / or replaced by a bigger one while the lookup runs (single addresses, /24 and /112 "
                         "ranges, IPv4, IPv6, v4-mapped nodes6 entries), on networks whose acceptable nodes list blocked addresses that are closer to the "
                         "target than anything else (also a blocked starting node); the late list is installed before the first reply that reveals what it "
                         "adds, or while Server.TraversalNodeFilter's list lookup for one such candidate is parked (old list's verdict arrives after "
                         "SetIPBlockList returned); after the lookup every covered address pings and is pinged, a list adding a node of the routing "
                         "table is installed, more probes, and a Bootstrap seeded from the routing table runs; line lkbegun (DoQuery calls = NumContacted / "
                         "NumAddrsTried against the model's TIssue count = query datagrams), oracles datagram-to-blocked-address:lookup:*, "
                         "lookup-queried-blocked-address:*, server-query-to-blocked-address:*, blocked-source-had-effect:after-lookup:*, "
                         "query-to-blocked-address-sent:after-lookup:*")
PROPS["C19"]["trusted"] = PROPS["C19"]["trusted"] + [
    "lookups engine: anacrolix/torrent/iplist (the lists are its IPList; the harness asks the same list which addresses it covers); the parked "
    "filter call is recognised by the TraversalNodeFilter frame on the list's call stack; a DoQuery call without a datagram is a refused write "
    "(no write faults, no stop, unlimited send budget in these cases)"]
PROPS["C12"]["rule"] += " ; getput.Get with a non-nil caller seq against nodes ignoring / honouring it"

TRAV_RULE = ("traversal engine: real traversal.Start with a scripted blocking DoQuery; the explorer releases completions, AddNodes and "
             "Stop at quiescent points (hook VerifSnapshot: outstanding == entered-released and cond channel armed / loop exited). "
             "Generators: honest / silent / lying / duplicate-ID / one address under 1..16 IDs repeated across replies and seeds incl. "
             "v4-mapped / node-filter / data-filter graphs; K 0..8(16), Alpha 0..4. Exhaustive completion orders for graphs <= 5 nodes, "
             "Stop / AddNodes at every position of small schedules, seeded random schedules up to 14 (40) nodes. Every line compares "
             "started-address set, outstanding, frontier length, Stalled, Stopped, per-query ctx.Done, AddNodes return, final closest set. "
             "Relational: the runner keeps the set of model states reachable by interleaving the four locked sections of a completion with "
             "the run loop. Overlapping completions (line tdonem): groups of in-flight queries are released back to back while NodeFilter / "
             "DataFilter callbacks are armed to wait for one another (bounded), the runner explores every interleaving of their locked sections "
             "(C02_overlapping_replies_runner_sound), result-set oracles at quiescence. Boundary ids (kind edgeid: 00..00, ff..ff, target, "
             "target^1, ^target on responders / listings / seeds, id-based filter that lets id-less candidates pass; oracle "
             "queried-addr-never-passed-filter). A line is distinct by its full text.")
TRAV_TRUSTED = ["Go scheduler / select fairness and chansync internals (BroadcastCond modelled as a generation counter, SetOnce, LevelTrigger)",
                "K-nearest tie-break (seeded maphash) assumed a strict total order; immutable.SortedMap modelled as a sorted list",
                "quiescence detection relies on the hook reading op.cond.ch by reflection",
                "the model is of the repaired algorithm for D3 (fix: commit in /repo)"]
TRAV_ASSUME = ["node filter is a fixed function during one operation", "maphash of distinct address strings does not collide",
               "C03 liveness conclusions assume weak fairness"]
for _p in ("C02", "C03", "C04"):
    PROPS[_p] = dict(engines=["traversal"], rule=TRAV_RULE, trusted=TRAV_TRUSTED, assumptions=TRAV_ASSUME)
# the result set of a lookup IS the K-nearest container: C02 also runs the container's engine
PROPS["C02"]["engines"] = ["traversal", "metric"]
# the lookup's order relations (int160.Cmp / Distance, CloserThan, the sorted candidate set, the K-nearest container) decide C03 and
# C04 as much as C02: their checks run the metric engine too (its lines are model-compared, its oracle lines belong to C18)
for _p in ("C03", "C04"):
    PROPS[_p]["engines"] = ["traversal", "metric"]
    PROPS[_p]["rule"] = TRAV_RULE + " ; metric engine: int160 / closer-than / sorted-set / K-nearest lines against the model (see C18)"
PROPS["C02"]["rule"] = TRAV_RULE + " ; metric engine: K-nearest push sequences with equal-id / equal-address / equal-distance ties (see C18)"
# lookups engine, fifth case family (harness/cmd/h/lookups_closest.go): the Server-backed lookups' glue between Server.Query results and the
# traversal (QueryResult.TraversalQueryResult, Server.GetPeers, the DoQuery closures of announce.go / bootstrap.go / exts/getput); a C02 / C03 /
# C04 run executes only these cases of the engine (VERIF_PROP; same case numbers as in the other properties' runs)
_CLOSEST_RULE = (" ; lookups engine, result-set cases (lookups_closest.go): real Server.Announce / AnnounceTraversal / Bootstrap / getput.Get / Put and "
                 "traversal.Start wired like Bootstrap (K 1..32, Alpha 1..8) on a fake conn against scripted networks: tokens of every form among the K "
                 "closest responders (empty, one byte, NUL, 200 bytes, binary, digits, none); honest networks of 5-48 nodes answering with the true L = 4..40 "
                 "closest nodes closest first (nodes / nodes6), seeded with the farthest nodes (line lkexact against RunLookupsClosest.rlc_exact = the K "
                 "closest of the network, Props/C02.v C02_lookups_exact_*; line lkclosest: Operation.Closest() against the model's result set); networks "
                 "whose closest nodes are reachable only through responders without token / id (plain, chains, mixed; get mutable / immutable, put, announce, "
                 "bootstrap); lookups ending with queries in flight to slow nodes (Get ending on an immutable value at depth 0..2, StopTraversing / Close, "
                 "cancelled ctx of Get / Put; caller context alive); a responder listing one address under six ids, itself, and addresses the node filter "
                 "rejects; every case is an ordinary lkbegin .. lkend case (issues, replies, announce_peer / put destinations and tokens, Peers, result "
                 "replayed by the model); oracles C02 responder-closer-than-member-left-out:* / result-larger-than-k:* / member-never-answered:* / "
                 "k-closest-of-honest-network-not-in-result:*, C03 learned-contact-never-queried:*, C04 query-in-flight-survives-end-of-lookup:* / "
                 "address-queried-twice:* / query-to-address-rejected-by-node-filter:*")
_CLOSEST_TRUSTED = ["lookups engine: the scripted network is the only source of replies; a contact counts as learned when a reply naming it was handed to "
                    "the serve loop for a query of the running lookup; the result set of Announce / Put is read off the announce_peer / put datagrams, "
                    "Bootstrap's (not exposed) is taken to be the K closest of the nodes that answered; 'cancelled' is observed as Stats().OutstandingTransactions "
                    "back to 0 within 3 s while the queries' resend timers are one hour"]
for _p in ("C02", "C03", "C04"):
    PROPS[_p]["engines"] = PROPS[_p]["engines"] + ["lookups"]
    PROPS[_p]["rule"] += _CLOSEST_RULE
    PROPS[_p]["trusted"] = PROPS[_p]["trusted"] + _CLOSEST_TRUSTED

# lookups engine, sixth case family (harness/cmd/h/lookups_r6.go)
_R6_ERR = (" ; lookups engine, error replies (lookups_r6.go): nodes answering get / get_peers / find_node with KRPC errors 201..205, 301, 0, 999, -1, "
           "string-form / empty-message / malformed e values, as starting and as learned nodes, for Get (mutable, immutable absent), Put, Announce, "
           "Bootstrap and traversal.Start; query datagrams per address counted whatever their method (C04 address-queried-twice:*)")
_R6_FLIP = (" ; lookups engine, socket reporting every inbound source in the other byte form (4-byte <-> IPv4-mapped) than the one the query was sent to: "
            "honest networks under Bootstrap (K 16) and traversal.Start (K 8) with lkexact, Announce, Get, Put; starting nodes handed over in either "
            "form (oracle C02 answered-node-not-counted:source-in-other-byte-form:*)")
for _p in ("C02", "C03", "C04"):
    PROPS[_p]["rule"] += _R6_ERR + _R6_FLIP
PROPS["C12"]["rule"] += (" ; genuine signed versions with sequence numbers at the ends of int64 (MinInt64, -(2^62+10), -1, 0, 2^62+10, MaxInt64): every pair "
                         "stale-first and fresh-first, all at once in asc / desc / freshest-last / seeded order, busy consumer, Put's autoSeq, extreme seq argument")
PROPS["C14"]["rule"] += (" ; lookups engine: an immutable item held by 2..8 nodes of one round whose replies are all in hand when Get takes the first copy; every Get / Put "
                         "of the main runner: no goroutine inside traversal / getput frames 5 s after the call returned while the caller's context is alive and "
                         "the server open (oracle goroutine-leak:<api>:after-return-caller-context-alive)" + _R6_FLIP)
PROPS["C16"]["rule"] += _R6_FLIP

# engine `api` (srv_api*.go, RunApi.v / ApiProofs.v): the exported API used from several goroutines at once
API_TRUSTED = ["api engine: Go scheduler / sync.RWMutex; overlap is provoked (callers queued behind a packet handler parked in the OnQuery "
               "hook, spin barriers, a gate in front of the bundled peer store), the checks hold under every interleaving: tables are "
               "compared at rest (two equal snapshots around the API calls), candidates are 'certainly offered' only once the offering "
               "call has returned, stores after the per-announce goroutines have ended (losses are re-asked after 0.3 s and 1.5 s)"]
PROPS["C05"]["engines"] = ["server", "api"]
PROPS["C05"]["rule"] += (" ; api engine: overlapping AddNode / AddNodesFromFile / inbound queries / responses to the node's own pings / readers "
                         "(Nodes, NumNodes, Stats, WriteStatus) on one Server, x {same node from 2, 4, 8 callers; fresh nodes, one address under two ids, "
                         "one id at two addresses, 4-byte and v4-mapped spelling, own id, zero id (AddNode pings), read-only senders} x {queued behind a "
                         "parked handler; spin barrier}; entries made bad by ping time-outs (hook and a real TableMaintainer with an 8 ms resend delay), "
                         "aged, made good; after every round the table at rest is accepted or rejected by RunApi.ra_accept against the candidates "
                         "offered (`atable` lines) and the oracles state duplicate (id, address), bucket = shared prefix, capacity, own / zero id, "
                         "address index, NumNodes = Stats().Nodes = entries, GoodNodes, Nodes() = non-bad entries, WriteStatus; a line is distinct by "
                         "its candidates and table")
PROPS["C05"]["trusted"] = PROPS["C05"]["trusted"] + API_TRUSTED
PROPS["C11"]["engines"] = ["server", "api"]
PROPS["C11"]["rule"] += (" ; api engine: bursts of first announces for fresh infohashes: 2-9 concurrent InMemory.AddPeer calls per infohash (4-byte / IPv6 / "
                         "v4-mapped hosts, several infohashes at once, zero-value stores, one host twice, a second burst replacing endpoints, a reader "
                         "alongside) and accepted announce_peer datagrams (implied_port on/off) to a Server whose store is the bundled InMemory, plain "
                         "(datagrams queued at the socket) or behind a gate releasing the per-announce goroutines together; at rest GetPeers (`astore` "
                         "lines) and get_peers from IPv4 / IPv6 requesters with want -, n4+n6, n6 (`apeers` lines) equal the fold of add_peer over the "
                         "accepted announces (+ BEP 32 filter); oracles: every accepted announcer returned, nothing unannounced, one listing per host, token")
PROPS["C11"]["rule"] += (" ; api engine, floods (srv_api_flood.go): 40-1500 (thorough 3000) hosts with tokens announce back to back through a deep socket "
                         "queue to 1-3 fresh infohashes while the store is plain / under GOMAXPROCS(1) / contended by GetPeers+GetAll readers / slow (AddPeer "
                         "sleeps) / held until every announce is acknowledged (sometimes 100-250 ms longer) / the Server is closed right after the acks and a "
                         "sibling Server on the same store is asked; in half of the rounds a second flood re-announces hosts with new ports once the store is "
                         "at rest; get_peers inside the flood; at rest every acknowledged announcer must be listed with its last port (`apeers` / `astore` lines "
                         "over flood 1 ++ flood 2, oracles accepted-announce-missing-from-get_peers:announce-flood-*, acknowledged-announce-lost-when-server-closed:*)")
PROPS["C11"]["trusted"] = PROPS["C11"]["trusted"] + API_TRUSTED
PROPS["C16"]["rule"] += (" ; write faults (lookups_fault.go): WriteTo failing per destination and query kind (a candidate / starting node / every IPv6 "
                         "address / listed ghosts unwritable, only the announce_peer after a served get_peers, short writes, the i-th write of the run, "
                         "every write), alone and with StopTraversing / Close / slow consumer / repetitions: a failed query write is an issued query "
                         "that never gets a response, a failed announce_peer write is reported with its destination and token; the lookup must end "
                         "within the engine's bound with Peers closed, Finished fired, no transaction or goroutine left")
PROPS["C12"]["rule"] += (" ; busy consumer (lookups_fault.go): getput.Get under a caller context whose logger handler blocks (released only when the "
                         "network is idle) or sleeps, while the remaining in-flight gets are answered stale-first / fresh-first / freshest-last, also "
                         "with a ctx cancel meanwhile and for an immutable target: the result is the highest verified seq served")
PROPS["C14"]["rule"] += " ; lookups engine with socket write faults for bootstrap / announce / get / put (see C16)"
# lookups engine, send-limiter / announce-answer families (harness/cmd/h/lookups_limiter.go)
_LIM_RULE = (" ; lookups engine behind a SendLimiter that limits (lookups_limiter.go): rate.Every(1 h | 10 min) burst 0..3 (a send waits, only a cancellation "
             "ends the wait), rate 0 burst 0..3 (a send beyond the budget fails), rate.Every(1..4 ms) (sends trickle) x Announce / AnnounceTraversal / "
             "getput.Get / Put / Bootstrap with >= 3 starting nodes x Close / StopTraversing (limiter opened just before; or followed by Close once the "
             "announce_peer queries queue in turn) / ctx / an immutable value ending the Get, the stop taken only with a query SEEN queued behind the limiter "
             "(registered transaction, no datagram): the lookup ends within the engine's bound, Peers closed, Finished, no transaction or goroutine left; "
             "nodes answering announce_peer / put with KRPC errors 201-205 / 301, string / undecodable / missing e, silence, another port / IP / t, twice, "
             "error then response, a query; get_peers errors 201-204; a fresh token with every further query: each closest node gets ONE announce_peer with "
             "the token of the traversal's own query, checked per datagram as it leaves (line lksent against the finished model's sends, "
             "RunLookupsSends.rls_take; no traversal query after the first announce_peer)")
PROPS["C16"]["rule"] += _LIM_RULE
PROPS["C14"]["rule"] += " ; lookups engine behind a SendLimiter that limits and with nodes refusing announce_peer / put (see C16)"

# A dead or wedged node: the engines report it once, as a C01 oracle line (process-died:*, serve-loop-stuck*,
# serve-loop-blocked-*, api-does-not-return*, probe-ping-not-answered*). On such a node nothing that the liveness clauses of
# C08 (queries are answered), C14 (queries and lookups end), C16 (announces finish) promise happens any more, so the checks
# of those properties count these lines as violations of their own (key prefix node-dead-or-wedged:).
NODE_DOWN_VIOLATES = {"C08", "C14", "C16"}
NODE_DOWN_KEYS = ("process-died", "serve-loop-stuck", "serve-loop-blocked", "api-does-not-return", "probe-ping-not-answered")

# engine `defaults` (srv_defaults.go, oracle only): the budget configured through the exported default limiter
PROPS["C20"]["engines"] = PROPS["C20"]["engines"] + ["defaults"]
PROPS["C20"]["rule"] += (" ; defaults engine: dht.DefaultSendLimiter reassigned / adjusted in place before servers are built with "
                         "NewDefaultServerConfig() or a config without a limiter: 20 pings, at most the configured budget answered")

# C16: an announce is a sequence of Server.Query calls; the schedules that wedge a node around one query (reply in the
# abandonment window, duplicated replies, ...) are those of the query engine, whose node-down lines count for C16 (see above)
PROPS["C16"]["engines"] = PROPS["C16"]["engines"] + ["query"]
PROPS["C16"]["rule"] += " ; query engine: single-query schedules (see C14); a node found dead or wedged there cannot finish an announce"

# bep44 engine, items produced and reused through the exported API (harness/cmd/h/bep44_api.go)
_B44API_RULE = (" ; bep44 engine, application-made items (bep44_api.go): the *Item of a put is produced by a route - struct literal / NewItem (private key or "
                "nil) / NewItem + one or two Modify / Item.ToPut + Put.ToItem / Put literal + Put.Sign + Put.ToItem, starting from a genuine item that "
                "differs from the one that is put in V (other value, same-length value, oversized value), Salt, Seq, K, Cas or several of them; used "
                "(Check, Item.Target, Put.Target, CheckIncoming, a put into another wrapper and store) before and/or after the exported fields are "
                "assigned (any order; salt and list / dictionary values also in place), on the item or on a struct copy taken at any of three points; "
                "the same *Item changed and put again (a struct copy where the store keeps the pointer), the item handed out by Wrapper.Get changed "
                "and put back, Modify with the right / a wrong key, signed again by the caller. Check / Target / CheckIncoming lines, Wrapper.Put "
                "histories over bep44.Memory (also with store faults) and the four copying / rebuilding stores, concurrent puts, and a real Server "
                "sharing the store (the application's own Wrapper, Server.Put of Item.ToPut(), wire gets): the printed line carries the exported "
                "fields at the time of the call, so the model and the reference verifier decide as for a literal; what Wrapper.Get hands out and "
                "what a get reply carries must verify under the requested target (oracles forged-item-served, oversized-served:*, wrong-target:served)")
PROPS["C12"]["rule"] += _B44API_RULE
PROPS["C13"]["rule"] += " ; bep44 engine: the same histories with items produced and reused through the exported API (see C12, bep44_api.go)"

# query engine, further families (harness/cmd/h/query_more.go)
_Q_MORE = (" ; query engine (query_more.go): 3..6 (thorough ..16) copies of the genuine reply while the sender is held inside WriteTo / "
           "QueryResendDelay (the query has taken the first copy and is joining its sender), also paused, straddling the write's and the query's "
           "return, in the abandonment window and after reply-then-cancel; destination address forms (4-byte / 16-byte IPv4, IPv6, link-local with "
           "named / numeric / no zone) x datagrams echoing the id from near-miss sources (other port / IP / zone, no zone, IPv6 embeddings of the IPv4 "
           "address) or from the destination with a near-miss id (script action stray = no event of the model), before / without / after the genuine "
           "reply, which may come in the other spelling of the same IPv4 address; one query held pending while 65536+64 short-lived queries to the same "
           "address run on the same server (id wrap-around); every query datagram's id = canonical uvarint of a counter value new to the process")
PROPS["C07"]["rule"] += _Q_MORE + " (oracles query-completed-by-non-matching-datagram:*, duplicate-reply-affected-query:*, transaction-id-*)"
PROPS["C14"]["rule"] += _Q_MORE + " (oracles query-did-not-return*, query-panicked:id-wraparound, goroutine-leak:query, transaction-leak, query-process-died:*)"

# api engine, hand-built nodes files (harness/cmd/h/srv_api_nodesfile.go; model RunApi.ra_accept_s, lemmas ApiProofs Part 2b)
PROPS["C05"]["rule"] += (" ; api engine, nodes files no Server wrote (kind nodesfile): lists written with WriteNodesToFile and loaded with "
                         "AddNodesFromFile by 1-3 callers at once (spin barrier / queued behind a parked handler) next to AddNode calls of the same "
                         "records, on a node without the security extension, on an enforcing node (NoSecurity=false) and on a node with a blocklist: "
                         "records with the all-zero id (silent address, address answering the ping with an id, blocked address), the own id, ids valid / "
                         "not valid for their public address, local-network addresses, one record several times in a file and across files, 4-byte and "
                         "IPv4-mapped spelling, IPv6, one address under two ids, one id at two addresses, 10-12 records for one bucket, blocked "
                         "addresses, port 0, records of earlier rounds, a file cut inside its last record, an empty file; what the node exports "
                         "goes through a file into a second node with another id / the other security setting; after every round the table at rest is "
                         "judged by the checkTable oracles and the line `atables` (RunApi.ra_accept_s = ra_accept, plus for an enforcing node: no entry "
                         "whose id Security.node_id_secure rejects for its address, no entry owed to such a candidate)")
# server engine, oracle-only: the caller's ServerConfig value changed after NewServer returned (harness/cmd/h/srv_cfgreuse.go)
_CFG_REUSE = (" ; server engine, config value reused (srv_cfgreuse.go, oracle only): after NewServer(cfg) every field of *cfg (or a random subset; "
              "NoSecurity, Passive, OnQuery, OnAnnouncePeer, PeerStore, WaitToReply, SendLimiter, IPBlocklist, DefaultWant, NodeId, PublicIP, "
              "QueryResendDelay, StartingNodes, Store, Exp, Logger) is changed to the opposite / a hostile value, with and without building a sibling "
              "node from the changed value, over 12 fixed + random build configurations (security on/off x passive x observing / vetoing query hook x "
              "announce hook x peer store x WaitToReply x unlimited / exact-budget / 150 ms limiter x blocklist); the first node must behave as built: ")
PROPS["C06"]["rule"] += _CFG_REUSE + ("senders with an id not valid for their public address are turned away by an enforcing node and admitted by a node that "
                                      "does not enforce, senders with a valid id are admitted (oracles sender-with-invalid-id-admitted:enforcing-node-after-config-reuse, "
                                      "eligible-sender-not-admitted:after-config-reuse)")
PROPS["C19"]["rule"] += _CFG_REUSE + "a passive node stays silent and its queries carry ro=1, the blocklist it was built with stays in force (oracles *:after-config-reuse)"
PROPS["C08"]["rule"] += _CFG_REUSE + ("a node that is not passive keeps answering (a vetoing hook, a limiter without budget, a blocklist covering everything put into the "
                                      "value later do not silence it), consults its own hook, its own hook's veto holds, replies carry its own id (oracles *:after-config-reuse)")
PROPS["C11"]["rule"] += _CFG_REUSE + "announces accepted before and after the change come back from get_peers with a token, the node's own announce hook is called"
PROPS["C20"]["rule"] += _CFG_REUSE + "an exact-budget limiter stays in force (3 replies to 6 pings), a node configured to wait for budget sends every reply"

# flood engine, content of overlapping replies (harness/cmd/h/flood_writes.go); a C10 / C11 run executes only its own family of the engine (VERIF_PROP)
PROPS["C10"]["engines"] = ["server", "flood"]
PROPS["C10"]["rule"] += (" ; flood engine, kind tokens (oracle only): 48 (thorough 160) hosts with pairwise distinct IPs (4-byte / IPv6 / v4-mapped, every eighth IP from two "
                         "ports) ask for a token at the same time (get_peers / get, other queries in between) x {peer store, peer store + announce hook, hook only, neither} x "
                         "WaitToReply x {datagrams handed over back to back; whole burst queued in the socket; the same under GOMAXPROCS(1); 6 nodes in one process "
                         "flooded at once}; every host then writes (announce_peer with port / implied_port, immutable put) from its own IP (same / other port, other "
                         "spelling of an IPv4 address) with the token ITS reply carried: acknowledged and effective (peer-store call, callback, item read back) - "
                         "fresh-token-from-reply-not-honoured:*, write-with-fresh-token-acknowledged-without-effect:*; the token of host A presented from the IP of its "
                         "neighbours in the delivery order / of a random host, and to another node of the process: no reply, no effect - "
                         "token-sent-to-one-ip-accepted-from-another:*, token-of-another-node-accepted:*; same-token-delivered-to-two-ips:*")
PROPS["C10"]["trusted"] = PROPS["C10"]["trusted"] + [
    "flood engine: Go scheduler; a write counts as ignored when neither its acknowledgement nor its effect is there although a later datagram of the same "
    "socket queue was answered and nothing has arrived for 5 s; accepted = a datagram or an effect that is really there"]
PROPS["C11"]["engines"] = ["server", "api", "flood"]
PROPS["C11"]["rule"] += (" ; flood engine, kind peers (oracle only): 32 infohashes with 1-40 peers (4-byte IPv4 and IPv6) announced over the wire (token, port / implied_port), "
                         "every endpoint derived from its infohash's index; at rest, batches of 256-1536 get_peers (thorough x2, 6x the rounds) from 40 IPv4 / IPv6 / v4-mapped "
                         "requesters with want absent / n4 / n6 / both, for announced and unknown infohashes (find_node in between), answered at once x {back to back; "
                         "queued; GOMAXPROCS(1); 6 nodes on one store flooded in parallel, WaitToReply on / off}: every reply, attributed by (t, destination): values are "
                         "endpoints announced for THAT infohash (value-never-announced-for-this-infohash:*, says whose endpoint it is), every acknowledged peer of a wanted "
                         "family once (announced-peer-missing-from-values:*, endpoint-listed-twice:*), 6-byte entries only for IPv4 wanters, 18-byte only for IPv6 wanters, "
                         "entry length 6 / 18, token present")
PROPS["C08"]["rule"] += (" ; flood engine, one small case of the kinds tokens / peers (see C10 / C11): ip of every get_peers reply = its requester "
                         "(response-ip-not-requester-compact-address:flood-peers), every query answered, accepted writes acknowledged")

# maint engine, pass cases (harness/cmd/h/maint_pass.go; model coq/model/Maint.v + RunMaint.v, lemmas coq/proofs/MaintProofs.v): the table maintainer's
# control flow is inside the model; a C05 / C06 / C09 / C14 run executes only the pass cases of the engine (VERIF_PROP)
_MAINT_PASS = (" ; maint engine, pass cases (model-compared line mpass): ONE pass of the real Server.TableMaintainer over a table prepared through AddNode / answered "
               "Ping / 20 virtual minutes / the failed-ping hook (good, questionable never heard from, questionable with a history, bad; buckets 0..d-1 full, bucket d "
               "with a free slot / a silent questionable entry / a bad entry / a mix, further entries deeper; a stale second entry at the address of a good contact whose "
               "host is silent or answers under its new id; up to 7 contacts answering find_node with an empty list; the application's own Bootstrap first), on a network "
               "answering ping for a chosen set of contacts; observed from the start of TableMaintainer until its goroutine sits in the pause between passes: the datagrams grouped into "
               "bootstrap / ping round of bucket i / refresh of bucket i (set of destinations each) and the table afterwards (class and failed flag per entry), against "
               "RunMaint.rm_boot / rm_pass = Maint.pass; the snapshot's own good / questionable / bad classification is checked against the model's first")
PROPS["C06"]["engines"] = PROPS["C06"]["engines"] + ["maint"]
PROPS["C06"]["rule"] += _MAINT_PASS + " (oracles good-entry-pinged-as-questionable, good-entry-marked-bad-by-table-maintenance, good-entry-dropped-by-table-maintenance)"
PROPS["C14"]["engines"] = PROPS["C14"]["engines"] + ["maint"]
PROPS["C14"]["rule"] += _MAINT_PASS + " (oracles maintainer-pass-does-not-end, maintainer-bootstrap-query-after-the-pass-began)"
PROPS["C05"]["engines"] = PROPS["C05"]["engines"] + ["maint"]
PROPS["C05"]["rule"] += _MAINT_PASS + " (oracles entry-moved-or-removed-by-table-maintenance, entry-added-by-table-maintenance-on-a-network-listing-no-nodes, node-count-disagrees-with-table:after-maintenance)"
PROPS["C09"]["engines"] = PROPS["C09"]["engines"] + ["maint"]
PROPS["C09"]["rule"] += _MAINT_PASS + (" ; pass cases with a stale entry at the address of a good contact whose host answers pings under its new id: after the pass a find_node "
                                       "for the stale id must not list it (oracle listed-contact-never-answered-under-that-id:after-maintenance)")
PROPS["C01"]["rule"] += _MAINT_PASS
_MAINT_TRUSTED = ("maint pass cases: the end of a pass is read off the maintainer goroutine's stack (select inside TableMaintainer); a sender whose datagram will be "
                  "answered is given an 8 s resend delay through ServerConfig.QueryResendDelay (goroutine id of the writer), all others 12 ms; the network's behaviour "
                  "(who answers ping / find_node, under which id) is the harness's script and the model's parameters answers / refresh; the one-minute pause and the "
                  "30-minute bootstrap period are not waited for")
for _p in ("C01", "C05", "C06", "C09", "C14"):
    PROPS[_p]["trusted"] = list(PROPS[_p].get("trusted", [])) + [_MAINT_TRUSTED]
PROPS["C06"]["assumptions"] = list(PROPS["C06"].get("assumptions", [])) + [
    "C06_maint_pass_keeps_good: the refresh traversals themselves keep good entries (good_preserving refresh) - the packet path's statement C06_good_kept"]
PROPS["C05"]["assumptions"] = list(PROPS["C05"].get("assumptions", [])) + [
    "C05_maint_pass_keeps_structure: the refresh traversals keep ids, addresses and slots of the entries (shape_preserving refresh) - the packet path's invariant C05_inv"]
