# Per-property configuration of bin/check.
PROPS = {
    "C18": dict(
        engines=["metric"],
        rule="metric engine: structured 160-bit ids (all 160 shared-prefix lengths, single-bit flips, extremes, random) through "
             "every int160 primitive, bucket index and random-id-in-bucket for all 160 buckets, CloserThan over all ordered pairs/"
             "triples of a 24-element pool (id-less and equal-distance ties included), sorted-set op sequences and K-nearest push "
             "sequences; a case is distinct by its full input text; every case is non-trivial (it exercises one modelled operation)",
        trusted=["tie-break order of the K-nearest container (seeded maphash) assumed to be a strict total order on addresses",
                 "math/big BitLen, net/netip Addr.Compare, benbjohnson/immutable sorted map: modelled, compared by the harness"],
        assumptions=["maphash of distinct address strings does not collide"],
    ),
}
