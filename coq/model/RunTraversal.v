(* RunTraversal.v — glue evaluated by the model runner for the `traversal` harness engine.
   The harness acts at quiescent points of the real operation (all released queries finished, the
   run loop asleep on the current generation). Each harness action stands for a set of label
   sequences of the LTS of Traversal.v:

     tadd ns      LAddNodes ns ; (LWake ; LRun)?                                  deterministic
     tstop        LStop ; LWake ; LRun (-> Exited) ; LCancel q for every q in flight ;
                  LStopWait when nothing is in flight                              deterministic
     tdone a r    LDoQueryReturn q r ; LResp q ; LAddN q ; LAddN6 q ; LDone q  with the run loop
                  (LWake ; LRun) free to run before each of the four locked sections whenever it
                  can, and certainly after the last one: up to 16 outcomes (relational)
     observation  when the stall is offered the harness receives it: LTakeStall ; LRun

   No proofs here. D := N (data are numbers in the line protocol), tie-break = address order
   (the final closest set is accepted relationally, RunMetric.accept_knear). *)
From Dht Require Import Base Int160 Order RunMetric Traversal.

Record tcfg := mkCfg {
  c_target : N;
  c_k : nat;             (* as given to Start, 0 = default *)
  c_alpha : nat;
  c_bad_addr : list addrport;
  c_bad_id : list N;
  c_bad_data : list N }.

Definition rt_node_filter (c : tcfg) (a : ami) : bool :=
  negb (ap_mem (ami_addr a) (c_bad_addr c)) &&
  match ami_id a with
  | None => true
  | Some i => negb (existsb (N.eqb i) (c_bad_id c))
  end.
Definition rt_data_filter (c : tcfg) (d : N) : bool := negb (existsb (N.eqb d) (c_bad_data c)).

Definition rt_state := state N.
Definition rt_label := label N.
Definition rt_response := response N.

Definition rt_init : rt_state := init.

(* uniquely prefixed constructors / accessors for the driver (flat extraction renames clashing
   record fields and constructors, see CONVENTIONS.md) *)
Definition rt_mk_cfg (target : N) (k alpha : nat) (ba : list addrport) (bi bd : list N) : tcfg :=
  mkCfg target k alpha ba bi bd.
Definition rt_mk_resp (from : option (ninfo * N)) (nodes nodes6 : list ninfo) : rt_response :=
  mkResp from nodes nodes6.
Definition rt_started (s : rt_state) : list addrport := map ami_addr (st_started s).
Definition rt_out (s : rt_state) : nat := st_out s.
Definition rt_unq_len (s : rt_state) : nat := length (st_unq s).
Definition rt_stopping (s : rt_state) : bool := st_stopping s.
Definition rt_stopped (s : rt_state) : bool := st_stopped s.
(* queries still inside DoQuery: address and whether their ctx is cancelled *)
Definition rt_ctx (s : rt_state) : list (addrport * bool) :=
  map (fun q => (ami_addr (q_cand q), q_cancelled q))
      (filter (fun q => qpc_eqb (q_pc q) QWait) (st_inflight s)).
Definition rt_closest (s : rt_state) : list kel := st_closest s.
(* st_offered and st_responded are write-only histories (read by the theorems, never by a step or
   an observable): the runner forgets them so that candidate states that differ only in the order
   in which concurrent sections appended to them coincide (proofs/TraversalConc.v, erase_exec) *)
Definition rt_erase (s : rt_state) : rt_state := set_responded (set_offered s []) [].

Section Run.
  Variable c : tcfg.
  (* pf = true: the repaired algorithm; false: the pinned one (only used to replay findings) *)
  Variable pf : bool.

  Definition rt_enabled (s : rt_state) (l : rt_label) : bool := enabled N s l.
  Definition rt_step (s : rt_state) (l : rt_label) : rt_state :=
    step_en N (rt_node_filter c) (rt_data_filter c) ap_cmp pf (c_target c)
            (eff_k (c_k c)) (eff_alpha (c_alpha c)) s l.

  Definition loop_can_run (s : rt_state) : bool := rt_enabled s LRun || rt_enabled s LWake.
  Definition loop_run (s : rt_state) : rt_state :=
    if rt_enabled s LRun then rt_step s LRun
    else if rt_enabled s LWake then rt_step (rt_step s LWake) LRun
    else s.

  (* the loop runs until it sleeps on the current generation (or has exited); the watchers cancel;
     the Stop goroutine finishes when nothing is in flight *)
  Definition quiesce (s : rt_state) : rt_state :=
    let s1 := loop_run (loop_run (loop_run s)) in
    let s2 := fold_left (fun s q => rt_step s (LCancel (q_id q))) (st_inflight s1) s1 in
    rt_step s2 LStopWait.

  Definition rt_add (s : rt_state) (ns : list ami) : nat * rt_state :=
    (add_nodes_ret N (rt_node_filter c) (c_target c) s ns, quiesce (rt_step s (LAddNodes ns))).

  Definition rt_stop (s : rt_state) : rt_state := quiesce (rt_step s LStop).

  Fixpoint interleave (ls : list rt_label) (s : rt_state) : list rt_state :=
    match ls with
    | [] => [quiesce s]
    | l :: r =>
        interleave r (rt_step s l) ++
        (if loop_can_run s then interleave r (rt_step (loop_run s) l) else [])
    end.

  Definition find_by_addr (a : addrport) (l : list (query N)) : option (query N) :=
    find (fun q => ap_eqb (ami_addr (q_cand q)) a && qpc_eqb (q_pc q) QWait) l.

  (* every quiescent state the real operation may reach when DoQuery for address a returns r *)
  Definition rt_complete (s : rt_state) (a : addrport) (r : rt_response) : list rt_state :=
    match find_by_addr a (st_inflight s) with
    | None => []
    | Some q =>
        let i := q_id q in
        interleave [LDoQueryReturn i r; LResp i; LAddN i; LAddN6 i; LDone i] s
    end.

  (* the harness received the stalled signal: the loop wakes and runs again *)
  Definition rt_take_stall (s : rt_state) : rt_state :=
    match st_loop s with
    | Waiting _ true => loop_run (rt_step s LTakeStall)
    | _ => s
    end.

  Definition rt_stalled (s : rt_state) : bool := stalled_ready s.

  (* ---- several completions released together (harness line `tdonem`) ----
     DoQuery returns in n in-flight queries at (about) the same time; their locked sections
     (LResp, LAddN, LAddN6, LDone of each) interleave with each other and with the run loop in any
     order.  The runner explores the successor relation [rt_conc_succ] to a fixpoint (with
     deduplication, which a list-valued Gallina function cannot do cheaply) and quiesces every
     state in which all n queries are done.  LDoQueryReturn only writes the query's own record, so
     it is taken first for all of them. *)
  Fixpoint rt_conc_begin (s : rt_state) (rs : list (addrport * rt_response))
    : option (list nat * rt_state) :=
    match rs with
    | [] => Some ([], s)
    | (a, r) :: rest =>
        match find_by_addr a (st_inflight s) with
        | None => None
        | Some q =>
            match rt_conc_begin (rt_step s (LDoQueryReturn (q_id q) r)) rest with
            | Some (ids, s') => Some (q_id q :: ids, s')
            | None => None
            end
        end
    end.

  (* the next locked section of query i once DoQuery has returned *)
  Definition conc_next (s : rt_state) (i : nat) : option rt_label :=
    match find_q i (st_inflight s) with
    | Some q =>
        match q_pc q with
        | QWait => None
        | QResp => Some (LResp i)
        | QAddN => Some (LAddN i)
        | QAddN6 => Some (LAddN6 i)
        | QDone => Some (LDone i)
        end
    | None => None
    end.

  (* one more critical section: the run loop's (if it can run) or the next one of a released query *)
  Definition rt_conc_succ (s : rt_state) (ids : list nat) : list rt_state :=
    (if loop_can_run s then [loop_run s] else []) ++
    flat_map (fun i => match conc_next s i with Some l => [rt_step s l] | None => [] end) ids.

  (* every released query has run its deferred LDone *)
  Definition rt_conc_finished (s : rt_state) (ids : list nat) : bool :=
    forallb (fun i => match find_q i (st_inflight s) with Some _ => false | None => true end) ids.

  Definition rt_quiesce (s : rt_state) : rt_state := quiesce s.

  Definition rt_accept_closest (s : rt_state) (obs : list kel) : bool :=
    accept_knear (c_target c) (eff_k (c_k c)) (st_pushed s) obs
    && Nat.eqb (length obs) (length (st_closest s)).
End Run.
