(* RunServer.v — instantiation of the server model with the concrete SHA-1, BEP 42 check and
   BEP 44 store wrapper, as evaluated by the model runner for the `server` engine. No proofs. *)
From Dht Require Import Base Int160 Msg Sha1 Security Server.
From Dht Require Bep44.
From DhtGen Require Import Params.

Definition id_secure_impl (id : N) (i : bytes) : bool :=
  match node_id_secure (ofN 20 id) i with Some b => b | None => false end.

Definition ascii_bytes (s : list byte) : bytes := s.

Definition bep44_err_text (c : Z) : bytes :=
  if Z.eqb c bep44_ErrValueFieldTooBig then
    ["m";"e";"s";"s";"a";"g";"e";" ";"(";"v";" ";"f";"i";"e";"l";"d";")";" ";"t";"o";"o";" ";"b";"i";"g"]%byte
  else if Z.eqb c bep44_ErrInvalidSignature then
    ["i";"n";"v";"a";"l";"i";"d";" ";"s";"i";"g";"n";"a";"t";"u";"r";"e"]%byte
  else if Z.eqb c bep44_ErrSaltFieldTooBig then
    ["s";"a";"l";"t";" ";"(";"s";"a";"l";"t";" ";"f";"i";"e";"l";"d";")";" ";"t";"o";"o";" ";"b";"i";"g"]%byte
  else if Z.eqb c bep44_ErrCasHashMismatched then
    ["t";"h";"e";" ";"C";"A";"S";" ";"h";"a";"s";"h";" ";"m";"i";"s";"m";"a";"t";"c";"h";"e";"d";",";" ";"r";"e";"-";"r";"e";"a";"d";" ";"v";"a";"l";"u";"e";" ";"a";"n";"d";" ";"t";"r";"y";" ";"a";"g";"a";"i";"n"]%byte
  else if Z.eqb c bep44_ErrSequenceNumberLessThanCurrent then
    ["s";"e";"q";"u";"e";"n";"c";"e";" ";"n";"u";"m";"b";"e";"r";" ";"l";"e";"s";"s";" ";"t";"h";"a";"n";" ";"c";"u";"r";"r";"e";"n";"t"]%byte
  else [].

Section Run.
  Variable edv : bytes -> bytes -> bytes -> bool.
  Variable exp : Z.
  (* harness option: the underlying store's Put fails (a non-KRPC error) for items with seq mod 7 = 3 *)
  Variable store_fail : bool.

  Definition store := Bep44.store.

  Definition to_b44 (it : witem) (bv : bytes) : Bep44.item :=
    Bep44.mkItem bv (it_k it) (it_salt it) (it_sig it) (it_cas it) (it_seq it) 0.

  Definition of_b44 (i : Bep44.item) : witem :=
    mkItem (Some (Bep44.it_bv i)) (Bep44.it_k i) (Bep44.it_salt i) (Bep44.it_sig i) (Bep44.it_cas i) (Bep44.it_seq i).

  (* bencode.Marshal(nil interface) succeeds with the EMPTY byte string (probed on the pinned bencode
     library): a put without `v` is checked, signed and stored like any other item, its value being the
     empty string (an immutable one lives under sha1 of the empty string).  A get reply for it carries
     `seq` (and k / sig) but no `v`, because the reply's `v` field is omitempty. *)
  Definition put_bv (it : witem) : bytes := match it_bv it with Some bv => bv | None => [] end.

  Definition w_put_impl (st : store) (it : witem) (now : Z) : store * put_result :=
    let bv := put_bv it in
    let '(r, st1) := Bep44.wrapper_put sha1 edv Bep44.Repaired now (to_b44 it bv) st in
    let failing := store_fail && Z.eqb (it_seq it mod 7) 3 in
    let r := match r with Bep44.POk => if failing then Bep44.POther else r | _ => r end in
    let st' := if failing then st else st1 in
    (st', match r with
          | Bep44.POk => PutOk
          | Bep44.PErr c => PutKrpcErr (mkErr c (bep44_err_text c))
          | Bep44.POther => PutOtherErr
          end).

  Definition w_get_impl (st : store) (t : bytes) (now : Z) : store * get_result :=
    let '(o, st') := Bep44.wrapper_get exp now t st in
    (st', match o with None => GetNotFound | Some i => GetItem (of_b44 i) end).

  Definition srv_step (cfg : config) (s : sstate store) (e : event) (ch : choice) : step_result store :=
    step store w_put_impl w_get_impl sha1 id_secure_impl cfg s e ch.

  Definition srv_init (now : Z) (bl : list (N * N)) (budget : option N) : sstate store :=
    init_state store [] now bl budget.

  Definition srv_good (cfg : config) (s : sstate store) (n : node) : bool := node_good id_secure_impl cfg (s_now store s) n.
  Definition srv_bad (cfg : config) (n : node) : bool := node_bad id_secure_impl cfg n.
  Definition srv_num_good (cfg : config) (s : sstate store) : nat := num_good store id_secure_impl cfg s.
  Definition srv_exported (cfg : config) (s : sstate store) : list node_info := exported_nodes store id_secure_impl cfg s.
  Definition srv_trav_filter (cfg : config) (s : sstate store) := traversal_node_filter store id_secure_impl cfg s.
End Run.
