(* RunMetric.v — executable glue between the `metric` harness engine and the models
   (what the model runner evaluates for each harness line). No proofs. *)
From Dht Require Import Base Int160 Order.

(* netip.AddrFromSlice: 4 bytes -> IPv4, 16 bytes -> IPv6 (incl. v4-mapped), else the zero Addr *)
Definition ap_of_ip (ip : bytes) (port : N) : addrport :=
  match length ip with
  | 4%nat => mkAP 32 (toN ip) port
  | 16%nat => mkAP 128 (toN ip) port
  | _ => mkAP 0 0 port
  end.

Definition cmp_int (c : comparison) : Z := match c with Lt => (-1)%Z | Eq => 0%Z | Gt => 1%Z end.

Inductive ss_op := SsAdd (x : ami) | SsDel (x : ami).

Definition run_sset (target : N) (ops : list ss_op) : list ami :=
  fold_left (fun l o => match o with SsAdd x => ss_add target x l | SsDel x => ss_delete target x l end) ops [].

(* ---- K nearest: relational acceptance of the observed contents ---- *)
Definition kel := kelem N.

Definition kel_same_key (a b : kel) : bool := N.eqb (k_id a) (k_id b) && ap_eqb (k_addr a) (k_addr b).
Definition kel_eqb (a b : kel) : bool := kel_same_key a b && N.eqb (k_data a) (k_data b).

Definition kn_all_c (target : N) (pushes : list kel) : list kel :=
  fold_left (fun l x => kn_insert ap_cmp target x l) pushes [].

Fixpoint sorted_by_dist (target : N) (l : list kel) : bool :=
  match l with
  | [] => true
  | x :: l' => match l' with
               | [] => true
               | y :: _ => N.leb (dist (k_id x) target) (dist (k_id y) target) && sorted_by_dist target l'
               end
  end.

Fixpoint nodup_keys (l : list kel) : bool :=
  match l with
  | [] => true
  | x :: l' => negb (existsb (kel_same_key x) l') && nodup_keys l'
  end.

(* observed contents [obs] are an allowed outcome of pushing [pushes] into a container of
   capacity [k], for SOME tie-break order *)
Definition accept_knear (target : N) (k : nat) (pushes obs : list kel) : bool :=
  let all := kn_all_c target pushes in
  sorted_by_dist target obs
  && nodup_keys obs
  && forallb (fun o => existsb (kel_eqb o) all) obs
  && Nat.eqb (length obs) (Nat.min k (length all))
  && forallb (fun e => existsb (kel_same_key e) obs
                       || forallb (fun m => N.leb (dist (k_id m) target) (dist (k_id e) target)) obs) all.

(* deterministic instance (ties broken by address order), used when no tie reaches the cut *)
Definition run_knear (target : N) (k : nat) (pushes : list kel) : list kel :=
  fold_left (kn_push ap_cmp target k) pushes [].
