(* Int160.v — code-level model of /repo/int160/int160.go and of the bit helpers
   in /repo/misc.go (randomIdInBucket) and /repo/table.go (bucketIndex).
   Byte-level (20-byte big-endian strings) and spec level (N). No proofs here. *)
From Dht Require Import Base.

(* ---- byte level: transcribes int160.T ---- *)

Definition bxor (a b : byte) : byte := byte_of_N (N.lxor (Byte.to_N a) (Byte.to_N b)).

Fixpoint xorl (a b : bytes) : bytes :=
  match a, b with
  | x :: a', y :: b' => bxor x y :: xorl a' b'
  | _, _ => []
  end.

(* T.Cmp: byte-wise lexicographic *)
Definition cmp160 (a b : bytes) : comparison := lex_cmp a b.

(* T.BitLen: big.Int.SetBytes(...).BitLen() *)
Definition bitlen (a : bytes) : N := N.size (toN a).

Definition is_zero (a : bytes) : bool := all_zero a.

(* T.GetBit(index): bits[index/8] >> (7 - index%8) & 1 == 1 *)
Definition get_bit (a : bytes) (i : nat) : bool :=
  N.testbit (Byte.to_N (nth (i / 8) a x00)) (N.of_nat (7 - i mod 8)).

Fixpoint upd_nth {A} (l : list A) (i : nat) (v : A) : list A :=
  match l, i with
  | [], _ => []
  | _ :: l', O => v :: l'
  | x :: l', S j => x :: upd_nth l' j v
  end.

(* T.SetBit(index, val): bits[index/8] = bits[index/8] & ^(1<<(7-index%8)) | orVal *)
Definition set_bit (a : bytes) (i : nat) (v : bool) : bytes :=
  let sh := N.of_nat (7 - i mod 8) in
  let old := Byte.to_N (nth (i / 8) a x00) in
  let cleared := N.clearbit old sh in
  let nb := if v then N.setbit cleared sh else cleared in
  upd_nth a (i / 8) (byte_of_N nb).

(* Distance(a,b) = a xor b *)
Definition distance (a b : bytes) : bytes := xorl a b.

(* table.bucketIndex(id) = 160 - (root xor id).BitLen(); the code panics when id = root *)
Definition bucket_index_bytes (root id : bytes) : option nat :=
  if bytes_eqb root id then None
  else Some (160 - N.to_nat (bitlen (xorl root id))).

(* randomIdInBucket(root, i) with the random 20 bytes as parameter [base] *)
Fixpoint copy_bits (root : bytes) (id : bytes) (n : nat) : bytes :=
  match n with
  | O => id
  | S k => let id' := copy_bits root id k in set_bit id' k (get_bit root k)
  end.

Definition random_in_bucket_bytes (root base : bytes) (i : nat) : bytes :=
  set_bit (copy_bits root base i) i (negb (get_bit root i)).

(* ---- spec level: 160-bit values as N ---- *)

Definition W : N := 160.

Definition dist (a b : N) : N := N.lxor a b.

(* bucket index at spec level *)
Definition bucket_index (root id : N) : nat := 160 - N.to_nat (N.size (N.lxor root id)).

(* bit j counted from the most significant of 160 *)
Definition bitN (x : N) (j : nat) : bool := N.testbit x (N.of_nat (159 - j)).

(* length of the common bit prefix of two 160-bit values, scanning from bit 0 (MSB) *)
Fixpoint shared_prefix_from (a b : N) (j fuel : nat) : nat :=
  match fuel with
  | O => 0
  | S f => if Bool.eqb (bitN a j) (bitN b j) then S (shared_prefix_from a b (S j) f) else 0
  end.

Definition shared_prefix_len (a b : N) : nat := shared_prefix_from a b 0 160.

Definition set_bitN (x : N) (j : nat) (v : bool) : N :=
  if v then N.setbit x (N.of_nat (159 - j)) else N.clearbit x (N.of_nat (159 - j)).

Fixpoint copy_bitsN (root id : N) (n : nat) : N :=
  match n with
  | O => id
  | S k => set_bitN (copy_bitsN root id k) k (bitN root k)
  end.

Definition random_in_bucket (root base : N) (i : nat) : N :=
  set_bitN (copy_bitsN root base i) i (negb (bitN root i)).
