(* Base.v — shared basic definitions for the executable models (no proofs). *)
From Coq Require Export List NArith ZArith Bool Lia.
From Coq.Strings Require Export Byte.
Export ListNotations.

Definition bytes := list byte.

Definition byte_eqb (a b : byte) : bool := N.eqb (Byte.to_N a) (Byte.to_N b).

Fixpoint bytes_eqb (a b : bytes) : bool :=
  match a, b with
  | [], [] => true
  | x :: a', y :: b' => byte_eqb x y && bytes_eqb a' b'
  | _, _ => false
  end.

(* total conversion N -> byte (values are reduced mod 256) *)
Definition byte_of_N (n : N) : byte :=
  match Byte.of_N (n mod 256) with Some b => b | None => x00 end.

(* big-endian value of a byte string *)
Definition toN (a : bytes) : N :=
  fold_left (fun acc x => acc * 256 + Byte.to_N x)%N a 0%N.

(* big-endian, fixed width (n bytes) rendering of a number (reduced mod 256^n) *)
Fixpoint ofN (n : nat) (v : N) : bytes :=
  match n with
  | O => []
  | S k => ofN k (v / 256) ++ [byte_of_N v]
  end.

Fixpoint lex_cmp (a b : bytes) : comparison :=
  match a, b with
  | [], [] => Eq
  | [], _ => Lt
  | _, [] => Gt
  | x :: a', y :: b' =>
      match N.compare (Byte.to_N x) (Byte.to_N y) with
      | Eq => lex_cmp a' b'
      | c => c
      end
  end.

Definition zero_bytes (n : nat) : bytes := repeat x00 n.

Fixpoint all_zero (a : bytes) : bool :=
  match a with [] => true | x :: a' => N.eqb (Byte.to_N x) 0 && all_zero a' end.

(* generic helpers *)
Fixpoint find_idx {A} (p : A -> bool) (l : list A) : option nat :=
  match l with
  | [] => None
  | x :: l' => if p x then Some O else option_map S (find_idx p l')
  end.

Fixpoint remove_first {A} (p : A -> bool) (l : list A) : list A :=
  match l with
  | [] => []
  | x :: l' => if p x then l' else x :: remove_first p l'
  end.

Definition opt_eqb {A} (e : A -> A -> bool) (a b : option A) : bool :=
  match a, b with
  | None, None => true
  | Some x, Some y => e x y
  | _, _ => false
  end.
