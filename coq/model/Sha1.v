(* Sha1.v — executable SHA-1 (FIPS 180-4) over byte strings.  Plain Gallina, 32-bit words are [N]
   reduced mod 2^32 ([w32], implemented as [N.land _ (2^32-1)], which is [_ mod 2^32]).
   No proofs: crypto/sha1 is a library whose internals no property depends on; this function only
   lets the extracted model recompute the digests the Go code produces (HashTuple, tokens,
   MakeDeterministicNodeID, BEP 44 targets) and is compared with crypto/sha1 by the harness. *)
From Dht Require Import Base.
Local Open Scope N_scope.

Definition mask32 : N := 4294967295.
Definition w32 (x : N) : N := N.land x mask32.            (* = x mod 2^32 *)
Definition add32 (x y : N) : N := w32 (x + y).
Definition rotl32 (n : N) (x : N) : N :=
  N.lor (w32 (N.shiftl x n)) (N.shiftr x (32 - n)).

(* big-endian 32-bit words of a byte string whose length is a multiple of 4 *)
Fixpoint sha1_words (l : bytes) : list N :=
  match l with
  | a :: b :: c :: d :: r =>
      N.lor (N.shiftl (Byte.to_N a) 24)
        (N.lor (N.shiftl (Byte.to_N b) 16)
           (N.lor (N.shiftl (Byte.to_N c) 8) (Byte.to_N d))) :: sha1_words r
  | _ => []
  end.

(* message ++ 0x80 ++ zeros ++ 64-bit big-endian bit length; total length multiple of 64 *)
Definition sha1_pad (m : bytes) : bytes :=
  let len := N.of_nat (length m) in
  let k := (119 - len mod 64) mod 64 in
  m ++ x80 :: repeat x00 (N.to_nat k) ++ ofN 8 (8 * len).

Record sha1_st := { sa : N; sb : N; sc : N; sd : N; se : N }.

Definition sha1_f (t : N) (b c d : N) : N :=
  if t <? 20 then N.lxor d (N.land b (N.lxor c d))                    (* Ch *)
  else if t <? 40 then N.lxor b (N.lxor c d)                            (* Parity *)
  else if t <? 60 then N.lor (N.land b c) (N.land d (N.lor b c))        (* Maj *)
  else N.lxor b (N.lxor c d).

Definition sha1_k (t : N) : N :=
  if t <? 20 then 1518500249       (* 5a827999 *)
  else if t <? 40 then 1859775393  (* 6ed9eba1 *)
  else if t <? 60 then 2400959708  (* 8f1bbcdc *)
  else 3395469782.                 (* ca62c1d6 *)

(* [w] is the sliding window W[t] .. W[t+15] of the message schedule (shorter near the end:
   W[t+16] is only computed while it is still needed, t + 16 < 80).  The five summands of
   T = ROTL5(a) + f + e + K + W[t] are < 2^32 each, so one reduction mod 2^32 is enough. *)
Fixpoint sha1_rounds (n : nat) (t : N) (s : sha1_st) (w : list N) : sha1_st :=
  match n with
  | O => s
  | S n' =>
      match w with
      | [] => s   (* not reachable: the window holds min 16 (80 - t) words *)
      | wt :: w' =>
          let tmp := w32 (rotl32 5 (sa s) + sha1_f t (sb s) (sc s) (sd s) + se s + sha1_k t + wt) in
          let w'' :=
            if t <? 64
            then w' ++ [rotl32 1 (N.lxor (N.lxor (nth 12 w' 0) (nth 7 w' 0)) (N.lxor (nth 1 w' 0) wt))]
            else w' in
          sha1_rounds n' (t + 1)
            {| sa := tmp; sb := sa s; sc := rotl32 30 (sb s); sd := sc s; se := sd s |} w''
      end
  end.

Definition sha1_block (h : sha1_st) (w : list N) : sha1_st :=
  let r := sha1_rounds 80 0 h w in
  {| sa := add32 (sa h) (sa r); sb := add32 (sb h) (sb r); sc := add32 (sc h) (sc r);
     sd := add32 (sd h) (sd r); se := add32 (se h) (se r) |}.

Fixpoint sha1_blocks (h : sha1_st) (ws : list N) : sha1_st :=
  match ws with
  | w0 :: w1 :: w2 :: w3 :: w4 :: w5 :: w6 :: w7 :: w8 :: w9 :: w10 :: w11 :: w12 :: w13 :: w14 :: w15 :: r =>
      sha1_blocks
        (sha1_block h [w0; w1; w2; w3; w4; w5; w6; w7; w8; w9; w10; w11; w12; w13; w14; w15]) r
  | _ => h
  end.

Definition sha1_init : sha1_st :=
  {| sa := 1732584193;   (* 67452301 *)
     sb := 4023233417;   (* efcdab89 *)
     sc := 2562383102;   (* 98badcfe *)
     sd := 271733878;    (* 10325476 *)
     se := 3285377520 |}. (* c3d2e1f0 *)

Definition sha1 (m : bytes) : bytes :=
  let h := sha1_blocks sha1_init (sha1_words (sha1_pad m)) in
  ofN 4 (sa h) ++ ofN 4 (sb h) ++ ofN 4 (sc h) ++ ofN 4 (sd h) ++ ofN 4 (se h).

(* sanity: the well-known digests of "" and "abc" (FIPS 180 test vectors) *)
Example sha1_empty :
  sha1 [] = [xda;x39;xa3;xee;x5e;x6b;x4b;x0d;x32;x55;xbf;xef;x95;x60;x18;x90;xaf;xd8;x07;x09].
Proof. vm_compute. reflexivity. Qed.
Example sha1_abc :
  sha1 [x61;x62;x63] = [xa9;x99;x3e;x36;x47;x06;x81;x6a;xba;x3e;x25;x71;x78;x50;xc2;x6c;x9c;xd0;xd8;x9d].
Proof. vm_compute. reflexivity. Qed.
(* two-block message: 56 bytes "abcdbcdecdefdefgefghfghighijhijkijkljklmklmnlmnomnopnopq" *)
Example sha1_two_blocks :
  sha1 [x61;x62;x63;x64;x62;x63;x64;x65;x63;x64;x65;x66;x64;x65;x66;x67;x65;x66;x67;x68;x66;x67;x68;x69;
        x67;x68;x69;x6a;x68;x69;x6a;x6b;x69;x6a;x6b;x6c;x6a;x6b;x6c;x6d;x6b;x6c;x6d;x6e;x6c;x6d;x6e;x6f;
        x6d;x6e;x6f;x70;x6e;x6f;x70;x71]
  = [x84;x98;x3e;x44;x1c;x3b;xd2;x6e;xba;xae;x4a;xa1;xf9;x51;x29;xe5;xe5;x46;x70;xf1].
Proof. vm_compute. reflexivity. Qed.
