(* Order.v — model of types.AddrMaybeId.CloserThan (/repo/types/addr-maybe-id.go),
   containers.AddrMaybeIdsByDistance (/repo/containers, a sorted set backed by an
   immutable sorted map, modelled as a sorted duplicate-free list) and
   k_nearest_nodes.Type (/repo/k-nearest-nodes).  No proofs here. *)
From Dht Require Import Base Int160.

(* netip.AddrPort as the code compares it: (address bit length 0/32/128, value, port).
   Addr.Compare orders by bit length first, then by value; zones never arise here. *)
Record addrport := mkAP { ap_fam : N; ap_val : N; ap_port : N }.

Definition ap_cmp (a b : addrport) : comparison :=
  match N.compare (ap_fam a) (ap_fam b) with
  | Eq => match N.compare (ap_val a) (ap_val b) with
          | Eq => N.compare (ap_port a) (ap_port b)
          | c => c
          end
  | c => c
  end.

Definition ap_eqb (a b : addrport) : bool :=
  N.eqb (ap_fam a) (ap_fam b) && N.eqb (ap_val a) (ap_val b) && N.eqb (ap_port a) (ap_port b).

(* types.AddrMaybeId with spec-level ids *)
Record ami := mkAmi { ami_addr : addrport; ami_id : option N }.

Definition ami_eqb (a b : ami) : bool :=
  ap_eqb (ami_addr a) (ami_addr b) && opt_eqb N.eqb (ami_id a) (ami_id b).

(* three-way version of CloserThan: multiless chain
     Bool(!l.ok, !r.ok); if both ok: Cmp(dist l, dist r); if undecided: addr, port *)
Definition closer_cmp (target : N) (l r : ami) : comparison :=
  match ami_id l, ami_id r with
  | Some _, None => Lt
  | None, Some _ => Gt
  | None, None => ap_cmp (ami_addr l) (ami_addr r)
  | Some a, Some b =>
      match N.compare (dist a target) (dist b target) with
      | Eq => ap_cmp (ami_addr l) (ami_addr r)
      | c => c
      end
  end.

Definition closer_than (target : N) (l r : ami) : bool :=
  match closer_cmp target l r with Lt => true | _ => false end.

(* ---- sorted set (containers.sortedSet) ---- *)

Fixpoint ss_add (target : N) (x : ami) (l : list ami) : list ami :=
  match l with
  | [] => [x]
  | y :: l' =>
      match closer_cmp target x y with
      | Lt => x :: l
      | Eq => x :: l'          (* Set on an equal key replaces it *)
      | Gt => y :: ss_add target x l'
      end
  end.

Fixpoint ss_delete (target : N) (x : ami) (l : list ami) : list ami :=
  match l with
  | [] => []
  | y :: l' =>
      match closer_cmp target x y with
      | Eq => l'
      | Lt => l                 (* sorted: not present *)
      | Gt => y :: ss_delete target x l'
      end
  end.

Definition ss_next (l : list ami) : option ami := hd_error l.   (* None = the code panics *)
Definition ss_len (l : list ami) : nat := length l.

(* ---- K nearest (k_nearest_nodes.Type) ---- *)

(* key = NodeInfoAddrPort (id, addrport); data abstract (D) *)
Section KNearest.
  Variable D : Type.
  (* tie-break among equal distances: the code uses a seeded maphash of the address
     string; modelled as an arbitrary comparison on addresses (parameter). *)
  Variable tb : addrport -> addrport -> comparison.

  Record kelem := mkK { k_id : N; k_addr : addrport; k_data : D }.

  Definition k_cmp (target : N) (l r : kelem) : comparison :=
    match N.compare (dist (k_id l) target) (dist (k_id r) target) with
    | Eq => tb (k_addr l) (k_addr r)
    | c => c
    end.

  Fixpoint kn_insert (target : N) (x : kelem) (l : list kelem) : list kelem :=
    match l with
    | [] => [x]
    | y :: l' =>
        match k_cmp target x y with
        | Lt => x :: l
        | Eq => x :: l'
        | Gt => y :: kn_insert target x l'
        end
    end.

  (* Push: Set, then delete the last element while Len > k *)
  Definition kn_push (target : N) (k : nat) (l : list kelem) (x : kelem) : list kelem :=
    firstn k (kn_insert target x l).

  Definition kn_full (k : nat) (l : list kelem) : bool := Nat.leb k (length l).
  Definition kn_farthest (l : list kelem) : option kelem := last (map Some l) None.
End KNearest.

Arguments mkK {D}.
Arguments k_id {D}.
Arguments k_addr {D}.
Arguments k_data {D}.
Arguments kn_insert {D}.
Arguments kn_push {D}.
Arguments kn_full {D}.
Arguments kn_farthest {D}.
Arguments k_cmp {D}.
