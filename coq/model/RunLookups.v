(* RunLookups.v — executable glue between the `query` and `lookups` harness engines and the models
   Query.v / Lookups.v (what the model runner evaluates for each harness line).  No proofs.

   ---- query engine ----
   A harness case fixes NumTries, the rate-limiting policy and budget, blocked / closed, which socket
   write fails, and a SCRIPT of environment actions tied to points of the query's life that the
   harness can hold the code at:
       QPPre        before Server.Query is called
       QPWrite i    inside the i-th successful socket.WriteTo (the sender goroutine is held there)
       QPGate i     inside the i-th call of ServerConfig.QueryResendDelay (after send i returned; held)
       QPRet        after Server.Query returned
   The harness's resend-delay function returns ~1 ms as long as no reply / cancel action was performed and
   one hour afterwards, so the only timers that ever fire are the ones the script lets fire.
   [rq_outcomes] explores EVERY interleaving of the model's processes under these constraints and returns
   the set of possible (datagrams, rated units, result class); the runner accepts the observed rq_outcome iff
   it is in the set (a singleton for all but the genuinely racy scripts).

   ---- lookups engine ----
   The harness serialises what it does to the code (start, answer query q with reply r, cancel ctx, Close,
   StopTraversing, consumer stops reading) and reports it in that order; [rl_event] applies one such event
   and then lets the model's internal steps run to quiescence ([rl_settle]); [rl_finish] ends the run:
   queries still waiting return without a reply, the traversal stalls, the owner finishes. *)
From Dht Require Import Base Bep44 Sha1.
From Dht Require Query Lookups.
From DhtGen Require Import Params.

(* ================================================================ query engine *)
Section RunQuery.
Import Query.
Inductive qpoint := QPPre | QPWrite (i : nat) | QPGate (i : nat) | QPRet.
Inductive qaction := QAReply | QACancel | QAClose | QABlock | QANop
  | QAStray.   (* a datagram that is NOT the reply of this query: another source address (port, IP, zone) or another
                  transaction id.  The serve loop finds no transaction under its key: no event of the query's model *)

Record qscn := mkScn {
  sc_tries : nat;                 (* QueryInput.NumTries as passed (0 = default) *)
  sc_rl : rlcfg;
  sc_budget : option nat;         (* Some b = rate.NewLimiter(0, b); None = unlimited *)
  sc_blocked : bool;
  sc_closed0 : bool;              (* Server.Close before the query *)
  sc_fail : nat;                  (* 1-based index of the socket.WriteTo call that fails; 0 = none *)
  sc_script : list (qpoint * qaction) }.

Definition scn_cfg (sc : qscn) : qcfg :=
  mkQC (eff_tries (sc_tries sc)) (sc_blocked sc) (sc_rl sc) (match sc_budget sc with Some _ => true | None => false end).
Definition scn_init (sc : qscn) : qstate :=
  q_init (sc_closed0 sc) (match sc_budget sc with Some b => b | None => 0 end) (sc_blocked sc).

Definition point_enabled (s : qstate) (p : qpoint) : bool :=
  match p with
  | QPPre => match q_caller s with CStart => true | _ => false end
  | QPWrite i | QPGate i => Nat.eqb (q_writes s) i && match q_sender s with SWait false => true | _ => false end
  | QPRet => returned s
  end.
(* the point can no longer come *)
Definition point_passed (s : qstate) (p : qpoint) : bool :=
  match p with
  | QPPre => match q_caller s with CStart => false | _ => true end
  | QPWrite i | QPGate i => Nat.ltb i (q_writes s) || match q_sender s with SDone => true | _ => false end
  | QPRet => false
  end.

Definition action_label (a : qaction) : option label :=
  match a with
  | QAReply => Some EReplyArrives | QACancel => Some ECtxCancel | QAClose => Some EServerClose
  | QABlock => Some EBlockDest            (* Server.SetIPBlockList covering the destination *)
  | QANop => None
  | QAStray => None
  end.
(* after these the harness's delay function returns an hour: a cancellation, or a reply the server can take *)
Definition terminating (s : qstate) (a : qaction) : bool :=
  match a with
  | QACancel => true
  | QAReply => negb (q_closed s) && negb (q_blocked s)
  | _ => false
  end.

(* the rq_outcome of the send about to happen, as configuration and state fix it *)
Definition send_label (sc : qscn) (c : qcfg) (s : qstate) : label :=
  if q_closed s then ESendErr CClosed
  else if q_blocked s then ESendErr CBlocked
  else if no_budget c s then ESendErr CRate
  else if Nat.eqb (S (q_writes s)) (sc_fail sc) then ESendErr CSocket
  else ESendOk.

Inductive holder := HNone | HCaller | HSender.
Definition held (s : qstate) (script : list (qpoint * qaction)) : holder :=
  match script with
  | (p, _) :: _ =>
      if point_enabled s p then
        match p with QPPre => HCaller | QPWrite _ | QPGate _ => HSender | QPRet => HNone end
      else HNone
  | [] => HNone
  end.

(* internal labels that may fire now: term = a reply / cancel action was performed (timers are 1 h then) *)
Definition candidate_labels (sc : qscn) (c : qcfg) (s : qstate) (script : list (qpoint * qaction)) (term : bool)
  : list label :=
  let h := held s script in
  let caller := match h with
                | HCaller => []
                | _ => [LRegister; LSelReply; LSelCtx; LSelSendErr; LCancelSend; LJoin; LDeregister]
                end in
  let sender := match h with
                | HSender => []
                | _ => [send_label sc c s; LSenderCtx; LTimeout] ++ (if term then [] else [EDelayElapsed])
                end in
  filter (enabled c s) (caller ++ sender ++ [LHandler]).

Inductive qclass := KReply | KCtx | KTimeout | KErr (x : cause) | KStuck.
Definition class_of (s : qstate) : qclass :=
  if returned s then
    match q_result s with
    | Some RReply => KReply | Some RCtx => KCtx | Some RTimeout => KTimeout | Some (RSendErr x) => KErr x
    | None => KStuck
    end
  else KStuck.
Definition class_code (k : qclass) : nat :=
  match k with
  | KReply => 0 | KCtx => 1 | KTimeout => 2
  | KErr CClosed => 3 | KErr CBlocked => 4 | KErr CRate => 5 | KErr CSocket => 6 | KErr CShort => 7
  | KStuck => 99
  end.

(* rq_outcome: datagrams, rated units, class, transaction still registered, some process not Done *)
Definition rq_outcome := (nat * nat * nat * bool * bool)%type.
Definition rq_outcome_of (s : qstate) : rq_outcome :=
  (q_writes s, q_rated s, class_code (class_of s), q_registered s, negb (all_done s)).
Definition rq_outcome_eqb (a b : rq_outcome) : bool :=
  match a, b with
  | (w1, r1, k1, g1, d1), (w2, r2, k2, g2, d2) =>
      Nat.eqb w1 w2 && Nat.eqb r1 r2 && Nat.eqb k1 k2 && Bool.eqb g1 g2 && Bool.eqb d1 d2
  end.
Fixpoint rq_add_outcome (o : rq_outcome) (l : list rq_outcome) : list rq_outcome :=
  match l with
  | [] => [o]
  | x :: r => if rq_outcome_eqb o x then l else x :: rq_add_outcome o r
  end.
Definition rq_merge_outcomes (a b : list rq_outcome) : list rq_outcome := fold_left (fun acc o => rq_add_outcome o acc) a b.

Fixpoint explore (fuel : nat) (sc : qscn) (c : qcfg) (s : qstate) (script : list (qpoint * qaction)) (term : bool)
  : list rq_outcome :=
  match fuel with
  | O => [(q_writes s, q_rated s, 98, q_registered s, true)]          (* out of fuel: never with the fuel given *)
  | S f =>
      (* a directive whose point has passed is dropped; one whose point is here may fire *)
      let env :=
        match script with
        | (p, a) :: rest =>
            if point_enabled s p then
              [ (match action_label a with Some l => step_en c s l | None => s end, rest, term || terminating s a) ]
            else if point_passed s p then [ (s, rest, term) ]
            else []
        | [] => []
        end in
      let ints := map (fun l => (step c s l, script, term)) (candidate_labels sc c s script term) in
      match env ++ ints with
      | [] => [rq_outcome_of s]
      | succs => fold_left (fun acc x => match x with (s', sc', t') => rq_merge_outcomes (explore f sc c s' sc' t') acc end) succs []
      end
  end.

Definition rq_outcomes (sc : qscn) : list rq_outcome :=
  let c := scn_cfg sc in
  explore (mu c (scn_init sc) + 2 * length (sc_script sc) + 4) sc c (scn_init sc) (sc_script sc) false.

(* constructor wrapper for the runner (no record syntax on the OCaml side) *)
Definition rq_mk_scn (tries : nat) (nf na wr nw : bool) (budget : option nat) (blocked closed0 : bool) (fail : nat)
  (script : list (qpoint * qaction)) : qscn :=
  mkScn tries (mkRL nf na wr nw) budget blocked closed0 fail script.

Definition rq_accepts (sc : qscn) (o : rq_outcome) : bool := existsb (rq_outcome_eqb o) (rq_outcomes sc).

End RunQuery.

(* ================================================================ lookups engine *)
Import Lookups.
Definition rl_k (a : api) : nat :=
  match a with ABootstrap => Query.q_znat bootstrap_k | _ => Query.q_znat traversal_default_k end.

Section RunLookups.
  Variable edv : bytes -> bytes -> bytes -> bool.     (* ed25519 verdict table of the run *)
  Variable c : lcfg.

  Definition rl_node_ok (a : addr) (i : N) : bool := true.   (* NoSecurity, no blocklist, valid addresses *)
  Definition rl_push : list elem -> elem -> list elem := lk_push (lc_target c) (rl_k (lc_api c)).
  Definition rl_step (s : lstate) (l : Lookups.label) : lstate :=
    Lookups.step_en sha1 edv rl_node_ok rl_push c s l.
  Definition rl_enabled (s : lstate) (l : Lookups.label) : bool := Lookups.enabled c s l.

  (* internal labels offered to the settling: per in-flight query its possible next steps, then the owner
     and the traversal goroutines.  Queries still inside Server.Query return only when told ([lkreply],
     a stopping event, the end of the run); the traversal stalls only once its run loop has exited or the
     run is being finished. *)
  Definition query_labels (ret_none : bool) (s : lstate) : list Lookups.label :=
    flat_map (fun x => [QDeliver (tq_id x); QAbandon (tq_id x); QFinish (tq_id x)] ++
                       (if ret_none then [QReturn (tq_id x) None] else [])) (l_inflight s).
  (* getput.Get leaves its wait on an immutable value and calls Stop() a moment later; queries the run loop
     starts in that moment are still reported, so that Stop() is taken at the next stopping event or at
     the end of the run, not eagerly *)
  Definition stop_now (ret_none : bool) : bool :=
    ret_none || match lc_api c with AGet => false | _ => true end.
  Definition settle_labels (ret_none final : bool) (s : lstate) : list Lookups.label :=
    query_labels ret_none s ++
    [OStartTrav; OGetNodes; OCtx] ++ (if stop_now ret_none then [OStopStep] else []) ++
    [OStoppedStep; OSend true; OSendsDone; OCloseP; TLoopExit; TStopWait] ++
    (if final || l_loop_exited s then [OStalled] else []).

  Definition first_enabled (s : lstate) (ls : list Lookups.label) : option Lookups.label :=
    find (rl_enabled s) ls.

  Fixpoint rl_settle (fuel : nat) (ret_none final : bool) (s : lstate) : lstate :=
    match fuel with
    | O => s
    | S f =>
        match first_enabled s (settle_labels ret_none final s) with
        | Some l => rl_settle f ret_none final (rl_step s l)
        | None => s
        end
    end.

  Definition rl_fuel (s : lstate) : nat := S (lmu s).

  Inductive rl_ev :=
  | REvIssue (a : addr)                       (* a traversal query left for a *)
  | REvReply (q : nat) (r : greply)           (* query q got r *)
  | REvNoReply (q : nat)                      (* query q ended without a reply *)
  | REvCtx | REvClose | REvStopTrav | REvConsumerStop.

  Definition rl_init : lstate := rl_settle 4 false false (l_init c).   (* Start, starting nodes *)

  Definition rl_event (s : lstate) (e : rl_ev) : lstate :=
    match e with
    | REvIssue a => rl_step s (TIssue a)
    | REvReply q r => let s1 := rl_step s (QReturn q (Some r)) in rl_settle (rl_fuel s1) false false s1
    | REvNoReply q => let s1 := rl_step s (QReturn q None) in rl_settle (rl_fuel s1) false false s1
    | REvCtx => let s1 := rl_step s ECtx in rl_settle (rl_fuel s1) true false s1
    | REvClose => let s1 := rl_step s EClose in rl_settle (rl_fuel s1) true false s1
    | REvStopTrav => let s1 := rl_step s EStopTrav in rl_settle (rl_fuel s1) true false s1
    | REvConsumerStop => rl_step s EConsumerStop
    end.

  Definition rl_finish (s : lstate) : lstate := rl_settle (rl_fuel s) true true s.

  Definition rl_all_done (s : lstate) : bool := Lookups.all_done s.
End RunLookups.

(* ---- constructor wrappers and views for the runner (it never names a record type or field) ---- *)
Definition rl_mk_cfg (api_code sn_code : nat) (target : N) (ann : option (Z * bool)) (tgt salt : bytes) : lcfg :=
  mkLC (match api_code with 0 => ABootstrap | 1 => AAnnounce | 2 => AGet | _ => APut end)
       Repaired true        (* the reference model: D8, D2 repaired; D10 repaired = a delivery is given up once Close() was called *)
       (match sn_code with 0 => SNOk | 1 => SNErr | _ => SNEmpty end)
       4000 target ann tgt salt.
Definition rl_mk_reply (hasr : bool) (id : N) (tok : option bytes) (payload v k sg : bytes) (seq : option Z) : greply :=
  mkGR hasr id tok payload (mkReply v k sg seq).
Definition rl_view_sends (s : lstate) : list (N * bytes * N * Z * bool * Z) :=
  map (fun r => (sr_dest r, sr_token r, sr_ih r, sr_port r, sr_implied r, sr_seq r)) (l_sends s).
Definition rl_view_peers (s : lstate) : list (N * N * bytes) :=
  map (fun d => match d with (_, a, i, p) => (a, i, p) end) (l_delivered s).
(* error code (0 none, 1 start, 2 ctx, 3 not found), autoSeq, current value (seq, v, mutable) *)
Definition rl_view_result (s : lstate) : nat * Z * option (Z * bytes * bool) :=
  (match l_err s with None => 0 | Some ErrStart => 1 | Some ErrCtx => 2 | Some ErrNotFound => 3 end,
   l_autoseq s,
   match l_cur s with Some g => Some (res_seq g, res_v g, res_mutable g) | None => None end).
(* Peers closed, every process ended, process died, Announce.Close called, ctx cancelled *)
Definition rl_view_flags (s : lstate) : bool * bool * bool * bool * bool :=
  (l_peers_closed s, Lookups.all_done s, l_panic s, l_aclosed s, l_ctx s).
Definition rl_view_nq (s : lstate) : nat := l_nq s.
(* Stop() was called: a query the run loop was in the middle of starting may still show up (it is cancelled at once) *)
Definition rl_view_stopping (s : lstate) : bool := l_stopping s.
Definition rl_cfg_api (c : lcfg) : nat :=
  match lc_api c with ABootstrap => 0 | AAnnounce => 1 | AGet => 2 | APut => 3 end.

