(* Bencode.v — byte-level model of the parts of github.com/anacrolix/torrent/bencode that the
   KRPC codec reaches (decode.go): the token layer, the STRICT value parser used for `interface{}`
   targets (parseValueInterface) and the raw syntactic scanner that cuts out one value for types
   with their own UnmarshalBencode (readOneValue).  Executable model, no proofs.
   Recursion is by fuel; fuel = length of the input suffices (proofs/BencodeProofs.v). *)
From Dht Require Import Base Msg.
Local Open Scope N_scope.

(* ---- characters ---- *)
Definition is_digit (c : byte) : bool := let n := Byte.to_N c in N.leb 48 n && N.leb n 57.
Definition is_19 (c : byte) : bool := let n := Byte.to_N c in N.leb 49 n && N.leb n 57.
Definition digit_val (c : byte) : N := Byte.to_N c - 48.

Definition ch_i : byte := "i"%byte.
Definition ch_l : byte := "l"%byte.
Definition ch_d : byte := "d"%byte.
Definition ch_e : byte := "e"%byte.
Definition ch_colon : byte := ":"%byte.
Definition ch_minus : byte := "-"%byte.
Definition ch_plus : byte := "+"%byte.

(* ---- Decoder.readUntil: the bytes before the separator, and the rest after it ---- *)
Fixpoint read_until (sep : byte) (b : bytes) : option (bytes * bytes) :=
  match b with
  | [] => None
  | x :: r =>
      if byte_eqb x sep then Some ([], r)
      else match read_until sep r with
           | Some (s, r') => Some (x :: s, r')
           | None => None
           end
  end.

(* ---- Decoder.checkBufferedInt: only the leading character is validated ---- *)
Definition check_buffered_int (s : bytes) : bool :=
  match s with
  | [] => true
  | [_] => true
  | c :: r =>
      let r' := if byte_eqb c ch_minus then r else s in
      match r' with
      | c' :: _ => is_19 c'
      | [] => true
      end
  end.

(* ---- strconv.ParseUint / ParseInt / big.Int.SetString in base 10, without their range checks ---- *)
Fixpoint digits_val (acc : N) (s : bytes) : option N :=
  match s with
  | [] => Some acc
  | c :: r => if is_digit c then digits_val (acc * 10 + digit_val c) r else None
  end.

Definition parse_udec (s : bytes) : option N :=
  match s with
  | [] => None
  | _ => digits_val 0 s
  end.

Definition parse_sdec (s : bytes) : option Z :=
  match s with
  | [] => None
  | c :: r =>
      if byte_eqb c ch_minus then option_map (fun n => Z.opp (Z.of_N n)) (parse_udec r)
      else if byte_eqb c ch_plus then option_map Z.of_N (parse_udec r)
      else option_map Z.of_N (parse_udec s)
  end.

Definition int64_min : Z := (-9223372036854775808)%Z.
Definition int64_max : Z := 9223372036854775807%Z.
Definition in_int64 (z : Z) : bool := Z.leb int64_min z && Z.leb z int64_max.

(* text between `i` and `e` for an interface{} target: any size (int64, else *big.Int) *)
Definition int_text_any (txt : bytes) : option Z :=
  if check_buffered_int txt then parse_sdec txt else None.

(* DefaultDecodeMaxStrLen *)
Definition max_str_len : N := 134217727.

(* n bytes of r, when there are that many (walks at most n bytes: a huge declared length costs nothing) *)
Fixpoint take_str (n : N) (r : bytes) : option (bytes * bytes) :=
  if N.eqb n 0 then Some ([], r)
  else match r with
       | [] => None
       | x :: r' =>
           match take_str (N.pred n) r' with
           | Some (s, t) => Some (x :: s, t)
           | None => None
           end
       end.

(* a string token `<len>:<bytes>` as parseStringLength + read see it; b starts at the first digit *)
Definition parse_str_tok (b : bytes) : option (bytes * bytes) :=
  match read_until ch_colon b with
  | None => None
  | Some (txt, r) =>
      if check_buffered_int txt then
        match parse_udec txt with
        | Some n => if N.leb n max_str_len then take_str n r else None
        | None => None
        end
      else None
  end.

(* ---- strict value parser (parseValueInterface and friends) ----
   [dirty] = the decoder's scratch buffer still holds the raw value handed to an Unmarshaler;
   integer and string tokens are then mis-read and rejected (the flag never changes inside). *)
Definition key_after (last : option bytes) (k : bytes) : bool :=
  match last with
  | None => true
  | Some l => match lex_cmp l k with Lt => true | _ => false end
  end.

Fixpoint parse_value_fuel (fuel : nat) (dirty : bool) (b : bytes) {struct fuel} : option (bval * bytes) :=
  match fuel with
  | O => None
  | S f =>
      match b with
      | [] => None
      | c :: r =>
          if byte_eqb c ch_i then
            if dirty then None
            else match read_until ch_e r with
                 | None => None
                 | Some (txt, r') =>
                     match int_text_any txt with
                     | Some z => Some (BInt z, r')
                     | None => None
                     end
                 end
          else if byte_eqb c ch_l then
            match parse_list_fuel f dirty r with
            | Some (l, r') => Some (BList l, r')
            | None => None
            end
          else if byte_eqb c ch_d then
            match parse_dict_fuel f dirty None r with
            | Some (d, r') => Some (BDict d, r')
            | None => None
            end
          else if is_digit c then
            if dirty then None
            else match parse_str_tok b with
                 | Some (s, r') => Some (BStr s, r')
                 | None => None
                 end
          else None
      end
  end
with parse_list_fuel (fuel : nat) (dirty : bool) (b : bytes) {struct fuel} : option (list bval * bytes) :=
  match fuel with
  | O => None
  | S f =>
      match b with
      | [] => None
      | c :: r =>
          if byte_eqb c ch_e then Some ([], r)
          else match parse_value_fuel f dirty b with
               | None => None
               | Some (v, b1) =>
                   match parse_list_fuel f dirty b1 with
                   | Some (l, b2) => Some (v :: l, b2)
                   | None => None
                   end
               end
      end
  end
with parse_dict_fuel (fuel : nat) (dirty : bool) (last : option bytes) (b : bytes) {struct fuel}
  : option (list (bytes * bval) * bytes) :=
  match fuel with
  | O => None
  | S f =>
      match b with
      | [] => None
      | c :: r =>
          if byte_eqb c ch_e then Some ([], r)
          else if is_digit c then
            (* the key must be a string token, strictly after the previous key *)
            if dirty then None
            else match parse_str_tok b with
                 | None => None
                 | Some (k, b1) =>
                     if key_after last k then
                       match parse_value_fuel f dirty b1 with
                       | None => None
                       | Some (v, b2) =>
                           match parse_dict_fuel f dirty (Some k) b2 with
                           | Some (d, b3) => Some ((k, v) :: d, b3)
                           | None => None
                           end
                       end
                     else None
                 end
          else None
      end
  end.

(* with a dirty scratch buffer *)
Definition parse_value_d (dirty : bool) (b : bytes) : option (bval * bytes) :=
  parse_value_fuel (length b) dirty b.

(* the STRICT flavour used for interface{} targets: value and unused rest *)
Definition parse_value (b : bytes) : option (bval * bytes) := parse_value_d false b.

(* ---- raw scanner (readOneValue): one syntactically delimited value, nothing validated inside ---- *)
Fixpoint scan_value_fuel (fuel : nat) (b : bytes) {struct fuel} : option (bytes * bytes) :=
  match fuel with
  | O => None
  | S f =>
      match b with
      | [] => None
      | c :: r =>
          if byte_eqb c ch_d || byte_eqb c ch_l then
            match scan_items_fuel f r with
            | Some (body, r') => Some (c :: body, r')
            | None => None
            end
          else if byte_eqb c ch_i then
            match read_until ch_e r with
            | Some (txt, r') => Some (c :: txt ++ [ch_e], r')
            | None => None
            end
          else if is_digit c then
            match read_until ch_colon b with
            | None => None
            | Some (txt, r1) =>
                match parse_udec txt with
                | None => None
                | Some n =>
                    if Z.leb (Z.of_N n) int64_max then
                      match take_str n r1 with
                      | Some (s, r2) => Some (txt ++ ch_colon :: s, r2)
                      | None => None
                      end
                    else None
                end
            end
          else None
      end
  end
with scan_items_fuel (fuel : nat) (b : bytes) {struct fuel} : option (bytes * bytes) :=
  match fuel with
  | O => None
  | S f =>
      match b with
      | [] => None
      | c :: r =>
          if byte_eqb c ch_e then Some ([ch_e], r)
          else match scan_value_fuel f b with
               | None => None
               | Some (raw, b1) =>
                   match scan_items_fuel f b1 with
                   | Some (body, b2) => Some (raw ++ body, b2)
                   | None => None
                   end
               end
      end
  end.

(* (raw value, rest) *)
Definition scan_value (b : bytes) : option (bytes * bytes) := scan_value_fuel (length b) b.

(* ---- canonical values: what `benc` of Msg.v emits and the strict parser reads back ---- *)
Definition str_ok (s : bytes) : bool := N.leb (N.of_nat (length s)) max_str_len.

Fixpoint keys_asc (last : option bytes) (ks : list bytes) : bool :=
  match ks with
  | [] => true
  | k :: ks' => key_after last k && keys_asc (Some k) ks'
  end.

Fixpoint canonb (v : bval) : bool :=
  match v with
  | BInt _ => true
  | BStr s => str_ok s
  | BList l => forallb canonb l
  | BDict d =>
      keys_asc None (map fst d) && forallb (fun kv => str_ok (fst kv) && canonb (snd kv)) d
  end.
