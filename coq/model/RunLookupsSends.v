(* RunLookupsSends.v — lookups engine, cases of harness/cmd/h/lookups_limiter.go (a SendLimiter that limits; nodes
   that do not acknowledge announce_peer / put).  No proofs (proofs/RunLookupsSendsProofs.v).

   In those cases the harness reports every announce_peer / put datagram at the moment it leaves (line `lksent`),
   not only the multiset of all of them at the end (`lkend`).  The first such line tells the runner that the owner
   has left its wait: for an announce the traversal has Stopped (announce.go waits for Stopped() before
   announceClosest), so every query has returned and no traversal query may be issued any more; the runner lets the
   model finish ([RunLookups.rl_finish]) and takes [rl_view_sends] of that state as the multiset of datagrams still
   EXPECTED.  Every `lksent` line must then take one element out of it ([rls_take]): a datagram to a node that is not
   in the final closest set, with a token that node did not give to this traversal, with other arguments, or a
   SECOND datagram to a node that had its one, finds nothing to take and is rejected on the spot. *)
From Dht Require Import Base.

(* an element of RunLookups.rl_view_sends: destination, token, infohash / target, port, implied_port, seq *)
Definition rls_send := (N * bytes * N * Z * bool * Z)%type.

Definition rls_eqb (a b : rls_send) : bool :=
  match a, b with
  | (d1, t1, h1, p1, i1, s1), (d2, t2, h2, p2, i2, s2) =>
      N.eqb d1 d2 && bytes_eqb t1 t2 && N.eqb h1 h2 && Z.eqb p1 p2 && Bool.eqb i1 i2 && Z.eqb s1 s2
  end.

(* take the first occurrence of x out of l *)
Fixpoint rls_take (x : rls_send) (l : list rls_send) : option (list rls_send) :=
  match l with
  | [] => None
  | y :: r =>
      if rls_eqb x y then Some r
      else match rls_take x r with Some r' => Some (y :: r') | None => None end
  end.

(* a whole sequence of observed datagrams, one after the other *)
Fixpoint rls_take_all (obs l : list rls_send) : option (list rls_send) :=
  match obs with
  | [] => Some l
  | x :: r => match rls_take x l with Some l' => rls_take_all r l' | None => None end
  end.
