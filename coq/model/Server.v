(* Server.v — executable model of the server core of /repo: serve-loop filters, processPacket,
   handleQuery, reply/sendError, updateNode/addNode and the routing table (table.go, bucket.go,
   node.go), tokens (tokens.go), the in-memory peer store (peer-store/in-memory.go), BEP 32
   filtering, outbound query bookkeeping (transactions), blocklist and passive mode.
   One event = one section of code run under Server.mu (plus the goroutines it spawns, whose
   effects are collected in the output list).  Go map iteration (eviction victim, members of the
   cut-off bucket, order of `values`) makes the step a relation: [step] takes the observed choice
   and [accept_*] decides whether it is allowed.  No proofs here.

   The model is of the REPAIRED behaviour for the defects D1, D4, D5 of DESIGN.md section 6. *)
From Dht Require Import Base Int160 Msg.
From DhtGen Require Import Params.

(* ------------------------------------------------------------------ addresses *)
Record addr := mkAddr { ip : bytes; port : N }.     (* net.UDPAddr: ip of 4 or 16 bytes *)

Definition v4_prefix : bytes := zero_bytes 10 ++ [xff; xff].

(* net.IP.To4 *)
Definition to4 (b : bytes) : option bytes :=
  match length b with
  | 4%nat => Some b
  | 16%nat => if bytes_eqb (firstn 12 b) v4_prefix then Some (skipn 12 b) else None
  | _ => None
  end.

(* net.IP.To16 *)
Definition to16 (b : bytes) : option bytes :=
  match length b with
  | 4%nat => Some (v4_prefix ++ b)
  | 16%nat => Some b
  | _ => None
  end.

(* identity used by transactions, routing-table keys and the table's address index:
   net.UDPAddr.String() — the 4-byte and the v4-mapped form of one address print alike *)
Definition norm_ip (b : bytes) : bytes := match to4 b with Some x => x | None => b end.
Definition addr_key (a : addr) : bytes * N := (norm_ip (ip a), port a).
Definition key_eqb (x y : bytes * N) : bool := bytes_eqb (fst x) (fst y) && N.eqb (snd x) (snd y).

(* Addr.KRPC() *)
Definition addr_krpc (a : addr) : node_addr := mkNA (ip a) (Z.of_N (port a)).

(* ------------------------------------------------------------------ configuration *)
Record witem := mkItem {            (* bep44.Item as the put handler builds it *)
  it_bv : option bytes;             (* bencode.Marshal(args.V); None when args.V is nil *)
  it_k : bytes; it_salt : bytes; it_sig : bytes; it_cas : Z; it_seq : Z }.

Inductive put_result := PutOk | PutKrpcErr (e : krpc_error) | PutOtherErr.
Inductive get_result := GetNotFound | GetKrpcErr (e : krpc_error) | GetOtherErr (text : bytes)
                      | GetItem (i : witem).

Section Server.
  (* the BEP 44 store wrapper (bep44.Wrapper over a bep44.Store), a parameter here: it is modelled
     in Bep44.v and instantiated by the runner *)
  Variable Store : Type.
  Variable w_put : Store -> witem -> Z -> Store * put_result.
  Variable w_get : Store -> bytes -> Z -> Store * get_result.
  (* library functions kept abstract *)
  Variable sha1 : bytes -> bytes.
  Variable id_secure : N -> bytes -> bool.     (* NodeIdSecure(id, ip) *)

  Record config := mkCfg {
    c_root : N;                     (* own node id *)
    c_passive : bool;
    c_no_security : bool;
    c_peer_store : bool;            (* the bundled in-memory peer store is configured *)
    c_announce_cb : bool;           (* OnAnnouncePeer configured *)
    c_hook : msg -> bool;           (* OnQuery: true = propagate (absent hook = fun _ => true) *)
    c_wait_to_reply : bool;
    c_secret : bytes                (* token secret *)
  }.

  Variable cfg : config.

  (* ------------------------------------------------------------------ state *)
  Record node := mkNode {
    n_id : N; n_addr : addr;
    n_lq : option Z;                (* lastGotQuery, None = zero time *)
    n_lr : option Z;                (* lastGotResponse *)
    n_failed : bool;                (* failedLastQuestionablePing *)
    n_slot : nat                    (* physical bucket the entry was stored in *)
  }.

  Record txn := mkTxn { tx_key : bytes * N; tx_t : bytes; tx_qid : N }.

  Record peer := mkPeer { p_ih : bytes; p_ip : bytes; p_port : Z }.

  Record sstate := mkState {
    s_now : Z;
    s_nodes : list node;
    s_index : list ((bytes * N) * N);     (* table.addrs: address string -> ids *)
    s_pending : list txn;
    s_peers : list peer;
    s_store : Store;
    s_blocklist : list (N * N);           (* ranges over the 16-byte form *)
    s_closed : bool;
    s_next_t : N;                         (* transactions.DefaultIdIssuer.next (a lower bound) *)
    s_budget : option N                   (* send limiter tokens; None = never denies *)
  }.

  (* ------------------------------------------------------------------ constants *)
  Definition K : nat := Z.to_nat table_k.
  Definition reply_k : nat := Z.to_nat reply_nodes_k.
  Definition good_window : Z := hd 0%Z good_windows_ns.

  (* ------------------------------------------------------------------ blocklist *)
  Definition blocked (bl : list (N * N)) (b : bytes) : bool :=
    match to16 b with
    | Some x => let v := toN x in existsb (fun r => N.leb (fst r) v && N.leb v (snd r)) bl
    | None => false
    end.

  (* ------------------------------------------------------------------ node classification *)
  Definition node_bad (n : node) : bool :=
    N.eqb (n_id n) (c_root cfg)
    || N.eqb (n_id n) 0
    || negb (c_no_security cfg || id_secure (n_id n) (ip (n_addr n)))
    || n_failed n.

  Definition within (now : Z) (t : option Z) : bool :=
    match t with Some x => Z.ltb (now - x) good_window | None => false end.

  (* Server.IsGood *)
  Definition node_good (now : Z) (n : node) : bool :=
    negb (node_bad n) &&
    (within now (n_lr n) || (match n_lr n with Some _ => true | None => false end) && within now (n_lq n)).

  Definition node_questionable (now : Z) (n : node) : bool := negb (node_good now n) && negb (node_bad n).

  (* ------------------------------------------------------------------ routing table *)
  Definition slot_of (id : N) : nat := bucket_index (c_root cfg) id.

  Definition same_node (k : bytes * N) (id : N) (n : node) : bool :=
    N.eqb (n_id n) id && key_eqb (addr_key (n_addr n)) k.

  (* table.getNode: looks only in the bucket of the id *)
  Definition get_node (nodes : list node) (a : addr) (id : N) : option node :=
    if N.eqb id (c_root cfg) then None
    else find (fun n => Nat.eqb (n_slot n) (slot_of id) && same_node (addr_key a) id n) nodes.

  Definition bucket (nodes : list node) (i : nat) : list node :=
    filter (fun n => Nat.eqb (n_slot n) i) nodes.

  Definition index_has (ix : list ((bytes * N) * N)) (k : bytes * N) (id : N) : bool :=
    existsb (fun e => key_eqb (fst e) k && N.eqb (snd e) id) ix.

  Inductive outcome (A : Type) := Ok (a : A) | Panic.
  Arguments Ok {A}. Arguments Panic {A}.

  (* table.dropNode: panics when the index or the bucket does not hold the node *)
  Definition drop_node (s : sstate) (n : node) : outcome sstate :=
    let k := addr_key (n_addr n) in
    if negb (index_has (s_index s) k (n_id n)) then Panic
    else if N.eqb (n_id n) (c_root cfg) then Panic
    else if negb (existsb (fun m => Nat.eqb (n_slot m) (slot_of (n_id n)) && same_node k (n_id n) m) (s_nodes s)) then Panic
    else Ok (mkState (s_now s)
               (remove_first (fun m => Nat.eqb (n_slot m) (slot_of (n_id n)) && same_node k (n_id n) m) (s_nodes s))
               (remove_first (fun e => key_eqb (fst e) k && N.eqb (snd e) (n_id n)) (s_index s))
               (s_pending s) (s_peers s) (s_store s) (s_blocklist s) (s_closed s) (s_next_t s) (s_budget s)).

  (* table.addNode: the three error returns make Server.addNode panic *)
  Definition table_add (s : sstate) (n : node) : outcome sstate :=
    if N.eqb (n_id n) (c_root cfg) then Panic
    else
      let i := slot_of (n_id n) in
      if existsb (same_node (addr_key (n_addr n)) (n_id n)) (bucket (s_nodes s) i) then Panic
      else if Nat.leb K (length (bucket (s_nodes s) i)) then Panic
      else
        let n' := mkNode (n_id n) (n_addr n) (n_lq n) (n_lr n) (n_failed n) i in
        Ok (mkState (s_now s) (s_nodes s ++ [n']) (s_index s ++ [(addr_key (n_addr n), n_id n)])
              (s_pending s) (s_peers s) (s_store s) (s_blocklist s) (s_closed s) (s_next_t s) (s_budget s)).

  (* which entries of a full bucket Server.addNode may drop to make room for n *)
  Definition evictable (now : Z) (newcomer : node) (bn : node) : bool :=
    node_bad bn || (node_good now newcomer && match n_lr bn with None => true | Some _ => false end).

  (* Server.addNode.  [victim] is the implementation's (map-order dependent) choice when the
     bucket is full: the key of the dropped entry, None when nothing was dropped. *)
  Inductive add_result := Added | RejectedBad | RejectedNoRoom | BadChoice.

  Definition add_node (s : sstate) (n : node) (victim : option ((bytes * N) * N)) : outcome (sstate * add_result) :=
    if node_bad n then Ok (s, RejectedBad)
    else
      let i := slot_of (n_id n) in
      let b := bucket (s_nodes s) i in
      if Nat.leb K (length b) then
        let cands := filter (evictable (s_now s) n) b in
        match cands, victim with
        | [], None => Ok (s, RejectedNoRoom)
        | [], Some _ => Ok (s, BadChoice)
        | _ :: _, None => Ok (s, BadChoice)
        | _ :: _, Some (vk, vid) =>
            match find (same_node vk vid) cands with
            | None => Ok (s, BadChoice)
            | Some v =>
                match drop_node s v with
                | Panic => Panic
                | Ok s1 => match table_add s1 n with Panic => Panic | Ok s2 => Ok (s2, Added) end
                end
            end
        end
      else match victim with
           | Some _ => Ok (s, BadChoice)
           | None => match table_add s n with Panic => Panic | Ok s2 => Ok (s2, Added) end
           end.

  Inductive upd_kind := UQuery | UResponse | UNone | UFailedPing.

  Definition apply_update (now : Z) (u : upd_kind) (n : node) : node :=
    match u with
    | UQuery => mkNode (n_id n) (n_addr n) (Some now) (n_lr n) (n_failed n) (n_slot n)
    | UResponse => mkNode (n_id n) (n_addr n) (n_lq n) (Some now) false (n_slot n)
    | UNone => n
    | UFailedPing => mkNode (n_id n) (n_addr n) (n_lq n) (n_lr n) true (n_slot n)
    end.

  Fixpoint replace_node (k : bytes * N) (id : N) (f : node -> node) (l : list node) : list node :=
    match l with
    | [] => []
    | m :: l' => if Nat.eqb (n_slot m) (slot_of id) && same_node k id m then f m :: l'
                 else m :: replace_node k id f l'
    end.

  Definition with_nodes (s : sstate) (l : list node) : sstate :=
    mkState (s_now s) l (s_index s) (s_pending s) (s_peers s) (s_store s) (s_blocklist s) (s_closed s)
            (s_next_t s) (s_budget s).

  (* Server.updateNode *)
  Definition update_node (s : sstate) (a : addr) (id : option N) (try_add : bool) (u : upd_kind)
             (victim : option ((bytes * N) * N)) : outcome (sstate * add_result) :=
    match id with
    | None => Ok (s, match victim with None => RejectedBad | Some _ => BadChoice end)
    | Some i =>
        match get_node (s_nodes s) a i with
        | Some _ =>
            match victim with
            | Some _ => Ok (s, BadChoice)
            | None => Ok (with_nodes s (replace_node (addr_key a) i (apply_update (s_now s) u) (s_nodes s)), Added)
            end
        | None =>
            if negb try_add || N.eqb i (c_root cfg) then
              Ok (s, match victim with None => RejectedBad | Some _ => BadChoice end)
            else add_node s (apply_update (s_now s) u (mkNode i a None None false (slot_of i))) victim
        end
    end.

  (* ------------------------------------------------------------------ tokens *)
  Definition be64 (z : Z) : bytes := ofN 8 (Z.to_N (z mod 18446744073709551616)).

  Definition token_for (ip16 : bytes) (idx : Z) : bytes := sha1 (ip16 ++ be64 idx ++ c_secret cfg).

  (* t.UnixNano() / int64(interval): Go's truncating division *)
  Definition token_idx (now : Z) : Z := Z.quot now token_interval_ns.

  Definition create_token (a : addr) (now : Z) : option bytes :=     (* None: the code panics *)
    match to16 (ip a) with Some x => Some (token_for x (token_idx now)) | None => None end.

  Fixpoint valid_token_from (ip16 tok : bytes) (now : Z) (n : nat) : bool :=
    bytes_eqb (token_for ip16 (token_idx now)) tok
    || match n with O => false | S k => valid_token_from ip16 tok (now - token_interval_ns) k end.

  Definition valid_token (tok : bytes) (a : addr) (now : Z) : option bool :=
    match to16 (ip a) with
    | Some x => Some (valid_token_from x tok now (Z.to_nat token_max_delta))
    | None => None
    end.

  (* ------------------------------------------------------------------ BEP 32 *)
  Definition wants_contain (ws : list bytes) (w : bytes) : bool := existsb (bytes_eqb w) ws.

  Definition want_list (a : msg_args) : list bytes := match a_want a with Some l => l | None => [] end.

  Definition should_return_nodes (ws : list bytes) (src : bytes) : bool :=
    match ws with [] => match to4 src with Some _ => true | None => false end | _ => wants_contain ws s_n4 end.

  Definition should_return_nodes6 (ws : list bytes) (src : bytes) : bool :=
    match ws with [] => match to4 src with Some _ => false | None => true end | _ => wants_contain ws s_n6 end.

  (* filterPeers *)
  Definition filter_peer (retain4 retain6 : bool) (p : peer) : option node_addr :=
    let b := p_ip p in
    if retain4 && Nat.eqb (length b) 4 then Some (mkNA b (p_port p))
    else if retain6 && Nat.eqb (length b) 16 then Some (mkNA b (p_port p))
    else match (if retain4 then to4 b else None) with
         | Some x => Some (mkNA x (p_port p))
         | None => match (if retain6 then to16 b else None) with
                   | Some x => Some (mkNA x (p_port p))
                   | None => None
                   end
         end.

  Definition get_peers_of (s : sstate) (ih : bytes) : list peer :=
    filter (fun p => bytes_eqb (p_ih p) ih) (s_peers s).

  Fixpoint opt_list {A} (l : list (option A)) : list A :=
    match l with [] => [] | Some x :: r => x :: opt_list r | None :: r => opt_list r end.

  Definition filter_peers (src : bytes) (ws : list bytes) (ps : list peer) : list node_addr :=
    opt_list (map (filter_peer (should_return_nodes ws src) (should_return_nodes6 ws src)) ps).

  (* InMemory.AddPeer: one entry per (infohash, raw ip bytes) *)
  Definition add_peer (ps : list peer) (p : peer) : list peer :=
    filter (fun q => negb (bytes_eqb (p_ih q) (p_ih p) && bytes_eqb (p_ip q) (p_ip p))) ps ++ [p].

  (* ------------------------------------------------------------------ closest good nodes *)
  Definition node_info_of (n : node) : node_info := mkNI (ofN 20 (n_id n)) (addr_krpc (n_addr n)).

  Definition ni_eqb (a b : node_info) : bool :=
    bytes_eqb (ni_id a) (ni_id b) && bytes_eqb (na_ip (ni_addr a)) (na_ip (ni_addr b))
    && Z.eqb (na_port (ni_addr a)) (na_port (ni_addr b)).

  (* first bucket table.closestNodes looks at *)
  Definition start_bucket (target : N) : nat :=
    if N.eqb target (c_root cfg) then 159%nat else slot_of target.

  (* candidates of bucket i: good and of the requested family *)
  (* the compact encoders convert each address with To4 (nodes) / To16 (nodes6) *)
  Definition wire_info (v6 : bool) (n : node) : node_info :=
    let i := ip (n_addr n) in
    let i' := if v6 then match to16 i with Some x => x | None => i end
              else match to4 i with Some x => x | None => i end in
    mkNI (ofN 20 (n_id n)) (mkNA i' (Z.of_N (port (n_addr n)))).

  Definition cands (s : sstate) (v6 : bool) (i : nat) : list node_info :=
    map (wire_info v6)
        (filter (fun n => node_good (s_now s) n &&
                          (if v6 then match to4 (ip (n_addr n)) with Some _ => false | None => true end
                           else match to4 (ip (n_addr n)) with Some _ => true | None => false end))
                (bucket (s_nodes s) i)).

  Fixpoint remove_ni (x : node_info) (l : list node_info) : option (list node_info) :=
    match l with
    | [] => None
    | y :: l' => if ni_eqb x y then Some l' else option_map (cons y) (remove_ni x l')
    end.

  (* [obs] starts with a permutation of all of [c] (when obs is long enough) or is a
     duplicate-free selection from [c]; returns the rest of obs and whether c was exhausted *)
  Fixpoint take_from (c obs : list node_info) (fuel : nat) : option (list node_info * bool) :=
    match c with
    | [] => Some (obs, true)
    | _ :: _ =>
        match obs with
        | [] => Some ([], false)
        | x :: obs' =>
            match fuel with
            | O => None
            | S f => match remove_ni x c with
                     | None => None
                     | Some c' => take_from c' obs' f
                     end
            end
        end
    end.

  (* accept the observed reply list: walk buckets start..0, each bucket's candidates appear as a
     block in arbitrary order; stop once k entries were collected; then cut to k.
     [collected] counts entries already matched. *)
  Fixpoint accept_walk (s : sstate) (v6 : bool) (k : nat) (i : nat) (collected : nat) (obs : list node_info)
           (fuel : nat) : bool :=
    if Nat.leb k collected then match obs with [] => true | _ => false end
    else
      let c := cands s v6 i in
      (* the cut: at most k - collected of this bucket can still appear *)
      let room := (k - collected)%nat in
      match take_from c (firstn room obs) (S (length c)) with
      | None => false
      | Some (rest, exhausted) =>
          let used := (length (firstn room obs) - length rest)%nat in
          if Nat.ltb (length c) room || Nat.eqb (length c) room then
            (* whole bucket fits: all of it must be present, then continue below *)
            exhausted && Nat.eqb used (length c) &&
            match i, fuel with
            | O, _ => match skipn used obs with [] => true | _ => false end
            | S j, S f => accept_walk s v6 k j (collected + used) (skipn used obs) f
            | S _, O => false
            end
          else
            (* bucket larger than the room: exactly room entries of it, nothing after *)
            Nat.eqb used room && Nat.eqb (length obs) room
      end.

  Definition accept_closest (s : sstate) (v6 : bool) (target : N) (obs : list node_info) : bool :=
    accept_walk s v6 reply_k (start_bucket target) 0 obs 160.

  (* ------------------------------------------------------------------ outputs *)
  Inductive send_kind := SReply | SError | SQuery.

  Inductive effect :=
  | ESend (dst : addr) (m : msg) (kind : send_kind)
  | EAnnounceCb (ih : bytes) (src_ip : bytes) (port : Z) (port_ok : bool)
  | EPeerAdd (ih : bytes) (src_ip : bytes) (port : Z)
  | ECompleted (qid : N) (reply : msg)
  | EDropped (why : N)            (* a send suppressed by closed / blocklist / budget: 1,2,3 *)
  | EQueryFailed (qid : N)        (* Query returned a send error *)
  | EQueryCancelled (qid : N).    (* Query returned the context error *)

  Definition own_id_bytes : bytes := ofN 20 (c_root cfg).

  Definition with_budget (s : sstate) (b : option N) : sstate :=
    mkState (s_now s) (s_nodes s) (s_index s) (s_pending s) (s_peers s) (s_store s) (s_blocklist s)
            (s_closed s) (s_next_t s) b.

  (* writeToNode with rate = true, wait = WaitToReply: closed, blocklist, limiter, write *)
  Definition write_rated (s : sstate) (dst : addr) (m : msg) (kind : send_kind) : sstate * list effect :=
    if s_closed s then (s, [EDropped 1])
    else if blocked (s_blocklist s) (ip dst) then (s, [EDropped 2])
    else match s_budget s with
         | None => (s, [ESend dst m kind])
         | Some 0%N => (s, [EDropped 3])
         | Some b => (with_budget s (Some (N.pred b)), [ESend dst m kind])
         end.

  Definition reply_msg (src : addr) (t : bytes) (r : krpc_return) : msg :=
    mkMsg [] None t s_r
          (Some (mkRet own_id_bytes (r_nodes r) (r_nodes6 r) (r_token r) (r_values r) (r_bfsd r) (r_bfpe r)
                       (r_interval r) (r_num r) (r_samples r) (r_v r) (r_k r) (r_sig r) (r_seq r)))
          None (addr_krpc src) false [].

  Definition error_msg (t : bytes) (e : krpc_error) : msg :=
    mkMsg [] None t s_e None (Some e) empty_na false [].

  Definition reply (s : sstate) (src : addr) (t : bytes) (r : krpc_return) :=
    write_rated s src (reply_msg src t r) SReply.

  Definition send_error (s : sstate) (src : addr) (t : bytes) (e : krpc_error) :=
    write_rated s src (error_msg t e) SError.

  Definition err_missing_args : krpc_error :=
    mkErr err_value_missing_arguments
          ["m";"i";"s";"s";"i";"n";"g";" ";"a";"r";"g";"u";"m";"e";"n";"t";"s";" ";"d";"i";"c";"t"]%byte.
  Definition err_method_unknown : krpc_error :=
    mkErr err_value_method_unknown ["M";"e";"t";"h";"o";"d";" ";"U";"n";"k";"n";"o";"w";"n"]%byte.
  Definition err_expected_seq : krpc_error :=
    mkErr err_ProtocolError
          ["e";"x";"p";"e";"c";"t";"e";"d";" ";"s";"e";"q";" ";"a";"r";"g";"u";"m";"e";"n";"t"]%byte.

  (* what the implementation chose where Go leaves it open, as observed by the harness *)
  Record choice := mkChoice {
    ch_victim : option ((bytes * N) * N);        (* entry dropped by addNode, if any *)
    ch_nodes : list node_info;                   (* `nodes` of the reply, in order *)
    ch_nodes6 : list node_info;
    ch_values : list node_addr                   (* `values` of the reply, in order *)
  }.

  Definition opt_nonempty {A} (l : list A) : option (list A) := match l with [] => None | _ => Some l end.

  (* setReturnNodes (repaired: relative to the method's own target field) *)
  Definition set_return_nodes (s : sstate) (src : addr) (a : msg_args) (target : N) (ch : choice)
             (r : krpc_return) : option krpc_return :=
    let w4 := should_return_nodes (want_list a) (ip src) in
    let w6 := should_return_nodes6 (want_list a) (ip src) in
    let ok4 := if w4 then accept_closest s false target (ch_nodes ch) else match ch_nodes ch with [] => true | _ => false end in
    let ok6 := if w6 then accept_closest s true target (ch_nodes6 ch) else match ch_nodes6 ch with [] => true | _ => false end in
    if ok4 && ok6 then
      Some (mkRet (r_id r) (opt_nonempty (ch_nodes ch)) (opt_nonempty (ch_nodes6 ch)) (r_token r) (r_values r)
                  (r_bfsd r) (r_bfpe r) (r_interval r) (r_num r) (r_samples r) (r_v r) (r_k r) (r_sig r) (r_seq r))
    else None.

  (* the observed `values` must be a permutation of the filtered peers *)
  Definition na_eqb (a b : node_addr) : bool := bytes_eqb (na_ip a) (na_ip b) && Z.eqb (na_port a) (na_port b).
  Fixpoint remove_na (x : node_addr) (l : list node_addr) : option (list node_addr) :=
    match l with
    | [] => None
    | y :: l' => if na_eqb x y then Some l' else option_map (cons y) (remove_na x l')
    end.
  Fixpoint is_perm_na (a b : list node_addr) : bool :=
    match a with
    | [] => match b with [] => true | _ => false end
    | x :: a' => match remove_na x b with Some b' => is_perm_na a' b' | None => false end
    end.

  Definition wire_port (p : Z) : Z := p mod 65536.      (* uint16(port) in MarshalBinary *)

  Definition with_peers (s : sstate) (ps : list peer) : sstate :=
    mkState (s_now s) (s_nodes s) (s_index s) (s_pending s) ps (s_store s) (s_blocklist s) (s_closed s)
            (s_next_t s) (s_budget s).
  Definition with_store (s : sstate) (st : Store) : sstate :=
    mkState (s_now s) (s_nodes s) (s_index s) (s_pending s) (s_peers s) st (s_blocklist s) (s_closed s)
            (s_next_t s) (s_budget s).

  Inductive hq_result := HQ (s : sstate) (out : list effect) | HQPanic | HQBadChoice.

  Definition id_of (b : bytes) : N := toN b.

  Definition ret_with_token (r : krpc_return) (tok : option bytes) : krpc_return :=
    mkRet (r_id r) (r_nodes r) (r_nodes6 r) tok (r_values r) (r_bfsd r) (r_bfpe r) (r_interval r)
          (r_num r) (r_samples r) (r_v r) (r_k r) (r_sig r) (r_seq r).

  Definition ret_with_values (r : krpc_return) (v : option (list node_addr)) : krpc_return :=
    mkRet (r_id r) (r_nodes r) (r_nodes6 r) (r_token r) v (r_bfsd r) (r_bfpe r) (r_interval r)
          (r_num r) (r_samples r) (r_v r) (r_k r) (r_sig r) (r_seq r).

  Definition lift (p : sstate * list effect) : hq_result := HQ (fst p) (snd p).

  (* Server.handleQuery after the table update, OnQuery and Passive checks *)
  Definition dispatch (s : sstate) (src : addr) (m : msg) (ch : choice) : hq_result :=
    let t := m_t m in
    let q := m_q m in
    if bytes_eqb q s_ping then lift (reply s src t empty_return)
    else if bytes_eqb q s_get_peers then
      match m_a m with
      | None => lift (send_error s src t err_missing_args)
      | Some a =>
          let r0 :=
            if c_peer_store cfg then
              let expect := map (fun x => mkNA (na_ip x) (wire_port (na_port x)))
                                (filter_peers (ip src) (want_list a) (get_peers_of s (a_info_hash a))) in
              if is_perm_na (ch_values ch) expect then
                match create_token src (s_now s) with
                | None => None
                | Some tok => Some (ret_with_token (ret_with_values empty_return (opt_nonempty (ch_values ch))) (Some tok))
                end
              else None
            else match ch_values ch with [] => Some empty_return | _ => None end in
          match r0 with
          | None => HQBadChoice
          | Some r =>
              match r_values r with
              | Some _ => match ch_nodes ch, ch_nodes6 ch with
                          | [], [] => lift (reply s src t r)
                          | _, _ => HQBadChoice
                          end
              | None => match set_return_nodes s src a (id_of (a_info_hash a)) ch r with
                        | None => HQBadChoice
                        | Some r' => lift (reply s src t r')
                        end
              end
          end
      end
    else if bytes_eqb q s_find_node then
      match m_a m with
      | None => lift (send_error s src t err_missing_args)
      | Some a => match set_return_nodes s src a (id_of (a_target a)) ch empty_return with
                  | None => HQBadChoice
                  | Some r => lift (reply s src t r)
                  end
      end
    else if bytes_eqb q s_announce_peer then
      match m_a m with
      | None => lift (send_error s src t err_missing_args)         (* repaired D1 *)
      | Some a =>
          match valid_token (a_token a) src (s_now s) with
          | None => HQPanic
          | Some false => HQ s []
          | Some true =>
              let p0 := match a_port a with Some p => (p, true) | None => (0%Z, false) end in
              let p1 := if a_implied_port a then (Z.of_N (port src), true) else p0 in
              let cb := if c_announce_cb cfg then [EAnnounceCb (a_info_hash a) (ip src) (fst p1) (snd p1)] else [] in
              let s1 := if c_peer_store cfg then with_peers s (add_peer (s_peers s) (mkPeer (a_info_hash a) (ip src) (fst p1))) else s in
              let st := if c_peer_store cfg then [EPeerAdd (a_info_hash a) (ip src) (fst p1)] else [] in
              let '(s2, out) := reply s1 src t empty_return in
              HQ s2 (cb ++ st ++ out)
          end
      end
    else if bytes_eqb q s_put then
      match m_a m with
      | None => lift (send_error s src t err_missing_args)         (* repaired D1 *)
      | Some a =>
          match valid_token (a_token a) src (s_now s) with
          | None => HQPanic
          | Some false => HQ s []
          | Some true =>
              match a_seq a with
              | None => lift (send_error s src t err_expected_seq)
              | Some seq =>
                  let it := mkItem (option_map benc (a_v a)) (a_k a) (a_salt a) (a_sig a) (a_cas a) seq in
                  let '(st, res) := w_put (s_store s) it (s_now s) in
                  let s1 := with_store s st in
                  match res with
                  | PutOk => lift (reply s1 src t empty_return)
                  | PutKrpcErr e => lift (send_error s1 src t e)
                  | PutOtherErr => lift (send_error s1 src t err_method_unknown)
                  end
              end
          end
      end
    else if bytes_eqb q s_get then
      match m_a m with
      | None => lift (send_error s src t err_missing_args)
      | Some a =>
          match set_return_nodes s src a (id_of (a_target a)) ch empty_return with
          | None => HQBadChoice
          | Some r0 =>
              match create_token src (s_now s) with
              | None => HQPanic
              | Some tok =>
                  let r := ret_with_token r0 (Some tok) in
                  let '(st, res) := w_get (s_store s) (a_target a) (s_now s) in
                  let s1 := with_store s st in
                  match res with
                  | GetNotFound => lift (reply s1 src t r)
                  | GetKrpcErr e => lift (send_error s1 src t e)
                  | GetOtherErr txt => lift (send_error s1 src t (mkErr err_GenericError txt))
                  | GetItem it =>
                      let rs := mkRet (r_id r) (r_nodes r) (r_nodes6 r) (r_token r) (r_values r) (r_bfsd r) (r_bfpe r)
                                      (r_interval r) (r_num r) (r_samples r) (r_v r) (r_k r) (r_sig r) (Some (it_seq it)) in
                      let gated := match a_seq a with Some q => Z.leb (it_seq it) q | None => false end in
                      if gated then lift (reply s1 src t rs)
                      else
                        match it_bv it with
                        | None => HQPanic                       (* MustMarshal(nil) cannot occur for a stored item *)
                        | Some bv =>
                            lift (reply s1 src t
                                   (mkRet (r_id rs) (r_nodes rs) (r_nodes6 rs) (r_token rs) (r_values rs) (r_bfsd rs)
                                          (r_bfpe rs) (r_interval rs) (r_num rs) (r_samples rs) bv (it_k it) (it_sig it)
                                          (r_seq rs)))
                        end
                  end
              end
          end
      end
    else lift (send_error s src t err_method_unknown).

  Definition handle_query (s : sstate) (src : addr) (m : msg) (ch : choice) : hq_result :=
    match update_node s src (option_map id_of (sender_id m)) (negb (m_ro m)) UQuery (ch_victim ch) with
    | Panic => HQPanic
    | Ok (_, BadChoice) => HQBadChoice
    | Ok (s1, _) =>
        if negb (c_hook cfg m) then HQ s1 []
        else if c_passive cfg then HQ s1 []
        else dispatch s1 src m ch
    end.

  (* ------------------------------------------------------------------ events *)
  Inductive event :=
  | EPacket (src : addr) (size : N) (dec : option msg)     (* a datagram read from the socket *)
  | EAdvance (d : Z)
  | EAddNode (ni_ip : bytes) (ni_port : N) (id : N)        (* Server.AddNode with a non-zero id *)
  | EQueryStart (qid : N) (dst : addr) (q : bytes) (a : msg_args) (rated : bool) (t : bytes)
  | EQueryEnd (qid : N)                                    (* Query returns: context done / timeout *)
  | EFailedPing (a : addr) (id : N)                        (* questionable-node ping got no answer *)
  | ESetBlocklist (bl : list (N * N))
  | EClose.

  Definition no_choice : choice := mkChoice None [] [] [].

  Definition txn_match (k : bytes * N) (t : bytes) (x : txn) : bool :=
    key_eqb (tx_key x) k && bytes_eqb (tx_t x) t.

  (* binary.PutUvarint *)
  Fixpoint uvarint_fuel (fuel : nat) (n : N) : bytes :=
    match fuel with
    | O => []
    | S f => if N.ltb n 128 then [byte_of_N n] else byte_of_N (128 + n mod 128) :: uvarint_fuel f (n / 128)
    end.
  Definition uvarint (n : N) : bytes := uvarint_fuel 10 n.

  Fixpoint uvarint_decode (b : bytes) : option N :=
    match b with
    | [] => None
    | x :: r => let v := Byte.to_N x in
                if N.ltb v 128 then match r with [] => Some v | _ => None end
                else match uvarint_decode r with
                     | Some hi => if N.eqb hi 0 then None else Some (v - 128 + 128 * hi)%N
                     | None => None
                     end
    end.

  Definition with_pending (s : sstate) (p : list txn) (nt : N) : sstate :=
    mkState (s_now s) (s_nodes s) (s_index s) p (s_peers s) (s_store s) (s_blocklist s) (s_closed s) nt (s_budget s).

  Definition query_msg (q : bytes) (a : msg_args) (t : bytes) : msg :=
    mkMsg q (Some (mkArgs own_id_bytes (a_info_hash a) (a_target a) (a_token a) (a_port a) (a_implied_port a)
                          (a_want a) (a_noseed a) (a_scrape a) (a_v a) (a_seq a) (a_cas a) (a_k a) (a_salt a) (a_sig a)))
          t s_q None None empty_na (c_passive cfg) [].

  Inductive step_result := SR (s : sstate) (out : list effect) | SRPanic | SRBadChoice.

  Definition step (s : sstate) (e : event) (ch : choice) : step_result :=
    match e with
    | EPacket src size dec =>
        (* serve(): oversize, port 0, closed, blocked; processPacket: undecodable, closed *)
        if N.eqb size (Z.to_N udp_buf) then SR s []
        else if N.eqb (port src) 0 then SR s []
        else if s_closed s then SR s []
        else if blocked (s_blocklist s) (ip src) then SR s []
        else match dec with
             | None => SR s []
             | Some m =>
                 if bytes_eqb (m_y m) s_q then
                   match handle_query s src m ch with
                   | HQ s' out => SR s' out
                   | HQPanic => SRPanic
                   | HQBadChoice => SRBadChoice
                   end
                 else
                   let k := addr_key src in
                   match find (txn_match k (m_t m)) (s_pending s) with
                   | None => SR s []
                   | Some x =>
                       let s1 := with_pending s (remove_first (txn_match k (m_t m)) (s_pending s)) (s_next_t s) in
                       match update_node s1 src (option_map id_of (sender_id m)) (negb (m_ro m)) UResponse (ch_victim ch) with
                       | Panic => SRPanic
                       | Ok (_, BadChoice) => SRBadChoice
                       | Ok (s2, _) => SR s2 [ECompleted (tx_qid x) m]
                       end
                   end
             end
    | EAdvance d =>
        SR (mkState (s_now s + d) (s_nodes s) (s_index s) (s_pending s) (s_peers s) (s_store s) (s_blocklist s)
                    (s_closed s) (s_next_t s) (s_budget s)) []
    | EAddNode i p id =>
        match update_node s (mkAddr i p) (Some id) true UNone (ch_victim ch) with
        | Panic => SRPanic
        | Ok (_, BadChoice) => SRBadChoice
        | Ok (s1, _) => SR s1 []
        end
    | EQueryStart qid dst q a rated t =>
        (* a send that cannot happen (closed, blocked destination, no budget) makes Query return a
           send error at once; its transaction id is registered and removed again (unobservable) *)
        let s0 := with_pending s (s_pending s) (N.succ (s_next_t s)) in
        if s_closed s then SR s0 [EDropped 1; EQueryFailed qid]
        else if blocked (s_blocklist s) (ip dst) then SR s0 [EDropped 2; EQueryFailed qid]
        else if rated && match s_budget s with Some 0%N => true | _ => false end then SR s0 [EDropped 3; EQueryFailed qid]
        else
        (* the observed transaction id must be a fresh one of the global issuer *)
        match uvarint_decode t with
        | None => SRBadChoice
        | Some n =>
            if N.ltb n (s_next_t s) then SRBadChoice
            else if existsb (txn_match (addr_key dst) t) (s_pending s) then SRPanic   (* Dispatcher.Add panics *)
            else
              let s1 := with_pending s (s_pending s ++ [mkTxn (addr_key dst) t qid]) (N.succ n) in
              let m := query_msg q a t in
              if rated then
                match s_budget s1 with
                | None => SR s1 [ESend dst m SQuery]
                | Some 0%N => SR s0 [EDropped 3; EQueryFailed qid]
                | Some b => SR (with_budget s1 (Some (N.pred b))) [ESend dst m SQuery]
                end
              else SR s1 [ESend dst m SQuery]
        end
    | EQueryEnd qid =>
        if existsb (fun x => N.eqb (tx_qid x) qid) (s_pending s)
        then SR (with_pending s (filter (fun x => negb (N.eqb (tx_qid x) qid)) (s_pending s)) (s_next_t s)) [EQueryCancelled qid]
        else SR s []
    | EFailedPing a id =>
        match update_node s a (Some id) false UFailedPing None with
        | Panic => SRPanic
        | Ok (s1, _) => SR s1 []
        end
    | ESetBlocklist bl =>
        SR (mkState (s_now s) (s_nodes s) (s_index s) (s_pending s) (s_peers s) (s_store s) bl (s_closed s)
                    (s_next_t s) (s_budget s)) []
    | EClose =>
        SR (mkState (s_now s) (s_nodes s) (s_index s) (s_pending s) (s_peers s) (s_store s) (s_blocklist s) true
                    (s_next_t s) (s_budget s)) []
    end.

  (* Server.TraversalNodeFilter *)
  Definition valid_node_addr (i : bytes) (p : N) : bool :=
    negb (N.eqb p 0) &&
    negb (match to4 i with Some (x :: _) => N.eqb (Byte.to_N x) 0 | _ => false end).

  Definition traversal_node_filter (s : sstate) (i : bytes) (p : N) (id : option N) : bool :=
    valid_node_addr i p && negb (blocked (s_blocklist s) i) &&
    match id with None => true | Some x => c_no_security cfg || id_secure x i end.

  (* API views *)
  Definition num_nodes (s : sstate) : nat := length (s_nodes s).
  Definition num_good (s : sstate) : nat := length (filter (node_good (s_now s)) (s_nodes s)).
  Definition exported_nodes (s : sstate) : list node_info :=
    map node_info_of (filter (fun n => negb (node_bad n)) (s_nodes s)).

  Definition init_state (st : Store) (now : Z) (bl : list (N * N)) (budget : option N) : sstate :=
    mkState now [] [] [] [] st bl false 0 budget.
End Server.
