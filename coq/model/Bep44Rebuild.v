(* Bep44Rebuild.v — the BEP 44 store wrapper over an underlying Store that REBUILDS items.  No proofs.

   bep44.Store is an exported interface (ServerConfig.Store): an implementation outside the package
   need not keep the *Item pointer it is given.  Bep44.v models bep44.Memory, which does (so that the
   time stamp Wrapper.Put writes into the unexported field [created] is what Wrapper.Get reads back).
   A store that keeps items in its own representation (bep44.Put records via Item.ToPut / Put.ToItem,
   a bencoded blob, a database row) can only carry the EXPORTED fields: what it hands back has the zero
   time.Time in [created].  This file adds the environment's choice "the store forgets the stamp":

     [skind]   k_forget_put : the stamp is lost when the item is written (the representation has no
                              such field: record / bencode / persistent stores)
               k_forget_get : the stamp is lost when the item is read back (the store keeps the item
                              it was given and rebuilds a fresh Item for every Get)
               both false   : a store that copies items by value keeps the stamp: bep44.Memory's model

   Code-to-model map (bep44/store.go on the tree as pinned)
     Wrapper.Put   CheckIncoming reads seq, cas and value of the stored item only   [wrapper_put_k]
     Wrapper.Get   `i.created.Add(w.exp).After(time.Now())` with i.created the zero time: the zero time
                   is January 1 of year 1, more than 2^63 ns before 1970, and a time.Duration is at most
                   2^63-1 ns: the comparison is false for every configurable expiry, the item counts as
                   expired: s.Del, ErrItemNotFound                                   [wrapper_get_k]

   Times are ns relative to the Unix epoch; [go_zero_time] is Go's zero time.Time on that scale.
   [sha1] and [ed_verify] are Section variables as in Bep44.v. *)
From Dht Require Import Base Bep44.
From DhtGen Require Import Params.
Local Open Scope Z_scope.

(* time.Time{}: 0001-01-01 00:00:00 UTC = -62135596800 s Unix *)
Definition go_zero_time : Z := -62135596800 * 1000000000.
(* the largest time.Duration (ServerConfig.Exp is one) *)
Definition max_duration : Z := 9223372036854775807.

Record skind := mkKind { k_forget_put : bool; k_forget_get : bool }.

Definition plain_kind : skind := mkKind false false.

Definition forgets (k : skind) : bool := k_forget_put k || k_forget_get k.

(* the item with its exported fields only *)
Definition forget (i : item) : item := stamp go_zero_time i.

Definition kstore_get (k : skind) (t : bytes) (s : store) : option item :=
  if k_forget_get k then option_map forget (store_get t s) else store_get t s.

Definition kstore_put (k : skind) (t : bytes) (i : item) (s : store) : store :=
  store_put t (if k_forget_put k then forget i else i) s.

(* every stored item has lost its stamp *)
Definition all_forgotten (s : store) : Prop :=
  forall t i, store_get t s = Some i -> it_created i = go_zero_time.

(* does the observation hand an item (its value) to the caller / the querying node *)
Definition obs_serves (o : obs) : bool :=
  match o with
  | OGet (Some _) => true
  | OWireGet g => match gr_seq g, gr_val g with None, None => false | _, _ => true end
  | _ => false
  end.

Section Bep44Rebuild.
  Variable sha1 : bytes -> bytes.
  Variable ed_verify : bytes -> bytes -> bytes -> bool.

  (* Wrapper.Put: Check, s.Get, CheckIncoming, stamp, s.Put *)
  Definition wrapper_put_k (k : skind) (v : variant) (now : Z) (i : item) (s : store) : put_res * store :=
    match check ed_verify i with
    | Some e => (PErr e, s)
    | None =>
        let t := target sha1 i in
        match kstore_get k t s with
        | None => (POk, kstore_put k t (stamp now i) s)
        | Some st =>
            match check_incoming v st i with
            | Some e => (PErr e, s)
            | None => (POk, kstore_put k t (stamp now i) s)
            end
        end
    end.

  (* Wrapper.Get: s.Get, the expiry comparison on what the store handed back, s.Del *)
  Definition wrapper_get_k (k : skind) (exp now : Z) (t : bytes) (s : store) : option item * store :=
    match kstore_get k t s with
    | None => (None, s)
    | Some i => if now <? it_created i + exp then (Some i, s) else (None, store_del t s)
    end.

  Definition handle_put_k (k : skind) (v : variant) (now : Z) (a : put_args) (s : store) : srv_out * store :=
    match pa_seq a with
    | None => (SError err_ProtocolError, s)
    | Some q =>
        let '(r, s') := wrapper_put_k k v now (item_of_args a q) s in (put_result_to_wire r, s')
    end.

  Definition handle_get_k (k : skind) (exp now : Z) (t : bytes) (sq : option Z) (s : store) : get_reply * store :=
    match wrapper_get_k k exp now t s with
    | (None, s') => (mkGetReply None None, s')
    | (Some i, s') =>
        let gated := match sq with Some n => it_seq i <=? n | None => false end in
        (mkGetReply (Some (it_seq i))
                    (if gated then None else Some (it_bv i, it_k i, it_sig i)), s')
    end.

  Definition server_put_local_k (k : skind) (v : variant) (now : Z) (p : put_in) (s : store) : local_out * store :=
    let '(r, s') := wrapper_put_k k v now (put_to_item p) s in
    match r with
    | POk => (LQuery (args_of_put p), s')
    | _ => (LErr r, s')
    end.

  (* the events of Bep44.v over a store of kind [k] *)
  Definition kseq_step (k : skind) (v : variant) (exp : Z) (st : sstate) (e : event) : sstate * obs :=
    let now := s_clock st in
    match e with
    | EPut i => let '(r, s') := wrapper_put_k k v now i (s_store st) in (mkSState now s', OPut r)
    | EGet t => let '(r, s') := wrapper_get_k k exp now t (s_store st) in (mkSState now s', OGet r)
    | EAdvance d => (mkSState (now + d) (s_store st), ONone)
    | EWirePut a => let '(o, s') := handle_put_k k v now a (s_store st) in (mkSState now s', OWirePut o)
    | EWireGet t sq => let '(g, s') := handle_get_k k exp now t sq (s_store st) in (mkSState now s', OWireGet g)
    | ELocalPut p => let '(o, s') := server_put_local_k k v now p (s_store st) in (mkSState now s', OLocal o)
    end.

  Definition kseq_run (k : skind) (v : variant) (exp : Z) (evs : list event) (st : sstate) : sstate :=
    fold_left (fun s e => fst (kseq_step k v exp s e)) evs st.
End Bep44Rebuild.
