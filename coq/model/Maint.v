(* Maint.v — one pass of Server.TableMaintainer over the routing table (server.go: TableMaintainer,
   pingQuestionableNodesInBucket, shouldStopRefreshingBucket, refreshBucket, questionableNodePing),
   written on top of the server model's table (Server.v: node, bucket, node_good / node_bad /
   node_questionable, apply_update).  Executable, no proofs (proofs/MaintProofs.v).

   The pass, bucket by bucket in index order (the code holds the read lock except where noted):
     1. every entry of bucket i that is questionable NOW is pinged (one goroutine each, 3 tries); the pass
        waits for all of them.  An answered ping is an ordinary response (apply_update UResponse: the
        entry is good again, its failed flag cleared); a ping that got no usable answer sets
        failedLastQuestionablePing (apply_update UFailedPing: the entry is bad, evictable);
     2. if the bucket is full and holds no bad entry the pass goes on with bucket i+1;
     3. otherwise bucket i is refreshed: a traversal towards a random id of the bucket, seeded with every
        not-bad entry of the whole table.  What the table looks like afterwards is the environment's
        business (replies of remote nodes, other traffic): a function parameter [refresh];
     4. if the bucket still is not full-and-clean the pass ends here ("as deep as we can go"), else on
        with bucket i+1.
   The environment is a pair of parameters: [answers n] (what becomes of a questionable-node ping to n) and
   [refresh i nodes] (the table after refreshBucket(i) returned).  Theorems quantify over both. *)
From Coq Require Import List NArith ZArith Bool.
From Dht Require Import Base Msg Server.
Import ListNotations.

(* what becomes of a questionable-node ping: no usable answer within 3 tries / an answer carrying the id the entry is
   stored with / an answer carrying another id *)
Inductive ping_outcome := PSilent | PSameId | POtherId.

Section Maint.
  Variable id_secure : N -> bytes -> bool.
  Variable cfg : config.

  Definition m_bad (n : node) : bool := node_bad id_secure cfg n.
  Definition m_good (now : Z) (n : node) : bool := node_good id_secure cfg now n.
  Definition m_quest (now : Z) (n : node) : bool := node_questionable id_secure cfg now n.

  Definition nbuckets : nat := 160.

  (* Server.shouldStopRefreshingBucket on an open server *)
  Definition should_stop (nodes : list node) (i : nat) : bool :=
    Nat.eqb (length (bucket nodes i)) K && forallb (fun n => negb (m_bad n)) (bucket nodes i).

  (* pingQuestionableNodesInBucket: who is pinged *)
  Definition ping_targets (now : Z) (nodes : list node) (i : nat) : list node :=
    filter (m_quest now) (bucket nodes i).

  (* questionableNodePing: the outcome written back to the entry.  A reply carrying ANOTHER id than the entry's (the
     host came back under a new id) is credited by the packet path to the (address, id in the reply) entry; the ping
     "succeeded", so this entry is not marked, and it has not answered either: it stays as it is. *)
  Definition settle_ping (now : Z) (answers : node -> ping_outcome) (n : node) : node :=
    match answers n with
    | PSameId => apply_update now UResponse n
    | POtherId => n
    | PSilent => apply_update now UFailedPing n
    end.

  Definition after_pings (now : Z) (answers : node -> ping_outcome) (nodes : list node) (i : nat) : list node :=
    map (fun n => if Nat.eqb (n_slot n) i && m_quest now n then settle_ping now answers n else n) nodes.

  (* Server.notBadNodes: the seeds handed to the refresh traversal *)
  Definition not_bad_nodes (nodes : list node) : list node := filter (fun n => negb (m_bad n)) nodes.

  Inductive phase :=
  | PPing (i : nat) (targets : list node)        (* the pings of bucket i (possibly none) *)
  | PRefresh (i : nat) (seeds : list node)       (* refreshBucket(i) with these seeds *)
  | PBreak (i : nat)                             (* the pass ends at bucket i *)
  | PDone.                                       (* all buckets visited *)

  Fixpoint pass_from (fuel i : nat) (now : Z) (answers : node -> ping_outcome) (refresh : nat -> list node -> list node)
           (nodes : list node) : list phase * list node :=
    match fuel with
    | O => ([PDone], nodes)
    | S f =>
        let tg := ping_targets now nodes i in
        let n1 := after_pings now answers nodes i in
        if should_stop n1 i then
          let '(ph, nf) := pass_from f (S i) now answers refresh n1 in (PPing i tg :: ph, nf)
        else
          let seeds := not_bad_nodes n1 in
          let n2 := refresh i n1 in
          if should_stop n2 i then
            let '(ph, nf) := pass_from f (S i) now answers refresh n2 in (PPing i tg :: PRefresh i seeds :: ph, nf)
          else ([PPing i tg; PRefresh i seeds; PBreak i], n2)
    end.

  Definition pass := pass_from nbuckets 0.

  (* the refresh of a network in which nobody answers find_node: the table is unchanged *)
  Definition refresh_silent (i : nat) (nodes : list node) : list node := nodes.

  (* the refresh of a network in which the not-bad entries picked by [answersf] answer find_node with an
     empty node list: they are good afterwards, nothing is added *)
  Definition refresh_answering (now : Z) (answersf : node -> bool) (i : nat) (nodes : list node) : list node :=
    map (fun n => if negb (m_bad n) && answersf n then apply_update now UResponse n else n) nodes.
End Maint.
