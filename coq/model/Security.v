(* Security.v — byte-level transcription of /repo/security.go (maskForIP, crcIP, SecureNodeId,
   NodeIdSecure, isLocalNetwork), /repo/hash-tuple.go (HashTuple), /repo/server.go
   (ServerConfig.InitNodeId) and /repo/dht.go (MakeDeterministicNodeID), plus the word-level
   statement of the BEP 42 rule ([bep42_ok]) the code is proved against.  No proofs here.

   A net.IP is a byte string of any length (Go gives no guarantee); ids are 20-byte strings.
   Index-out-of-range panics of the Go code are the outcome [None].

   The two library hashes are parameters of the generic section ([crc] = CRC-32C, [hash] =
   SHA-1); the definitions used by the runner and by Props/C17.v instantiate them with the
   executable [crc32c] and [sha1], which the proofs never have to unfold. *)
From Dht Require Import Base Sha1 Crc32c.
From DhtGen Require Import Params.
Local Open Scope N_scope.

(* ---------- bytes ---------- *)
Definition bandb (a b : byte) : byte := byte_of_N (N.land (Byte.to_N a) (Byte.to_N b)).
Definition byte_is (a : byte) (v : N) : bool := N.eqb (Byte.to_N a) v.
Definition nthb (i : nat) (l : bytes) : byte := nth i l x00.

(* ---------- net.IP helpers (Go standard library, transcribed) ---------- *)

(* IP.To4: 4 bytes stay; 16 bytes with the ::ffff:0:0/96 prefix give the last 4; else nil *)
Definition to4 (ip : bytes) : option bytes :=
  if Nat.eqb (length ip) 4 then Some ip
  else if Nat.eqb (length ip) 16 && all_zero (firstn 10 ip)
          && byte_is (nthb 10 ip) 255 && byte_is (nthb 11 ip) 255
  then Some (skipn 12 ip)
  else None.

Definition to4_or_self (ip : bytes) : bytes :=
  match to4 ip with Some ip4 => ip4 | None => ip end.

Fixpoint masked_eqb (nn m ip : bytes) : bool :=
  match nn, m, ip with
  | [], _, _ => true
  | n :: nn', k :: m', x :: ip' =>
      N.eqb (N.land (Byte.to_N n) (Byte.to_N k)) (N.land (Byte.to_N x) (Byte.to_N k))
      && masked_eqb nn' m' ip'
  | _, _, _ => false
  end.

(* IPNet.Contains for an IPv4 network (nn, m both 4 bytes) *)
Definition ipnet_contains (nn m : bytes) (ip : bytes) : bool :=
  let ip := to4_or_self ip in
  if Nat.eqb (length ip) (length nn) then masked_eqb nn m ip else false.

(* IP.IsLinkLocalUnicast *)
Definition is_link_local_unicast (ip : bytes) : bool :=
  match to4 ip with
  | Some ip4 => byte_is (nthb 0 ip4) 169 && byte_is (nthb 1 ip4) 254
  | None => Nat.eqb (length ip) 16 && byte_is (nthb 0 ip) 254
            && N.eqb (N.land (Byte.to_N (nthb 1 ip)) 192) 128
  end.

Definition ipv6_loopback : bytes := repeat x00 15 ++ [x01].

(* IP.IsLoopback (IP.Equal with ::1 is byte equality once To4 is nil) *)
Definition is_loopback (ip : bytes) : bool :=
  match to4 ip with
  | Some ip4 => byte_is (nthb 0 ip4) 127
  | None => bytes_eqb ip ipv6_loopback
  end.

(* security.go: classA/B/C = 10.0.0.0/8, 172.16.0.0/12, 192.168.0.0/16 *)
Definition class_a_ip : bytes := [x0a; x00; x00; x00].
Definition class_a_mask : bytes := [xff; x00; x00; x00].
Definition class_b_ip : bytes := [xac; x10; x00; x00].
Definition class_b_mask : bytes := [xff; xf0; x00; x00].
Definition class_c_ip : bytes := [xc0; xa8; x00; x00].
Definition class_c_mask : bytes := [xff; xff; x00; x00].

(* isLocalNetwork *)
Definition is_local_network (ip : bytes) : bool :=
  if ipnet_contains class_a_ip class_a_mask ip then true
  else if ipnet_contains class_b_ip class_b_mask ip then true
  else if ipnet_contains class_c_ip class_c_mask ip then true
  else if is_link_local_unicast ip then true
  else if is_loopback ip then true
  else false.

(* ---------- masks (generated from security.go by srcfacts) ---------- *)
Definition mask_bytes (l : list Z) : bytes := map (fun z => byte_of_N (Z.to_N z)) l.
Definition mask4b : bytes := mask_bytes Params.mask4.
Definition mask6b : bytes := mask_bytes Params.mask6.

(* maskForIP *)
Definition mask_for_ip (ip : bytes) : bytes :=
  match to4 ip with Some _ => mask4b | None => mask6b end.

(* for i := range mask { ip[i] &= mask[i] } on the copy of ip: the whole (copied) ip with its
   prefix masked, or an index-out-of-range panic when ip is shorter than the mask *)
Fixpoint apply_mask (ip mask : bytes) : option bytes :=
  match mask, ip with
  | [], _ => Some ip
  | _ :: _, [] => None
  | k :: mask', x :: ip' => option_map (cons (bandb x k)) (apply_mask ip' mask')
  end.

(* crcIP up to the checksum: the bytes handed to crc32.Checksum *)
Definition crc_input (ip : bytes) (rand : byte) : option bytes :=
  let ip := to4_or_self ip in
  let mask := mask_for_ip ip in
  match apply_mask ip mask with
  | None => None
  | Some ipm =>
      match ipm with
      | [] => None                                     (* ip[0] |= r << 5 on an empty slice *)
      | x :: rest =>
          let r := N.land (Byte.to_N rand) 7 in
          (* uint8 arithmetic: r << 5 truncated to 8 bits *)
          let x' := byte_of_N (N.lor (Byte.to_N x) (Byte.to_N (byte_of_N (N.shiftl r 5)))) in
          Some (firstn (length mask) (x' :: rest))
      end
  end.

Section Generic.
  Variable crc : bytes -> N.       (* crc32.Checksum(_, Castagnoli) *)
  Variable hash : bytes -> bytes.  (* sha1.Sum *)

  (* crcIP *)
  Definition crc_ip_g (ip : bytes) (rand : byte) : option N :=
    option_map crc (crc_input ip rand).

  (* the three bytes SecureNodeId writes / NodeIdSecure compares, from the crc value:
     byte(crc>>24&0xff), byte(crc>>16&0xff), byte(crc>>8&0xf8) *)
  Definition crc_b0 (c : N) : byte := byte_of_N (N.land (N.shiftr c 24) 255).
  Definition crc_b1 (c : N) : byte := byte_of_N (N.land (N.shiftr c 16) 255).
  Definition crc_b2 (c : N) : byte := byte_of_N (N.land (N.shiftr c 8) 248).

  Definition write_crc (id : bytes) (c : N) : bytes :=
    match id with
    | i0 :: i1 :: i2 :: rest =>
        crc_b0 c :: crc_b1 c
        :: byte_of_N (N.lor (Byte.to_N (crc_b2 c)) (N.land (Byte.to_N i2) 7)) :: rest
    | _ => id   (* not reachable: ids are [20]byte *)
    end.

  (* SecureNodeId: the secured id, or None for the panic inside crcIP *)
  Definition secure_node_id_g (id ip : bytes) : option bytes :=
    match crc_ip_g ip (nthb 19 id) with
    | None => None
    | Some c => Some (write_crc id c)
    end.

  Definition check_crc (id : bytes) (c : N) : bool :=
    if negb (byte_eqb (nthb 0 id) (crc_b0 c)) then false
    else if negb (byte_eqb (nthb 1 id) (crc_b1 c)) then false
    else if negb (N.eqb (N.land (Byte.to_N (nthb 2 id)) 248) (Byte.to_N (crc_b2 c))) then false
    else true.

  (* NodeIdSecure *)
  Definition node_id_secure_g (id ip : bytes) : option bool :=
    if is_local_network ip then Some true
    else
      let ip := to4_or_self ip in
      match crc_ip_g ip (nthb 19 id) with
      | None => None
      | Some c => Some (check_crc id c)
      end.

  (* HashTuple: ret starts as 20 zero bytes; ret = sha1(ret ++ b) for each b *)
  Definition hash_tuple_g (bs : list bytes) : bytes :=
    fold_left (fun ret b => hash (ret ++ b)) bs (zero_bytes 20).

  (* MakeDeterministicNodeID(public): [addr_str] = public.String(), [ip] = addrIP(public) *)
  Definition make_deterministic_node_id_g (addr_str ip : bytes) : option bytes :=
    secure_node_id_g (hash addr_str) ip.

  (* ServerConfig, the fields InitNodeId reads *)
  Record node_cfg := {
    cfg_node_id : bytes;                    (* NodeId, 20 bytes *)
    cfg_conn : option (bytes * bytes);      (* Conn.LocalAddr().Network(), .String() *)
    cfg_public_ip : option bytes;           (* PublicIP, None = nil *)
    cfg_no_security : bool }.

  (* InitNodeId: (resulting NodeId, deterministic); [rnd] is the value RandomNodeID() returns *)
  Definition init_node_id_g (c : node_cfg) (rnd : bytes) : option (bytes * bool) :=
    if all_zero (cfg_node_id c) then
      match cfg_conn c, cfg_public_ip c with
      | Some (network, addr), Some ip =>
          option_map (fun id => (id, true)) (secure_node_id_g (hash_tuple_g [network; addr; ip]) ip)
      | _, _ =>
          match cfg_public_ip c with
          | Some ip =>
              if negb (cfg_no_security c)
              then option_map (fun id => (id, false)) (secure_node_id_g rnd ip)
              else Some (rnd, false)
          | None => Some (rnd, false)
          end
      end
    else Some (cfg_node_id c, false).

  (* relational step for the runner: [obs] is a possible result of InitNodeId (for some value of
     RandomNodeID()) iff running with [obs] itself as the random value reproduces it *)
  Definition accept_init_node_id_g (c : node_cfg) (obs : bytes) (det : bool) : bool :=
    match init_node_id_g c obs with
    | Some (id, d) => bytes_eqb id obs && Bool.eqb d det && Nat.eqb (length obs) 20
    | None => false
    end.

  (* ---------- BEP 42, stated on words (http://www.libtorrent.org/dht_sec.html) ---------- *)

  (* address family: IPv4 (4 bytes, or 16 bytes ::ffff:a.b.c.d) gives its 32-bit value *)
  Definition spec_v4_word (ip : bytes) : option N :=
    if Nat.eqb (length ip) 4 then Some (toN ip)
    else if Nat.eqb (length ip) 16 && N.eqb (toN ip / 2 ^ 32) 65535 (* 0xffff *)
    then Some (toN ip mod 2 ^ 32)
    else None.

  (* 10/8, 172.16/12, 192.168/16, 169.254/16, 127/8 *)
  Definition spec_local4 (w : N) : bool :=
    N.eqb (w / 2 ^ 24) 10 || N.eqb (w / 2 ^ 20) 2753 (* 0xac1 *) || N.eqb (w / 2 ^ 16) 49320 (* 0xc0a8 *)
    || N.eqb (w / 2 ^ 16) 43518 (* 0xa9fe *) || N.eqb (w / 2 ^ 24) 127.
  (* fe80::/10, ::1 *)
  Definition spec_local6 (w : N) : bool :=
    N.eqb (w / 2 ^ 118) 1018 (* 0x3fa *) || N.eqb w 1.

  Definition spec_local (ip : bytes) : bool :=
    match spec_v4_word ip with
    | Some w => spec_local4 w
    | None => Nat.eqb (length ip) 16 && spec_local6 (toN ip)
    end.

  Definition spec_mask4 : N := 51331071.               (* 0x030f3fff *)
  Definition spec_mask6 : N := 72909780498219007.      (* 0x0103070f1f3f7fff *)

  (* the 21 most significant bits of a 160-bit id, of a 32-bit crc *)
  Definition top21_id (id : bytes) : N := toN id / 2 ^ 139.
  Definition top21_crc (c : N) : N := c / 2 ^ 11.
  (* r = id[19] & 7 = id mod 8 *)
  Definition spec_rand (id : bytes) : N := toN id mod 8.

  Definition spec_crc (ip id : bytes) : N :=
    match spec_v4_word ip with
    | Some w => crc (ofN 4 (N.lor (N.land w spec_mask4) (N.shiftl (spec_rand id) 29)))
    | None => crc (ofN 8 (N.lor (N.land (toN ip / 2 ^ 64) spec_mask6) (N.shiftl (spec_rand id) 61)))
    end.

  Definition bep42_ok_g (ip id : bytes) : Prop :=
    spec_local ip = true \/ top21_id id = top21_crc (spec_crc ip id).
End Generic.

(* ---------- instantiation with the executable hashes ---------- *)
Definition crc_ip := crc_ip_g crc32c.
Definition secure_node_id := secure_node_id_g crc32c.
Definition node_id_secure := node_id_secure_g crc32c.
Definition hash_tuple := hash_tuple_g sha1.
Definition make_deterministic_node_id := make_deterministic_node_id_g crc32c sha1.
Definition init_node_id := init_node_id_g crc32c sha1.
Definition accept_init_node_id := accept_init_node_id_g crc32c sha1.
Definition bep42_ok := bep42_ok_g crc32c.
