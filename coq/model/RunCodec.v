(* RunCodec.v — executable glue between the `codec` harness engine and the codec models: what the
   model runner evaluates for each harness line.  No proofs. *)
From Dht Require Import Base Msg Compact Bencode Krpc.

(* the NodeInfo decoder of the tree the harness was built against: pinned (D9) or repaired *)
Definition rc_ni (pinned : bool) : bytes -> cresult node_info :=
  if pinned then nodeinfo_unmarshal_pinned else nodeinfo_unmarshal.

Definition rc_infos4_dec (pinned : bool) (b : bytes) := compact_dec w_info4 (rc_ni pinned) b.
Definition rc_infos6_dec (pinned : bool) (b : bytes) := compact_dec w_info6 (rc_ni pinned) b.

(* decode, then re-encode what was decoded *)
Definition rc_gen (pinned : bool) (b : bytes) : decode_result xmsg * cresult bytes :=
  let d := decode_xmsg (rc_ni pinned) b in
  (d, match d with
      | DOk x => encode_xmsg x
      | DOkTrailing x _ => encode_xmsg x
      | _ => CErr
      end).

(* ... and the second generation: decode the re-encoding and encode again *)
Definition rc_msg (pinned : bool) (b : bytes)
  : decode_result xmsg * cresult bytes * option (decode_result xmsg * cresult bytes) :=
  let '(d, re) := rc_gen pinned b in
  (d, re, match re with COk b' => Some (rc_gen pinned b') | _ => None end).

(* UnmarshalBencode of the compact list types *)
Definition rc_addrs4_unb (raw : bytes) := compact_unmarshal_benc addrs4_dec raw.
Definition rc_addrs6_unb (raw : bytes) := compact_unmarshal_benc addrs6_dec raw.
Definition rc_infos4_unb (pinned : bool) (raw : bytes) := compact_unmarshal_benc (rc_infos4_dec pinned) raw.
Definition rc_infos6_unb (pinned : bool) (raw : bytes) := compact_unmarshal_benc (rc_infos6_dec pinned) raw.
Definition rc_hashes_unb (raw : bytes) := compact_unmarshal_benc hashes_dec raw.

(* a.v as the harness prints it: the bencoding of the value *)
Definition rc_any_of_bytes (b : bytes) : option bval :=
  match parse_value b with Some (v, []) => Some v | _ => None end.
