(* RunLookupsClosest.v — lookups engine, cases of harness/cmd/h/lookups_closest.go (C02 / C03 / C04 on the
   Server-backed lookups).  No proofs (proofs/RunLookupsClosestProofs.v).

   Two things the runner computes for those cases beside the ordinary lkbegin .. lkend replay:

   * `lkexact`: the harness hands over a whole HONEST finite network (id and address of every node; every node
     answers, with the true L >= K closest nodes of the network, closest first) and what the finished lookup
     holds; the model answers with the K closest nodes of that network ([rlc_exact]: every node pushed into the
     K-nearest container of Lookups.v, which keeps the first K of the sorted whole, RunLookupsClosestProofs.rlc_run_spec),
     closest first.  This is the second sentence of C02 ("... the result is exactly the K closest nodes of that
     network") stated on Bootstrap (K = 16) and on traversal.Start wired like Bootstrap with K of the case.

   * `lkclosest`: the result set of the model state of the running case (the replies that were served, pushed in
     the order the queries finished), for the cases whose implementation-side result set can be read
     (traversal.Operation.Closest()). *)
From Dht Require Import Base.
From Dht Require Lookups.
Import Lookups.

(* a network as the harness lists it: (id, address) *)
Definition rlc_elems (net : list (N * N)) : list elem :=
  map (fun x => mkE (fst x) (snd x) []) net.

(* the container after every listed node has answered, one after the other *)
Definition rlc_run (t : N) (k : nat) (es : list elem) : list elem := fold_left (lk_push t k) es [].

(* the same without the trim to K: the sorted whole *)
Definition rlc_all (t : N) (es : list elem) : list elem := fold_left (fun l x => lk_insert t x l) es [].

(* the K closest nodes of the network: addresses, closest first *)
Definition rlc_exact (t : N) (k : nat) (net : list (N * N)) : list N :=
  map e_addr (rlc_run t k (rlc_elems net)).

(* the result set of a model state: (address, id), closest first *)
Definition rlc_view_closest (s : lstate) : list (N * N) :=
  map (fun e => (e_addr e, e_id e)) (l_closest s).
