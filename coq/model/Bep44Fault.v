(* Bep44Fault.v — the BEP 44 store wrapper over a FAILING underlying Store.  No proofs.

   bep44.Store is an interface: a disk / database backed implementation can fail on any call with an
   error that is not ErrItemNotFound.  Bep44.v models the wrapper over a store that never fails
   (bep44.Memory); this file adds the environment's choice "this call fails":

     [faults]  which of the underlying calls made by ONE wrapper operation fail (Wrapper.Put makes at
               most one s.Get and one s.Put, Wrapper.Get at most one s.Get and one s.Del).  A failing
               call returns its error before it touches the store.

   Code-to-model map (bep44/store.go, server.go)
     Wrapper.Put   s.Get fails  -> the error is returned, nothing else happens      [wrapper_put_f]
                   s.Put fails  -> the error is returned (the put is NOT accepted)
     Wrapper.Get   s.Get fails  -> (nil, err)                                        [wrapper_get_f]
                   s.Del fails  -> (nil, err); the expired item stays
     case "put"    a non-KRPC error is answered with 204 (krpc.ErrorMethodUnknown)   [handle_put_f]
     case "get"    a non-KRPC error is answered with 201 (ErrorCodeGenericError)     [handle_get_f]
     Server.Put    the store's error is returned, no query is sent                   [server_put_local_f]

   [sha1] and [ed_verify] are Section variables as in Bep44.v. *)
From Dht Require Import Base Bep44.
From DhtGen Require Import Params.
Local Open Scope Z_scope.

Record faults := mkFaults { f_get : bool; f_put : bool; f_del : bool }.

Definition no_faults : faults := mkFaults false false false.

(* result of Wrapper.Get over a store that can fail *)
Inductive fget_res :=
| FGItem (i : item)
| FGNotFound
| FGOther.              (* the underlying store's error *)

Definition fget_of_opt (r : option item) : fget_res :=
  match r with Some i => FGItem i | None => FGNotFound end.

(* what the get handler sends: the item part of a reply, or an error *)
Inductive fget_out := FGReply (g : get_reply) | FGError (code : Z).

(* one operation together with the faults of the calls it makes *)
Inductive fevent :=
| FPut (f : faults) (i : item)
| FGet (f : faults) (t : bytes)
| FWirePut (f : faults) (a : put_args)
| FWireGet (f : faults) (t : bytes) (sq : option Z)
| FLocalPut (f : faults) (p : put_in).

Inductive fobs :=
| FOPut (r : put_res)
| FOGet (r : fget_res)
| FOWirePut (o : srv_out)
| FOWireGet (g : fget_out)
| FOLocal (o : local_out).

(* the same operation over a store that does not fail *)
Definition fevent_plain (e : fevent) : event :=
  match e with
  | FPut _ i => EPut i
  | FGet _ t => EGet t
  | FWirePut _ a => EWirePut a
  | FWireGet _ t sq => EWireGet t sq
  | FLocalPut _ p => ELocalPut p
  end.

Definition fevent_faults (e : fevent) : faults :=
  match e with
  | FPut f _ | FGet f _ | FWirePut f _ | FWireGet f _ _ | FLocalPut f _ => f
  end.

Section Bep44Fault.
  Variable sha1 : bytes -> bytes.
  Variable ed_verify : bytes -> bytes -> bytes -> bool.

  (* the last step of Wrapper.Put: stamp and s.Put *)
  Definition store_put_f (f : faults) (now : Z) (t : bytes) (i : item) (s : store) : put_res * store :=
    if f_put f then (POther, s) else (POk, store_put t (stamp now i) s).

  (* Wrapper.Put: Check (local), s.Get, CheckIncoming (local), s.Put *)
  Definition wrapper_put_f (v : variant) (f : faults) (now : Z) (i : item) (s : store) : put_res * store :=
    match check ed_verify i with
    | Some e => (PErr e, s)
    | None =>
        if f_get f then (POther, s)
        else
          let t := target sha1 i in
          match store_get t s with
          | None => store_put_f f now t i s
          | Some st =>
              match check_incoming v st i with
              | Some e => (PErr e, s)
              | None => store_put_f f now t i s
              end
          end
    end.

  (* Wrapper.Get: s.Get, then s.Del when the item has expired *)
  Definition wrapper_get_f (f : faults) (exp now : Z) (t : bytes) (s : store) : fget_res * store :=
    if f_get f then (FGOther, s)
    else
      match store_get t s with
      | None => (FGNotFound, s)
      | Some i =>
          if now <? it_created i + exp then (FGItem i, s)
          else if f_del f then (FGOther, s)
          else (FGNotFound, store_del t s)
      end.

  Definition handle_put_f (v : variant) (f : faults) (now : Z) (a : put_args) (s : store) : srv_out * store :=
    match pa_seq a with
    | None => (SError err_ProtocolError, s)
    | Some q =>
        let '(r, s') := wrapper_put_f v f now (item_of_args a q) s in (put_result_to_wire r, s')
    end.

  Definition handle_get_f (f : faults) (exp now : Z) (t : bytes) (sq : option Z) (s : store) : fget_out * store :=
    match wrapper_get_f f exp now t s with
    | (FGOther, s') => (FGError err_GenericError, s')
    | (FGNotFound, s') => (FGReply (mkGetReply None None), s')
    | (FGItem i, s') =>
        let gated := match sq with Some n => it_seq i <=? n | None => false end in
        (FGReply (mkGetReply (Some (it_seq i))
                             (if gated then None else Some (it_bv i, it_k i, it_sig i))), s')
    end.

  Definition server_put_local_f (v : variant) (f : faults) (now : Z) (p : put_in) (s : store) : local_out * store :=
    let '(r, s') := wrapper_put_f v f now (put_to_item p) s in
    match r with
    | POk => (LQuery (args_of_put p), s')
    | _ => (LErr r, s')
    end.

  Definition fseq_step (v : variant) (exp : Z) (st : sstate) (e : fevent) : sstate * fobs :=
    let now := s_clock st in
    match e with
    | FPut f i => let '(r, s') := wrapper_put_f v f now i (s_store st) in (mkSState now s', FOPut r)
    | FGet f t => let '(r, s') := wrapper_get_f f exp now t (s_store st) in (mkSState now s', FOGet r)
    | FWirePut f a => let '(o, s') := handle_put_f v f now a (s_store st) in (mkSState now s', FOWirePut o)
    | FWireGet f t sq => let '(g, s') := handle_get_f f exp now t sq (s_store st) in (mkSState now s', FOWireGet g)
    | FLocalPut f p => let '(o, s') := server_put_local_f v f now p (s_store st) in (mkSState now s', FOLocal o)
    end.

  (* histories mixing operations over a healthy store (inl) and operations hit by faults (inr) *)
  Definition mixed_step (v : variant) (exp : Z) (st : sstate) (e : event + fevent) : sstate :=
    match e with
    | inl e => fst (seq_step sha1 ed_verify v exp st e)
    | inr e => fst (fseq_step v exp st e)
    end.

  Definition mixed_run (v : variant) (exp : Z) (evs : list (event + fevent)) (st : sstate) : sstate :=
    fold_left (mixed_step v exp) evs st.
End Bep44Fault.
