(* Crc32c.v — bitwise CRC-32C (Castagnoli, reflected polynomial 0x82F63B78, init and final xor
   0xFFFFFFFF), the function computed by Go's crc32.Checksum(_, crc32.MakeTable(crc32.Castagnoli)).
   No proofs; compared with hash/crc32 by the harness. *)
From Dht Require Import Base.
Local Open Scope N_scope.

Definition crc32c_poly : N := 2197175160.   (* 0x82F63B78 *)
Definition crc32c_ones : N := 4294967295.   (* 0xFFFFFFFF *)

Definition crc32c_bit (c : N) : N :=
  if N.odd c then N.lxor (N.shiftr c 1) crc32c_poly else N.shiftr c 1.

Definition crc32c_byte (c : N) (b : byte) : N :=
  let c := N.lxor c (Byte.to_N b) in
  crc32c_bit (crc32c_bit (crc32c_bit (crc32c_bit (crc32c_bit (crc32c_bit (crc32c_bit (crc32c_bit c))))))).

(* crc32.Update *)
Definition crc32c_update (crc : N) (m : bytes) : N :=
  N.lxor (fold_left crc32c_byte m (N.lxor crc crc32c_ones)) crc32c_ones.

Definition crc32c (m : bytes) : N := crc32c_update 0 m.

(* sanity: the standard check value of "123456789" and RFC 3720 B.4 (32 zero bytes) *)
Example crc32c_check :
  crc32c [x31;x32;x33;x34;x35;x36;x37;x38;x39] = 3808858755.   (* e3069283 *)
Proof. vm_compute. reflexivity. Qed.
Example crc32c_zeros32 : crc32c (repeat x00 32) = 2324772522.   (* 8a9136aa *)
Proof. vm_compute. reflexivity. Qed.
Example crc32c_empty : crc32c [] = 0.
Proof. vm_compute. reflexivity. Qed.
