(* Bep44.v — executable model of the BEP 44 item store of anacrolix/dht (package bep44, the
   server's put/get handlers, Server.Put, and getput's client-side acceptance rule).  No proofs.

   Code-to-model map
     bep44/item.go   Item, IsMutable, bufferToSign, Target, Check, CheckIncoming
     bep44/key.go    Verify = ed25519.Verify(k, bufferToSign(salt, bv, seq), sig)   -> [ed_verify] parameter
     bep44/target.go MakeMutableTarget                                              -> [mutable_target]
     bep44/memory.go Memory (map Target -> *Item)                                   -> [store] (assoc list)
     bep44/store.go  Wrapper.Put / Wrapper.Get                                      -> [wrapper_put] / [wrapper_get]
     bep44/put.go    Put.ToItem                                                     -> [put_to_item]
     server.go       case "put" / case "get" (after the token check), Server.Put   -> [handle_put] [handle_get] [server_put_local]
     exts/getput     startGetTraversal acceptance, Get's running maximum, Put's autoSeq
                                                                                    -> [client_accept] [client_get] [client_autoseq]

   An item's value is represented by its bencoding [it_bv] (= bencode.Marshal(V)): it is what Check
   measures, what is signed, what CheckIncoming compares and what is hashed.
   [sha1] and [ed_verify] are Section variables: every definition and theorem is parametric in them.

   Two variants are kept side by side:
     [Pinned]   transcribes the tree as found: CheckIncoming looks at the STORED item's cas field (D6)
                and Wrapper.Put/Get take no lock (D7, [locking = false] in the thread programs);
                getput dereferences a nil seq (D2) -> [AccPanic].
     [Repaired] the behaviour the positive theorems are about: cas is compared with the stored seq,
                Wrapper operations hold one mutex for their whole duration, a reply with the right
                key and no seq is ignored. *)
From Dht Require Import Base.
From DhtGen Require Import Params.
Local Open Scope Z_scope.

Inductive variant := Pinned | Repaired.

Record item := mkItem {
  it_bv : bytes;        (* bencode.Marshal(V) *)
  it_k : bytes;         (* 32 bytes; all zero = immutable *)
  it_salt : bytes;
  it_sig : bytes;       (* 64 bytes *)
  it_cas : Z;
  it_seq : Z;
  it_created : Z        (* ns; stamped by Wrapper.Put *)
}.

Definition is_mutable (i : item) : bool := negb (all_zero (it_k i)).

Definition blen (b : bytes) : Z := Z.of_nat (length b).

(* ---- decimal rendering (fmt %d of an int64; bencode string length prefix) ---- *)
Fixpoint dec_aux (fuel : nat) (n : N) (acc : bytes) : bytes :=
  match fuel with
  | O => acc
  | S f =>
      let acc' := byte_of_N (48 + n mod 10) :: acc in
      if (n <? 10)%N then acc' else dec_aux f (n / 10) acc'
  end.

(* a number has no more decimal digits than binary digits *)
Definition dec_N (n : N) : bytes := dec_aux (S (N.to_nat (N.size n))) n [].

Definition dec_Z (z : Z) : bytes :=
  match z with
  | Z0 => [x30]
  | Zpos p => dec_N (Npos p)
  | Zneg p => x2d :: dec_N (Npos p)
  end.

(* bencode of a byte string: <len>:<bytes> *)
Definition bencode_bytes (b : bytes) : bytes := dec_N (N.of_nat (length b)) ++ x3a :: b.

Definition str_4salt : bytes := [x34; x3a; x73; x61; x6c; x74].   (* "4:salt" *)
Definition str_3seqi : bytes := [x33; x3a; x73; x65; x71; x69].   (* "3:seqi" *)
Definition str_e1v : bytes := [x65; x31; x3a; x76].               (* "e1:v"   *)

(* bufferToSign: the salt part only when the salt is non-empty *)
Definition buffer_to_sign (salt bv : bytes) (seq : Z) : bytes :=
  (match salt with [] => [] | _ => str_4salt ++ bencode_bytes salt end)
  ++ str_3seqi ++ dec_Z seq ++ str_e1v ++ bv.

(* ---- results ---- *)
Inductive put_res :=
| POk
| PErr (code : Z)       (* a krpc.Error *)
| POther.               (* any other error value (a failing underlying Store) *)

(* ---- the store: finite map target -> item ---- *)
Definition store := list (bytes * item).

Fixpoint store_get (t : bytes) (s : store) : option item :=
  match s with
  | [] => None
  | (t', i) :: r => if bytes_eqb t t' then Some i else store_get t r
  end.

Fixpoint store_del (t : bytes) (s : store) : store :=
  match s with
  | [] => []
  | (t', i) :: r => if bytes_eqb t t' then store_del t r else (t', i) :: store_del t r
  end.

Definition store_put (t : bytes) (i : item) (s : store) : store := (t, i) :: store_del t s.

Definition stamp (now : Z) (i : item) : item :=
  mkItem (it_bv i) (it_k i) (it_salt i) (it_sig i) (it_cas i) (it_seq i) now.

Definition seq_of (t : bytes) (s : store) : option Z := option_map it_seq (store_get t s).

(* CheckIncoming.  Both variants: 302 first. *)
Definition same_version (stored incoming : item) : bool :=
  (it_seq stored =? it_seq incoming) && bytes_eqb (it_bv stored) (it_bv incoming).

Definition check_incoming (v : variant) (stored incoming : item) : option Z :=
  match v with
  | Pinned =>
      if same_version stored incoming then None
      else if it_seq incoming <=? it_seq stored then Some bep44_ErrSequenceNumberLessThanCurrent
      else if it_cas stored =? 0 then None
      else if negb (it_cas stored =? it_cas incoming) then Some bep44_ErrCasHashMismatched
      else None
  | Repaired =>
      if negb (same_version stored incoming) && (it_seq incoming <=? it_seq stored)
      then Some bep44_ErrSequenceNumberLessThanCurrent
      else if negb (it_cas incoming =? 0) && negb (it_cas incoming =? it_seq stored)
      then Some bep44_ErrCasHashMismatched
      else None
  end.

(* ---- server-side message shapes ---- *)
Record put_args := mkPutArgs {       (* krpc.MsgArgs of a put, after decoding *)
  pa_bv : bytes; pa_k : bytes; pa_salt : bytes; pa_sig : bytes; pa_cas : Z;
  pa_seq : option Z                  (* *int64: absent on the wire = None *)
}.

Record put_in := mkPutIn {           (* bep44.Put given to Server.Put *)
  pi_bv : bytes; pi_k : option bytes; pi_salt : bytes; pi_sig : bytes; pi_cas : Z; pi_seq : Z
}.

Inductive srv_out := SReply | SError (code : Z).

Record get_reply := mkGetReply {
  gr_seq : option Z;                        (* r.Seq *)
  gr_val : option (bytes * bytes * bytes)   (* r.V, r.K, r.Sig *)
}.

Inductive local_out := LErr (r : put_res) | LQuery (a : put_args).

Definition item_of_args (a : put_args) (q : Z) : item :=
  mkItem (pa_bv a) (pa_k a) (pa_salt a) (pa_sig a) (pa_cas a) q 0.

Definition put_to_item (p : put_in) : item :=
  mkItem (pi_bv p) (match pi_k p with Some k => k | None => zero_bytes 32 end)
         (pi_salt p) (pi_sig p) (pi_cas p) (pi_seq p) 0.

Definition args_of_put (p : put_in) : put_args :=
  mkPutArgs (pi_bv p) (match pi_k p with Some k => k | None => zero_bytes 32 end)
            (pi_salt p) (pi_sig p) (pi_cas p) (Some (pi_seq p)).

(* server.go case "put": a krpc.Error is passed through, any other error becomes 204 *)
Definition put_result_to_wire (r : put_res) : srv_out :=
  match r with
  | POk => SReply
  | PErr c => SError c
  | POther => SError err_value_method_unknown
  end.

(* ---- client side (exts/getput) ---- *)
Record reply := mkReply {
  r_v : bytes;            (* r.V, empty when absent *)
  r_k : bytes;            (* r.K, 32 zero bytes when absent *)
  r_sig : bytes;          (* r.Sig *)
  r_seq : option Z        (* r.Seq *)
}.

Record get_result := mkGetResult { res_seq : Z; res_v : bytes; res_sig : bytes; res_mutable : bool }.

Inductive accept_res :=
| AccNone
| AccImm (g : get_result)
| AccMut (g : get_result)
| AccPanic.

Inductive client_outcome := COResult (g : option get_result) | COPanic.

(* ---- histories and threads ---- *)
Inductive event :=
| EPut (i : item)                              (* Wrapper.Put *)
| EGet (t : bytes)                             (* Wrapper.Get *)
| EAdvance (d : Z)                             (* time passes *)
| EWirePut (a : put_args)                      (* inbound put with a valid token *)
| EWireGet (t : bytes) (sq : option Z)         (* inbound get *)
| ELocalPut (p : put_in).                      (* Server.Put, store part *)

Inductive obs :=
| ONone
| OPut (r : put_res)
| OGet (r : option item)
| OWirePut (o : srv_out)
| OWireGet (g : get_reply)
| OLocal (o : local_out).

Record sstate := mkSState { s_clock : Z; s_store : store }.

Inductive top := TPut (i : item) | TGet (t : bytes).
Record thread := mkThread { th_op : top; th_now : Z }.   (* th_now: the thread's time.Now() reading *)
Inductive tres := RPut (r : put_res) | RGet (r : option item).

Inductive pc :=
| PcInit                (* before entering the Wrapper method (repaired: before Lock) *)
| PcPutGet              (* Check passed; next: s.Get(target) *)
| PcPutPut              (* CheckIncoming passed / not found; next: s.Put(item) *)
| PcGetGet              (* next: s.Get(t) *)
| PcGetDel              (* item expired; next: s.Del(t) *)
| PcUnlock (r : tres)   (* result known; next: return (repaired: Unlock) *)
| PcDone (r : tres).

Record gstate := mkG { g_store : store; g_lock : option nat; g_pcs : list pc }.

Fixpoint upd {A} (l : list A) (n : nat) (x : A) : list A :=
  match l, n with
  | [], _ => []
  | _ :: r, O => x :: r
  | y :: r, S k => y :: upd r k x
  end.

Section Bep44.
  Variable sha1 : bytes -> bytes.
  Variable ed_verify : bytes -> bytes -> bytes -> bool.    (* key, message, signature *)

  Definition mutable_target (k salt : bytes) : bytes := sha1 (k ++ salt).

  Definition target (i : item) : bytes :=
    if is_mutable i then mutable_target (it_k i) (it_salt i) else sha1 (it_bv i).

  Definition verify_item (i : item) : bool :=
    ed_verify (it_k i) (buffer_to_sign (it_salt i) (it_bv i) (it_seq i)) (it_sig i).

  (* Check: 205, then (mutable only) 207, then 206 *)
  Definition check (i : item) : option Z :=
    if bep44_max_v <? blen (it_bv i) then Some bep44_ErrValueFieldTooBig
    else if negb (is_mutable i) then None
    else if bep44_max_salt <? blen (it_salt i) then Some bep44_ErrSaltFieldTooBig
    else if negb (verify_item i) then Some bep44_ErrInvalidSignature
    else None.

  (* Wrapper.Put, run without interference *)
  Definition wrapper_put (v : variant) (now : Z) (i : item) (s : store) : put_res * store :=
    match check i with
    | Some e => (PErr e, s)
    | None =>
        let t := target i in
        match store_get t s with
        | None => (POk, store_put t (stamp now i) s)
        | Some st =>
            match check_incoming v st i with
            | Some e => (PErr e, s)
            | None => (POk, store_put t (stamp now i) s)
            end
        end
    end.

  (* Wrapper.Get, run without interference: served iff created + exp is after now *)
  Definition wrapper_get (exp now : Z) (t : bytes) (s : store) : option item * store :=
    match store_get t s with
    | None => (None, s)
    | Some i => if now <? it_created i + exp then (Some i, s) else (None, store_del t s)
    end.

  (* server.go case "put" (token already validated) *)
  Definition handle_put (v : variant) (now : Z) (a : put_args) (s : store) : srv_out * store :=
    match pa_seq a with
    | None => (SError err_ProtocolError, s)          (* 203 "expected seq argument" *)
    | Some q =>
        let '(r, s') := wrapper_put v now (item_of_args a q) s in (put_result_to_wire r, s')
    end.

  (* server.go case "get": the item part of the reply *)
  Definition handle_get (exp now : Z) (t : bytes) (sq : option Z) (s : store) : get_reply * store :=
    match wrapper_get exp now t s with
    | (None, s') => (mkGetReply None None, s')
    | (Some i, s') =>
        let gated := match sq with Some n => it_seq i <=? n | None => false end in
        (mkGetReply (Some (it_seq i))
                    (if gated then None else Some (it_bv i, it_k i, it_sig i)), s')
    end.

  (* Server.Put: store locally first; only then is the query sent *)
  Definition server_put_local (v : variant) (now : Z) (p : put_in) (s : store) : local_out * store :=
    let '(r, s') := wrapper_put v now (put_to_item p) s in
    match r with
    | POk => (LQuery (args_of_put p), s')
    | _ => (LErr r, s')
    end.

  (* ---- sequential histories ---- *)
  Definition seq_step (v : variant) (exp : Z) (st : sstate) (e : event) : sstate * obs :=
    let now := s_clock st in
    match e with
    | EPut i => let '(r, s') := wrapper_put v now i (s_store st) in (mkSState now s', OPut r)
    | EGet t => let '(r, s') := wrapper_get exp now t (s_store st) in (mkSState now s', OGet r)
    | EAdvance d => (mkSState (now + d) (s_store st), ONone)
    | EWirePut a => let '(o, s') := handle_put v now a (s_store st) in (mkSState now s', OWirePut o)
    | EWireGet t sq => let '(g, s') := handle_get exp now t sq (s_store st) in (mkSState now s', OWireGet g)
    | ELocalPut p => let '(o, s') := server_put_local v now p (s_store st) in (mkSState now s', OLocal o)
    end.

  Definition seq_run (v : variant) (exp : Z) (evs : list event) (st : sstate) : sstate :=
    fold_left (fun s e => fst (seq_step v exp s e)) evs st.

  (* ---- thread programs: atomic steps = store calls + lock acquire / release ---- *)
  (* state after entering the method: Check is local computation *)
  Definition enter (th : thread) : pc :=
    match th_op th with
    | TPut i => match check i with Some e => PcUnlock (RPut (PErr e)) | None => PcPutGet end
    | TGet _ => PcGetGet
    end.

  Definition thread_step (locking : bool) (v : variant) (exp : Z) (th : thread) (tid : nat)
             (p : pc) (s : store) (lock : option nat) : option (pc * store * option nat) :=
    match p, th_op th with
    | PcInit, _ =>
        if locking then
          match lock with None => Some (enter th, s, Some tid) | Some _ => None end
        else Some (enter th, s, lock)
    | PcPutGet, TPut i =>
        match store_get (target i) s with
        | None => Some (PcPutPut, s, lock)
        | Some st =>
            match check_incoming v st i with
            | Some e => Some (PcUnlock (RPut (PErr e)), s, lock)
            | None => Some (PcPutPut, s, lock)
            end
        end
    | PcPutPut, TPut i =>
        Some (PcUnlock (RPut POk), store_put (target i) (stamp (th_now th) i) s, lock)
    | PcGetGet, TGet t =>
        match store_get t s with
        | None => Some (PcUnlock (RGet None), s, lock)
        | Some i =>
            if th_now th <? it_created i + exp then Some (PcUnlock (RGet (Some i)), s, lock)
            else Some (PcGetDel, s, lock)
        end
    | PcGetDel, TGet t => Some (PcUnlock (RGet None), store_del t s, lock)
    | PcUnlock r, _ => Some (PcDone r, s, if locking then None else lock)
    | _, _ => None
    end.

  (* one global step: thread [tid] moves if it is enabled *)
  Definition g_step (locking : bool) (v : variant) (exp : Z) (ths : list thread) (g : gstate) (tid : nat)
    : option gstate :=
    match nth_error ths tid, nth_error (g_pcs g) tid with
    | Some th, Some p =>
        match thread_step locking v exp th tid p (g_store g) (g_lock g) with
        | Some (p', s', l') => Some (mkG s' l' (upd (g_pcs g) tid p'))
        | None => None
        end
    | _, _ => None
    end.

  (* a schedule is any list of thread ids; picking a thread that cannot move is a stutter *)
  Definition g_next locking v exp ths (g : gstate) (tid : nat) : gstate :=
    match g_step locking v exp ths g tid with Some g' => g' | None => g end.

  Definition g_run locking v exp ths (sched : list nat) (g : gstate) : gstate :=
    fold_left (g_next locking v exp ths) sched g.

  Definition g_init (ths : list thread) (s : store) : gstate :=
    mkG s None (map (fun _ => PcInit) ths).

  (* the operation of a thread run alone *)
  Definition thread_seq (v : variant) (exp : Z) (th : thread) (s : store) : tres * store :=
    match th_op th with
    | TPut i => let '(r, s') := wrapper_put v (th_now th) i s in (RPut r, s')
    | TGet t => let '(r, s') := wrapper_get exp (th_now th) t s in (RGet r, s')
    end.

  (* ---- client side: which replies getput accepts, and what Get / Put make of them ---- *)
  Definition client_accept (v : variant) (tgt salt : bytes) (r : reply) : accept_res :=
    if bytes_eqb (sha1 (r_v r)) tgt then AccImm (mkGetResult 0 (r_v r) (r_sig r) false)
    else if bytes_eqb (sha1 (r_k r ++ salt)) tgt then
      match r_seq r with
      | None => match v with Pinned => AccPanic | Repaired => AccNone end   (* *r.Seq with r.Seq == nil *)
      | Some q =>
          if ed_verify (r_k r) (buffer_to_sign salt (r_v r) q) (r_sig r)
          then AccMut (mkGetResult q (r_v r) (r_sig r) true)
          else AccNone
      end
    else AccNone.

  (* getput.Get: immutable value ends the wait; among mutable ones keep seq >= current *)
  Fixpoint client_get (v : variant) (tgt salt : bytes) (replies : list reply) (cur : option get_result)
    : client_outcome :=
    match replies with
    | [] => COResult cur
    | r :: rest =>
        match client_accept v tgt salt r with
        | AccPanic => COPanic
        | AccNone => client_get v tgt salt rest cur
        | AccImm g => COResult (Some g)
        | AccMut g =>
            let take := match cur with None => true | Some c => res_seq c <=? res_seq g end in
            client_get v tgt salt rest (if take then Some g else cur)
        end
    end.

  (* getput.Put: autoSeq = max(0, accepted mutable seqs) *)
  Fixpoint client_autoseq (v : variant) (tgt salt : bytes) (replies : list reply) (cur : Z) : option Z :=
    match replies with
    | [] => Some cur
    | r :: rest =>
        match client_accept v tgt salt r with
        | AccPanic => None
        | AccMut g => client_autoseq v tgt salt rest (if cur <? res_seq g then res_seq g else cur)
        | _ => client_autoseq v tgt salt rest cur
        end
    end.
End Bep44.
