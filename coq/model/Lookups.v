(* Lookups.v — executable model of the OWNERS of a lookup: Server.Bootstrap(Context), Server.Announce /
   AnnounceTraversal (+ Announce.Close / StopTraversing / the Peers consumer), getput.Get, getput.Put —
   over the INTERFACE of a traversal (DESIGN.md section 5 C14, C16, C12 client side).  No proofs here.

   The traversal itself (/repo/traversal/operation.go) is Traversal.v; here it is only what its owner
   and its DoQuery callback can see of it:
     TIssue a      the run loop starts DoQuery(a) (only once AddNodes has seeded it, only while not stopping;
                   finitely often: l_budget)
     QReturn/QDeliver/QAbandon/QFinish   the body of one DoQuery call and its completion under op.mu
                   (addClosest through the container's [push], then outstanding--)
     Stalled()     receivable when nothing is in flight, and for good once the run loop has exited
     Stop()        sets stopping; TLoopExit: the run loop returns; TStopWait: the goroutine spawned by
                   Stop sees outstanding = 0 and sets stopped -- "Stop leads to Stopped once the in-flight
                   queries have returned"
   [push] (k_nearest_nodes Push) is a Section variable; the theorems need only
   In x (push l e) -> x = e \/ In x l  and  length (push l e) <= S (length l)  (true of kn_push).

   Code-to-model map
     bootstrap.go 20-64         OStartTrav, OGetNodes, OStalled | OCtx, OStopStep, OStoppedStep
     announce.go 96-127         OStartTrav, OGetNodes (returns the handle, spawns the goroutine),
                                OStalled, OStopStep, OStoppedStep, OSend*, OSendsDone, OCloseP
     announce.go 130-164        OSend: one announcePeer goroutine = one Server.announcePeer call with the
                                element's own address and data; `sent` = its datagram left (it does not when
                                the server is closed, the write fails, or Close() cancelled it first)
     announce.go 166-186        QReturn (Server.GetPeers returned), QDeliver (a.Peers <- v),
                                QAbandon (<-a.traversal.Stopped(); repaired: <-a.closed.Done())
     announce.go 195-211        EClose, EStopTrav
     getput.go 26-75            OStartTrav+OGetNodes (startGetTraversal), QReturn (acceptance rule =
                                Bep44.client_accept; AccPanic = the nil dereference D2), QDeliver (vChan <- v),
                                QAbandon (<-ctx.Done())
     getput.go 77-110           Get: OStalled | QDeliver (running maximum, immutable ends the wait) | OCtx, OStopStep
     getput.go 114-164          Put: the same wait with autoSeq, OStopStep (reads Closest()), OSend*, OSendsDone
     server.go 1103-1136        the announce_peer arguments recorded by OSend

   Variants.  [lc_variant = Pinned] is the tree as found: Bootstrap / Get / Put return without Stop()
   when no starting nodes can be obtained (D8) and the get-reply handler dereferences a nil seq (D2).
   [Repaired] stops the traversal on that path and ignores such a reply.  [lc_abandon_closed = false]
   is announce.go as found: a delivery is given up only on Stopped(), which cannot happen while that very
   query is in flight (finding D10); [true] gives it up once the announce is CLOSED (a.closed.Done()):
   StopTraversing alone keeps the obligation to deliver and the consumer's duty to keep reading.

   Goroutines of one announcePeer / Put run in any order; they share nothing but the record of what was
   sent, so the model issues them in list order.  A query that returns (QReturn) may carry any result
   at any time: reply, KRPC error message (gr_has_r = false) or none (time-out, cancellation, closed
   server ...): that every query does return is Query.v / QueryProofs. *)
From Dht Require Import Base Bep44.
From DhtGen Require Import Params.

Inductive api := ABootstrap | AAnnounce | AGet | APut.
Inductive sn_outcome := SNOk | SNErr | SNEmpty.   (* TraversalStartingNodes: nodes | resolver error | "no initial nodes" *)
Inductive oerr := ErrStart | ErrCtx | ErrNotFound.

Definition addr := N.     (* an (IP, port) pair under an injective numbering *)

(* element of the K-nearest container: key (id, addr) and data (the token string) *)
Record elem := mkE { e_id : N; e_addr : addr; e_data : bytes }.

(* what a query of the traversal got back *)
Record greply := mkGR {
  gr_has_r : bool;              (* the message carries an "r" dict (Reply.R != nil) *)
  gr_id : N;                    (* r.id *)
  gr_token : option bytes;      (* r.token *)
  gr_payload : bytes;           (* the krpc.Return as handed to the Peers consumer (opaque) *)
  gr_item : Bep44.reply }.      (* r.v r.k r.sig r.seq *)

Inductive qphase := PQuery | PDeliver | PReturn.
Record tquery := mkTQ { tq_id : nat; tq_addr : addr; tq_phase : qphase; tq_res : option greply }.

(* one announce_peer / put query as issued *)
Record sendrec := mkSR {
  sr_dest : addr; sr_token : bytes; sr_ih : N; sr_port : Z; sr_implied : bool; sr_seq : Z; sr_sent : bool }.

Inductive opc :=
| OStart | OStartNodes | OWait | OStop | OWaitStopped | OAnnounce | OClosePeers | ODone.

Record lcfg := mkLC {
  lc_api : api;
  lc_variant : variant;            (* Bep44.variant: Pinned | Repaired (D8, D2) *)
  lc_abandon_closed : bool;        (* false = announce.go as found (D10); true = give a delivery up once Close() was called *)
  lc_sn : sn_outcome;
  lc_budget : nat;
  lc_target : N;                   (* infohash / target as a number *)
  lc_ann : option (Z * bool);      (* AnnouncePeerOpts: Port, ImpliedPort; None = no announce *)
  lc_tgt : bytes;                  (* getput: target bytes *)
  lc_salt : bytes }.

Record lstate := mkL {
  l_owner : opc;   (* program counter of the owner (for Announce: of AnnounceTraversal, then of its goroutine) *)
  l_err : option oerr;   (* the error the API call returns *)
  l_started : bool;   (* traversal.Start was called: the run-loop goroutine exists *)
  l_stopping : bool;   (* Operation.Stop was called (stopping.Set) *)
  l_stopped : bool;   (* the goroutine spawned by Stop saw outstanding = 0 (stopped.Set) *)
  l_loop_exited : bool;   (* Operation.run returned (closes the stalled channel) *)
  l_budget : nat;   (* DoQuery calls the traversal may still issue (finite: C03/C04) *)
  l_inflight : list tquery;   (* DoQuery calls in progress *)
  l_nq : nat;   (* next query id *)
  l_closest : list elem;   (* Operation.closest *)
  l_log : list (nat * addr * greply);   (* ghost: replies received by queries of THIS traversal (query id, destination, reply) *)
  l_ctx : bool;   (* the caller's ctx is done *)
  l_handle : bool;   (* AnnounceTraversal returned the *Announce *)
  l_aclosed : bool;   (* Announce.closed is set *)
  l_peers_closed : bool;   (* close(a.Peers) happened *)
  l_reads : bool;   (* the consumer is still receiving from Peers *)
  l_delivered : list (nat * addr * N * bytes);   (* values received from Peers, in order (query id, responder address, responder id, payload) *)
  l_abandoned : list nat;   (* ghost: deliveries given up *)
  l_final : list elem;   (* the closest set as the owner read it for announcing / putting *)
  l_todo : list elem;   (* announcePeer / Put goroutines spawned whose query is not issued yet *)
  l_sends : list sendrec;   (* announce_peer / put queries issued *)
  l_cur : option get_result;   (* getput.Get: ret (None = no value yet) *)
  l_got : bool;   (* getput.Get: gotValue *)
  l_autoseq : Z;   (* getput.Put: autoSeq *)
  l_recv : list Bep44.reply;   (* ghost: items whose value reached the owner, in order *)
  l_panic : bool }.   (* the process died (nil dereference / send on closed channel) *)

Definition set_owner (s : lstate) (v : opc) : lstate :=
  mkL v (l_err s) (l_started s) (l_stopping s) (l_stopped s) (l_loop_exited s) (l_budget s) (l_inflight s) (l_nq s) (l_closest s) (l_log s) (l_ctx s) (l_handle s) (l_aclosed s) (l_peers_closed s) (l_reads s) (l_delivered s) (l_abandoned s) (l_final s) (l_todo s) (l_sends s) (l_cur s) (l_got s) (l_autoseq s) (l_recv s) (l_panic s).
Definition set_err (s : lstate) (v : option oerr) : lstate :=
  mkL (l_owner s) v (l_started s) (l_stopping s) (l_stopped s) (l_loop_exited s) (l_budget s) (l_inflight s) (l_nq s) (l_closest s) (l_log s) (l_ctx s) (l_handle s) (l_aclosed s) (l_peers_closed s) (l_reads s) (l_delivered s) (l_abandoned s) (l_final s) (l_todo s) (l_sends s) (l_cur s) (l_got s) (l_autoseq s) (l_recv s) (l_panic s).
Definition set_started (s : lstate) (v : bool) : lstate :=
  mkL (l_owner s) (l_err s) v (l_stopping s) (l_stopped s) (l_loop_exited s) (l_budget s) (l_inflight s) (l_nq s) (l_closest s) (l_log s) (l_ctx s) (l_handle s) (l_aclosed s) (l_peers_closed s) (l_reads s) (l_delivered s) (l_abandoned s) (l_final s) (l_todo s) (l_sends s) (l_cur s) (l_got s) (l_autoseq s) (l_recv s) (l_panic s).
Definition set_stopping (s : lstate) (v : bool) : lstate :=
  mkL (l_owner s) (l_err s) (l_started s) v (l_stopped s) (l_loop_exited s) (l_budget s) (l_inflight s) (l_nq s) (l_closest s) (l_log s) (l_ctx s) (l_handle s) (l_aclosed s) (l_peers_closed s) (l_reads s) (l_delivered s) (l_abandoned s) (l_final s) (l_todo s) (l_sends s) (l_cur s) (l_got s) (l_autoseq s) (l_recv s) (l_panic s).
Definition set_stopped (s : lstate) (v : bool) : lstate :=
  mkL (l_owner s) (l_err s) (l_started s) (l_stopping s) v (l_loop_exited s) (l_budget s) (l_inflight s) (l_nq s) (l_closest s) (l_log s) (l_ctx s) (l_handle s) (l_aclosed s) (l_peers_closed s) (l_reads s) (l_delivered s) (l_abandoned s) (l_final s) (l_todo s) (l_sends s) (l_cur s) (l_got s) (l_autoseq s) (l_recv s) (l_panic s).
Definition set_loop_exited (s : lstate) (v : bool) : lstate :=
  mkL (l_owner s) (l_err s) (l_started s) (l_stopping s) (l_stopped s) v (l_budget s) (l_inflight s) (l_nq s) (l_closest s) (l_log s) (l_ctx s) (l_handle s) (l_aclosed s) (l_peers_closed s) (l_reads s) (l_delivered s) (l_abandoned s) (l_final s) (l_todo s) (l_sends s) (l_cur s) (l_got s) (l_autoseq s) (l_recv s) (l_panic s).
Definition set_budget (s : lstate) (v : nat) : lstate :=
  mkL (l_owner s) (l_err s) (l_started s) (l_stopping s) (l_stopped s) (l_loop_exited s) v (l_inflight s) (l_nq s) (l_closest s) (l_log s) (l_ctx s) (l_handle s) (l_aclosed s) (l_peers_closed s) (l_reads s) (l_delivered s) (l_abandoned s) (l_final s) (l_todo s) (l_sends s) (l_cur s) (l_got s) (l_autoseq s) (l_recv s) (l_panic s).
Definition set_inflight (s : lstate) (v : list tquery) : lstate :=
  mkL (l_owner s) (l_err s) (l_started s) (l_stopping s) (l_stopped s) (l_loop_exited s) (l_budget s) v (l_nq s) (l_closest s) (l_log s) (l_ctx s) (l_handle s) (l_aclosed s) (l_peers_closed s) (l_reads s) (l_delivered s) (l_abandoned s) (l_final s) (l_todo s) (l_sends s) (l_cur s) (l_got s) (l_autoseq s) (l_recv s) (l_panic s).
Definition set_nq (s : lstate) (v : nat) : lstate :=
  mkL (l_owner s) (l_err s) (l_started s) (l_stopping s) (l_stopped s) (l_loop_exited s) (l_budget s) (l_inflight s) v (l_closest s) (l_log s) (l_ctx s) (l_handle s) (l_aclosed s) (l_peers_closed s) (l_reads s) (l_delivered s) (l_abandoned s) (l_final s) (l_todo s) (l_sends s) (l_cur s) (l_got s) (l_autoseq s) (l_recv s) (l_panic s).
Definition set_closest (s : lstate) (v : list elem) : lstate :=
  mkL (l_owner s) (l_err s) (l_started s) (l_stopping s) (l_stopped s) (l_loop_exited s) (l_budget s) (l_inflight s) (l_nq s) v (l_log s) (l_ctx s) (l_handle s) (l_aclosed s) (l_peers_closed s) (l_reads s) (l_delivered s) (l_abandoned s) (l_final s) (l_todo s) (l_sends s) (l_cur s) (l_got s) (l_autoseq s) (l_recv s) (l_panic s).
Definition set_log (s : lstate) (v : list (nat * addr * greply)) : lstate :=
  mkL (l_owner s) (l_err s) (l_started s) (l_stopping s) (l_stopped s) (l_loop_exited s) (l_budget s) (l_inflight s) (l_nq s) (l_closest s) v (l_ctx s) (l_handle s) (l_aclosed s) (l_peers_closed s) (l_reads s) (l_delivered s) (l_abandoned s) (l_final s) (l_todo s) (l_sends s) (l_cur s) (l_got s) (l_autoseq s) (l_recv s) (l_panic s).
Definition set_ctx (s : lstate) (v : bool) : lstate :=
  mkL (l_owner s) (l_err s) (l_started s) (l_stopping s) (l_stopped s) (l_loop_exited s) (l_budget s) (l_inflight s) (l_nq s) (l_closest s) (l_log s) v (l_handle s) (l_aclosed s) (l_peers_closed s) (l_reads s) (l_delivered s) (l_abandoned s) (l_final s) (l_todo s) (l_sends s) (l_cur s) (l_got s) (l_autoseq s) (l_recv s) (l_panic s).
Definition set_handle (s : lstate) (v : bool) : lstate :=
  mkL (l_owner s) (l_err s) (l_started s) (l_stopping s) (l_stopped s) (l_loop_exited s) (l_budget s) (l_inflight s) (l_nq s) (l_closest s) (l_log s) (l_ctx s) v (l_aclosed s) (l_peers_closed s) (l_reads s) (l_delivered s) (l_abandoned s) (l_final s) (l_todo s) (l_sends s) (l_cur s) (l_got s) (l_autoseq s) (l_recv s) (l_panic s).
Definition set_aclosed (s : lstate) (v : bool) : lstate :=
  mkL (l_owner s) (l_err s) (l_started s) (l_stopping s) (l_stopped s) (l_loop_exited s) (l_budget s) (l_inflight s) (l_nq s) (l_closest s) (l_log s) (l_ctx s) (l_handle s) v (l_peers_closed s) (l_reads s) (l_delivered s) (l_abandoned s) (l_final s) (l_todo s) (l_sends s) (l_cur s) (l_got s) (l_autoseq s) (l_recv s) (l_panic s).
Definition set_peers_closed (s : lstate) (v : bool) : lstate :=
  mkL (l_owner s) (l_err s) (l_started s) (l_stopping s) (l_stopped s) (l_loop_exited s) (l_budget s) (l_inflight s) (l_nq s) (l_closest s) (l_log s) (l_ctx s) (l_handle s) (l_aclosed s) v (l_reads s) (l_delivered s) (l_abandoned s) (l_final s) (l_todo s) (l_sends s) (l_cur s) (l_got s) (l_autoseq s) (l_recv s) (l_panic s).
Definition set_reads (s : lstate) (v : bool) : lstate :=
  mkL (l_owner s) (l_err s) (l_started s) (l_stopping s) (l_stopped s) (l_loop_exited s) (l_budget s) (l_inflight s) (l_nq s) (l_closest s) (l_log s) (l_ctx s) (l_handle s) (l_aclosed s) (l_peers_closed s) v (l_delivered s) (l_abandoned s) (l_final s) (l_todo s) (l_sends s) (l_cur s) (l_got s) (l_autoseq s) (l_recv s) (l_panic s).
Definition set_delivered (s : lstate) (v : list (nat * addr * N * bytes)) : lstate :=
  mkL (l_owner s) (l_err s) (l_started s) (l_stopping s) (l_stopped s) (l_loop_exited s) (l_budget s) (l_inflight s) (l_nq s) (l_closest s) (l_log s) (l_ctx s) (l_handle s) (l_aclosed s) (l_peers_closed s) (l_reads s) v (l_abandoned s) (l_final s) (l_todo s) (l_sends s) (l_cur s) (l_got s) (l_autoseq s) (l_recv s) (l_panic s).
Definition set_abandoned (s : lstate) (v : list nat) : lstate :=
  mkL (l_owner s) (l_err s) (l_started s) (l_stopping s) (l_stopped s) (l_loop_exited s) (l_budget s) (l_inflight s) (l_nq s) (l_closest s) (l_log s) (l_ctx s) (l_handle s) (l_aclosed s) (l_peers_closed s) (l_reads s) (l_delivered s) v (l_final s) (l_todo s) (l_sends s) (l_cur s) (l_got s) (l_autoseq s) (l_recv s) (l_panic s).
Definition set_final (s : lstate) (v : list elem) : lstate :=
  mkL (l_owner s) (l_err s) (l_started s) (l_stopping s) (l_stopped s) (l_loop_exited s) (l_budget s) (l_inflight s) (l_nq s) (l_closest s) (l_log s) (l_ctx s) (l_handle s) (l_aclosed s) (l_peers_closed s) (l_reads s) (l_delivered s) (l_abandoned s) v (l_todo s) (l_sends s) (l_cur s) (l_got s) (l_autoseq s) (l_recv s) (l_panic s).
Definition set_todo (s : lstate) (v : list elem) : lstate :=
  mkL (l_owner s) (l_err s) (l_started s) (l_stopping s) (l_stopped s) (l_loop_exited s) (l_budget s) (l_inflight s) (l_nq s) (l_closest s) (l_log s) (l_ctx s) (l_handle s) (l_aclosed s) (l_peers_closed s) (l_reads s) (l_delivered s) (l_abandoned s) (l_final s) v (l_sends s) (l_cur s) (l_got s) (l_autoseq s) (l_recv s) (l_panic s).
Definition set_sends (s : lstate) (v : list sendrec) : lstate :=
  mkL (l_owner s) (l_err s) (l_started s) (l_stopping s) (l_stopped s) (l_loop_exited s) (l_budget s) (l_inflight s) (l_nq s) (l_closest s) (l_log s) (l_ctx s) (l_handle s) (l_aclosed s) (l_peers_closed s) (l_reads s) (l_delivered s) (l_abandoned s) (l_final s) (l_todo s) v (l_cur s) (l_got s) (l_autoseq s) (l_recv s) (l_panic s).
Definition set_cur (s : lstate) (v : option get_result) : lstate :=
  mkL (l_owner s) (l_err s) (l_started s) (l_stopping s) (l_stopped s) (l_loop_exited s) (l_budget s) (l_inflight s) (l_nq s) (l_closest s) (l_log s) (l_ctx s) (l_handle s) (l_aclosed s) (l_peers_closed s) (l_reads s) (l_delivered s) (l_abandoned s) (l_final s) (l_todo s) (l_sends s) v (l_got s) (l_autoseq s) (l_recv s) (l_panic s).
Definition set_got (s : lstate) (v : bool) : lstate :=
  mkL (l_owner s) (l_err s) (l_started s) (l_stopping s) (l_stopped s) (l_loop_exited s) (l_budget s) (l_inflight s) (l_nq s) (l_closest s) (l_log s) (l_ctx s) (l_handle s) (l_aclosed s) (l_peers_closed s) (l_reads s) (l_delivered s) (l_abandoned s) (l_final s) (l_todo s) (l_sends s) (l_cur s) v (l_autoseq s) (l_recv s) (l_panic s).
Definition set_autoseq (s : lstate) (v : Z) : lstate :=
  mkL (l_owner s) (l_err s) (l_started s) (l_stopping s) (l_stopped s) (l_loop_exited s) (l_budget s) (l_inflight s) (l_nq s) (l_closest s) (l_log s) (l_ctx s) (l_handle s) (l_aclosed s) (l_peers_closed s) (l_reads s) (l_delivered s) (l_abandoned s) (l_final s) (l_todo s) (l_sends s) (l_cur s) (l_got s) v (l_recv s) (l_panic s).
Definition set_recv (s : lstate) (v : list Bep44.reply) : lstate :=
  mkL (l_owner s) (l_err s) (l_started s) (l_stopping s) (l_stopped s) (l_loop_exited s) (l_budget s) (l_inflight s) (l_nq s) (l_closest s) (l_log s) (l_ctx s) (l_handle s) (l_aclosed s) (l_peers_closed s) (l_reads s) (l_delivered s) (l_abandoned s) (l_final s) (l_todo s) (l_sends s) (l_cur s) (l_got s) (l_autoseq s) v (l_panic s).
Definition set_panic (s : lstate) (v : bool) : lstate :=
  mkL (l_owner s) (l_err s) (l_started s) (l_stopping s) (l_stopped s) (l_loop_exited s) (l_budget s) (l_inflight s) (l_nq s) (l_closest s) (l_log s) (l_ctx s) (l_handle s) (l_aclosed s) (l_peers_closed s) (l_reads s) (l_delivered s) (l_abandoned s) (l_final s) (l_todo s) (l_sends s) (l_cur s) (l_got s) (l_autoseq s) (l_recv s) v.

Definition l_init (c : lcfg) : lstate :=
  mkL OStart None false false false false (lc_budget c) [] 0 [] [] false false false false true [] [] [] [] []
      None false 0%Z [] false.

Inductive label :=
| OStartTrav | OGetNodes | OStalled | OCtx | OStopStep | OStoppedStep
| OSend (sent : bool) | OSendsDone | OCloseP
| TIssue (a : addr) | TLoopExit | TStopWait
| QReturn (q : nat) (r : option greply) | QDeliver (q : nat) | QAbandon (q : nat) | QFinish (q : nat)
| ECtx | EClose | EStopTrav | EConsumerStop.

Definition external (l : label) : bool :=
  match l with ECtx | EClose | EStopTrav | EConsumerStop => true | _ => false end.
Definition internal (l : label) : bool := negb (external l).

Definition opc_eqb (a b : opc) : bool :=
  match a, b with
  | OStart, OStart | OStartNodes, OStartNodes | OWait, OWait | OStop, OStop | OWaitStopped, OWaitStopped
  | OAnnounce, OAnnounce | OClosePeers, OClosePeers | ODone, ODone => true
  | _, _ => false
  end.
Definition qphase_eqb (a b : qphase) : bool :=
  match a, b with PQuery, PQuery | PDeliver, PDeliver | PReturn, PReturn => true | _, _ => false end.
Definition is_announce (c : lcfg) : bool := match lc_api c with AAnnounce => true | _ => false end.
Definition is_getput (c : lcfg) : bool := match lc_api c with AGet | APut => true | _ => false end.
Definition repaired (c : lcfg) : bool := match lc_variant c with Repaired => true | Pinned => false end.
Definition nil_b {A} (l : list A) : bool := match l with [] => true | _ => false end.

Definition find_tq (q : nat) (l : list tquery) : option tquery := find (fun x => Nat.eqb (tq_id x) q) l.
(* the first in-flight query with this id (ids are unique: LookupsProofs) *)
Fixpoint upd_tq (q : nat) (f : tquery -> tquery) (l : list tquery) : list tquery :=
  match l with
  | [] => []
  | x :: r => if Nat.eqb (tq_id x) q then f x :: r else x :: upd_tq q f r
  end.
Fixpoint del_tq (q : nat) (l : list tquery) : list tquery :=
  match l with
  | [] => []
  | x :: r => if Nat.eqb (tq_id x) q then r else x :: del_tq q r
  end.
Definition tq_set_phase (p : qphase) (x : tquery) : tquery := mkTQ (tq_id x) (tq_addr x) p (tq_res x).
Definition tq_returned (p : qphase) (r : option greply) (x : tquery) : tquery := mkTQ (tq_id x) (tq_addr x) p r.
Definition tq_at (s : lstate) (q : nat) (p : qphase) : bool :=
  match find_tq q (l_inflight s) with Some x => qphase_eqb (tq_phase x) p | None => false end.

Section Lookups.
  Variable sha1 : bytes -> bytes.
  Variable ed_verify : bytes -> bytes -> bytes -> bool.
  Variable node_ok : addr -> N -> bool.               (* Server.TraversalNodeFilter on the responder *)
  Variable push : list elem -> elem -> list elem.     (* k_nearest_nodes Push (Operation.addClosest) *)
  Variable c : lcfg.

  Definition accept (r : greply) : accept_res :=
    client_accept sha1 ed_verify (lc_variant c) (lc_tgt c) (lc_salt c) (gr_item r).

  (* Stalled() is receivable: the run loop offers it with nothing in flight, or has exited *)
  Definition stall_ready (s : lstate) : bool := l_started s && (l_loop_exited s || nil_b (l_inflight s)).

  (* the traversal has candidates only once AddNodes was given the starting nodes *)
  Definition seeded (s : lstate) : bool :=
    match lc_sn c with
    | SNOk => negb (opc_eqb (l_owner s) OStart || opc_eqb (l_owner s) OStartNodes)
    | _ => false
    end.

  (* phase after Server.Query returned inside DoQuery *)
  Definition after_query (r : option greply) : qphase :=
    match r with
    | None => PReturn
    | Some x =>
        if negb (gr_has_r x) then PReturn
        else match lc_api c with
             | ABootstrap => PReturn
             | AAnnounce => PDeliver
             | AGet | APut => match accept x with AccImm _ | AccMut _ => PDeliver | _ => PReturn end
             end
    end.
  Definition query_panics (r : option greply) : bool :=
    match r with
    | Some x => gr_has_r x && is_getput c && match accept x with AccPanic => true | _ => false end
    | None => false
    end.

  (* the element addClosest pushes for a finished query, if any *)
  Definition closest_elem (a : addr) (r : option greply) : option elem :=
    match r with
    | None => None
    | Some x =>
        if gr_has_r x && node_ok a (gr_id x) then
          match lc_api c with
          | AAnnounce => match gr_token x with Some t => Some (mkE (gr_id x) a t) | None => None end   (* DataFilter: string *)
          | ABootstrap => Some (mkE (gr_id x) a [])
          | AGet | APut => Some (mkE (gr_id x) a (match gr_token x with Some t => t | None => [] end))
          end
        else None
    end.

  Definition announce_rec (e : elem) (sent : bool) : list sendrec :=
    match lc_ann c with
    | Some (port, imp) =>
        if Z.eqb port 0 && negb imp then []                        (* "no port specified": no query *)
        else [mkSR (e_addr e) (e_data e) (lc_target c) port imp 0%Z sent]
    | None => []
    end.

  Definition enabled (s : lstate) (l : label) : bool :=
    negb (l_panic s) &&
    match l with
    | OStartTrav => opc_eqb (l_owner s) OStart
    | OGetNodes => opc_eqb (l_owner s) OStartNodes
    | OStalled => opc_eqb (l_owner s) OWait && stall_ready s
    | OCtx => opc_eqb (l_owner s) OWait && l_ctx s && negb (is_announce c)
    | OStopStep => opc_eqb (l_owner s) OStop
    | OStoppedStep => opc_eqb (l_owner s) OWaitStopped && l_stopped s
    | OSend _ => opc_eqb (l_owner s) OAnnounce && negb (nil_b (l_todo s))
    | OSendsDone => opc_eqb (l_owner s) OAnnounce && nil_b (l_todo s)
    | OCloseP => opc_eqb (l_owner s) OClosePeers
    | TIssue _ => l_started s && negb (l_stopping s) && negb (l_loop_exited s) && negb (Nat.eqb (l_budget s) 0) && seeded s
    | TLoopExit => l_started s && l_stopping s && negb (l_loop_exited s)
    | TStopWait => l_started s && l_stopping s && negb (l_stopped s) && nil_b (l_inflight s)
    | QReturn q _ => tq_at s q PQuery
    | QDeliver q =>
        tq_at s q PDeliver &&
        (if is_announce c then l_reads s else opc_eqb (l_owner s) OWait)
    | QAbandon q =>
        tq_at s q PDeliver &&
        (if is_announce c then (if lc_abandon_closed c then l_aclosed s else l_stopped s) else l_stopping s)
    | QFinish q => tq_at s q PReturn
    | ECtx => negb (l_ctx s)
    | EClose => l_handle s && negb (l_aclosed s)
    | EStopTrav => l_handle s && negb (l_stopping s)
    | EConsumerStop => l_reads s
    end.

  Definition res_of (s : lstate) (q : nat) : option greply :=
    match find_tq q (l_inflight s) with Some x => tq_res x | None => None end.
  Definition addr_of (s : lstate) (q : nat) : addr :=
    match find_tq q (l_inflight s) with Some x => tq_addr x | None => 0%N end.

  Definition deliver (s : lstate) (q : nat) : lstate :=
    let s1 := set_inflight s (upd_tq q (tq_set_phase PReturn) (l_inflight s)) in
    match res_of s q with
    | None => s1
    | Some x =>
        match lc_api c with
        | AAnnounce =>
            if l_peers_closed s then set_panic s1 true                   (* send on a closed channel *)
            else set_delivered s1 (l_delivered s ++ [(q, addr_of s q, gr_id x, gr_payload x)])
        | AGet =>
            match accept x with
            | AccImm g => set_owner (set_recv (set_got (set_cur s1 (Some g)) true) (l_recv s ++ [gr_item x])) OStop
            | AccMut g =>
                let take := match l_cur s with None => true | Some cur => Z.leb (res_seq cur) (res_seq g) end in
                set_recv (set_got (set_cur s1 (if take then Some g else l_cur s)) true) (l_recv s ++ [gr_item x])
            | _ => s1
            end
        | APut =>
            match accept x with
            | AccMut g =>
                set_recv (set_autoseq s1 (if Z.ltb (l_autoseq s) (res_seq g) then res_seq g else l_autoseq s))
                         (l_recv s ++ [gr_item x])
            | AccImm _ => set_recv s1 (l_recv s ++ [gr_item x])
            | _ => s1
            end
        | ABootstrap => s1
        end
    end.

  Definition step (s : lstate) (l : label) : lstate :=
    match l with
    | OStartTrav => set_owner (set_started s true) OStartNodes
    | OGetNodes =>
        match lc_sn c with
        | SNOk => set_owner (if is_announce c then set_handle s true else s) OWait
        | _ =>
            let s1 := set_owner (set_err s (Some ErrStart)) ODone in
            if is_announce c || repaired c then set_stopping s1 true else s1
        end
    | OStalled =>
        let s1 := match lc_api c with
                  | AGet => if l_got s then s else set_err s (Some ErrNotFound)
                  | _ => s
                  end in
        set_owner s1 OStop
    | OCtx => set_owner (set_err s (Some ErrCtx)) OStop
    | OStopStep =>
        let s1 := set_stopping s true in
        match lc_api c with
        | ABootstrap => set_owner s1 (match l_err s with Some _ => ODone | None => OWaitStopped end)
        | AAnnounce => set_owner s1 OWaitStopped
        | AGet => set_owner s1 ODone
        | APut => set_owner (set_todo (set_final s1 (l_closest s)) (l_closest s)) OAnnounce
        end
    | OStoppedStep =>
        match lc_api c with
        | AAnnounce =>
            match lc_ann c with
            | Some _ => set_owner (set_todo (set_final s (l_closest s)) (l_closest s)) OAnnounce
            | None => set_owner (set_final s (l_closest s)) OClosePeers
            end
        | _ => set_owner s ODone
        end
    | OSend sent =>
        match l_todo s with
        | [] => s
        | e :: rest =>
            let recs := match lc_api c with
                        | AAnnounce => announce_rec e sent
                        | _ => [mkSR (e_addr e) (e_data e) (lc_target c) 0%Z false (l_autoseq s) sent]
                        end in
            set_sends (set_todo s rest) (l_sends s ++ recs)
        end
    | OSendsDone => set_owner s (if is_announce c then OClosePeers else ODone)
    | OCloseP => set_owner (set_peers_closed s true) ODone
    | TIssue a =>
        set_nq (set_inflight (set_budget s (pred (l_budget s))) (l_inflight s ++ [mkTQ (l_nq s) a PQuery None])) (S (l_nq s))
    | TLoopExit => set_loop_exited s true
    | TStopWait => set_stopped s true
    | QReturn q r =>
        let s1 := set_inflight s (upd_tq q (tq_returned (after_query r) r) (l_inflight s)) in
        let s2 := match r with Some x => set_log s1 (l_log s ++ [(q, addr_of s q, x)]) | None => s1 end in
        if query_panics r then set_panic s2 true else s2
    | QDeliver q => deliver s q
    | QAbandon q => set_abandoned (set_inflight s (upd_tq q (tq_set_phase PReturn) (l_inflight s))) (l_abandoned s ++ [q])
    | QFinish q =>
        let s1 := set_inflight s (del_tq q (l_inflight s)) in
        match closest_elem (addr_of s q) (res_of s q) with
        | Some e => set_closest s1 (push (l_closest s) e)
        | None => s1
        end
    | ECtx => set_ctx s true
    | EClose => set_aclosed (set_stopping s true) true
    | EStopTrav => set_stopping s true
    | EConsumerStop => set_reads s false
    end.

  Definition step_en (s : lstate) (l : label) : lstate := if enabled s l then step s l else s.
  Definition exec (s : lstate) (ls : list label) : lstate := fold_left step_en ls s.
  Definition run (ls : list label) : lstate := exec (l_init c) ls.

  (* observables *)
  Definition owner_done (s : lstate) : bool := opc_eqb (l_owner s) ODone.
  (* every process of the lookup has ended *)
  Definition all_done (s : lstate) : bool :=
    owner_done s && nil_b (l_inflight s) && nil_b (l_todo s) &&
    (negb (l_started s) || (l_stopping s && l_stopped s && l_loop_exited s)).
  (* announcing is enabled and will put a datagram's worth of arguments together *)
  Definition announcing : bool :=
    match lc_ann c with Some (port, imp) => negb (Z.eqb port 0 && negb imp) | None => false end.

  (* termination measure (LookupsProofs.lmu_decreases) *)
  Definition phase_w (p : qphase) : nat := match p with PQuery => 3 | PDeliver => 2 | PReturn => 1 end.
  Definition inflight_w (l : list tquery) : nat := fold_right (fun x acc => phase_w (tq_phase x) + acc) 0 l.
  Definition owner_w (p : opc) : nat :=
    match p with
    | OStart => 9 | OStartNodes => 8 | OWait => 7 | OStop => 6 | OWaitStopped => 5 | OAnnounce => 4
    | OClosePeers => 3 | ODone => 0
    end.
  Definition before_sends (p : opc) : bool :=
    match p with OStart | OStartNodes | OWait | OStop | OWaitStopped => true | _ => false end.
  Definition b2n (b : bool) : nat := if b then 0 else 1.
  Definition lmu (s : lstate) : nat :=
    owner_w (l_owner s) + 4 * l_budget s + inflight_w (l_inflight s)
    + (if before_sends (l_owner s) then length (l_closest s) + length (l_inflight s) + l_budget s else 0)
    + length (l_todo s)
    + b2n (l_stopping s) + b2n (l_stopped s) + b2n (l_loop_exited s)
    + b2n (l_ctx s) + b2n (l_aclosed s) + (if l_reads s then 1 else 0).
End Lookups.

(* ---- an executable container for [push]: k_nearest_nodes.Type keyed by (distance of the id to the target,
   then address), kept sorted, trimmed to k after every Push (same shape as Order.kn_push; ids are
   numbers here).  Used by RunLookups and by the non-vacuity examples. ---- *)
Definition lk_cmp (t : N) (a b : elem) : comparison :=
  match N.compare (N.lxor (e_id a) t) (N.lxor (e_id b) t) with
  | Eq => N.compare (e_addr a) (e_addr b)
  | x => x
  end.
Fixpoint lk_insert (t : N) (e : elem) (l : list elem) : list elem :=
  match l with
  | [] => [e]
  | y :: r =>
      match lk_cmp t e y with
      | Lt => e :: l
      | Eq => e :: r
      | Gt => y :: lk_insert t e r
      end
  end.
Definition lk_push (t : N) (k : nat) (l : list elem) (e : elem) : list elem := firstn k (lk_insert t e l).

