(* RunMaint.v — glue evaluated by the model runner for the maint engine's `mpass` lines: one pass of the
   real TableMaintainer over a prepared table, on a network that answers questionable-node pings for a
   chosen set of contacts and never answers find_node.  Uniquely prefixed (rm_) constructors and views for
   the flat extraction. *)
From Coq Require Import List NArith ZArith Bool.
From Dht Require Import Base Msg Server Maint RunServer.
Import ListNotations.

Definition rm_cfg (root : N) (nosec : bool) : config :=
  mkCfg root false nosec false false (fun _ => true) false [].

Definition rm_node (id : N) (ipb : bytes) (prt : N) (lq lr : option Z) (failed : bool) (slot : nat) : node :=
  mkNode id (mkAddr ipb prt) lq lr failed slot.

Definition rm_node_id (n : node) : N := n_id n.
Definition rm_node_ip (n : node) : bytes := ip (n_addr n).
Definition rm_node_port (n : node) : N := port (n_addr n).
Definition rm_node_failed (n : node) : bool := n_failed n.
Definition rm_node_addr_view (n : node) : addr := n_addr n.

(* 0 good, 1 questionable, 2 bad - as Server.IsGood / IsQuestionable / nodeIsBad classify *)
Definition rm_class (c : config) (now : Z) (n : node) : N :=
  if m_bad id_secure_impl c n then 2%N
  else if m_good id_secure_impl c now n then 0%N else 1%N.

Definition rm_answers (l : list (N * (bytes * N))) (n : node) : bool :=
  existsb (fun e => N.eqb (fst e) (n_id n) && key_eqb (snd e) (addr_key (n_addr n))) l.

(* [same]: entries whose host answers pings under the id the entry is stored with; [others]: entries whose host
   answers under another id; everybody else is silent *)
Definition rm_ping_outcome (same others : list (N * (bytes * N))) (n : node) : ping_outcome :=
  if rm_answers same n then PSameId else if rm_answers others n then POtherId else PSilent.

(* the bootstrap that precedes the first pass: every table entry the traversal's node filter lets
   through is asked (nobody answers find_node, so the closest set never fills) *)
Definition rm_boot (c : config) (nodes : list node) : list node :=
  filter (fun n => valid_node_addr (ip (n_addr n)) (port (n_addr n)) &&
                   (c_no_security c || id_secure_impl (n_id n) (ip (n_addr n)))) nodes.

(* contacts of [fans] answer find_node (with an empty node list): the bootstrap that precedes the pass asks every
   entry the filter lets through, so those of them that answer have just responded when the pass begins (a response
   also clears the failed flag); fewer than K contacts answer, so no traversal's result set ever fills and every seed
   is asked *)
Definition rm_boot_effect (c : config) (now : Z) (fans : list (N * (bytes * N))) (nodes : list node) : list node :=
  map (fun n => if existsb (fun m => N.eqb (n_id m) (n_id n) && key_eqb (addr_key (n_addr m)) (addr_key (n_addr n))) (rm_boot c nodes)
                   && rm_answers fans n
                then apply_update now UResponse n else n) nodes.

(* [booted]: the application ran Server.Bootstrap itself less than 30 minutes ago (Server.shouldBootstrap is false):
   the maintainer goes straight to its pass *)
Definition rm_boot_asked (c : config) (booted : bool) (nodes : list node) : list node :=
  if booted then [] else rm_boot c nodes.

Definition rm_pass (c : config) (now : Z) (booted : bool) (answering others fans : list (N * (bytes * N))) (nodes : list node)
  : list phase * list node :=
  pass id_secure_impl c now (rm_ping_outcome answering others) (refresh_answering id_secure_impl c now (rm_answers fans))
       (if booted then nodes else rm_boot_effect c now fans nodes).

(* tag 0 ping / 1 refresh / 2 break / 3 done *)
Definition rm_phase_view (p : phase) : N * (nat * list node) :=
  match p with
  | PPing i l => (0%N, (i, l))
  | PRefresh i l => (1%N, (i, l))
  | PBreak i => (2%N, (i, []))
  | PDone => (3%N, (O, []))
  end.
