(* RunMaint.v — glue evaluated by the model runner for the maint engine's `mpass` lines: one pass of the
   real TableMaintainer over a prepared table, on a network that answers questionable-node pings for a
   chosen set of contacts and never answers find_node.  Uniquely prefixed (rm_) constructors and views for
   the flat extraction. *)
From Coq Require Import List NArith ZArith Bool.
From Dht Require Import Base Msg Server Maint RunServer.
Import ListNotations.

Definition rm_cfg (root : N) (nosec : bool) : config :=
  mkCfg root false nosec false false (fun _ => true) false [].

Definition rm_node (id : N) (ipb : bytes) (prt : N) (lq lr : option Z) (failed : bool) (slot : nat) : node :=
  mkNode id (mkAddr ipb prt) lq lr failed slot.

Definition rm_node_id (n : node) : N := n_id n.
Definition rm_node_ip (n : node) : bytes := ip (n_addr n).
Definition rm_node_port (n : node) : N := port (n_addr n).
Definition rm_node_failed (n : node) : bool := n_failed n.
Definition rm_node_addr_view (n : node) : addr := n_addr n.

(* 0 good, 1 questionable, 2 bad - as Server.IsGood / IsQuestionable / nodeIsBad classify *)
Definition rm_class (c : config) (now : Z) (n : node) : N :=
  if m_bad id_secure_impl c n then 2%N
  else if m_good id_secure_impl c now n then 0%N else 1%N.

Definition rm_answers (l : list (N * (bytes * N))) (n : node) : bool :=
  existsb (fun e => N.eqb (fst e) (n_id n) && key_eqb (snd e) (addr_key (n_addr n))) l.

(* the bootstrap that precedes the first pass: every table entry the traversal's node filter lets
   through is asked (nobody answers find_node, so the closest set never fills) *)
Definition rm_boot (c : config) (nodes : list node) : list node :=
  filter (fun n => valid_node_addr (ip (n_addr n)) (port (n_addr n)) &&
                   (c_no_security c || id_secure_impl (n_id n) (ip (n_addr n)))) nodes.

Definition rm_pass (c : config) (now : Z) (answering : list (N * (bytes * N))) (nodes : list node)
  : list phase * list node :=
  pass id_secure_impl c now (rm_answers answering) refresh_silent nodes.

(* tag 0 ping / 1 refresh / 2 break / 3 done *)
Definition rm_phase_view (p : phase) : N * (nat * list node) :=
  match p with
  | PPing i l => (0%N, (i, l))
  | PRefresh i l => (1%N, (i, l))
  | PBreak i => (2%N, (i, []))
  | PDone => (3%N, (O, []))
  end.
