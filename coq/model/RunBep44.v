(* RunBep44.v — executable glue between the `bep44` harness engine and the Bep44 model (what the
   model runner evaluates for each harness line).  No proofs.
   The model run against the code is the REPAIRED variant with locking: on the tree as pinned the
   CAS cases and the unlocked interleavings disagree (findings D6, D7).
   [sha1] is instantiated with the Gallina SHA-1; [edv] (ed25519 verification) is passed in by the
   runner as a lookup into the verdict table printed by the harness. *)
From Dht Require Import Base Bep44 Sha1.
Local Open Scope Z_scope.

Definition rb_buf (salt bv : bytes) (seq : Z) : bytes := buffer_to_sign salt bv seq.
Definition rb_target (i : item) : bytes := target sha1 i.
Definition rb_mtarget (k salt : bytes) : bytes := mutable_target sha1 k salt.
Definition rb_check (edv : bytes -> bytes -> bytes -> bool) (i : item) : option Z := check edv i.
Definition rb_checkin (stored incoming : item) : option Z := check_incoming Repaired stored incoming.

(* sequential histories *)
Definition rb_seq_step (edv : bytes -> bytes -> bytes -> bool) (exp : Z) (st : sstate) (e : event)
  : sstate * obs := seq_step sha1 edv Repaired exp st e.

(* ---- concurrent cases: the harness acts on one thread at a time ("start it" or "let it perform the
   store call it is waiting at") and then reports, for every thread, where it is.  Lock acquire and
   release are not observable by themselves: a release is performed right after the last store call
   of the holder, an acquire when the harness reports that a waiting thread got going. ---- *)
Record cstate := mkC { c_g : gstate; c_wait : list nat }.

Fixpoint mem_nat (x : nat) (l : list nat) : bool :=
  match l with [] => false | y :: r => Nat.eqb x y || mem_nat x r end.
Fixpoint remove_nat (x : nat) (l : list nat) : list nat :=
  match l with [] => [] | y :: r => if Nat.eqb x y then remove_nat x r else y :: remove_nat x r end.

Definition rb_cinit (ths : list thread) (s : store) : cstate := mkC (g_init ths s) [].

Section Conc.
  Variable edv : bytes -> bytes -> bytes -> bool.
  Variable exp : Z.
  Variable ths : list thread.

  Definition c_release (g : gstate) (tid : nat) : gstate :=
    match nth_error (g_pcs g) tid with
    | Some (PcUnlock _) => g_next sha1 edv true Repaired exp ths g tid
    | _ => g
    end.

  (* thread [tid] tries to enter its Wrapper method *)
  Definition c_try (c : cstate) (tid : nat) : cstate :=
    match g_step sha1 edv true Repaired exp ths (c_g c) tid with
    | Some g' => mkC (c_release g' tid) (remove_nat tid (c_wait c))
    | None => mkC (c_g c) (if mem_nat tid (c_wait c) then c_wait c else c_wait c ++ [tid])
    end.

  (* [advanced]: the threads the harness saw leave the blocked state, those that finished first *)
  Definition rb_caction (c : cstate) (tid : nat) (advanced : list nat) : cstate :=
    let c1 :=
      match nth_error (g_pcs (c_g c)) tid with
      | Some PcInit => if mem_nat tid (c_wait c) then c else c_try c tid
      | Some (PcDone _) | None => c
      | Some _ => mkC (c_release (g_next sha1 edv true Repaired exp ths (c_g c) tid) tid) (c_wait c)
      end in
    fold_left (fun c a => if mem_nat a (c_wait c) then c_try c a else c) advanced c1.
End Conc.

(* a thread is waiting although nobody holds the lock: not a state of the model *)
Definition rb_cstuck (c : cstate) : bool :=
  match g_lock (c_g c), c_wait c with
  | None, _ :: _ => true
  | _, _ => false
  end.
