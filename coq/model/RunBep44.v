(* RunBep44.v — executable glue between the `bep44` harness engine and the Bep44 model (what the
   model runner evaluates for each harness line).  No proofs.
   The model run against the code is the REPAIRED variant with locking: on the tree as pinned the
   CAS cases and the unlocked interleavings disagree (findings D6, D7).
   [sha1] is instantiated with the Gallina SHA-1; [edv] (ed25519 verification) is passed in by the
   runner as a lookup into the verdict table printed by the harness.

   Interface discipline: the OCaml driver uses ONLY the [rb_*] functions below and the basic types
   of ExtrOcamlBasic (list, option, pairs, bool) plus N/Z.  No record field, constructor or type name
   of Bep44.v appears in the driver, so the flat extraction may rename them freely when other models
   define the same names. *)
From Dht Require Import Base Bep44 Bep44Fault Bep44Rebuild Sha1.
Local Open Scope Z_scope.

(* ---- items ---- *)
Definition rb_mk_item (bv k salt sg : bytes) (cas seq created : Z) : item := mkItem bv k salt sg cas seq created.
Definition rb_it_bv (i : item) : bytes := it_bv i.
Definition rb_it_k (i : item) : bytes := it_k i.
Definition rb_it_salt (i : item) : bytes := it_salt i.
Definition rb_it_sig (i : item) : bytes := it_sig i.
Definition rb_it_cas (i : item) : Z := it_cas i.
Definition rb_it_seq (i : item) : Z := it_seq i.
Definition rb_it_created (i : item) : Z := it_created i.
Definition rb_is_mutable (i : item) : bool := is_mutable i.

(* result codes: 0 = accepted / reply, -1 = a non-KRPC error, otherwise the KRPC error code *)
Definition rb_put_code (r : put_res) : Z :=
  match r with POk => 0 | PErr c => c | POther => -1 end.
Definition rb_opt_code (r : option Z) : Z := match r with None => 0 | Some c => c end.

(* ---- pure functions ---- *)
Definition rb_buf (salt bv : bytes) (seq : Z) : bytes := buffer_to_sign salt bv seq.
Definition rb_target (i : item) : bytes := target sha1 i.
Definition rb_mtarget (k salt : bytes) : bytes := mutable_target sha1 k salt.
Definition rb_check (edv : bytes -> bytes -> bytes -> bool) (i : item) : Z := rb_opt_code (check edv i).
Definition rb_checkin (stored incoming : item) : Z := rb_opt_code (check_incoming Repaired stored incoming).

(* ---- sequential histories ---- *)
Definition rb_s0 : sstate := mkSState 0 [].
Definition rb_sclock (st : sstate) : Z := s_clock st.
Definition rb_sstore (st : sstate) : list (bytes * item) := s_store st.
Definition rb_swith_store (st : sstate) (s : list (bytes * item)) : sstate := mkSState (s_clock st) s.

Section Seq.
  Variable edv : bytes -> bytes -> bytes -> bool.
  Variable exp : Z.

  Definition rb_sadvance (st : sstate) (d : Z) : sstate := fst (seq_step sha1 edv Repaired exp st (EAdvance d)).

  Definition rb_sput (st : sstate) (i : item) : sstate * Z :=
    match seq_step sha1 edv Repaired exp st (EPut i) with
    | (st', OPut r) => (st', rb_put_code r)
    | (st', _) => (st', -2)
    end.

  Definition rb_sget (st : sstate) (t : bytes) : sstate * option item :=
    match seq_step sha1 edv Repaired exp st (EGet t) with
    | (st', OGet r) => (st', r)
    | (st', _) => (st', None)
    end.

  (* inbound put: 0 = reply, otherwise the error code sent *)
  Definition rb_swput (st : sstate) (bv k salt sg : bytes) (cas : Z) (seq : option Z) : sstate * Z :=
    match seq_step sha1 edv Repaired exp st (EWirePut (mkPutArgs bv k salt sg cas seq)) with
    | (st', OWirePut SReply) => (st', 0)
    | (st', OWirePut (SError c)) => (st', c)
    | (st', _) => (st', -2)
    end.

  (* inbound get: the seq field and the (v, k, sig) fields of the reply *)
  Definition rb_swget (st : sstate) (t : bytes) (sq : option Z)
    : sstate * (option Z * option (bytes * bytes * bytes)) :=
    match seq_step sha1 edv Repaired exp st (EWireGet t sq) with
    | (st', OWireGet g) => (st', (gr_seq g, gr_val g))
    | (st', _) => (st', (None, None))
    end.

  (* Server.Put: code 0 = stored and the query (v, k, salt, sig, cas, seq) goes out *)
  Definition rb_slput (st : sstate) (bv : bytes) (k : option bytes) (salt sg : bytes) (cas seq : Z)
    : sstate * (Z * option (bytes * bytes * bytes * bytes * Z * option Z)) :=
    match seq_step sha1 edv Repaired exp st (ELocalPut (mkPutIn bv k salt sg cas seq)) with
    | (st', OLocal (LQuery a)) =>
        (st', (0, Some (pa_bv a, pa_k a, pa_salt a, pa_sig a, pa_cas a, pa_seq a)))
    | (st', OLocal (LErr r)) => (st', (rb_put_code r, None))
    | (st', _) => (st', (-2, None))
    end.
  (* ---- the same operations while chosen calls of the underlying Store fail (Bep44Fault.v).
     fg / fp / fd: the s.Get / s.Put / s.Del call made by this operation returns an error ---- *)
  Definition rb_sfput (st : sstate) (fg fp : bool) (i : item) : sstate * Z :=
    match fseq_step sha1 edv Repaired exp st (FPut (mkFaults fg fp false) i) with
    | (st', FOPut r) => (st', rb_put_code r)
    | (st', _) => (st', -2)
    end.

  (* Wrapper.Get: (0, item) found | (1, _) not found | (2, _) the store's error *)
  Definition rb_sfget (st : sstate) (fg fd : bool) (t : bytes) : sstate * (Z * option item) :=
    match fseq_step sha1 edv Repaired exp st (FGet (mkFaults fg false fd) t) with
    | (st', FOGet (FGItem i)) => (st', (0, Some i))
    | (st', FOGet FGNotFound) => (st', (1, None))
    | (st', FOGet FGOther) => (st', (2, None))
    | (st', _) => (st', (-2, None))
    end.

  Definition rb_sfwput (st : sstate) (fg fp : bool) (bv k salt sg : bytes) (cas : Z) (seq : option Z) : sstate * Z :=
    match fseq_step sha1 edv Repaired exp st (FWirePut (mkFaults fg fp false) (mkPutArgs bv k salt sg cas seq)) with
    | (st', FOWirePut SReply) => (st', 0)
    | (st', FOWirePut (SError c)) => (st', c)
    | (st', _) => (st', -2)
    end.

  (* inbound get: error code (0 = a reply) and the seq / (v, k, sig) fields of the reply *)
  Definition rb_sfwget (st : sstate) (fg fd : bool) (t : bytes) (sq : option Z)
    : sstate * (Z * (option Z * option (bytes * bytes * bytes))) :=
    match fseq_step sha1 edv Repaired exp st (FWireGet (mkFaults fg false fd) t sq) with
    | (st', FOWireGet (FGReply g)) => (st', (0, (gr_seq g, gr_val g)))
    | (st', FOWireGet (FGError c)) => (st', (c, (None, None)))
    | (st', _) => (st', (-2, (None, None)))
    end.

  Definition rb_sflput (st : sstate) (fg fp : bool) (bv : bytes) (k : option bytes) (salt sg : bytes) (cas seq : Z)
    : sstate * (Z * option (bytes * bytes * bytes * bytes * Z * option Z)) :=
    match fseq_step sha1 edv Repaired exp st (FLocalPut (mkFaults fg fp false) (mkPutIn bv k salt sg cas seq)) with
    | (st', FOLocal (LQuery a)) =>
        (st', (0, Some (pa_bv a, pa_k a, pa_salt a, pa_sig a, pa_cas a, pa_seq a)))
    | (st', FOLocal (LErr r)) => (st', (rb_put_code r, None))
    | (st', _) => (st', (-2, None))
    end.
End Seq.

(* ---- the same operations over an underlying Store that rebuilds items (Bep44Rebuild.v).
   fp / fg: the store loses the time stamp when the item is written / when it is read back ---- *)
Definition rb_zero_time : Z := go_zero_time.

Section SeqK.
  Variable edv : bytes -> bytes -> bytes -> bool.
  Variable exp : Z.
  Variable fp fg : bool.

  Definition rb_skput (st : sstate) (i : item) : sstate * Z :=
    match kseq_step sha1 edv (mkKind fp fg) Repaired exp st (EPut i) with
    | (st', OPut r) => (st', rb_put_code r)
    | (st', _) => (st', -2)
    end.

  Definition rb_skget (st : sstate) (t : bytes) : sstate * option item :=
    match kseq_step sha1 edv (mkKind fp fg) Repaired exp st (EGet t) with
    | (st', OGet r) => (st', r)
    | (st', _) => (st', None)
    end.

  Definition rb_skwput (st : sstate) (bv k salt sg : bytes) (cas : Z) (seq : option Z) : sstate * Z :=
    match kseq_step sha1 edv (mkKind fp fg) Repaired exp st (EWirePut (mkPutArgs bv k salt sg cas seq)) with
    | (st', OWirePut SReply) => (st', 0)
    | (st', OWirePut (SError c)) => (st', c)
    | (st', _) => (st', -2)
    end.

  Definition rb_skwget (st : sstate) (t : bytes) (sq : option Z)
    : sstate * (option Z * option (bytes * bytes * bytes)) :=
    match kseq_step sha1 edv (mkKind fp fg) Repaired exp st (EWireGet t sq) with
    | (st', OWireGet g) => (st', (gr_seq g, gr_val g))
    | (st', _) => (st', (None, None))
    end.

  Definition rb_sklput (st : sstate) (bv : bytes) (k : option bytes) (salt sg : bytes) (cas seq : Z)
    : sstate * (Z * option (bytes * bytes * bytes * bytes * Z * option Z)) :=
    match kseq_step sha1 edv (mkKind fp fg) Repaired exp st (ELocalPut (mkPutIn bv k salt sg cas seq)) with
    | (st', OLocal (LQuery a)) =>
        (st', (0, Some (pa_bv a, pa_k a, pa_salt a, pa_sig a, pa_cas a, pa_seq a)))
    | (st', OLocal (LErr r)) => (st', (rb_put_code r, None))
    | (st', _) => (st', (-2, None))
    end.
End SeqK.

(* ---- concurrent cases: the harness acts on one thread at a time ("start it" or "let it perform the
   store call it is waiting at") and then reports, for every thread, where it is.  Lock acquire and
   release are not observable by themselves: a release is performed right after the last store call
   of the holder, an acquire when the harness reports that a waiting thread got going. ---- *)
Record cstate := mkC { c_g : gstate; c_wait : list nat }.

Fixpoint mem_nat (x : nat) (l : list nat) : bool :=
  match l with [] => false | y :: r => Nat.eqb x y || mem_nat x r end.
Fixpoint remove_nat (x : nat) (l : list nat) : list nat :=
  match l with [] => [] | y :: r => if Nat.eqb x y then remove_nat x r else y :: remove_nat x r end.

Definition rb_thread_put (i : item) (now : Z) : thread := mkThread (TPut i) now.
Definition rb_thread_get (t : bytes) (now : Z) : thread := mkThread (TGet t) now.

Definition rb_cinit (ths : list thread) (s : list (bytes * item)) : cstate := mkC (g_init ths s) [].
Definition rb_cstore (c : cstate) : list (bytes * item) := g_store (c_g c).
Definition rb_cwaiting (c : cstate) (tid : nat) : bool := mem_nat tid (c_wait c).

(* where a thread is, as the harness can see it: (kind, payload)
   0 not started | 1 waiting for the lock | 2 before s.Get | 3 before s.Put | 4 before s.Del |
   5 about to return (never visible) | 6 put returned (payload: code) | 7 get returned not-found |
   8 get returned an item (payload: its seq) | 9 no such thread *)
Definition rb_cstatus (c : cstate) (tid : nat) : Z * Z :=
  match nth_error (g_pcs (c_g c)) tid with
  | None => (9, 0)
  | Some PcInit => if mem_nat tid (c_wait c) then (1, 0) else (0, 0)
  | Some PcPutGet | Some PcGetGet => (2, 0)
  | Some PcPutPut => (3, 0)
  | Some PcGetDel => (4, 0)
  | Some (PcUnlock _) => (5, 0)
  | Some (PcDone (RPut r)) => (6, rb_put_code r)
  | Some (PcDone (RGet None)) => (7, 0)
  | Some (PcDone (RGet (Some i))) => (8, it_seq i)
  end.

Section Conc.
  Variable edv : bytes -> bytes -> bytes -> bool.
  Variable exp : Z.
  Variable ths : list thread.

  Definition c_release (g : gstate) (tid : nat) : gstate :=
    match nth_error (g_pcs g) tid with
    | Some (PcUnlock _) => g_next sha1 edv true Repaired exp ths g tid
    | _ => g
    end.

  (* thread [tid] tries to enter its Wrapper method *)
  Definition c_try (c : cstate) (tid : nat) : cstate :=
    match g_step sha1 edv true Repaired exp ths (c_g c) tid with
    | Some g' => mkC (c_release g' tid) (remove_nat tid (c_wait c))
    | None => mkC (c_g c) (if mem_nat tid (c_wait c) then c_wait c else c_wait c ++ [tid])
    end.

  (* [advanced]: the threads the harness saw leave the blocked state, those that finished first *)
  Definition rb_caction (c : cstate) (tid : nat) (advanced : list nat) : cstate :=
    let c1 :=
      match nth_error (g_pcs (c_g c)) tid with
      | Some PcInit => if mem_nat tid (c_wait c) then c else c_try c tid
      | Some (PcDone _) | None => c
      | Some _ => mkC (c_release (g_next sha1 edv true Repaired exp ths (c_g c) tid) tid) (c_wait c)
      end in
    fold_left (fun c a => if mem_nat a (c_wait c) then c_try c a else c) advanced c1.
End Conc.

(* a thread is waiting although nobody holds the lock: not a state of the model *)
Definition rb_cstuck (c : cstate) : bool :=
  match g_lock (c_g c), c_wait c with
  | None, _ :: _ => true
  | _, _ => false
  end.
