(* RunApi.v — glue evaluated by the model runner for the harness engine `api` (exported API of a
   Server / of the bundled peer store used from several goroutines at once). No proofs here; the
   lemmas are in proofs/ApiProofs.v.

   Two small relational specifications, both in terms of definitions of the server model:

   1. Routing table (C05).  The harness offers candidates (id, address) for insertion through
      overlapping AddNode / AddNodesFromFile calls, inbound queries and responses, then reads the
      table at rest.  Which candidates of an over-subscribed bucket got in depends on the
      interleaving, so the model does not compute the table, it ACCEPTS or rejects the observed one:
        - no two entries share (id, address); no own / zero id; the physical bucket of an entry is
          Int160.bucket_index; no bucket holds more than Server.K entries;
        - every entry is one of the candidates (certainly or possibly offered);
        - a candidate certainly offered for insertion is in the table unless it is inadmissible or
          its bucket is full (insertion never shrinks a bucket: an eviction is followed by the
          insertion that caused it, server.go addNode).
      [ra_add] is the sequential specification of one offer on a table without bad / good entries;
      every sequential history of offers is accepted (ApiProofs.ra_seq_accept), hence so is every
      linearisable concurrent one.

   2. Peer store (C11).  A burst of announces handed to InMemory.AddPeer concurrently: the store is
      the fold of Server.add_peer over the announces in the order the lock serialises them.  For a
      burst with pairwise distinct (infohash, raw ip) keys the resulting SET does not depend on the
      order (ApiProofs.ra_peers_perm), so the model folds in the order listed and the runner
      compares sorted listings.  get_peers: the same through Server.filter_peers (BEP 32). *)
From Dht Require Import Base Int160 Msg Server.
From Dht Require Security.
From DhtGen Require Import Params.
From Coq Require Import List NArith ZArith Bool.
Import ListNotations.

(* ------------------------------------------------------------------ routing table *)

Record ra_ent := mkRaEnt { ra_id : N; ra_ip : bytes; ra_port : N }.

(* constructor for the runner (flat extraction: drivers use prefixed functions only) *)
Definition ra_mk_ent (id : N) (ip : bytes) (port : N) : ra_ent := mkRaEnt id ip port.

Definition ra_ent_eqb (a b : ra_ent) : bool :=
  N.eqb (ra_id a) (ra_id b) && bytes_eqb (ra_ip a) (ra_ip b) && N.eqb (ra_port a) (ra_port b).

Definition ra_mem (e : ra_ent) (l : list ra_ent) : bool := existsb (ra_ent_eqb e) l.

Fixpoint ra_nodup (l : list ra_ent) : bool :=
  match l with
  | [] => true
  | x :: r => negb (ra_mem x r) && ra_nodup r
  end.

(* neither the node's own id nor the all-zero id is ever stored *)
Definition ra_admissible (root : N) (e : ra_ent) : bool :=
  negb (N.eqb (ra_id e) root) && negb (N.eqb (ra_id e) 0).

Definition ra_bucket (root : N) (e : ra_ent) : nat := bucket_index root (ra_id e).

Definition ra_count (root : N) (b : nat) (l : list ra_ent) : nat :=
  length (filter (fun e => Nat.eqb (ra_bucket root e) b) l).

(* one offer, sequentially, on a table whose entries are neither bad nor good: AddNode of a node, or a
   query from it that is not read-only (server.go updateNode / addNode, table.go addNode) *)
Definition ra_add (root : N) (tbl : list ra_ent) (e : ra_ent) : list ra_ent :=
  if ra_admissible root e && negb (ra_mem e tbl) && Nat.ltb (ra_count root (ra_bucket root e) tbl) K
  then tbl ++ [e] else tbl.

Definition ra_run (root : N) (offers : list ra_ent) : list ra_ent := fold_left (ra_add root) offers [].

(* the acceptance relation: [must] certainly offered, [may] possibly offered (or present before),
   [obs] the observed entries with their physical bucket *)
Definition ra_accept (root : N) (must may : list ra_ent) (obs : list (ra_ent * nat)) : bool :=
  let es := map fst obs in
  ra_nodup es
  && forallb (fun o => ra_admissible root (fst o) && Nat.eqb (snd o) (ra_bucket root (fst o))
                       && (ra_mem (fst o) must || ra_mem (fst o) may)) obs
  && forallb (fun e => Nat.leb (ra_count root (ra_bucket root e) es) K) es
  && forallb (fun e => negb (ra_admissible root e) || ra_mem e es
                       || Nat.leb K (ra_count root (ra_bucket root e) es)) must.

(* a table as the harness would observe it: every entry in its bucket *)
Definition ra_observe (root : N) (tbl : list ra_ent) : list (ra_ent * nat) :=
  map (fun e => (e, ra_bucket root e)) tbl.

(* why a table is rejected (first failing clause), for the runner's REJECT message *)
Definition ra_why (root : N) (must may : list ra_ent) (obs : list (ra_ent * nat)) : nat :=
  let es := map fst obs in
  if negb (ra_nodup es) then 1%nat
  else if negb (forallb (fun o => ra_admissible root (fst o)) obs) then 2%nat
  else if negb (forallb (fun o => Nat.eqb (snd o) (ra_bucket root (fst o))) obs) then 3%nat
  else if negb (forallb (fun o => ra_mem (fst o) must || ra_mem (fst o) may) obs) then 4%nat
  else if negb (forallb (fun e => Nat.leb (ra_count root (ra_bucket root e) es) K) es) then 5%nat
  else if negb (forallb (fun e => negb (ra_admissible root e) || ra_mem e es
                                  || Nat.leb K (ra_count root (ra_bucket root e) es)) must) then 6%nat
  else 0%nat.

(* ------------------------------------------------------------------ routing table of a node that
   enforces the security extension (NoSecurity = false): offers come from nodes files, AddNode
   calls, queries and responses as before, but a candidate whose id is not valid for its address
   (Security.node_id_secure, the model of NodeIdSecure decided by C17) is a bad node for
   Server.addNode and never enters.  [nosec = true] is the relation above. *)
Definition ra_secure (e : ra_ent) : bool :=
  match Security.node_id_secure (ofN 20 (ra_id e)) (ra_ip e) with Some b => b | None => false end.

Definition ra_adm_s (nosec : bool) (root : N) (e : ra_ent) : bool :=
  if nosec then ra_admissible root e else ra_admissible root e && ra_secure e.

(* one offer, sequentially *)
Definition ra_add_s (nosec : bool) (root : N) (tbl : list ra_ent) (e : ra_ent) : list ra_ent :=
  if ra_adm_s nosec root e then ra_add root tbl e else tbl.

Definition ra_run_s (nosec : bool) (root : N) (offers : list ra_ent) : list ra_ent :=
  fold_left (ra_add_s nosec root) offers [].

(* acceptance: every observed entry is admissible for this configuration, and the table is accepted
   for the admissible ones among the candidates certainly offered *)
Definition ra_accept_s (nosec : bool) (root : N) (must may : list ra_ent) (obs : list (ra_ent * nat)) : bool :=
  forallb (fun o => ra_adm_s nosec root (fst o)) obs
  && ra_accept root (filter (ra_adm_s nosec root) must) may obs.

Definition ra_why_s (nosec : bool) (root : N) (must may : list ra_ent) (obs : list (ra_ent * nat)) : nat :=
  if negb (forallb (fun o => ra_admissible root (fst o)) obs) then 2%nat
  else if negb (forallb (fun o => ra_adm_s nosec root (fst o)) obs) then 7%nat
  else ra_why root (filter (ra_adm_s nosec root) must) may obs.

(* ------------------------------------------------------------------ the API's counters *)

(* per entry (good, bad) as classified by the snapshot hook; the API must report: NumNodes and
   Stats().Nodes = every entry (bad ones included), Stats().GoodNodes = the good ones, len(Nodes()) = the
   entries that are not bad *)
Definition ra_counts (flags : list (bool * bool)) : nat * nat * nat :=
  (length flags, length (filter fst flags), length (filter (fun f => negb (snd f)) flags)).

(* ------------------------------------------------------------------ peer store *)

Definition ra_mk_peer (ih ip : bytes) (port : Z) : peer := mkPeer ih ip port.

(* the store after the announces, from the empty store *)
Definition ra_peers (anns : list peer) : list peer := fold_left add_peer anns [].

(* InMemory.GetPeers *)
Definition ra_store_get (ih : bytes) (anns : list peer) : list node_addr :=
  map (fun p => mkNA (p_ip p) (p_port p)) (filter (fun p => bytes_eqb (p_ih p) ih) (ra_peers anns)).

(* the values of a get_peers reply to a requester at [src] with the want list [ws] *)
Definition ra_values (ih src : bytes) (ws : list bytes) (anns : list peer) : list node_addr :=
  map (fun x => mkNA (na_ip x) (wire_port (na_port x)))
      (filter_peers src ws (filter (fun p => bytes_eqb (p_ih p) ih) (ra_peers anns))).

Definition ra_na_ip (a : node_addr) : bytes := na_ip a.
Definition ra_na_port (a : node_addr) : Z := na_port a.
