(* Limiter.v — abstract token bucket (the contract of golang.org/x/time/rate.Limiter.Allow that
   /repo's send routine relies on: server.go `writeToNode` takes one token per rated write).
   Time is Z nanoseconds.  The rate is the rational  bk_tokens / bk_per  tokens per nanosecond
   (e.g. 250 per second = (250, 1000000000)), the burst is bk_burst tokens.  To stay in integer
   arithmetic the fill level is kept scaled by bk_per: bk_level = available tokens * bk_per.
   Tokens refill lazily (on the next call), capped at the burst; a bucket with rate 0
   (bk_tokens = 0, rate.NewLimiter(0, b)) never refills.  No proofs here. *)
From Dht Require Import Base.
Local Open Scope Z_scope.

Record bucket := mkBucket {
  bk_tokens : Z;       (* rate numerator: tokens ... *)
  bk_per : Z;          (* ... per this many nanoseconds (> 0) *)
  bk_burst : Z;        (* bucket size in tokens *)
  bk_level : Z;        (* available tokens, scaled by bk_per *)
  bk_last : Z          (* time of the last update *)
}.

Definition bk_cap (b : bucket) : Z := bk_burst b * bk_per b.

(* a fresh limiter holds a full burst *)
Definition new_bucket (tokens per burst now : Z) : bucket :=
  mkBucket tokens per burst (burst * per) now.

(* the level after the lazy refill at time [now] (time never runs backwards for the bucket) *)
Definition refill (b : bucket) (now : Z) : Z :=
  Z.min (bk_cap b) (bk_level b + Z.max 0 (now - bk_last b) * bk_tokens b).

(* Limiter.Allow at time [now]: take one token if one is available *)
Definition allow (b : bucket) (now : Z) : bucket * bool :=
  let lv := refill b now in
  let last := Z.max (bk_last b) now in
  if Z.leb (bk_per b) lv
  then (mkBucket (bk_tokens b) (bk_per b) (bk_burst b) (lv - bk_per b) last, true)
  else (mkBucket (bk_tokens b) (bk_per b) (bk_burst b) lv last, false).

(* a sequence of Allow calls; the trace records each call's time and whether it was granted *)
Fixpoint run_allow (b : bucket) (times : list Z) : list (Z * bool) :=
  match times with
  | [] => []
  | t :: r => (t, snd (allow b t)) :: run_allow (fst (allow b t)) r
  end.

Fixpoint final_bucket (b : bucket) (times : list Z) : bucket :=
  match times with
  | [] => b
  | t :: r => final_bucket (fst (allow b t)) r
  end.

(* number of grants with time in (t1, t2] *)
Definition granted_in (t1 t2 : Z) (p : Z * bool) : bool :=
  snd p && Z.ltb t1 (fst p) && Z.leb (fst p) t2.

Definition grants_in (t1 t2 : Z) (tr : list (Z * bool)) : Z :=
  Z.of_nat (length (filter (granted_in t1 t2) tr)).

Definition grants (tr : list (Z * bool)) : Z :=
  Z.of_nat (length (filter (fun p : Z * bool => snd p) tr)).
