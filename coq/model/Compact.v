(* Compact.v — binary codecs of /repo/krpc: NodeAddr, NodeInfo, the five compact list types
   (compact_helpers.go, Compact*.go, compact-infohashes.go) and the nodes file of /repo/nodes_file.go.
   Executable model, no proofs.  Panics of the Go code are the explicit cresult [CPanic]. *)
From Dht Require Import Base Msg.
From DhtGen Require Import Params.

Inductive cresult (A : Type) :=
| COk (a : A)
| CErr            (* the Go function returns a non-nil error *)
| CPanic.         (* the Go function panics *)
Arguments COk {A} a.
Arguments CErr {A}.
Arguments CPanic {A}.

Definition is_panic {A} (o : cresult A) : bool := match o with CPanic => true | _ => false end.

(* ---- element widths, from the ElemSize methods as found in the source now ---- *)
Definition w_addr4 : nat := Z.to_nat elem_CompactIPv4NodeAddrs.   (* 6 *)
Definition w_addr6 : nat := Z.to_nat elem_CompactIPv6NodeAddrs.   (* 18 *)
Definition w_info4 : nat := Z.to_nat elem_CompactIPv4NodeInfo.    (* 26 *)
Definition w_info6 : nat := Z.to_nat elem_CompactIPv6NodeInfo.    (* 38 *)
Definition w_hash : nat := Z.to_nat elem_CompactInfohashes.       (* 20 *)

(* ---- ports: big-endian uint16, written as 256*hi+lo ---- *)
(* uint16(port): the low 16 bits of a Go int *)
Definition port_enc (p : Z) : bytes :=
  let q := Z.to_N (p mod 65536) in [byte_of_N (q / 256); byte_of_N q].

Definition port_dec (b : bytes) : Z :=
  match b with
  | [hi; lo] => Z.of_N (256 * Byte.to_N hi + Byte.to_N lo)
  | _ => 0%Z
  end.

(* ---- net.IP.To4 / To16 ---- *)
Definition v4_prefix : bytes := zero_bytes 10 ++ [xff; xff].

Definition to4 (ip : bytes) : option bytes :=
  match length ip with
  | 4%nat => Some ip
  | 16%nat => if bytes_eqb (firstn 12 ip) v4_prefix then Some (skipn 12 ip) else None
  | _ => None
  end.

Definition to16 (ip : bytes) : option bytes :=
  match length ip with
  | 4%nat => Some (v4_prefix ++ ip)
  | 16%nat => Some ip
  | _ => None
  end.

(* a nil net.IP is written as no bytes *)
Definition ip_or_nil (o : option bytes) : bytes := match o with Some x => x | None => [] end.

(* ---- NodeAddr.MarshalBinary / UnmarshalBinary (nodeaddr.go) ---- *)
Definition nodeaddr_marshal (a : node_addr) : bytes := na_ip a ++ port_enc (na_port a).

Definition nodeaddr_unmarshal (b : bytes) : cresult node_addr :=
  if Nat.ltb (length b) 2 then CErr
  else let n := (length b - 2)%nat in COk (mkNA (firstn n b) (port_dec (skipn n b))).

(* ---- NodeInfo.MarshalBinary / UnmarshalBinary (nodeinfo.go) ---- *)
Definition nodeinfo_marshal (ni : node_info) : bytes := ni_id ni ++ nodeaddr_marshal (ni_addr ni).

(* copy(ni.ID[:], b) into a zero ID *)
Definition fit (n : nat) (s : bytes) : bytes := firstn n s ++ zero_bytes (n - length s).

(* pinned tree: `ni.Addr.UnmarshalBinary(b[20:])` — slicing panics when len b < 20 (defect D9) *)
Definition nodeinfo_unmarshal_pinned (b : bytes) : cresult node_info :=
  if Nat.ltb (length b) 20 then CPanic
  else match nodeaddr_unmarshal (skipn 20 b) with
       | COk a => COk (mkNI (firstn 20 b) a)
       | CErr => CErr
       | CPanic => CPanic
       end.

(* repaired: a length check returning an error precedes the slicing *)
Definition nodeinfo_unmarshal (b : bytes) : cresult node_info :=
  if Nat.ltb (length b) 20 then CErr
  else match nodeaddr_unmarshal (skipn 20 b) with
       | COk a => COk (mkNI (firstn 20 b) a)
       | CErr => CErr
       | CPanic => CPanic
       end.

(* ---- generic compact slice codec (compact_helpers.go) ---- *)
(* marshalBinarySlice: every element must marshal to exactly w bytes, else panic *)
Fixpoint compact_enc {A} (w : nat) (f : A -> bytes) (l : list A) : cresult bytes :=
  match l with
  | [] => COk []
  | x :: l' =>
      let b := f x in
      if Nat.eqb (length b) w then
        match compact_enc w f l' with
        | COk r => COk (b ++ r)
        | o => o
        end
      else CPanic
  end.

(* unmarshalBinarySlice: whole elements until the input is used up; a partial element is an error.
   fuel = length of the input suffices (one element of w > 0 bytes per step). *)
Fixpoint compact_dec_fuel {A} (fuel w : nat) (g : bytes -> cresult A) (b : bytes) : cresult (list A) :=
  match b with
  | [] => COk []
  | _ =>
      match fuel with
      | O => CErr
      | S f =>
          if Nat.ltb (length b) w then CErr
          else match g (firstn w b) with
               | COk x =>
                   match compact_dec_fuel f w g (skipn w b) with
                   | COk l => COk (x :: l)
                   | o => o
                   end
               | CErr => CErr
               | CPanic => CPanic
               end
      end
  end.

Definition compact_dec {A} (w : nat) (g : bytes -> cresult A) (b : bytes) : cresult (list A) :=
  compact_dec_fuel (length b) w g b.

(* ---- the five compact types ---- *)
(* CompactIPv4NodeAddrs: To4 when it applies, else the address as it is *)
Definition addr4_conv (a : node_addr) : node_addr :=
  mkNA (match to4 (na_ip a) with Some x => x | None => na_ip a end) (na_port a).
Definition addr6_conv (a : node_addr) : node_addr := mkNA (ip_or_nil (to16 (na_ip a))) (na_port a).
Definition info4_conv (n : node_info) : node_info :=
  mkNI (ni_id n) (mkNA (ip_or_nil (to4 (na_ip (ni_addr n)))) (na_port (ni_addr n))).
Definition info6_conv (n : node_info) : node_info :=
  mkNI (ni_id n) (mkNA (ip_or_nil (to16 (na_ip (ni_addr n)))) (na_port (ni_addr n))).

Definition addrs4_enc (l : list node_addr) : cresult bytes :=
  compact_enc w_addr4 (fun a => nodeaddr_marshal (addr4_conv a)) l.
Definition addrs6_enc (l : list node_addr) : cresult bytes :=
  compact_enc w_addr6 (fun a => nodeaddr_marshal (addr6_conv a)) l.
Definition infos4_enc (l : list node_info) : cresult bytes :=
  compact_enc w_info4 (fun n => nodeinfo_marshal (info4_conv n)) l.
Definition infos6_enc (l : list node_info) : cresult bytes :=
  compact_enc w_info6 (fun n => nodeinfo_marshal (info6_conv n)) l.
(* CompactInfohashes.MarshalBinary appends the 20-byte arrays; no width assertion *)
Definition hashes_enc (l : list bytes) : cresult bytes := COk (concat l).

Definition addrs4_dec (b : bytes) : cresult (list node_addr) := compact_dec w_addr4 nodeaddr_unmarshal b.
Definition addrs6_dec (b : bytes) : cresult (list node_addr) := compact_dec w_addr6 nodeaddr_unmarshal b.
(* `_pinned`: with the NodeInfo decoder of the pinned tree; the plain names use the repaired one *)
Definition infos4_dec_pinned (b : bytes) : cresult (list node_info) := compact_dec w_info4 nodeinfo_unmarshal_pinned b.
Definition infos6_dec_pinned (b : bytes) : cresult (list node_info) := compact_dec w_info6 nodeinfo_unmarshal_pinned b.
Definition infos4_dec (b : bytes) : cresult (list node_info) := compact_dec w_info4 nodeinfo_unmarshal b.
Definition infos6_dec (b : bytes) : cresult (list node_info) := compact_dec w_info6 nodeinfo_unmarshal b.
(* elements are [20]byte arrays: copied when the element size is the array length, else an error *)
Definition hash_elem (b : bytes) : cresult bytes := if Nat.eqb w_hash 20 then COk b else CErr.
Definition hashes_dec (b : bytes) : cresult (list bytes) := compact_dec w_hash hash_elem b.

(* ---- nodes file (nodes_file.go): CompactIPv6NodeInfo binary form of the whole list ---- *)
Definition nodes_file_write (l : list node_info) : cresult bytes := infos6_enc l.
Definition nodes_file_read (b : bytes) : cresult (list node_info) := infos6_dec b.
Definition nodes_file_read_pinned (b : bytes) : cresult (list node_info) := infos6_dec_pinned b.

(* ---- well-formedness used by the round-trip theorems ---- *)
Definition port_ok (p : Z) : Prop := (0 <= p < 65536)%Z.
Definition port_okb (p : Z) : bool := Z.leb 0 p && Z.ltb p 65536.
Definition wf_addr (iplen : nat) (a : node_addr) : Prop := length (na_ip a) = iplen /\ port_ok (na_port a).
Definition wf_info (iplen : nat) (n : node_info) : Prop := length (ni_id n) = 20%nat /\ wf_addr iplen (ni_addr n).
Definition wf_addrb (iplen : nat) (a : node_addr) : bool := Nat.eqb (length (na_ip a)) iplen && port_okb (na_port a).
Definition wf_infob (iplen : nat) (n : node_info) : bool := Nat.eqb (length (ni_id n)) 20 && wf_addrb iplen (ni_addr n).
