(* Query.v — executable model of ONE outbound query of anacrolix/dht at lock / channel granularity
   (DESIGN.md section 5 C14).  No proofs here.

   Code-to-model map (/repo/server.go Query 951-1007, transactionQuerySender 1009-1072, writeToNode
   784-850; /repo/transaction.go transactionSender 26-50; /repo/server.go processPacket 313-343):

   caller (Server.Query)
     CStart    -> LRegister     s.mu.Lock; addTransaction(tk,t); s.mu.Unlock; go sender            -> CSelect
     CSelect   -> LSelReply     case ret.Reply = <-replyChan          (replyChan holds the reply)   -> CCancel
               -> LSelCtx       case <-ctx.Done(): ret.Err = ctx.Err()                              -> CCancel
               -> LSelSendErr   case ret.Err = <-sendErr              (sendErr holds an error)      -> CCancel
                  (several ready branches: Go picks any; the model offers every enabled one)
     CCancel   -> LCancelSend   cancelSend()                                                        -> CJoin
     CJoin     -> LJoin         <-sendErr (a buffered error or the closed channel: sender finished)  -> CDereg
     CDereg    -> LDeregister   s.mu.Lock; deleteTransaction(tk); s.mu.Unlock; return                -> CReturned

   sender (the goroutine running transactionQuerySender -> transactionSender)
     SWait fired, sends = k < tries
               -> ESendOk / ESendErr c  (only when fired) send(): one writeToNode call; sends++      -> SWait false / SDone
               -> EDelayElapsed         time.After(delay) fires                                       -> SWait true
               -> LSenderCtx            case <-ctx.Done() (caller's ctx or cancelSend)                -> SDone
     SWait fired, sends = tries  (the last select of transactionQuerySender)
               -> LTimeout      (only when fired) TransactionTimeout                                  -> SDone
               -> LSenderCtx                                                                          -> SDone
     The first select uses delay 0: the timer counts as already fired (SWait true) -- if the context is
     already cancelled both branches are ready and either may be taken.
     Reaching SDone = `sendErr <- err; close(sendErr)`: transactionQuerySender never returns nil, the
     channel has capacity 1 and a single writer, so neither operation can block; they are one step.

   writeToNode outcomes of one send (in the order the code tests them):
     CClosed   server closed                 (nothing written)
     CBlocked  destination in the blocklist  (nothing written)
     CRate     limiter refused / Wait(ctx) failed (nothing written)
     CSocket   socket.WriteTo returned an error   (nothing written)
     CShort    short write: the datagram left, `wrote` is true, an error is returned
     ok        datagram written

   response handler
     EReplyArrives  the serve loop, under s.mu, finds the transaction under (addr, t), pops it and does
                    `go t.handleResponse(d)`; nothing happens when the server is closed, the source is
                    on the blocklist, or the transaction is not (or no longer) registered                                     -> HPending
     LHandler       replyChan <- m   (capacity 1, a transaction is popped at most once: never blocks)  -> HDone

   environment: ECtxCancel (the caller's context is cancelled), EServerClose (Server.Close), EBlockDest
   (Server.SetIPBlockList puts the destination on the blocklist; every send re-checks closed and blocklist),
   EReplyArrives, and the choice among the send outcomes that configuration and state permit.

   Rate limiting (C20).  Whether a send asks the limiter, and how, is decided per send from the number of
   datagrams written so far ([send_rated], [send_wait]).  With [qc_exact] the limiter is an exact budget
   of [q_budget] units (rate.NewLimiter(0, b)): a rated send with no unit left fails at once (CRate),
   otherwise it takes one unit, which only a failed socket write gives back.

   Every label list is a schedule: a label that is not enabled is skipped ([step_en]). *)
From Dht Require Import Base.
From DhtGen Require Import Params.

Definition q_znat (z : Z) : nat := match z with Zpos p => Pos.to_nat p | _ => O end.

(* Query(): `if input.NumTries == 0 { input.NumTries = defaultMaxQuerySends }` *)
Definition eff_tries (n : nat) : nat :=
  match n with O => q_znat default_max_sends | _ => n end.

Inductive cause := CClosed | CBlocked | CRate | CSocket | CShort.
Inductive serr := SECtx | SETimeout | SESend (c : cause).
Inductive result := RReply | RCtx | RTimeout | RSendErr (c : cause).

Definition cause_eqb (a b : cause) : bool :=
  match a, b with
  | CClosed, CClosed | CBlocked, CBlocked | CRate, CRate | CSocket, CSocket | CShort, CShort => true
  | _, _ => false
  end.

Definition result_of_serr (e : serr) : result :=
  match e with SECtx => RCtx | SETimeout => RTimeout | SESend c => RSendErr c end.

Inductive cpc := CStart | CSelect | CCancel | CJoin | CDereg | CReturned.
Inductive spc := SIdle | SWait (fired : bool) | SDone.
Inductive hpc := HIdle | HPending | HDone.

(* QueryRateLimiting *)
Record rlcfg := mkRL { rl_not_first : bool; rl_not_any : bool; rl_wait_on_retries : bool; rl_no_wait_first : bool }.
Definition rl_zero : rlcfg := mkRL false false false false.

(* transactionQuerySender's closure, evaluated for each send with w = *writes (datagrams written so far):
   wait  = (w == 0 ? !NoWaitFirst : WaitOnRetries)       -> SendLimiter.Wait(ctx) instead of Allow()
   rated = !NotAny && (w == 0 ? !NotFirst : true)         -> the send consumes one limiter token *)
Definition send_wait (r : rlcfg) (w : nat) : bool :=
  match w with O => negb (rl_no_wait_first r) | _ => rl_wait_on_retries r end.
Definition send_rated (r : rlcfg) (w : nat) : bool :=
  negb (rl_not_any r) && match w with O => negb (rl_not_first r) | _ => true end.

Record qcfg := mkQC {
  qc_tries : nat;        (* NumTries after defaulting *)
  qc_blocked : bool;     (* destination is in the server's IP blocklist when the query starts *)
  qc_rl : rlcfg;         (* QueryInput.RateLimiting *)
  qc_exact : bool }.     (* the limiter is an exact budget (rate.NewLimiter(0, b)): Allow() and Wait() both
                            fail at once when no unit is left; otherwise a rated send may be refused at any time *)

Record qstate := mkQS {
  q_caller : cpc;
  q_sender : spc;
  q_handler : hpc;
  q_registered : bool;           (* (addr, t) is in Server.transactions *)
  q_reply_chan : bool;           (* replyChan holds the reply *)
  q_senderr_chan : option serr;  (* sendErr holds an error nobody received yet *)
  q_ctx : bool;                  (* the caller's ctx is done *)
  q_send_cancel : bool;          (* cancelSend() was called *)
  q_closed : bool;               (* server closed *)
  q_sends : nat;                 (* calls of send() = transactionSender's `sends` *)
  q_writes : nat;                (* datagrams handed to the socket *)
  q_delays : nat;                (* resend delays that ran to their end *)
  q_fail : option cause;         (* the failed send, if any *)
  q_popped : bool;               (* a reply popped the transaction *)
  q_result : option result;      (* set by the select *)
  q_budget : nat;                (* limiter units left (exact budget) *)
  q_rated : nat;                 (* units consumed by this query's writes (a failed socket write gives its unit back) *)
  q_blocked : bool }.            (* the destination is in the server's IP blocklist NOW (Server.SetIPBlockList may add it at any time) *)

Definition q_init (closed0 : bool) (budget0 : nat) (blocked0 : bool) : qstate :=
  mkQS CStart SIdle HIdle false false None false false closed0 0 0 0 None false None budget0 0 blocked0.

Inductive label :=
| LRegister
| LSelReply | LSelCtx | LSelSendErr
| LCancelSend | LJoin | LDeregister
| LSenderCtx | LTimeout
| LHandler
| EDelayElapsed
| ESendOk | ESendErr (c : cause)
| EReplyArrives | ECtxCancel | EServerClose | EBlockDest.

(* events the environment may or may not provide; everything else is bound to happen *)
Definition external (l : label) : bool :=
  match l with EReplyArrives | ECtxCancel | EServerClose | EBlockDest => true | _ => false end.
Definition internal (l : label) : bool := negb (external l).

Definition is_select (s : qstate) : bool := match q_caller s with CSelect => true | _ => false end.
Definition sender_fired (s : qstate) : bool := match q_sender s with SWait true => true | _ => false end.
Definition sender_waiting (s : qstate) : bool := match q_sender s with SWait _ => true | _ => false end.
Definition is_some {A} (o : option A) : bool := match o with Some _ => true | None => false end.

(* the send about to happen is a rated one; with an exact budget it finds the budget empty *)
Definition rated_now (c : qcfg) (s : qstate) : bool := send_rated (qc_rl c) (q_writes s).
Definition wait_now (c : qcfg) (s : qstate) : bool := send_wait (qc_rl c) (q_writes s).
Definition no_budget (c : qcfg) (s : qstate) : bool :=
  rated_now c s && qc_exact c && Nat.eqb (q_budget s) 0.

(* which error writeToNode may return now (tests in the code's order: closed, blocked, limiter, socket) *)
Definition cause_ok (c : qcfg) (s : qstate) (x : cause) : bool :=
  if q_closed s then cause_eqb x CClosed
  else if q_blocked s then cause_eqb x CBlocked
  else match x with
       | CRate => rated_now c s && (negb (qc_exact c) || Nat.eqb (q_budget s) 0)   (* only a rated send asks the limiter *)
       | CSocket | CShort => negb (no_budget c s)                                  (* the limiter let it through *)
       | _ => false
       end.

Definition enabled (c : qcfg) (s : qstate) (l : label) : bool :=
  match l with
  | LRegister => match q_caller s with CStart => true | _ => false end
  | LSelReply => is_select s && q_reply_chan s
  | LSelCtx => is_select s && q_ctx s
  | LSelSendErr => is_select s && is_some (q_senderr_chan s)
  | LCancelSend => match q_caller s with CCancel => true | _ => false end
  | LJoin => match q_caller s, q_sender s with CJoin, SDone => true | _, _ => false end
  | LDeregister => match q_caller s with CDereg => true | _ => false end
  | LSenderCtx => sender_waiting s && (q_ctx s || q_send_cancel s)
  | LTimeout => sender_fired s && Nat.eqb (q_sends s) (qc_tries c)
  | LHandler => match q_handler s with HPending => true | _ => false end
  | EDelayElapsed => match q_sender s with SWait false => true | _ => false end
  | ESendOk => sender_fired s && Nat.ltb (q_sends s) (qc_tries c) && negb (q_closed s) && negb (q_blocked s)
               && negb (no_budget c s)
  | ESendErr x => sender_fired s && Nat.ltb (q_sends s) (qc_tries c) && cause_ok c s x
  | EReplyArrives => q_registered s && negb (q_closed s) && negb (q_blocked s)   (* packets from a blocked source are dropped *)
  | ECtxCancel => negb (q_ctx s)
  | EServerClose => negb (q_closed s)
  | EBlockDest => negb (q_blocked s)
  end.

Definition set_caller (s : qstate) (v : cpc) : qstate :=
  mkQS v (q_sender s) (q_handler s) (q_registered s) (q_reply_chan s) (q_senderr_chan s) (q_ctx s)
       (q_send_cancel s) (q_closed s) (q_sends s) (q_writes s) (q_delays s) (q_fail s) (q_popped s) (q_result s) (q_budget s) (q_rated s) (q_blocked s).

(* the caller's select took a branch *)
Definition selected (s : qstate) (r : result) (rc : bool) (se : option serr) : qstate :=
  mkQS CCancel (q_sender s) (q_handler s) (q_registered s) rc se (q_ctx s)
       (q_send_cancel s) (q_closed s) (q_sends s) (q_writes s) (q_delays s) (q_fail s) (q_popped s) (Some r) (q_budget s) (q_rated s) (q_blocked s).

(* the sender returns err: sendErr <- err; close(sendErr) *)
Definition sender_done (s : qstate) (e : serr) (sends writes : nat) (f : option cause) (budget rated : nat) : qstate :=
  mkQS (q_caller s) SDone (q_handler s) (q_registered s) (q_reply_chan s) (Some e) (q_ctx s)
       (q_send_cancel s) (q_closed s) sends writes (q_delays s) f (q_popped s) (q_result s) budget rated (q_blocked s).

(* a datagram that leaves takes one unit when the send is rated (a failed socket write gives it back:
   `SendLimiter.AllowN(time.Now(), -1)`, so CSocket changes nothing; CShort keeps the unit) *)
Definition budget_after (c : qcfg) (s : qstate) : nat := if rated_now c s then pred (q_budget s) else q_budget s.
Definition rated_after (c : qcfg) (s : qstate) : nat := if rated_now c s then S (q_rated s) else q_rated s.

Definition wrote (x : cause) : bool := match x with CShort => true | _ => false end.

Definition step (c : qcfg) (s : qstate) (l : label) : qstate :=
  match l with
  | LRegister =>
      mkQS CSelect (SWait true) (q_handler s) true (q_reply_chan s) (q_senderr_chan s) (q_ctx s)
           (q_send_cancel s) (q_closed s) (q_sends s) (q_writes s) (q_delays s) (q_fail s) (q_popped s) (q_result s) (q_budget s) (q_rated s) (q_blocked s)
  | LSelReply => selected s RReply false (q_senderr_chan s)
  | LSelCtx => selected s RCtx (q_reply_chan s) (q_senderr_chan s)
  | LSelSendErr =>
      match q_senderr_chan s with
      | Some e => selected s (result_of_serr e) (q_reply_chan s) None
      | None => s
      end
  | LCancelSend =>
      mkQS CJoin (q_sender s) (q_handler s) (q_registered s) (q_reply_chan s) (q_senderr_chan s) (q_ctx s)
           true (q_closed s) (q_sends s) (q_writes s) (q_delays s) (q_fail s) (q_popped s) (q_result s) (q_budget s) (q_rated s) (q_blocked s)
  | LJoin =>
      mkQS CDereg (q_sender s) (q_handler s) (q_registered s) (q_reply_chan s) None (q_ctx s)
           (q_send_cancel s) (q_closed s) (q_sends s) (q_writes s) (q_delays s) (q_fail s) (q_popped s) (q_result s) (q_budget s) (q_rated s) (q_blocked s)
  | LDeregister =>
      mkQS CReturned (q_sender s) (q_handler s) false (q_reply_chan s) (q_senderr_chan s) (q_ctx s)
           (q_send_cancel s) (q_closed s) (q_sends s) (q_writes s) (q_delays s) (q_fail s) (q_popped s) (q_result s) (q_budget s) (q_rated s) (q_blocked s)
  | LSenderCtx => sender_done s SECtx (q_sends s) (q_writes s) (q_fail s) (q_budget s) (q_rated s)
  | LTimeout => sender_done s SETimeout (q_sends s) (q_writes s) (q_fail s) (q_budget s) (q_rated s)
  | LHandler =>
      mkQS (q_caller s) (q_sender s) HDone (q_registered s) true (q_senderr_chan s) (q_ctx s)
           (q_send_cancel s) (q_closed s) (q_sends s) (q_writes s) (q_delays s) (q_fail s) (q_popped s) (q_result s) (q_budget s) (q_rated s) (q_blocked s)
  | EDelayElapsed =>
      mkQS (q_caller s) (SWait true) (q_handler s) (q_registered s) (q_reply_chan s) (q_senderr_chan s) (q_ctx s)
           (q_send_cancel s) (q_closed s) (q_sends s) (q_writes s) (S (q_delays s)) (q_fail s) (q_popped s) (q_result s) (q_budget s) (q_rated s) (q_blocked s)
  | ESendOk =>
      mkQS (q_caller s) (SWait false) (q_handler s) (q_registered s) (q_reply_chan s) (q_senderr_chan s) (q_ctx s)
           (q_send_cancel s) (q_closed s) (S (q_sends s)) (S (q_writes s)) (q_delays s) (q_fail s) (q_popped s) (q_result s)
           (budget_after c s) (rated_after c s) (q_blocked s)
  | ESendErr x =>
      sender_done s (SESend x) (S (q_sends s)) (if wrote x then S (q_writes s) else q_writes s) (Some x)
                  (if wrote x then budget_after c s else q_budget s) (if wrote x then rated_after c s else q_rated s)
  | EReplyArrives =>
      mkQS (q_caller s) (q_sender s) HPending false (q_reply_chan s) (q_senderr_chan s) (q_ctx s)
           (q_send_cancel s) (q_closed s) (q_sends s) (q_writes s) (q_delays s) (q_fail s) true (q_result s) (q_budget s) (q_rated s) (q_blocked s)
  | ECtxCancel =>
      mkQS (q_caller s) (q_sender s) (q_handler s) (q_registered s) (q_reply_chan s) (q_senderr_chan s) true
           (q_send_cancel s) (q_closed s) (q_sends s) (q_writes s) (q_delays s) (q_fail s) (q_popped s) (q_result s) (q_budget s) (q_rated s) (q_blocked s)
  | EServerClose =>
      mkQS (q_caller s) (q_sender s) (q_handler s) (q_registered s) (q_reply_chan s) (q_senderr_chan s) (q_ctx s)
           (q_send_cancel s) true (q_sends s) (q_writes s) (q_delays s) (q_fail s) (q_popped s) (q_result s) (q_budget s) (q_rated s) (q_blocked s)
  | EBlockDest =>
      mkQS (q_caller s) (q_sender s) (q_handler s) (q_registered s) (q_reply_chan s) (q_senderr_chan s) (q_ctx s)
           (q_send_cancel s) (q_closed s) (q_sends s) (q_writes s) (q_delays s) (q_fail s) (q_popped s) (q_result s) (q_budget s) (q_rated s) true
  end.

Definition step_en (c : qcfg) (s : qstate) (l : label) : qstate := if enabled c s l then step c s l else s.
Definition exec (c : qcfg) (s : qstate) (ls : list label) : qstate := fold_left (step_en c) ls s.
Definition run (c : qcfg) (closed0 : bool) (budget0 : nat) (ls : list label) : qstate := exec c (q_init closed0 budget0 (qc_blocked c)) ls.

(* observables *)
Definition returned (s : qstate) : bool := match q_caller s with CReturned => true | _ => false end.
Definition all_done (s : qstate) : bool :=
  returned s && match q_sender s with SDone => true | _ => false end
             && match q_handler s with HPending => false | _ => true end.

(* every label, for exhaustive exploration and for "some internal event is enabled" *)
Definition all_labels : list label :=
  [LRegister; LSelReply; LSelCtx; LSelSendErr; LCancelSend; LJoin; LDeregister; LSenderCtx; LTimeout;
   LHandler; EDelayElapsed; ESendOk; ESendErr CClosed; ESendErr CBlocked; ESendErr CRate; ESendErr CSocket;
   ESendErr CShort; EReplyArrives; ECtxCancel; EServerClose; EBlockDest].

(* termination measure: strictly decreases on every enabled label (QueryProofs.mu_decreases) *)
Definition mu (c : qcfg) (s : qstate) : nat :=
  (match q_caller s with
   | CStart => 6 | CSelect => 5 | CCancel => 4 | CJoin => 3 | CDereg => 2 | CReturned => 0 end)
  + (match q_sender s with
     | SIdle => 3 * qc_tries c + 2
     | SWait true => 3 * (qc_tries c - q_sends s) + 1
     | SWait false => 3 * (qc_tries c - q_sends s) + 2
     | SDone => 0 end)
  + (match q_handler s with HIdle => 2 | HPending => 1 | HDone => 0 end)
  + (if q_ctx s then 0 else 1) + (if q_closed s then 0 else 1) + (if q_blocked s then 0 else 1).
