(* RunSecurity.v — executable glue between the `security` harness engine and the models
   (what the model runner evaluates for each harness line). No proofs. *)
From Dht Require Import Base Sha1 Crc32c Security.
Local Open Scope N_scope.

(* id with the low three bits of its last byte (the BEP 42 seed r) replaced by i *)
Definition set_seed (id : bytes) (i : N) : bytes :=
  firstn 19 id ++ [byte_of_N (N.lor (N.land (Byte.to_N (nthb 19 id)) 248) i)].

(* `secx8 id ip`: the first three bytes of SecureNodeId(id with seed i, ip) for i = 0..7 *)
Definition run_secx8 (id ip : bytes) : list (option bytes) :=
  map (fun i => option_map (firstn 3) (secure_node_id (set_seed id i) ip)) [0; 1; 2; 3; 4; 5; 6; 7].

Definition mk_cfg (node_id : bytes) (conn : option (bytes * bytes)) (public_ip : option bytes)
           (no_security : bool) : node_cfg :=
  {| cfg_node_id := node_id; cfg_conn := conn; cfg_public_ip := public_ip;
     cfg_no_security := no_security |}.

(* does InitNodeId panic?  (independent of the random id: only the ip length matters) *)
Definition init_panics (c : node_cfg) : bool :=
  match init_node_id c (zero_bytes 20) with None => true | Some _ => false end.
