(* Traversal.v — executable labelled transition system of the iterative lookup
   /repo/traversal/operation.go at lock granularity (DESIGN.md section 5 C02-C04, section 10,
   Appendix C).  No proofs here.

   One transition = one critical section of op.mu (or one atomic chansync operation):
     LRun                 one iteration of Operation.run under the lock (operation.go:187-211):
                          exit when stopping; start queries while outstanding < alpha && haveQuery();
                          compute the stalled offer; take the cond channel (generation) -- then sleep
     LWake                the sleeping loop observes its cond channel closed (gen advanced) or stopping
     LTakeStall           the consumer receives from Stalled() while the loop offers it; loop wakes
     LDoQueryReturn q r   environment: DoQuery of query q returns r; `cancel()` is called
     LResp q              addClosest under the lock (only if the result has a responder)
     LAddN q / LAddN6 q   op.AddNodes(res.Nodes) / op.AddNodes(res.Nodes6), each under the lock,
                          broadcasting once per accepted node
     LDone q              deferred: outstanding--, broadcast
     LAddNodes ns         external AddNodes call (seeds are AddNodes calls after Start)
     LStop                Stop(): stopping.Set()
     LStopWait            the goroutine spawned by Stop observes outstanding = 0 under the lock
     LCancel q            the per-query watcher goroutine cancels ctx once stopping is set

   chansync.BroadcastCond is a generation counter: Signaled() under the lock = read st_gen,
   Broadcast() = increment; the channel taken at generation g is closed iff g < st_gen.

   DEFECT D3 (DESIGN section 6).  The pinned code tests "already queried" only when a candidate
   is inserted; one address inserted under several IDs before its first query is therefore
   queried once per ID.  [prune_front = true] is the REPAIRED algorithm: haveQuery first discards
   from the front of the unqueried set every candidate whose address is already queried.
   [prune_front = false] is the pinned behaviour; it is kept for the refutation witness only. *)
From Dht Require Import Base Int160 Order.
From DhtGen Require Import Params.

(* Start(): Alpha 0 -> 3, K 0 -> 8; the constants come from the source via srcfacts *)
(* (no function of Coq's Z module is used: the extracted module Z would shadow Zarith's in the driver) *)
Definition z_nat (z : Z) : nat := match z with Zpos p => Pos.to_nat p | _ => O end.
Definition eff_alpha (a : nat) : nat :=
  match a with O => z_nat traversal_default_alpha | _ => a end.
Definition eff_k (k : nat) : nat :=
  match k with O => z_nat traversal_default_k | _ => k end.

(* krpc.NodeInfo at spec level: (id, address) *)
Definition ninfo := (N * addrport)%type.
(* types.AddrMaybeIdSliceFromNodeInfoSlice / FromNodeInfo: the ID is always present *)
Definition ni_ami (n : ninfo) : ami := mkAmi (snd n) (Some (fst n)).

Definition ap_mem (a : addrport) (l : list addrport) : bool := existsb (ap_eqb a) l.
Definition ap_add (a : addrport) (l : list addrport) : list addrport :=
  if ap_mem a l then l else a :: l.

(* candidates at the front whose address was queried meanwhile (the repair of D3) *)
Fixpoint prune (queried : list addrport) (l : list ami) : list ami :=
  match l with
  | [] => []
  | c :: l' => if ap_mem (ami_addr c) queried then prune queried l' else l
  end.

Inductive qpc := QWait | QResp | QAddN | QAddN6 | QDone.
Definition qpc_eqb (a b : qpc) : bool :=
  match a, b with
  | QWait, QWait | QResp, QResp | QAddN, QAddN | QAddN6, QAddN6 | QDone, QDone => true
  | _, _ => false
  end.

(* run-loop program counter: Waiting g offer = blocked in the select holding the cond channel of
   generation g, offering the stalled signal iff offer *)
Inductive lpc := Awake | Waiting (g : nat) (offer : bool) | Exited.

Section Traversal.
  Variable D : Type.                         (* QueryResult.ClosestData *)
  Variable node_filter : ami -> bool.        (* OperationInput.NodeFilter, fixed for the operation *)
  Variable data_filter : D -> bool.          (* OperationInput.DataFilter *)
  Variable tb : addrport -> addrport -> comparison.  (* tie-break of the K-nearest container *)
  Variable prune_front : bool.               (* true = repaired (D3), false = pinned *)
  Variable target : N.
  Variable k : nat.                          (* after defaults *)
  Variable alpha : nat.                      (* after defaults *)

  (* QueryResult *)
  Record response := mkResp {
    r_from : option (ninfo * D);
    r_nodes : list ninfo;
    r_nodes6 : list ninfo }.

  Record query := mkQ {
    q_id : nat;               (* position in the start order; unique *)
    q_cand : ami;             (* the popped candidate; DoQuery gets its address *)
    q_pc : qpc;
    q_resp : response;        (* meaningful once q_pc <> QWait *)
    q_cancelled : bool }.     (* ctx.Done() closed *)

  Definition no_resp : response := mkResp None [] [].

  Record state := mkS {
    st_unq : list ami;
    st_queried : list addrport;
    st_closest : list (kelem D);
    st_inflight : list query;
    st_out : nat;
    st_gen : nat;
    st_loop : lpc;
    st_stopping : bool;
    st_stopped : bool;
    st_stall_taken : bool;
    st_started : list ami;
    st_offered : list ami;
    st_responded : list (ninfo * D);
    st_pushed : list (kelem D) }.

  Definition set_unq (s : state) (v : list ami) : state :=
    mkS v (st_queried s) (st_closest s) (st_inflight s) (st_out s) (st_gen s) (st_loop s) (st_stopping s) (st_stopped s) (st_stall_taken s) (st_started s) (st_offered s) (st_responded s) (st_pushed s).
  Definition set_queried (s : state) (v : list addrport) : state :=
    mkS (st_unq s) v (st_closest s) (st_inflight s) (st_out s) (st_gen s) (st_loop s) (st_stopping s) (st_stopped s) (st_stall_taken s) (st_started s) (st_offered s) (st_responded s) (st_pushed s).
  Definition set_closest (s : state) (v : list (kelem D)) : state :=
    mkS (st_unq s) (st_queried s) v (st_inflight s) (st_out s) (st_gen s) (st_loop s) (st_stopping s) (st_stopped s) (st_stall_taken s) (st_started s) (st_offered s) (st_responded s) (st_pushed s).
  Definition set_inflight (s : state) (v : list query) : state :=
    mkS (st_unq s) (st_queried s) (st_closest s) v (st_out s) (st_gen s) (st_loop s) (st_stopping s) (st_stopped s) (st_stall_taken s) (st_started s) (st_offered s) (st_responded s) (st_pushed s).
  Definition set_out (s : state) (v : nat) : state :=
    mkS (st_unq s) (st_queried s) (st_closest s) (st_inflight s) v (st_gen s) (st_loop s) (st_stopping s) (st_stopped s) (st_stall_taken s) (st_started s) (st_offered s) (st_responded s) (st_pushed s).
  Definition set_gen (s : state) (v : nat) : state :=
    mkS (st_unq s) (st_queried s) (st_closest s) (st_inflight s) (st_out s) v (st_loop s) (st_stopping s) (st_stopped s) (st_stall_taken s) (st_started s) (st_offered s) (st_responded s) (st_pushed s).
  Definition set_loop (s : state) (v : lpc) : state :=
    mkS (st_unq s) (st_queried s) (st_closest s) (st_inflight s) (st_out s) (st_gen s) v (st_stopping s) (st_stopped s) (st_stall_taken s) (st_started s) (st_offered s) (st_responded s) (st_pushed s).
  Definition set_stopping (s : state) (v : bool) : state :=
    mkS (st_unq s) (st_queried s) (st_closest s) (st_inflight s) (st_out s) (st_gen s) (st_loop s) v (st_stopped s) (st_stall_taken s) (st_started s) (st_offered s) (st_responded s) (st_pushed s).
  Definition set_stopped (s : state) (v : bool) : state :=
    mkS (st_unq s) (st_queried s) (st_closest s) (st_inflight s) (st_out s) (st_gen s) (st_loop s) (st_stopping s) v (st_stall_taken s) (st_started s) (st_offered s) (st_responded s) (st_pushed s).
  Definition set_stall_taken (s : state) (v : bool) : state :=
    mkS (st_unq s) (st_queried s) (st_closest s) (st_inflight s) (st_out s) (st_gen s) (st_loop s) (st_stopping s) (st_stopped s) v (st_started s) (st_offered s) (st_responded s) (st_pushed s).
  Definition set_started (s : state) (v : list ami) : state :=
    mkS (st_unq s) (st_queried s) (st_closest s) (st_inflight s) (st_out s) (st_gen s) (st_loop s) (st_stopping s) (st_stopped s) (st_stall_taken s) v (st_offered s) (st_responded s) (st_pushed s).
  Definition set_offered (s : state) (v : list ami) : state :=
    mkS (st_unq s) (st_queried s) (st_closest s) (st_inflight s) (st_out s) (st_gen s) (st_loop s) (st_stopping s) (st_stopped s) (st_stall_taken s) (st_started s) v (st_responded s) (st_pushed s).
  Definition set_responded (s : state) (v : list (ninfo * D)) : state :=
    mkS (st_unq s) (st_queried s) (st_closest s) (st_inflight s) (st_out s) (st_gen s) (st_loop s) (st_stopping s) (st_stopped s) (st_stall_taken s) (st_started s) (st_offered s) v (st_pushed s).
  Definition set_pushed (s : state) (v : list (kelem D)) : state :=
    mkS (st_unq s) (st_queried s) (st_closest s) (st_inflight s) (st_out s) (st_gen s) (st_loop s) (st_stopping s) (st_stopped s) (st_stall_taken s) (st_started s) (st_offered s) (st_responded s) v.

  Definition init : state :=
    mkS [] [] [] [] 0 0 Awake false false false [] [] [] [].

  (* ---- in-flight bookkeeping ---- *)
  Definition find_q (i : nat) (l : list query) : option query :=
    find (fun q => Nat.eqb (q_id q) i) l.
  Definition upd_q (i : nat) (f : query -> query) (l : list query) : list query :=
    map (fun q => if Nat.eqb (q_id q) i then f q else q) l.
  Definition del_q (i : nat) (l : list query) : list query :=
    remove_first (fun q => Nat.eqb (q_id q) i) l.
  Definition q_set_pc (p : qpc) (q : query) : query :=
    mkQ (q_id q) (q_cand q) p (q_resp q) (q_cancelled q).
  Definition q_returned (r : response) (q : query) : query :=
    mkQ (q_id q) (q_cand q) QResp r true.           (* res := DoQuery(..); cancel() *)
  Definition q_cancel (q : query) : query :=
    mkQ (q_id q) (q_cand q) (q_pc q) (q_resp q) true.

  (* ---- addNodeLocked (operation.go:125-138) ---- *)
  Definition add_node (s : state) (c : ami) : state :=
    let s := set_offered s (st_offered s ++ [c]) in
    if ap_mem (ami_addr c) (st_queried s) then s                       (* "already queried" *)
    else if negb (node_filter c) then s                                 (* "failed filter" *)
    else set_gen (set_unq s (ss_add target c (st_unq s))) (S (st_gen s)).  (* Add; Broadcast *)

  (* AddNodes (operation.go:147-155) *)
  Definition add_nodes (s : state) (ns : list ami) : state := fold_left add_node ns s.
  Definition add_nodes_ret (s : state) (ns : list ami) : nat :=
    length (st_unq (add_nodes s ns)) - length (st_unq s).

  (* ---- addClosest (operation.go:213-226) ---- *)
  Definition kel_of (n : ninfo) (d : D) : kelem D := mkK (fst n) (snd n) d.
  Definition add_closest (s : state) (x : ninfo * D) : state :=
    let s := set_responded s (st_responded s ++ [x]) in
    if node_filter (ni_ami (fst x)) && data_filter (snd x) then
      set_pushed (set_closest s (kn_push tb target k (st_closest s) (kel_of (fst x) (snd x))))
                 (st_pushed s ++ [kel_of (fst x) (snd x)])
    else s.

  (* ---- haveQuery (operation.go:171-185) on an explicit frontier ---- *)
  Definition have_query_on (u : list ami) (cl : list (kelem D)) : bool :=
    match u with
    | [] => false                                      (* unqueried.Len() == 0 *)
    | cu :: _ =>
        if negb (kn_full k cl) then true              (* !closest.Full() *)
        else match ami_id cu with
             | None => false                           (* !cu.Id.Ok *)
             | Some i =>
                 match kn_farthest cl with
                 | None => false   (* Farthest() panics on an empty set: unreachable for k >= 1,
                                      see TraversalInv.have_query_no_panic *)
                 | Some f => N.leb (dist i target) (dist (k_id f) target)   (* Cmp <= 0 *)
                 end
             end
    end.

  Definition pruned (s : state) : list ami :=
    if prune_front then prune (st_queried s) (st_unq s) else st_unq s.
  Definition do_prune (s : state) : state := set_unq s (pruned s).
  (* the value haveQuery() would return in state s *)
  Definition have_query (s : state) : bool := have_query_on (pruned s) (st_closest s).

  (* ---- startQuery (operation.go:232-235): pop closest, mark queried, outstanding++ ---- *)
  Definition start_query (s : state) : state :=
    match st_unq s with
    | [] => s                                         (* Next() panics: unreachable, haveQuery held *)
    | c :: u =>
        let q := mkQ (length (st_started s)) c QWait no_resp false in
        set_started
          (set_inflight
             (set_out
                (set_queried (set_unq s u) (ap_add (ami_addr c) (st_queried s)))
                (S (st_out s)))
             (st_inflight s ++ [q]))
          (st_started s ++ [c])
    end.

  (* for op.outstanding < op.input.Alpha && op.haveQuery() { op.startQuery() }
     haveQuery() is evaluated (and prunes) only when outstanding < alpha *)
  Fixpoint start_loop (fuel : nat) (s : state) : state :=
    match fuel with
    | O => s
    | S f =>
        if Nat.ltb (st_out s) alpha then
          let s1 := do_prune s in
          if have_query_on (st_unq s1) (st_closest s1) then start_loop f (start_query s1) else s1
        else s
    end.

  Definition run_body (s : state) : state :=
    let s1 := start_loop alpha s in
    let s2 := do_prune s1 in                                    (* haveQuery() of the stalled test *)
    let offer := (negb (have_query_on (st_unq s2) (st_closest s2)) || Nat.eqb alpha 0)
                 && Nat.eqb (st_out s2) 0 in
    set_loop s2 (Waiting (st_gen s2) offer).

  Definition run_step (s : state) : state :=
    if st_stopping s then set_loop s Exited else run_body s.

  Inductive label :=
  | LRun | LWake | LTakeStall
  | LDoQueryReturn (q : nat) (r : response)
  | LResp (q : nat) | LAddN (q : nat) | LAddN6 (q : nat) | LDone (q : nat)
  | LAddNodes (ns : list ami)
  | LStop | LStopWait
  | LCancel (q : nat).

  Definition q_at (s : state) (i : nat) (p : qpc) : bool :=
    match find_q i (st_inflight s) with
    | Some q => qpc_eqb (q_pc q) p
    | None => false
    end.

  Definition enabled (s : state) (l : label) : bool :=
    match l with
    | LRun => match st_loop s with Awake => true | _ => false end
    | LWake => match st_loop s with
               | Waiting g _ => Nat.ltb g (st_gen s) || st_stopping s
               | _ => false
               end
    | LTakeStall => match st_loop s with Waiting _ true => true | _ => false end
    | LDoQueryReturn i _ => q_at s i QWait
    | LResp i => q_at s i QResp
    | LAddN i => q_at s i QAddN
    | LAddN6 i => q_at s i QAddN6
    | LDone i => q_at s i QDone
    | LAddNodes _ => true
    | LStop => negb (st_stopping s)
    | LStopWait => st_stopping s && negb (st_stopped s) && Nat.eqb (st_out s) 0
    | LCancel i => st_stopping s &&
                   match find_q i (st_inflight s) with
                   | Some q => negb (q_cancelled q)
                   | None => false
                   end
    end.

  Definition resp_of (s : state) (i : nat) : response :=
    match find_q i (st_inflight s) with Some q => q_resp q | None => no_resp end.

  Definition step (s : state) (l : label) : state :=
    match l with
    | LRun => run_step s
    | LWake => set_loop s Awake
    | LTakeStall => set_stall_taken (set_loop s Awake) true
    | LDoQueryReturn i r => set_inflight s (upd_q i (q_returned r) (st_inflight s))
    | LResp i =>
        let s1 := match r_from (resp_of s i) with
                  | Some x => add_closest s x
                  | None => s
                  end in
        set_inflight s1 (upd_q i (q_set_pc QAddN) (st_inflight s1))
    | LAddN i =>
        let s1 := add_nodes s (map ni_ami (r_nodes (resp_of s i))) in
        set_inflight s1 (upd_q i (q_set_pc QAddN6) (st_inflight s1))
    | LAddN6 i =>
        let s1 := add_nodes s (map ni_ami (r_nodes6 (resp_of s i))) in
        set_inflight s1 (upd_q i (q_set_pc QDone) (st_inflight s1))
    | LDone i =>
        set_gen (set_out (set_inflight s (del_q i (st_inflight s))) (pred (st_out s)))
                (S (st_gen s))
    | LAddNodes ns => add_nodes s ns
    | LStop => set_stopping s true
    | LStopWait => set_stopped s true
    | LCancel i => set_inflight s (upd_q i q_cancel (st_inflight s))
    end.

  (* a label that is not enabled is skipped: every label list is a schedule *)
  Definition step_en (s : state) (l : label) : state := if enabled s l then step s l else s.
  Definition exec (s : state) (ls : list label) : state := fold_left step_en ls s.
  Definition run (ls : list label) : state := exec init ls.

  (* observables *)
  Definition stalled_ready (s : state) : bool :=
    match st_loop s with Waiting _ true => true | Exited => true | _ => false end.
  (* the moment the stalled offer is made and still current *)
  Definition at_stalled_offer (s : state) : bool :=
    match st_loop s with Waiting g true => Nat.eqb g (st_gen s) | _ => false end.
End Traversal.

Arguments mkResp {D}.
Arguments r_from {D}.
Arguments r_nodes {D}.
Arguments r_nodes6 {D}.
Arguments no_resp {D}.
Arguments mkQ {D}.
Arguments q_id {D}.
Arguments q_cand {D}.
Arguments q_pc {D}.
Arguments q_resp {D}.
Arguments q_cancelled {D}.
Arguments mkS {D}.
Arguments st_unq {D}.
Arguments set_unq {D}.
Arguments st_queried {D}.
Arguments set_queried {D}.
Arguments st_closest {D}.
Arguments set_closest {D}.
Arguments st_inflight {D}.
Arguments set_inflight {D}.
Arguments st_out {D}.
Arguments set_out {D}.
Arguments st_gen {D}.
Arguments set_gen {D}.
Arguments st_loop {D}.
Arguments set_loop {D}.
Arguments st_stopping {D}.
Arguments set_stopping {D}.
Arguments st_stopped {D}.
Arguments set_stopped {D}.
Arguments st_stall_taken {D}.
Arguments set_stall_taken {D}.
Arguments st_started {D}.
Arguments set_started {D}.
Arguments st_offered {D}.
Arguments set_offered {D}.
Arguments st_responded {D}.
Arguments set_responded {D}.
Arguments st_pushed {D}.
Arguments set_pushed {D}.
Arguments init {D}.
Arguments LRun {D}.
Arguments LWake {D}.
Arguments LTakeStall {D}.
Arguments LDoQueryReturn {D}.
Arguments LResp {D}.
Arguments LAddN {D}.
Arguments LAddN6 {D}.
Arguments LDone {D}.
Arguments LAddNodes {D}.
Arguments LStop {D}.
Arguments LStopWait {D}.
Arguments LCancel {D}.
Arguments find_q {D}.
Arguments stalled_ready {D}.
Arguments at_stalled_offer {D}.
