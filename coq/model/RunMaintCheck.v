(* RunMaintCheck.v — the comparison the OCaml driver makes for an `mpass` line (drv_maint.ml), written in
   Gallina so that the thorough tier can re-evaluate a sample of the lines INSIDE Coq (bin/crosscheck.py):
   implementation = extracted model = model as the kernel evaluates it.  Not extracted. *)
From Coq Require Import List NArith ZArith Bool.
From Dht Require Import Base Msg Server Maint RunServer RunMaint.
Import ListNotations.

Definition rmk := (bytes * N)%type.
Definition rmk_mem (x : rmk) (l : list rmk) : bool := existsb (key_eqb x) l.
(* sets of addresses: two entries at one address are one destination *)
Definition rmk_set_eqb (a b : list rmk) : bool :=
  forallb (fun x => rmk_mem x b) a && forallb (fun x => rmk_mem x a) b.
Definition rm_keys (l : list node) : list rmk := map (fun n => addr_key (n_addr n)) l.

Inductive rm_obs := ROPing (i : nat) (l : list rmk) | RORefresh (i : nat) (l : list rmk) | ROBreak (i : nat) | RODone.

Definition rm_phase_obs_eqb (p : phase) (o : rm_obs) : bool :=
  match p, o with
  | PPing i l, ROPing j m => Nat.eqb i j && rmk_set_eqb (rm_keys l) m
  | PRefresh i l, RORefresh j m => Nat.eqb i j && rmk_set_eqb (rm_keys l) m
  | PBreak i, ROBreak j => Nat.eqb i j
  | PDone, RODone => true
  | _, _ => false
  end.

(* an empty ping round and a refresh without a seed cost no datagram, where the pass ends is not a datagram either *)
Definition rm_visible (p : phase) : bool :=
  match p with
  | PPing _ [] | PRefresh _ [] | PBreak _ | PDone => false
  | _ => true
  end.

Fixpoint list_eqb2 {A B : Type} (f : A -> B -> bool) (l : list A) (m : list B) : bool :=
  match l, m with
  | [], [] => true
  | x :: l', y :: m' => f x y && list_eqb2 f l' m'
  | _, _ => false
  end.

Definition rm_after_entry := (N * rmk * N * bool)%type.     (* id, address key, class, failed flag *)

Definition rm_after_eqb (c : config) (now : Z) (final : list node) (obs : list rm_after_entry) : bool :=
  Nat.eqb (length final) (length obs) &&
  forallb (fun n => existsb (fun o => match o with (id, k, cl, f) =>
      N.eqb id (n_id n) && key_eqb k (addr_key (n_addr n)) && N.eqb cl (rm_class c now n) && Bool.eqb f (n_failed n) end) obs) final.

Definition rm_check (c : config) (now : Z) (booted : bool) (answering others fans : list (N * (bytes * N))) (nodes : list node) (classes : list N)
           (boot : list rmk) (obs : list rm_obs) (after : list rm_after_entry) : bool :=
  list_eqb2 N.eqb (map (rm_class c now) nodes) classes &&
  rmk_set_eqb (rm_keys (rm_boot_asked c booted nodes)) boot &&
  (let '(ph, final) := rm_pass c now booted answering others fans nodes in
   list_eqb2 rm_phase_obs_eqb (filter rm_visible ph) obs && rm_after_eqb c now final after).
