(* Msg.v — the decoded KRPC message (krpc.Msg, krpc.MsgArgs, krpc.Return, krpc.Error,
   krpc.NodeAddr, krpc.NodeInfo of /repo/krpc) shared by the codec model and the server model,
   plus generic bencode values and their canonical encoder.  No proofs. *)
From Dht Require Import Base.

(* ---- generic bencode values (what an `interface{}` target decodes to) ---- *)
Inductive bval :=
| BInt (z : Z)
| BStr (s : bytes)
| BList (l : list bval)
| BDict (d : list (bytes * bval)).    (* keys as they are emitted; canonical = strictly ascending *)

(* decimal rendering *)
Definition digit_byte (d : N) : byte := byte_of_N (48 + d).

Fixpoint dec_pos_fuel (fuel : nat) (n : N) (acc : bytes) : bytes :=
  match fuel with
  | O => acc
  | S f => if N.ltb n 10 then digit_byte n :: acc
           else dec_pos_fuel f (n / 10) (digit_byte (n mod 10) :: acc)
  end.

(* enough fuel: number of binary digits + 1 *)
Definition dec_N (n : N) : bytes := dec_pos_fuel (S (N.to_nat (N.size n))) n [].

Definition dec_Z (z : Z) : bytes :=
  match z with
  | Z0 => [digit_byte 0]
  | Zpos p => dec_N (Npos p)
  | Zneg p => "-"%byte :: dec_N (Npos p)
  end.

Definition benc_str (s : bytes) : bytes := dec_N (N.of_nat (length s)) ++ ":"%byte :: s.
Definition benc_int (z : Z) : bytes := "i"%byte :: dec_Z z ++ ["e"%byte].

Fixpoint benc (v : bval) : bytes :=
  match v with
  | BInt z => benc_int z
  | BStr s => benc_str s
  | BList l => "l"%byte :: flat_map benc l ++ ["e"%byte]
  | BDict d => "d"%byte :: flat_map (fun kv => benc_str (fst kv) ++ benc (snd kv)) d ++ ["e"%byte]
  end.

(* ---- KRPC records ---- *)
Record node_addr := mkNA { na_ip : bytes; na_port : Z }.
Record node_info := mkNI { ni_id : bytes; ni_addr : node_addr }.

Record krpc_error := mkErr { e_code : Z; e_msg : bytes }.

Record msg_args := mkArgs {
  a_id : bytes;                       (* [20]byte *)
  a_info_hash : bytes;                (* [20]byte, all-zero when absent *)
  a_target : bytes;                   (* [20]byte, all-zero when absent *)
  a_token : bytes;
  a_port : option Z;                  (* *int *)
  a_implied_port : bool;
  a_want : option (list bytes);       (* nil vs (possibly empty) list *)
  a_noseed : Z;
  a_scrape : Z;
  a_v : option bval;                  (* interface{}; None = nil *)
  a_seq : option Z;                   (* *int64 *)
  a_cas : Z;
  a_k : bytes;                        (* [32]byte *)
  a_salt : bytes;
  a_sig : bytes                       (* [64]byte *)
}.

Record krpc_return := mkRet {
  r_id : bytes;                       (* [20]byte *)
  r_nodes : option (list node_info);  (* CompactIPv4NodeInfo, nil vs list *)
  r_nodes6 : option (list node_info);
  r_token : option bytes;             (* *string *)
  r_values : option (list node_addr);
  r_bfsd : option bytes;              (* *[256]byte *)
  r_bfpe : option bytes;
  r_interval : option Z;
  r_num : option Z;
  r_samples : option (list bytes);    (* *CompactInfohashes *)
  r_v : bytes;                        (* bencode.Bytes: raw encoded value, empty = absent *)
  r_k : bytes;                        (* [32]byte *)
  r_sig : bytes;                      (* [64]byte *)
  r_seq : option Z
}.

Record msg := mkMsg {
  m_q : bytes;
  m_a : option msg_args;
  m_t : bytes;
  m_y : bytes;
  m_r : option krpc_return;
  m_e : option krpc_error;
  m_ip : node_addr;                   (* zero value: empty ip, port 0 *)
  m_ro : bool;
  m_v : bytes                         (* ClientId *)
}.

Definition zero20 : bytes := zero_bytes 20.
Definition zero32 : bytes := zero_bytes 32.
Definition zero64 : bytes := zero_bytes 64.

Definition empty_args : msg_args :=
  mkArgs zero20 zero20 zero20 [] None false None 0 0 None None 0 zero32 [] zero64.

Definition empty_return : krpc_return :=
  mkRet zero20 None None None None None None None None None [] zero32 zero64 None.

Definition empty_na : node_addr := mkNA [] 0.

Definition empty_msg : msg := mkMsg [] None [] [] None None empty_na false [].

(* ASCII literals used as method names and message types *)
Definition str (s : list byte) : bytes := s.
Definition s_q : bytes := ["q"%byte].
Definition s_r : bytes := ["r"%byte].
Definition s_e : bytes := ["e"%byte].
Definition s_ping : bytes := ["p";"i";"n";"g"]%byte.
Definition s_find_node : bytes := ["f";"i";"n";"d";"_";"n";"o";"d";"e"]%byte.
Definition s_get_peers : bytes := ["g";"e";"t";"_";"p";"e";"e";"r";"s"]%byte.
Definition s_announce_peer : bytes := ["a";"n";"n";"o";"u";"n";"c";"e";"_";"p";"e";"e";"r"]%byte.
Definition s_get : bytes := ["g";"e";"t"]%byte.
Definition s_put : bytes := ["p";"u";"t"]%byte.
Definition s_n4 : bytes := ["n";"4"]%byte.
Definition s_n6 : bytes := ["n";"6"]%byte.

(* Msg.SenderID() *)
Definition sender_id (m : msg) : option bytes :=
  if bytes_eqb (m_y m) s_q then option_map a_id (m_a m)
  else if bytes_eqb (m_y m) s_r then option_map r_id (m_r m)
  else None.
