(* Krpc.v — the KRPC message codec: bencode.Unmarshal into krpc.Msg (type-directed, reflect-driven
   decoder of anacrolix/torrent/bencode, transcribed with its quirks: DESIGN.md Appendix A) and
   bencode.Marshal of krpc.Msg.  The field tables are NOT written here: decoder and encoder interpret
   the schema generated from the struct tags of /repo/krpc/msg.go (gen/KrpcSchema.v); this file only
   knows how a field *kind* is parsed / emitted and which record projection a Go field name denotes.
   Executable model, no proofs. *)
From Coq Require Import String.  (* first: List (through Base) must shadow String.length etc. *)
From Dht Require Import Base Msg Compact Bencode.
From DhtGen Require Import KrpcSchema.
Close Scope string_scope.    (* the generated files open it; here `++` is list append *)


(* Go identifiers the interpreter knows, as byte strings (no Coq `string` reaches extraction) *)
Definition nm_MsgArgs : bytes := Eval compute in String.list_byte_of_string "MsgArgs"%string.
Definition nm_Return : bytes := Eval compute in String.list_byte_of_string "Return"%string.
Definition nm_CompactIPv4NodeInfo : bytes := Eval compute in String.list_byte_of_string "CompactIPv4NodeInfo"%string.
Definition nm_CompactIPv6NodeInfo : bytes := Eval compute in String.list_byte_of_string "CompactIPv6NodeInfo"%string.
Definition nm_CompactIPv4NodeAddrs : bytes := Eval compute in String.list_byte_of_string "CompactIPv4NodeAddrs"%string.
Definition nm_CompactIPv6NodeAddrs : bytes := Eval compute in String.list_byte_of_string "CompactIPv6NodeAddrs"%string.
Definition nm_CompactInfohashes : bytes := Eval compute in String.list_byte_of_string "CompactInfohashes"%string.
Definition nm_ID : bytes := Eval compute in String.list_byte_of_string "ID"%string.
Definition nm_InfoHash : bytes := Eval compute in String.list_byte_of_string "InfoHash"%string.
Definition nm_Target : bytes := Eval compute in String.list_byte_of_string "Target"%string.
Definition nm_Token : bytes := Eval compute in String.list_byte_of_string "Token"%string.
Definition nm_K : bytes := Eval compute in String.list_byte_of_string "K"%string.
Definition nm_Sig : bytes := Eval compute in String.list_byte_of_string "Sig"%string.
Definition nm_Salt : bytes := Eval compute in String.list_byte_of_string "Salt"%string.
Definition nm_Port : bytes := Eval compute in String.list_byte_of_string "Port"%string.
Definition nm_Seq : bytes := Eval compute in String.list_byte_of_string "Seq"%string.
Definition nm_NoSeed : bytes := Eval compute in String.list_byte_of_string "NoSeed"%string.
Definition nm_Scrape : bytes := Eval compute in String.list_byte_of_string "Scrape"%string.
Definition nm_Cas : bytes := Eval compute in String.list_byte_of_string "Cas"%string.
Definition nm_ImpliedPort : bytes := Eval compute in String.list_byte_of_string "ImpliedPort"%string.
Definition nm_Want : bytes := Eval compute in String.list_byte_of_string "Want"%string.
Definition nm_V : bytes := Eval compute in String.list_byte_of_string "V"%string.
Definition nm_Nodes : bytes := Eval compute in String.list_byte_of_string "Nodes"%string.
Definition nm_Nodes6 : bytes := Eval compute in String.list_byte_of_string "Nodes6"%string.
Definition nm_BFsd : bytes := Eval compute in String.list_byte_of_string "BFsd"%string.
Definition nm_BFpe : bytes := Eval compute in String.list_byte_of_string "BFpe"%string.
Definition nm_Values : bytes := Eval compute in String.list_byte_of_string "Values"%string.
Definition nm_Interval : bytes := Eval compute in String.list_byte_of_string "Interval"%string.
Definition nm_Num : bytes := Eval compute in String.list_byte_of_string "Num"%string.
Definition nm_Samples : bytes := Eval compute in String.list_byte_of_string "Samples"%string.
Definition nm_Q : bytes := Eval compute in String.list_byte_of_string "Q"%string.
Definition nm_T : bytes := Eval compute in String.list_byte_of_string "T"%string.
Definition nm_Y : bytes := Eval compute in String.list_byte_of_string "Y"%string.
Definition nm_ClientId : bytes := Eval compute in String.list_byte_of_string "ClientId"%string.
Definition nm_A : bytes := Eval compute in String.list_byte_of_string "A"%string.
Definition nm_R : bytes := Eval compute in String.list_byte_of_string "R"%string.
Definition nm_E : bytes := Eval compute in String.list_byte_of_string "E"%string.
Definition nm_IP : bytes := Eval compute in String.list_byte_of_string "IP"%string.
Definition nm_ReadOnly : bytes := Eval compute in String.list_byte_of_string "ReadOnly"%string.

(* ================================================================================================
   Part 1 — generic type-directed parser (Decoder.parseValue / parseDict / parseList / parseInt /
   parseString / parseUnmarshaler), over the closed set of Go types that occur below krpc.Msg
   ================================================================================================ *)
Inductive sid := SMsg | SArgs | SRet.

Inductive gty :=
| GStr                    (* string (also krpc.Want) *)
| GBytes                  (* []byte *)
| GArr (n : nat)          (* [n]byte *)
| GInt                    (* int, int64 (64-bit platform) *)
| GU8                     (* uint8: elements of []byte / [n]byte given as a list *)
| GBool
| GSlice (t : gty)        (* []T, T not uint8 *)
| GStruct (s : sid)
| GUnm                    (* a type with its own UnmarshalBencode: receives one raw scanned value *)
| GAny.                   (* interface{} *)

(* what the parser leaves in the target *)
Inductive gval :=
| VZero                               (* target untouched: the empty dictionary `de` is accepted by every
                                         non-struct target and leaves the zero value *)
| VStr (s : bytes)
| VInt (z : Z)
| VBool (b : bool)
| VList (l : list gval)               (* from a bencode list: non-nil, possibly empty *)
| VRaw (raw : bytes)
| VAny (v : bval)
| VStruct (fs : list (bytes * gval)). (* assignments to known keys, in order of appearance *)

Definition schema_of (s : sid) : list field :=
  match s with SMsg => msg_schema | SArgs => args_schema | SRet => return_schema end.

Definition sid_of_name (n : bytes) : option sid :=
  if bytes_eqb n nm_MsgArgs then Some SArgs
  else if bytes_eqb n nm_Return then Some SRet
  else None.

Definition ty_of_kind (k : kind) : option gty :=
  match k with
  | KStr | KPtrStr => Some GStr
  | KBytes => Some GBytes
  | KInt | KPtrInt => Some GInt
  | KBool => Some GBool
  | KId | KNodeAddr | KCompact _ | KPtrCompact _ | KPtrErr | KRaw => Some GUnm
  | KArr n | KPtrArr n => Some (GArr n)
  | KAddrList => Some (GSlice GUnm)
  | KWants => Some (GSlice GStr)
  | KAny => Some GAny
  | KPtrStruct n => option_map GStruct (sid_of_name n)
  | KUnknown _ => None
  end.

(* the decoder's per-type map key -> field; a later field with the same key replaces an earlier one *)
Definition lookup_field (s : sid) (key : bytes) : option field :=
  find (fun f => bytes_eqb (f_key f) key) (rev (schema_of s)).

Definition key_of (v : gval) : bytes := match v with VStr s => s | _ => [] end.

Definition dec_cap (c : option nat) : option nat :=
  match c with Some (S n) => Some n | c' => c' end.
Definition cap_full (c : option nat) : bool := match c with Some O => true | _ => false end.

Definition zero_text : bytes := ["0"%byte].

(* result: value, unread rest, scratch buffer dirty (see Bencode.parse_value_fuel) *)
Fixpoint parse_ty (fuel : nat) (t : gty) (dirty : bool) (b : bytes) {struct fuel}
  : option (gval * bytes * bool) :=
  match fuel with
  | O => None
  | S f =>
      match t with
      | GUnm =>
          (* parseUnmarshaler: `e` is "no value"; else one raw value, handed over unvalidated *)
          match b with
          | [] => None
          | c :: _ =>
              if byte_eqb c ch_e then None
              else match scan_value b with
                   | Some (raw, r) => Some (VRaw raw, r, true)
                   | None => None
                   end
          end
      | GAny =>
          match parse_value_d dirty b with
          | Some (v, r) => Some (VAny v, r, dirty)
          | None => None
          end
      | _ =>
          match b with
          | [] => None
          | c :: r =>
              if byte_eqb c ch_e then None            (* no value here: caller reports the error *)
              else if byte_eqb c ch_d then
                match t with
                | GStruct s =>
                    match parse_fields f s dirty r with
                    | Some (fs, r', d') => Some (VStruct fs, r', d')
                    | None => None
                    end
                | _ =>
                    (* parseDict into a non-struct: fails at the first key, so only `de` passes *)
                    match r with
                    | c2 :: r2 => if byte_eqb c2 ch_e then Some (VZero, r2, dirty) else None
                    | [] => None
                    end
                end
              else if byte_eqb c ch_l then
                match t with
                | GSlice t' =>
                    match parse_elems f t' None dirty r with
                    | Some (l, r', d') => Some (VList l, r', d')
                    | None => None
                    end
                | GBytes =>
                    match parse_elems f GU8 None dirty r with
                    | Some (l, r', d') => Some (VList l, r', d')
                    | None => None
                    end
                | GArr n =>
                    match parse_elems f GU8 (Some n) dirty r with
                    | Some (l, r', d') => Some (VList l, r', d')
                    | None => None
                    end
                | _ =>
                    (* singleton-list coercion: parse as []T and require exactly one element *)
                    match parse_elems f t None dirty r with
                    | Some ([v], r', d') => Some (v, r', d')
                    | _ => None
                    end
                end
              else if byte_eqb c ch_i then
                if dirty then None      (* unreachable in a Msg: a typed integer never follows a raw value directly *)
                else match read_until ch_e r with
                     | None => None
                     | Some (txt, r') =>
                         if check_buffered_int txt then
                           match t with
                           | GInt =>
                               match parse_sdec txt with
                               | Some z => if in_int64 z then Some (VInt z, r', false) else None
                               | None => None
                               end
                           | GU8 =>
                               match parse_udec txt with
                               | Some n => if N.leb n 255 then Some (VInt (Z.of_N n), r', false) else None
                               | None => None
                               end
                           | GBool => Some (VBool (negb (bytes_eqb txt zero_text)), r', false)
                           | _ => None
                           end
                         else None
                     end
              else if is_digit c then
                match parse_str_tok b with
                | None => None
                | Some (s, r') =>
                    match t with
                    | GStr | GBytes => Some (VStr s, r', false)
                    | GArr n => Some (VStr (fit n s), r', false)
                    | _ => None
                    end
                end
              else None
          end
      end
  end
with parse_elems (fuel : nat) (t : gty) (cap : option nat) (dirty : bool) (b : bytes) {struct fuel}
  : option (list gval * bytes * bool) :=
  match fuel with
  | O => None
  | S f =>
      match b with
      | [] => None
      | c :: r =>
          if byte_eqb c ch_e then
            (* parseUnmarshaler resets the scratch buffer before it meets the terminator *)
            Some ([], r, match t with GUnm => false | _ => dirty end)
          else if cap_full cap then
            (* beyond the end of an array: parsed strictly as interface{} and dropped *)
            match parse_value_d dirty b with
            | Some (_, b1) => parse_elems f t cap dirty b1
            | None => None
            end
          else
            match parse_ty f t dirty b with
            | None => None
            | Some (v, b1, d1) =>
                match parse_elems f t (dec_cap cap) d1 b1 with
                | Some (l, b2, d2) => Some (v :: l, b2, d2)
                | None => None
                end
            end
      end
  end
with parse_fields (fuel : nat) (s : sid) (dirty : bool) (b : bytes) {struct fuel}
  : option (list (bytes * gval) * bytes * bool) :=
  match fuel with
  | O => None
  | S f =>
      match b with
      | [] => None
      | c :: r =>
          if byte_eqb c ch_e then Some ([], r, dirty)
          else
            (* the key goes through parseValue with a string target: coercions apply *)
            match parse_ty f GStr dirty b with
            | None => None
            | Some (kv, b1, d1) =>
                match lookup_field s (key_of kv) with
                | None =>
                    (* unknown key: value parsed strictly as interface{} and dropped *)
                    match parse_value_d d1 b1 with
                    | Some (_, b2) => parse_fields f s d1 b2
                    | None => None
                    end
                | Some fd =>
                    match ty_of_kind (f_kind fd) with
                    | None => None
                    | Some t =>
                        match parse_ty f t d1 b1 with
                        | None => None
                        | Some (v, b2, d2) =>
                            match parse_fields f s d2 b2 with
                            | Some (fs, b3, d3) => Some ((key_of kv, v) :: fs, b3, d3)
                            | None => None
                            end
                        end
                    end
                end
            end
      end
  end.

(* bencode.Unmarshal(raw, &target) as called by the UnmarshalBencode methods: fresh decoder, any
   error (unused trailing bytes included) is returned *)
Definition unmarshal_exact (t : gty) (raw : bytes) : option gval :=
  match parse_ty (length raw) t false raw with
  | Some (v, [], _) => Some v
  | _ => None
  end.

(* ================================================================================================
   Part 2 — from parsed values to the records of Msg.v, kind by kind
   ================================================================================================ *)
(* what Msg.v does not represent but the codec observes (nil vs empty-but-non-nil slices) *)
Definition xargs := (msg_args * bool)%type.        (* salt is non-nil *)
Definition xret := (krpc_return * bool)%type.      (* v (bencode.Bytes) is non-nil *)
Record xmsg := mkX {
  x_msg : msg;
  x_ip_nn : bool;       (* Msg.IP.IP is non-nil *)
  x_salt_nn : bool;     (* Msg.A.Salt is non-nil *)
  x_rv_nn : bool        (* Msg.R.V is non-nil *)
}.

Inductive fval :=
| FStr (s : bytes)
| FOStr (o : option bytes)
| FInt (z : Z)
| FOInt (o : option Z)
| FBool (b : bool)
| FAddr (nn : bool) (a : node_addr)
| FInfos (o : option (list node_info))
| FAddrs (o : option (list node_addr))
| FStrs (o : option (list bytes))
| FErr (o : option krpc_error)
| FAny (o : option bval)
| FArgs (o : option xargs)
| FRet (o : option xret).

Definition obind {A B} (o : cresult A) (f : A -> cresult B) : cresult B :=
  match o with COk a => f a | CErr => CErr | CPanic => CPanic end.
Definition of_opt {A} (o : option A) : cresult A := match o with Some a => COk a | None => CErr end.

Definition conv_str (v : gval) : option bytes :=
  match v with VStr s => Some s | VZero => Some [] | _ => None end.

Definition u8_of (v : gval) : option byte :=
  match v with VInt z => Some (byte_of_N (Z.to_N z)) | VZero => Some x00 | _ => None end.

Fixpoint bytes_of_vlist (l : list gval) : option bytes :=
  match l with
  | [] => Some []
  | v :: l' =>
      match u8_of v, bytes_of_vlist l' with
      | Some x, Some r => Some (x :: r)
      | _, _ => None
      end
  end.

(* []byte target: None = nil slice *)
Definition conv_bytes (v : gval) : option (option bytes) :=
  match v with
  | VStr s => Some (Some s)
  | VList l => option_map Some (bytes_of_vlist l)
  | VZero => Some None
  | _ => None
  end.

Definition conv_arr (n : nat) (v : gval) : option bytes :=
  match v with
  | VStr s => Some s                              (* already fitted by the parser *)
  | VList l => option_map (fit n) (bytes_of_vlist l)
  | VZero => Some (zero_bytes n)
  | _ => None
  end.

Definition conv_int (v : gval) : option Z :=
  match v with VInt z => Some z | VZero => Some 0%Z | _ => None end.
Definition conv_bool (v : gval) : option bool :=
  match v with VBool b => Some b | VZero => Some false | _ => None end.
Definition conv_raw (v : gval) : option bytes := match v with VRaw r => Some r | _ => None end.

(* ID.UnmarshalBencode: a string; shorter than 20 is an error, longer is truncated *)
Definition id_unmarshal (raw : bytes) : option bytes :=
  match unmarshal_exact GStr raw with
  | Some v =>
      match conv_str v with
      | Some s => if Nat.ltb (length s) 20 then None else Some (firstn 20 s)
      | None => None
      end
  | None => None
  end.

(* NodeAddr.UnmarshalBencode: []byte, then UnmarshalBinary *)
Definition nodeaddr_unmarshal_benc (raw : bytes) : cresult node_addr :=
  match unmarshal_exact GBytes raw with
  | Some v =>
      match conv_bytes v with
      | Some ob => nodeaddr_unmarshal (match ob with Some s => s | None => [] end)
      | None => CErr
      end
  | None => CErr
  end.

(* unmarshalBencodedBinary: a string, then UnmarshalBinary *)
Definition benc_string_of_raw (raw : bytes) : cresult bytes :=
  match unmarshal_exact GStr raw with
  | Some v => of_opt (conv_str v)
  | None => CErr
  end.

(* Error.UnmarshalBencode: interface{}; a list [int64, string, ...] or a bare string *)
Definition error_unmarshal (raw : bytes) : option krpc_error :=
  match parse_value raw with
  | Some (BList (BInt c :: BStr m :: _), []) => if in_int64 c then Some (mkErr c m) else None
  | Some (BStr m, []) => Some (mkErr 0 m)
  | _ => None
  end.

Section WithNodeInfoDecoder.
  (* NodeInfo.UnmarshalBinary of the tree under study: pinned (panics below 20 bytes) or repaired *)
  Variable ni_dec : bytes -> cresult node_info.

  Definition nonnil_list {A} (l : list A) : option (list A) := match l with [] => None | _ => Some l end.

  (* a compact list field: the slice stays nil when nothing is appended *)
  Definition compact_conv (c : bytes) (ptr : bool) (raw : bytes) : cresult fval :=
    obind (benc_string_of_raw raw) (fun s =>
      if bytes_eqb c nm_CompactIPv4NodeInfo then
        obind (compact_dec w_info4 ni_dec s) (fun l => COk (FInfos (if ptr then Some l else nonnil_list l)))
      else if bytes_eqb c nm_CompactIPv6NodeInfo then
        obind (compact_dec w_info6 ni_dec s) (fun l => COk (FInfos (if ptr then Some l else nonnil_list l)))
      else if bytes_eqb c nm_CompactIPv4NodeAddrs then
        obind (addrs4_dec s) (fun l => COk (FAddrs (if ptr then Some l else nonnil_list l)))
      else if bytes_eqb c nm_CompactIPv6NodeAddrs then
        obind (addrs6_dec s) (fun l => COk (FAddrs (if ptr then Some l else nonnil_list l)))
      else if bytes_eqb c nm_CompactInfohashes then
        obind (hashes_dec s) (fun l => COk (FStrs (if ptr then Some l else nonnil_list l)))
      else CErr).

  Fixpoint conv_addr_list (l : list gval) : cresult (list node_addr) :=
    match l with
    | [] => COk []
    | v :: l' =>
        match conv_raw v with
        | Some raw =>
            obind (nodeaddr_unmarshal_benc raw) (fun a =>
            obind (conv_addr_list l') (fun r => COk (a :: r)))
        | None => CErr
        end
    end.

  Fixpoint conv_str_list (l : list gval) : option (list bytes) :=
    match l with
    | [] => Some []
    | v :: l' =>
        match conv_str v, conv_str_list l' with
        | Some s, Some r => Some (s :: r)
        | _, _ => None
        end
    end.

  (* ---- record projections by Go field name ---- *)
  Definition set_args (fname : bytes) (fv : fval) (x : xargs) : option xargs :=
    let '(a, nn) := x in
    let mk := mkArgs in
    match fv with
    | FStr s =>
        if bytes_eqb fname nm_ID then Some (mk s (a_info_hash a) (a_target a) (a_token a) (a_port a) (a_implied_port a) (a_want a) (a_noseed a) (a_scrape a) (a_v a) (a_seq a) (a_cas a) (a_k a) (a_salt a) (a_sig a), nn)
        else if bytes_eqb fname nm_InfoHash then Some (mk (a_id a) s (a_target a) (a_token a) (a_port a) (a_implied_port a) (a_want a) (a_noseed a) (a_scrape a) (a_v a) (a_seq a) (a_cas a) (a_k a) (a_salt a) (a_sig a), nn)
        else if bytes_eqb fname nm_Target then Some (mk (a_id a) (a_info_hash a) s (a_token a) (a_port a) (a_implied_port a) (a_want a) (a_noseed a) (a_scrape a) (a_v a) (a_seq a) (a_cas a) (a_k a) (a_salt a) (a_sig a), nn)
        else if bytes_eqb fname nm_Token then Some (mk (a_id a) (a_info_hash a) (a_target a) s (a_port a) (a_implied_port a) (a_want a) (a_noseed a) (a_scrape a) (a_v a) (a_seq a) (a_cas a) (a_k a) (a_salt a) (a_sig a), nn)
        else if bytes_eqb fname nm_K then Some (mk (a_id a) (a_info_hash a) (a_target a) (a_token a) (a_port a) (a_implied_port a) (a_want a) (a_noseed a) (a_scrape a) (a_v a) (a_seq a) (a_cas a) s (a_salt a) (a_sig a), nn)
        else if bytes_eqb fname nm_Sig then Some (mk (a_id a) (a_info_hash a) (a_target a) (a_token a) (a_port a) (a_implied_port a) (a_want a) (a_noseed a) (a_scrape a) (a_v a) (a_seq a) (a_cas a) (a_k a) (a_salt a) s, nn)
        else None
    | FOStr o =>
        if bytes_eqb fname nm_Salt then Some (mk (a_id a) (a_info_hash a) (a_target a) (a_token a) (a_port a) (a_implied_port a) (a_want a) (a_noseed a) (a_scrape a) (a_v a) (a_seq a) (a_cas a) (a_k a) (match o with Some s => s | None => [] end) (a_sig a), match o with Some _ => true | None => false end)
        else None
    | FOInt o =>
        if bytes_eqb fname nm_Port then Some (mk (a_id a) (a_info_hash a) (a_target a) (a_token a) o (a_implied_port a) (a_want a) (a_noseed a) (a_scrape a) (a_v a) (a_seq a) (a_cas a) (a_k a) (a_salt a) (a_sig a), nn)
        else if bytes_eqb fname nm_Seq then Some (mk (a_id a) (a_info_hash a) (a_target a) (a_token a) (a_port a) (a_implied_port a) (a_want a) (a_noseed a) (a_scrape a) (a_v a) o (a_cas a) (a_k a) (a_salt a) (a_sig a), nn)
        else None
    | FInt z =>
        if bytes_eqb fname nm_NoSeed then Some (mk (a_id a) (a_info_hash a) (a_target a) (a_token a) (a_port a) (a_implied_port a) (a_want a) z (a_scrape a) (a_v a) (a_seq a) (a_cas a) (a_k a) (a_salt a) (a_sig a), nn)
        else if bytes_eqb fname nm_Scrape then Some (mk (a_id a) (a_info_hash a) (a_target a) (a_token a) (a_port a) (a_implied_port a) (a_want a) (a_noseed a) z (a_v a) (a_seq a) (a_cas a) (a_k a) (a_salt a) (a_sig a), nn)
        else if bytes_eqb fname nm_Cas then Some (mk (a_id a) (a_info_hash a) (a_target a) (a_token a) (a_port a) (a_implied_port a) (a_want a) (a_noseed a) (a_scrape a) (a_v a) (a_seq a) z (a_k a) (a_salt a) (a_sig a), nn)
        else None
    | FBool b =>
        if bytes_eqb fname nm_ImpliedPort then Some (mk (a_id a) (a_info_hash a) (a_target a) (a_token a) (a_port a) b (a_want a) (a_noseed a) (a_scrape a) (a_v a) (a_seq a) (a_cas a) (a_k a) (a_salt a) (a_sig a), nn)
        else None
    | FStrs o =>
        if bytes_eqb fname nm_Want then Some (mk (a_id a) (a_info_hash a) (a_target a) (a_token a) (a_port a) (a_implied_port a) o (a_noseed a) (a_scrape a) (a_v a) (a_seq a) (a_cas a) (a_k a) (a_salt a) (a_sig a), nn)
        else None
    | FAny o =>
        if bytes_eqb fname nm_V then Some (mk (a_id a) (a_info_hash a) (a_target a) (a_token a) (a_port a) (a_implied_port a) (a_want a) (a_noseed a) (a_scrape a) o (a_seq a) (a_cas a) (a_k a) (a_salt a) (a_sig a), nn)
        else None
    | _ => None
    end.

  Definition get_args (fname : bytes) (x : xargs) : option fval :=
    let '(a, nn) := x in
    if bytes_eqb fname nm_ID then Some (FStr (a_id a))
    else if bytes_eqb fname nm_InfoHash then Some (FStr (a_info_hash a))
    else if bytes_eqb fname nm_Target then Some (FStr (a_target a))
    else if bytes_eqb fname nm_Token then Some (FStr (a_token a))
    else if bytes_eqb fname nm_Port then Some (FOInt (a_port a))
    else if bytes_eqb fname nm_ImpliedPort then Some (FBool (a_implied_port a))
    else if bytes_eqb fname nm_Want then Some (FStrs (a_want a))
    else if bytes_eqb fname nm_NoSeed then Some (FInt (a_noseed a))
    else if bytes_eqb fname nm_Scrape then Some (FInt (a_scrape a))
    else if bytes_eqb fname nm_V then Some (FAny (a_v a))
    else if bytes_eqb fname nm_Seq then Some (FOInt (a_seq a))
    else if bytes_eqb fname nm_Cas then Some (FInt (a_cas a))
    else if bytes_eqb fname nm_K then Some (FStr (a_k a))
    else if bytes_eqb fname nm_Salt then Some (FOStr (if nn then Some (a_salt a) else None))
    else if bytes_eqb fname nm_Sig then Some (FStr (a_sig a))
    else None.

  Definition set_ret (fname : bytes) (fv : fval) (x : xret) : option xret :=
    let '(r, nn) := x in
    let mk := mkRet in
    match fv with
    | FStr s =>
        if bytes_eqb fname nm_ID then Some (mk s (r_nodes r) (r_nodes6 r) (r_token r) (r_values r) (r_bfsd r) (r_bfpe r) (r_interval r) (r_num r) (r_samples r) (r_v r) (r_k r) (r_sig r) (r_seq r), nn)
        else if bytes_eqb fname nm_K then Some (mk (r_id r) (r_nodes r) (r_nodes6 r) (r_token r) (r_values r) (r_bfsd r) (r_bfpe r) (r_interval r) (r_num r) (r_samples r) (r_v r) s (r_sig r) (r_seq r), nn)
        else if bytes_eqb fname nm_Sig then Some (mk (r_id r) (r_nodes r) (r_nodes6 r) (r_token r) (r_values r) (r_bfsd r) (r_bfpe r) (r_interval r) (r_num r) (r_samples r) (r_v r) (r_k r) s (r_seq r), nn)
        else None
    | FInfos o =>
        if bytes_eqb fname nm_Nodes then Some (mk (r_id r) o (r_nodes6 r) (r_token r) (r_values r) (r_bfsd r) (r_bfpe r) (r_interval r) (r_num r) (r_samples r) (r_v r) (r_k r) (r_sig r) (r_seq r), nn)
        else if bytes_eqb fname nm_Nodes6 then Some (mk (r_id r) (r_nodes r) o (r_token r) (r_values r) (r_bfsd r) (r_bfpe r) (r_interval r) (r_num r) (r_samples r) (r_v r) (r_k r) (r_sig r) (r_seq r), nn)
        else None
    | FOStr o =>
        if bytes_eqb fname nm_Token then Some (mk (r_id r) (r_nodes r) (r_nodes6 r) o (r_values r) (r_bfsd r) (r_bfpe r) (r_interval r) (r_num r) (r_samples r) (r_v r) (r_k r) (r_sig r) (r_seq r), nn)
        else if bytes_eqb fname nm_BFsd then Some (mk (r_id r) (r_nodes r) (r_nodes6 r) (r_token r) (r_values r) o (r_bfpe r) (r_interval r) (r_num r) (r_samples r) (r_v r) (r_k r) (r_sig r) (r_seq r), nn)
        else if bytes_eqb fname nm_BFpe then Some (mk (r_id r) (r_nodes r) (r_nodes6 r) (r_token r) (r_values r) (r_bfsd r) o (r_interval r) (r_num r) (r_samples r) (r_v r) (r_k r) (r_sig r) (r_seq r), nn)
        else if bytes_eqb fname nm_V then Some (mk (r_id r) (r_nodes r) (r_nodes6 r) (r_token r) (r_values r) (r_bfsd r) (r_bfpe r) (r_interval r) (r_num r) (r_samples r) (match o with Some s => s | None => [] end) (r_k r) (r_sig r) (r_seq r), match o with Some _ => true | None => false end)
        else None
    | FAddrs o =>
        if bytes_eqb fname nm_Values then Some (mk (r_id r) (r_nodes r) (r_nodes6 r) (r_token r) o (r_bfsd r) (r_bfpe r) (r_interval r) (r_num r) (r_samples r) (r_v r) (r_k r) (r_sig r) (r_seq r), nn)
        else None
    | FOInt o =>
        if bytes_eqb fname nm_Interval then Some (mk (r_id r) (r_nodes r) (r_nodes6 r) (r_token r) (r_values r) (r_bfsd r) (r_bfpe r) o (r_num r) (r_samples r) (r_v r) (r_k r) (r_sig r) (r_seq r), nn)
        else if bytes_eqb fname nm_Num then Some (mk (r_id r) (r_nodes r) (r_nodes6 r) (r_token r) (r_values r) (r_bfsd r) (r_bfpe r) (r_interval r) o (r_samples r) (r_v r) (r_k r) (r_sig r) (r_seq r), nn)
        else if bytes_eqb fname nm_Seq then Some (mk (r_id r) (r_nodes r) (r_nodes6 r) (r_token r) (r_values r) (r_bfsd r) (r_bfpe r) (r_interval r) (r_num r) (r_samples r) (r_v r) (r_k r) (r_sig r) o, nn)
        else None
    | FStrs o =>
        if bytes_eqb fname nm_Samples then Some (mk (r_id r) (r_nodes r) (r_nodes6 r) (r_token r) (r_values r) (r_bfsd r) (r_bfpe r) (r_interval r) (r_num r) o (r_v r) (r_k r) (r_sig r) (r_seq r), nn)
        else None
    | _ => None
    end.

  Definition get_ret (fname : bytes) (x : xret) : option fval :=
    let '(r, nn) := x in
    if bytes_eqb fname nm_ID then Some (FStr (r_id r))
    else if bytes_eqb fname nm_Nodes then Some (FInfos (r_nodes r))
    else if bytes_eqb fname nm_Nodes6 then Some (FInfos (r_nodes6 r))
    else if bytes_eqb fname nm_Token then Some (FOStr (r_token r))
    else if bytes_eqb fname nm_Values then Some (FAddrs (r_values r))
    else if bytes_eqb fname nm_BFsd then Some (FOStr (r_bfsd r))
    else if bytes_eqb fname nm_BFpe then Some (FOStr (r_bfpe r))
    else if bytes_eqb fname nm_Interval then Some (FOInt (r_interval r))
    else if bytes_eqb fname nm_Num then Some (FOInt (r_num r))
    else if bytes_eqb fname nm_Samples then Some (FStrs (r_samples r))
    else if bytes_eqb fname nm_V then Some (FOStr (if nn then Some (r_v r) else None))
    else if bytes_eqb fname nm_K then Some (FStr (r_k r))
    else if bytes_eqb fname nm_Sig then Some (FStr (r_sig r))
    else if bytes_eqb fname nm_Seq then Some (FOInt (r_seq r))
    else None.

  Definition set_msg (fname : bytes) (fv : fval) (x : xmsg) : option xmsg :=
    let m := x_msg x in
    let mk := mkMsg in
    match fv with
    | FStr s =>
        if bytes_eqb fname nm_Q then Some (mkX (mk s (m_a m) (m_t m) (m_y m) (m_r m) (m_e m) (m_ip m) (m_ro m) (m_v m)) (x_ip_nn x) (x_salt_nn x) (x_rv_nn x))
        else if bytes_eqb fname nm_T then Some (mkX (mk (m_q m) (m_a m) s (m_y m) (m_r m) (m_e m) (m_ip m) (m_ro m) (m_v m)) (x_ip_nn x) (x_salt_nn x) (x_rv_nn x))
        else if bytes_eqb fname nm_Y then Some (mkX (mk (m_q m) (m_a m) (m_t m) s (m_r m) (m_e m) (m_ip m) (m_ro m) (m_v m)) (x_ip_nn x) (x_salt_nn x) (x_rv_nn x))
        else if bytes_eqb fname nm_ClientId then Some (mkX (mk (m_q m) (m_a m) (m_t m) (m_y m) (m_r m) (m_e m) (m_ip m) (m_ro m) s) (x_ip_nn x) (x_salt_nn x) (x_rv_nn x))
        else None
    | FArgs o =>
        if bytes_eqb fname nm_A then Some (mkX (mk (m_q m) (option_map fst o) (m_t m) (m_y m) (m_r m) (m_e m) (m_ip m) (m_ro m) (m_v m)) (x_ip_nn x) (match o with Some (_, nn) => nn | None => false end) (x_rv_nn x))
        else None
    | FRet o =>
        if bytes_eqb fname nm_R then Some (mkX (mk (m_q m) (m_a m) (m_t m) (m_y m) (option_map fst o) (m_e m) (m_ip m) (m_ro m) (m_v m)) (x_ip_nn x) (x_salt_nn x) (match o with Some (_, nn) => nn | None => false end))
        else None
    | FErr o =>
        if bytes_eqb fname nm_E then Some (mkX (mk (m_q m) (m_a m) (m_t m) (m_y m) (m_r m) o (m_ip m) (m_ro m) (m_v m)) (x_ip_nn x) (x_salt_nn x) (x_rv_nn x))
        else None
    | FAddr nn a =>
        if bytes_eqb fname nm_IP then Some (mkX (mk (m_q m) (m_a m) (m_t m) (m_y m) (m_r m) (m_e m) a (m_ro m) (m_v m)) nn (x_salt_nn x) (x_rv_nn x))
        else None
    | FBool b =>
        if bytes_eqb fname nm_ReadOnly then Some (mkX (mk (m_q m) (m_a m) (m_t m) (m_y m) (m_r m) (m_e m) (m_ip m) b (m_v m)) (x_ip_nn x) (x_salt_nn x) (x_rv_nn x))
        else None
    | _ => None
    end.

  Definition get_msg (fname : bytes) (x : xmsg) : option fval :=
    let m := x_msg x in
    if bytes_eqb fname nm_Q then Some (FStr (m_q m))
    else if bytes_eqb fname nm_A then Some (FArgs (option_map (fun a => (a, x_salt_nn x)) (m_a m)))
    else if bytes_eqb fname nm_T then Some (FStr (m_t m))
    else if bytes_eqb fname nm_Y then Some (FStr (m_y m))
    else if bytes_eqb fname nm_R then Some (FRet (option_map (fun r => (r, x_rv_nn x)) (m_r m)))
    else if bytes_eqb fname nm_E then Some (FErr (m_e m))
    else if bytes_eqb fname nm_IP then Some (FAddr (x_ip_nn x) (m_ip m))
    else if bytes_eqb fname nm_ReadOnly then Some (FBool (m_ro m))
    else if bytes_eqb fname nm_ClientId then Some (FStr (m_v m))
    else None.

  Definition empty_xargs : xargs := (empty_args, false).
  Definition empty_xret : xret := (empty_return, false).
  Definition empty_xmsg : xmsg := mkX empty_msg false false false.

  (* ---- kind-directed conversion of a parsed value (all kinds except pointer-to-struct) ---- *)
  Definition conv_kind (k : kind) (v : gval) : cresult fval :=
    match k with
    | KStr => obind (of_opt (conv_str v)) (fun s => COk (FStr s))
    | KPtrStr => obind (of_opt (conv_str v)) (fun s => COk (FOStr (Some s)))
    | KBytes => obind (of_opt (conv_bytes v)) (fun o => COk (FOStr o))
    | KInt => obind (of_opt (conv_int v)) (fun z => COk (FInt z))
    | KPtrInt => obind (of_opt (conv_int v)) (fun z => COk (FOInt (Some z)))
    | KBool => obind (of_opt (conv_bool v)) (fun b => COk (FBool b))
    | KId => obind (of_opt (conv_raw v)) (fun raw => obind (of_opt (id_unmarshal raw)) (fun s => COk (FStr s)))
    | KArr n => obind (of_opt (conv_arr n v)) (fun s => COk (FStr s))
    | KPtrArr n => obind (of_opt (conv_arr n v)) (fun s => COk (FOStr (Some s)))
    | KNodeAddr => obind (of_opt (conv_raw v)) (fun raw => obind (nodeaddr_unmarshal_benc raw) (fun a => COk (FAddr true a)))
    | KCompact c => obind (of_opt (conv_raw v)) (compact_conv c false)
    | KPtrCompact c => obind (of_opt (conv_raw v)) (compact_conv c true)
    | KAddrList =>
        match v with
        | VList l => obind (conv_addr_list l) (fun r => COk (FAddrs (Some r)))
        | VZero => COk (FAddrs None)
        | _ => CErr
        end
    | KWants =>
        match v with
        | VList l => obind (of_opt (conv_str_list l)) (fun r => COk (FStrs (Some r)))
        | VZero => COk (FStrs None)
        | _ => CErr
        end
    | KPtrErr => obind (of_opt (conv_raw v)) (fun raw => obind (of_opt (error_unmarshal raw)) (fun e => COk (FErr (Some e))))
    | KRaw => obind (of_opt (conv_raw v)) (fun raw => COk (FOStr (Some raw)))
    | KAny => match v with VAny bv => COk (FAny (Some bv)) | _ => CErr end
    | KPtrStruct _ => CErr
    | KUnknown _ => CErr
    end.

  (* assignments in order of appearance; the last one for a key wins *)
  Fixpoint conv_fields {R} (s : sid) (conv : kind -> gval -> cresult fval)
           (set : bytes -> fval -> R -> option R)
           (fs : list (bytes * gval)) (acc : R) : cresult R :=
    match fs with
    | [] => COk acc
    | (key, v) :: fs' =>
        match lookup_field s key with
        | None => CErr
        | Some fd =>
            obind (conv (f_kind fd) v) (fun fv =>
            obind (of_opt (set (f_name fd) fv acc)) (fun acc' =>
            conv_fields s conv set fs' acc'))
        end
    end.

  Definition conv_args (v : gval) : cresult xargs :=
    match v with VStruct fs => conv_fields SArgs conv_kind set_args fs empty_xargs | _ => CErr end.
  Definition conv_ret (v : gval) : cresult xret :=
    match v with VStruct fs => conv_fields SRet conv_kind set_ret fs empty_xret | _ => CErr end.

  (* the top-level struct: pointer-to-struct fields are converted into a fresh zero struct *)
  Definition conv_kind_msg (k : kind) (v : gval) : cresult fval :=
    match k with
    | KPtrStruct n =>
        match sid_of_name n with
        | Some SArgs => obind (conv_args v) (fun a => COk (FArgs (Some a)))
        | Some SRet => obind (conv_ret v) (fun r => COk (FRet (Some r)))
        | _ => CErr
        end
    | _ => conv_kind k v
    end.

  Definition conv_msg (v : gval) : cresult xmsg :=
    match v with VStruct fs => conv_fields SMsg conv_kind_msg set_msg fs empty_xmsg | _ => CErr end.

  (* ---- bencode.Unmarshal(b, &msg) ---- *)
  Inductive decode_result (A : Type) :=
  | DOk (m : A)                       (* err == nil *)
  | DOkTrailing (m : A) (n : nat)     (* ErrUnusedTrailingBytes{n}: the message is used *)
  | DReject                           (* any other error *)
  | DPanic.                           (* a panic of a dht-package decoder escapes *)
  Arguments DOk {A} m.
  Arguments DOkTrailing {A} m n.
  Arguments DReject {A}.
  Arguments DPanic {A}.

  Definition decode_xmsg (b : bytes) : decode_result xmsg :=
    match parse_ty (length b) (GStruct SMsg) false b with
    | Some (v, rest, _) =>
        match conv_msg v with
        | COk x => match rest with [] => DOk x | _ => DOkTrailing x (length rest) end
        | CErr => DReject
        | CPanic => DPanic
        end
    | None => DReject
    end.

  Definition decode_msg (b : bytes) : decode_result msg :=
    match decode_xmsg b with
    | DOk x => DOk (x_msg x)
    | DOkTrailing x n => DOkTrailing (x_msg x) n
    | DReject => DReject
    | DPanic => DPanic
    end.
End WithNodeInfoDecoder.

Arguments DOk {A} m.
Arguments DOkTrailing {A} m n.
Arguments DReject {A}.
Arguments DPanic {A}.

(* ================================================================================================
   Part 3 — bencode.Marshal(msg): struct keys in byte-wise sorted order, omitempty per schema
   ================================================================================================ *)
Definition field_le (f g : field) : bool :=
  match lex_cmp (f_key f) (f_key g) with Gt => false | _ => true end.

Fixpoint insert_field (f : field) (l : list field) : list field :=
  match l with
  | [] => [f]
  | g :: l' => if field_le f g then f :: l else g :: insert_field f l'
  end.

Definition sort_fields (l : list field) : list field := fold_right insert_field [] l.

Definition enc_fields_of (s : sid) : list field := sort_fields (schema_of s).

Definition benc_list (items : list bytes) : bytes := ch_l :: concat items ++ [ch_e].

(* Some None = omitted-when-omitempty ("empty"); the bytes are what is written when emitted *)
Definition compact_emit (c : bytes) (fv : fval) : cresult (bool * bytes) :=
  match fv with
  | FInfos o =>
      let l := match o with Some l => l | None => [] end in
      let empty := match o with None => true | _ => false end in
      if bytes_eqb c nm_CompactIPv4NodeInfo then obind (infos4_enc l) (fun b => COk (empty, benc_str b))
      else if bytes_eqb c nm_CompactIPv6NodeInfo then obind (infos6_enc l) (fun b => COk (empty, benc_str b))
      else CErr
  | FAddrs o =>
      let l := match o with Some l => l | None => [] end in
      let empty := match o with None => true | _ => false end in
      if bytes_eqb c nm_CompactIPv4NodeAddrs then obind (addrs4_enc l) (fun b => COk (empty, benc_str b))
      else if bytes_eqb c nm_CompactIPv6NodeAddrs then obind (addrs6_enc l) (fun b => COk (empty, benc_str b))
      else CErr
  | FStrs o =>
      let l := match o with Some l => l | None => [] end in
      let empty := match o with None => true | _ => false end in
      if bytes_eqb c nm_CompactInfohashes then obind (hashes_enc l) (fun b => COk (empty, benc_str b))
      else CErr
  | _ => CErr
  end.

Definition id_prefix : bytes := ["2"; "0"; ":"]%byte.

(* (is-empty, encoding) of a field value of a given kind; CErr when the value does not have the shape
   the kind demands (schema and record disagree) or the library returns an error *)
Definition emit_kind (k : kind) (fv : fval) : cresult (bool * bytes) :=
  match k, fv with
  | KStr, FStr s => COk (match s with [] => true | _ => false end, benc_str s)
  | KPtrStr, FOStr o => COk (match o with None => true | _ => false end, benc_str (match o with Some s => s | None => [] end))
  | KBytes, FOStr o => COk (match o with None => true | _ => false end, benc_str (match o with Some s => s | None => [] end))
  | KInt, FInt z => COk (Z.eqb z 0, benc_int z)
  | KPtrInt, FOInt o => COk (match o with None => true | _ => false end, benc_int (match o with Some z => z | None => 0%Z end))
  | KBool, FBool b => COk (negb b, benc_int (if b then 1%Z else 0%Z))
  | KId, FStr s => COk (all_zero s, id_prefix ++ s)             (* ID.MarshalBencode: "20:" + id *)
  | KArr _, FStr s => COk (all_zero s, benc_str s)
  | KPtrArr _, FOStr o => COk (match o with None => true | _ => false end, benc_str (match o with Some s => s | None => [] end))
  | KNodeAddr, FAddr nn a => COk (negb nn && Z.eqb (na_port a) 0, benc_str (nodeaddr_marshal a))
  | KCompact c, _ => compact_emit c fv
  | KPtrCompact c, _ => compact_emit c fv
  | KAddrList, FAddrs o =>
      COk (match o with None => true | _ => false end,
          benc_list (map (fun a => benc_str (nodeaddr_marshal a)) (match o with Some l => l | None => [] end)))
  | KWants, FStrs o =>
      COk (match o with None => true | _ => false end,
          benc_list (map benc_str (match o with Some l => l | None => [] end)))
  | KPtrErr, FErr o =>
      COk (match o with None => true | _ => false end,
          match o with Some e => benc (BList [BInt (e_code e); BStr (e_msg e)]) | None => [] end)
  | KRaw, FOStr o =>
      match o with
      | None => COk (true, [])
      | Some [] => CErr                     (* "marshalled Bytes should not be zero-length" *)
      | Some raw => COk (false, raw)
      end
  | KAny, FAny o => COk (match o with None => true | _ => false end, match o with Some v => benc v | None => [] end)
  | _, _ => CErr
  end.

(* one struct field: nothing when omitted, else key and value *)
Definition emit_field (fd : field) (ev : cresult (bool * bytes)) : cresult bytes :=
  obind ev (fun '(empty, b) =>
    if f_omit fd && empty then COk [] else COk (benc_str (f_key fd) ++ b)).

Fixpoint emit_struct {R} (get : bytes -> R -> option fval)
         (sub : kind -> fval -> cresult (bool * bytes)) (fds : list field) (x : R) : cresult bytes :=
  match fds with
  | [] => COk []
  | fd :: fds' =>
      match get (f_name fd) x with
      | None => CErr
      | Some fv =>
          obind (emit_field fd (sub (f_kind fd) fv)) (fun b =>
          obind (emit_struct get sub fds' x) (fun r => COk (b ++ r)))
      end
  end.

Definition benc_dict_body (body : bytes) : bytes := ch_d :: body ++ [ch_e].

Definition encode_args (x : xargs) : cresult bytes :=
  obind (emit_struct get_args emit_kind (enc_fields_of SArgs) x) (fun b => COk (benc_dict_body b)).
Definition encode_ret (x : xret) : cresult bytes :=
  obind (emit_struct get_ret emit_kind (enc_fields_of SRet) x) (fun b => COk (benc_dict_body b)).

Definition emit_kind_msg (k : kind) (fv : fval) : cresult (bool * bytes) :=
  match k, fv with
  | KPtrStruct n, FArgs o =>
      match sid_of_name n, o with
      | Some SArgs, None => COk (true, [])
      | Some SArgs, Some a => obind (encode_args a) (fun b => COk (false, b))
      | _, _ => CErr
      end
  | KPtrStruct n, FRet o =>
      match sid_of_name n, o with
      | Some SRet, None => COk (true, [])
      | Some SRet, Some r => obind (encode_ret r) (fun b => COk (false, b))
      | _, _ => CErr
      end
  | _, _ => emit_kind k fv
  end.

Definition encode_xmsg (x : xmsg) : cresult bytes :=
  obind (emit_struct get_msg emit_kind_msg (enc_fields_of SMsg) x) (fun b => COk (benc_dict_body b)).

(* the flags Msg.v does not carry, in the normal form "non-nil exactly when non-empty"
   (the ip of a message is taken nil exactly when the whole NodeAddr is the zero value) *)
Definition x_of_msg (m : msg) : xmsg :=
  mkX m
      (negb (match na_ip (m_ip m) with [] => true | _ => false end && Z.eqb (na_port (m_ip m)) 0))
      (match m_a m with Some a => match a_salt a with [] => false | _ => true end | None => false end)
      (match m_r m with Some r => match r_v r with [] => false | _ => true end | None => false end).

(* None: encode error or encoder panic *)
Definition encode_msg (m : msg) : option bytes :=
  match encode_xmsg (x_of_msg m) with COk b => Some b | _ => None end.

(* ---- the decoders instantiated ---- *)
Definition decode_xmsg_pinned := decode_xmsg nodeinfo_unmarshal_pinned.
Definition decode_msg_pinned := decode_msg nodeinfo_unmarshal_pinned.
Definition decode_xmsg_fixed := decode_xmsg nodeinfo_unmarshal.
Definition decode_msg_fixed := decode_msg nodeinfo_unmarshal.

(* the MarshalBencode / UnmarshalBencode methods of the krpc types, as exported *)
Definition id_marshal_benc (id : bytes) : bytes := id_prefix ++ id.
Definition nodeaddr_marshal_benc (a : node_addr) : bytes := benc_str (nodeaddr_marshal a).
Definition error_marshal_benc (e : krpc_error) : bytes := benc (BList [BInt (e_code e); BStr (e_msg e)]).
Definition compact_unmarshal_benc {A} (dec : bytes -> cresult (list A)) (raw : bytes) : cresult (list A) :=
  obind (benc_string_of_raw raw) dec.
Definition compact_marshal_benc (o : cresult bytes) : cresult bytes := obind o (fun b => COk (benc_str b)).

(* ================================================================================================
   Part 4 — well-formed messages: what `encode` followed by `decode` gives back unchanged.
   Driven by the schema like the codec itself: a struct is well-formed when every field listed in
   the schema has a well-formed value of the shape its kind demands.
   ================================================================================================ *)
Definition one_raw_valueb (raw : bytes) : bool :=
  match scan_value raw with
  | Some (r, []) => bytes_eqb r raw
  | _ => false
  end.

(* port in uint16, and the binary form within the decoder's string limit *)
Definition addr_okb (a : node_addr) : bool := port_okb (na_port a) && str_ok (nodeaddr_marshal a).

Definition blob_okb (n w : nat) : bool := N.leb (N.of_nat (n * w)) max_str_len.

Definition is_nil {A} (l : list A) : bool := match l with [] => true | _ => false end.

(* compact list fields of the kinds the schema uses: contacts in the family of their list, exact id
   width; a plain (non-pointer) compact list is nil or non-empty, because an empty string leaves nil *)
Definition compact_wfb (c : bytes) (ptr : bool) (fv : fval) : bool :=
  match fv with
  | FInfos o =>
      match o with
      | None => bytes_eqb c nm_CompactIPv4NodeInfo || bytes_eqb c nm_CompactIPv6NodeInfo
      | Some l =>
          (ptr || negb (is_nil l)) &&
          (if bytes_eqb c nm_CompactIPv4NodeInfo then forallb (wf_infob 4) l && blob_okb (length l) 26
           else if bytes_eqb c nm_CompactIPv6NodeInfo then forallb (wf_infob 16) l && blob_okb (length l) 38
           else false)
      end
  | FStrs o =>
      bytes_eqb c nm_CompactInfohashes &&
      match o with
      | None => true
      | Some l => (ptr || negb (is_nil l)) && forallb (fun h => Nat.eqb (length h) 20) l && blob_okb (length l) 20
      end
  | _ => false
  end.

Definition wf_fieldb (k : kind) (fv : fval) : bool :=
  match k, fv with
  | KStr, FStr s => str_ok s
  | KPtrStr, FOStr o => match o with Some s => str_ok s | None => true end
  | KBytes, FOStr o => match o with Some s => str_ok s | None => true end
  | KInt, FInt z => in_int64 z
  | KPtrInt, FOInt o => match o with Some z => in_int64 z | None => true end
  | KBool, FBool _ => true
  | KId, FStr s => Nat.eqb (length s) 20
  | KArr n, FStr s => Nat.eqb (length s) n && str_ok s
  | KPtrArr n, FOStr o => match o with Some s => Nat.eqb (length s) n && str_ok s | None => true end
  | KNodeAddr, FAddr nn a =>
      if nn then addr_okb a else is_nil (na_ip a) && Z.eqb (na_port a) 0
  | KCompact c, _ => compact_wfb c false fv
  | KPtrCompact c, _ => compact_wfb c true fv
  | KAddrList, FAddrs o => match o with Some l => forallb addr_okb l | None => true end
  | KWants, FStrs o => match o with Some l => forallb str_ok l | None => true end
  | KPtrErr, FErr o => match o with Some e => in_int64 (e_code e) && str_ok (e_msg e) | None => true end
  | KRaw, FOStr o => match o with Some raw => one_raw_valueb raw | None => true end
  | KAny, FAny o => match o with Some v => canonb v | None => true end
  | _, _ => false
  end.

Definition wf_structb {R} (s : sid) (get : bytes -> R -> option fval) (wfk : kind -> fval -> bool) (x : R) : bool :=
  forallb (fun fd => match get (f_name fd) x with Some fv => wfk (f_kind fd) fv | None => false end) (schema_of s).

(* the flag is the nil-ness of the slice: a nil slice has no bytes *)
Definition wf_xargsb (x : xargs) : bool :=
  wf_structb SArgs get_args wf_fieldb x && (snd x || is_nil (a_salt (fst x))).
Definition wf_xretb (x : xret) : bool :=
  wf_structb SRet get_ret wf_fieldb x && (snd x || is_nil (r_v (fst x))).

Definition wf_fieldb_msg (k : kind) (fv : fval) : bool :=
  match k, fv with
  | KPtrStruct n, FArgs o =>
      match sid_of_name n with
      | Some SArgs => match o with Some a => wf_xargsb a | None => true end
      | _ => false
      end
  | KPtrStruct n, FRet o =>
      match sid_of_name n with
      | Some SRet => match o with Some r => wf_xretb r | None => true end
      | _ => false
      end
  | _, _ => wf_fieldb k fv
  end.

Definition is_some {A} (o : option A) : bool := match o with Some _ => true | None => false end.

Definition wf_xmsgb (x : xmsg) : bool :=
  wf_structb SMsg get_msg wf_fieldb_msg x &&
  (negb (x_salt_nn x) || is_some (m_a (x_msg x))) &&
  (negb (x_rv_nn x) || is_some (m_r (x_msg x))).

Definition wf_xmsg (x : xmsg) : Prop := wf_xmsgb x = true.
(* on the records of Msg.v, with the nil-ness flags in their normal form *)
Definition wf_msg (m : msg) : Prop := wf_xmsgb (x_of_msg m) = true.
