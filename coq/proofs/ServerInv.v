(* ServerInv.v — the routing-table invariant [Inv] and the transaction invariant [TxInv] of
   ServerDefs.v are preserved by every step of the server model (Server.v); consequences:
   C05 (well-formed Kademlia table), C01 (no step panics, the node still answers a ping),
   C07 (a query completes only with the reply that matches it). *)
From Dht Require Import Base Int160 Msg Server ServerDefs Int160Proofs.
From DhtGen Require Import Params.
From Coq Require Import ZifyN ZifyNat ZifyBool.

Local Arguments N.pow : simpl never.
Local Arguments N.mul : simpl never.
Local Arguments N.add : simpl never.
Local Arguments N.div : simpl never.
Local Arguments N.modulo : simpl never.
Local Arguments Ok {A}.
Local Arguments Panic {A}.

(* ------------------------------------------------------------------ generic list lemmas *)
Section Lists.
  Context {A B : Type}.
  Implicit Types (p q : A -> bool) (l : list A) (f : A -> B).

  Lemma remove_first_In p l y : In y (remove_first p l) -> In y l.
  Proof.
    induction l as [|x l IH]; cbn [remove_first]; [tauto|].
    destruct (p x); cbn [In]; intuition.
  Qed.

  Lemma remove_first_map f p (r : B -> bool) l :
    (forall x, In x l -> r (f x) = p x) ->
    map f (remove_first p l) = remove_first r (map f l).
  Proof.
    induction l as [|x l IH]; cbn [remove_first map]; intros H; [reflexivity|].
    rewrite (H x (or_introl eq_refl)). destruct (p x); [reflexivity|].
    cbn [map]. f_equal. apply IH. intros y Hy. apply H. right. exact Hy.
  Qed.

  Lemma remove_first_In_map f p l y : In y (map f (remove_first p l)) -> In y (map f l).
  Proof.
    rewrite !in_map_iff. intros (x & Hx & Hin). exists x. split; [exact Hx|].
    eapply remove_first_In; exact Hin.
  Qed.

  Lemma remove_first_NoDup_map f p l : NoDup (map f l) -> NoDup (map f (remove_first p l)).
  Proof.
    induction l as [|x l IH]; cbn [remove_first map]; intros H; [exact H|].
    inversion H as [|? ? Hn Hd]; subst. destruct (p x); [exact Hd|].
    cbn [map]. constructor; [|apply IH; exact Hd].
    intros Hc. apply Hn. eapply remove_first_In_map; exact Hc.
  Qed.

  Lemma filter_remove_first_le p q l :
    (length (filter q (remove_first p l)) <= length (filter q l))%nat.
  Proof.
    induction l as [|x l IH]; cbn [remove_first filter]; [lia|].
    destruct (p x) eqn:Ep.
    - destruct (q x); cbn [length]; lia.
    - cbn [filter]. destruct (q x); cbn [length]; lia.
  Qed.

  Lemma filter_remove_first_S p q l :
    (forall x, In x l -> p x = true -> q x = true) -> existsb p l = true ->
    S (length (filter q (remove_first p l))) = length (filter q l).
  Proof.
    induction l as [|x l IH]; cbn [remove_first filter existsb]; intros Hpq He; [discriminate|].
    destruct (p x) eqn:Ep.
    - rewrite (Hpq x (or_introl eq_refl) Ep). reflexivity.
    - cbn [orb] in He. cbn [filter]. destruct (q x); cbn [length]; f_equal;
        rewrite <- IH; auto; intros y Hy; apply Hpq; right; exact Hy.
  Qed.

  Lemma existsb_false p l : existsb p l = false <-> forall x, In x l -> p x = false.
  Proof.
    split.
    - intros H x Hx. destruct (p x) eqn:E; [|reflexivity].
      rewrite <- H. symmetry. apply existsb_exists. exists x. split; assumption.
    - intros H. destruct (existsb p l) eqn:E; [|reflexivity].
      apply existsb_exists in E. destruct E as (x & Hx & Hp). rewrite (H x Hx) in Hp. discriminate.
  Qed.

  Lemma find_none_iff p l : find p l = None <-> forall x, In x l -> p x = false.
  Proof.
    split; [apply find_none|].
    induction l as [|x l IH]; cbn [find]; intros H; [reflexivity|].
    rewrite (H x (or_introl eq_refl)). apply IH. intros y Hy. apply H. right. exact Hy.
  Qed.

  Lemma find_some_existsb p l x : find p l = Some x -> existsb p l = true.
  Proof. intros H. apply find_some in H. apply existsb_exists. exists x. exact H. Qed.

  Lemma NoDup_snoc (l : list B) x : NoDup l -> ~ In x l -> NoDup (l ++ [x]).
  Proof.
    induction l as [|y l IH]; cbn [app]; intros Hd Hn.
    - constructor; [intros []|constructor].
    - inversion Hd as [|? ? Hy Hd']; subst. constructor.
      + rewrite in_app_iff. cbn [In]. intros [H|[H|[]]]; [tauto|]. subst. apply Hn. left. reflexivity.
      + apply IH; [exact Hd'|]. intros H. apply Hn. right. exact H.
  Qed.

  Lemma NoDup_map_app_one f l x :
    NoDup (map f l) -> ~ In (f x) (map f l) -> NoDup (map f (l ++ [x])).
  Proof.
    intros Hd Hn. rewrite map_app. cbn [map].
    apply NoDup_snoc; assumption.
  Qed.
End Lists.

(* ------------------------------------------------------------------ keys *)
Lemma key_eqb_eq x y : key_eqb x y = true <-> x = y.
Proof.
  destruct x as [a b], y as [c d]. unfold key_eqb. cbn [fst snd].
  rewrite andb_true_iff, bytes_eqb_eq, N.eqb_eq. split.
  - intros [-> ->]. reflexivity.
  - intros H. inversion H. split; reflexivity.
Qed.

Lemma key_eqb_refl x : key_eqb x x = true.
Proof. apply key_eqb_eq. reflexivity. Qed.

Definition is_completed (e : effect) : bool := match e with ECompleted _ _ => true | _ => false end.

Section ServerInv.
  Variable Store : Type.
  Variable w_put : Store -> witem -> Z -> Store * put_result.
  Variable w_get : Store -> bytes -> Z -> Store * get_result.
  Variable sha1 : bytes -> bytes.
  Variable id_secure : N -> bytes -> bool.
  Variable cfg : config.

  Notation sstate := (sstate Store).
  Notation step := (step Store w_put w_get sha1 id_secure cfg).
  Notation Inv := (Inv Store cfg).
  Notation TxInv := (TxInv Store).
  Notation reachable := (reachable Store w_put w_get sha1 id_secure cfg).
  Notation wf_cfg := (wf_cfg cfg).
  Notation root := (c_root cfg).
  Notation slot_of := (slot_of cfg).
  Notation s_nodes := (s_nodes Store).
  Notation s_index := (s_index Store).
  Notation s_pending := (s_pending Store).
  Notation s_next_t := (s_next_t Store).
  Notation s_now := (s_now Store).
  Notation s_peers := (s_peers Store).
  Notation s_store := (s_store Store).
  Notation s_blocklist := (s_blocklist Store).
  Notation s_closed := (s_closed Store).
  Notation s_budget := (s_budget Store).
  Notation drop_node := (drop_node Store cfg).
  Notation table_add := (table_add Store cfg).
  Notation add_node := (add_node Store id_secure cfg).
  Notation update_node := (update_node Store id_secure cfg).
  Notation node_bad := (node_bad id_secure cfg).
  Notation dispatch := (dispatch Store w_put w_get sha1 id_secure cfg).
  Notation handle_query := (handle_query Store w_put w_get sha1 id_secure cfg).
  Notation write_rated := (write_rated Store).

  (* ---------------------------------------------------------------- the invariant on lists *)
  Definition idx_of (n : node) : (bytes * N) * N := (addr_key (n_addr n), n_id n).

  Definition sel (k : bytes * N) (id : N) (m : node) : bool :=
    Nat.eqb (n_slot m) (slot_of id) && same_node k id m.

  Definition NInv (l : list node) (ix : list ((bytes * N) * N)) : Prop :=
    (forall n, In n l -> n_slot n = bucket_index root (n_id n) /\ (n_id n < 2 ^ 160)%N /\ (n_slot n < 160)%nat) /\
    (forall i, (length (bucket l i) <= K)%nat) /\
    NoDup (map node_key l) /\
    (forall n, In n l -> n_id n <> root /\ n_id n <> 0%N) /\
    ix = map idx_of l /\
    (forall n, In n l -> wf_addr (n_addr n)).

  Lemma Inv_NInv s : Inv s <-> NInv (s_nodes s) (s_index s).
  Proof.
    split.
    - intros [H1 H2 H3 H4 H5 H6]. exact (conj H1 (conj H2 (conj H3 (conj H4 (conj H5 H6))))).
    - intros (H1 & H2 & H3 & H4 & H5 & H6). constructor; assumption.
  Qed.

  Lemma Inv_ext s s' : s_nodes s' = s_nodes s -> s_index s' = s_index s -> Inv s -> Inv s'.
  Proof. intros Hn Hx H. apply Inv_NInv. rewrite Hn, Hx. apply Inv_NInv. exact H. Qed.

  (* every field but the table *)
  Definition frame (s s' : sstate) : Prop :=
    s_now s' = s_now s /\ s_pending s' = s_pending s /\ s_peers s' = s_peers s /\
    s_store s' = s_store s /\ s_blocklist s' = s_blocklist s /\ s_closed s' = s_closed s /\
    s_next_t s' = s_next_t s /\ s_budget s' = s_budget s.

  Lemma frame_refl s : frame s s.
  Proof. repeat split. Qed.

  Lemma frame_trans s1 s2 s3 : frame s1 s2 -> frame s2 s3 -> frame s1 s3.
  Proof.
    unfold frame. intros (A1 & A2 & A3 & A4 & A5 & A6 & A7 & A8) (B1 & B2 & B3 & B4 & B5 & B6 & B7 & B8).
    repeat split; congruence.
  Qed.

  (* the index entry of a node matches the index predicate exactly when the node matches [sel] *)
  Lemma sel_idx l k id m :
    (forall n, In n l -> n_slot n = bucket_index root (n_id n) /\ (n_id n < 2 ^ 160)%N /\ (n_slot n < 160)%nat) ->
    In m l ->
    key_eqb (fst (idx_of m)) k && N.eqb (snd (idx_of m)) id = sel k id m.
  Proof.
    intros H1 Hm. unfold sel, same_node, idx_of. cbn [fst snd].
    destruct (N.eqb_spec (n_id m) id) as [E|E].
    - destruct (H1 m Hm) as (Hs & _). rewrite Hs, E. unfold Server.slot_of. rewrite Nat.eqb_refl.
      cbn [andb]. apply andb_true_r.
    - cbn [andb]. rewrite !andb_false_r. reflexivity.
  Qed.

  Lemma NInv_remove_first l p :
    NInv l (map idx_of l) -> NInv (remove_first p l) (map idx_of (remove_first p l)).
  Proof.
    intros (H1 & H2 & H3 & H4 & _ & H6). unfold NInv. repeat apply conj.
    - intros n Hn. apply H1. eapply remove_first_In; exact Hn.
    - intros i. unfold bucket. etransitivity; [apply filter_remove_first_le|apply H2].
    - apply remove_first_NoDup_map. exact H3.
    - intros n Hn. apply H4. eapply remove_first_In; exact Hn.
    - reflexivity.
    - intros n Hn. apply H6. eapply remove_first_In; exact Hn.
  Qed.

  (* ---------------------------------------------------------------- replace_node *)
  Lemma replace_node_map {B} (h : node -> B) k id f l :
    (forall m, h (f m) = h m) -> map h (replace_node cfg k id f l) = map h l.
  Proof.
    intros Hh. induction l as [|x l IH]; cbn [replace_node map]; [reflexivity|].
    destruct (_ && _); cbn [map]; [rewrite Hh|rewrite IH]; reflexivity.
  Qed.

  Lemma replace_node_In k id f l n :
    In n (replace_node cfg k id f l) -> exists m, In m l /\ (n = m \/ n = f m).
  Proof.
    induction l as [|x l IH]; cbn [replace_node]; [intros []|].
    destruct (_ && _); cbn [In].
    - intros [H|H]; [exists x; auto|exists n; auto].
    - intros [H|H]; [exists n; auto|]. destruct (IH H) as (m & Hm & Hn). exists m. auto.
  Qed.

  Lemma replace_node_bucket k id f l i :
    (forall m, n_slot (f m) = n_slot m) ->
    length (bucket (replace_node cfg k id f l) i) = length (bucket l i).
  Proof.
    intros Hs. unfold bucket. induction l as [|x l IH]; cbn [replace_node filter]; [reflexivity|].
    destruct (_ && _); cbn [filter].
    - rewrite Hs. destruct (Nat.eqb (n_slot x) i); reflexivity.
    - destruct (Nat.eqb (n_slot x) i); cbn [length]; rewrite IH; reflexivity.
  Qed.

  Lemma NInv_replace l k id f :
    (forall m, n_id (f m) = n_id m) -> (forall m, n_addr (f m) = n_addr m) ->
    (forall m, n_slot (f m) = n_slot m) ->
    NInv l (map idx_of l) ->
    NInv (replace_node cfg k id f l) (map idx_of l).
  Proof.
    intros Fi Fa Fs (H1 & H2 & H3 & H4 & _ & H6). unfold NInv. repeat apply conj.
    - intros n Hn. apply replace_node_In in Hn. destruct Hn as (m & Hm & [->| ->]);
        [|rewrite Fi, Fs]; apply H1; exact Hm.
    - intros i. rewrite replace_node_bucket by exact Fs. apply H2.
    - rewrite replace_node_map; [exact H3|]. intros m. unfold node_key. rewrite Fi, Fa. reflexivity.
    - intros n Hn. apply replace_node_In in Hn. destruct Hn as (m & Hm & [->| ->]);
        [|rewrite Fi]; apply H4; exact Hm.
    - symmetry. apply replace_node_map. intros m. unfold idx_of. rewrite Fi, Fa. reflexivity.
    - intros n Hn. apply replace_node_In in Hn. destruct Hn as (m & Hm & [->| ->]);
        [|rewrite Fa]; apply H6; exact Hm.
  Qed.

  Lemma apply_update_id now u n : n_id (apply_update now u n) = n_id n.
  Proof. destruct u; reflexivity. Qed.
  Lemma apply_update_addr now u n : n_addr (apply_update now u n) = n_addr n.
  Proof. destruct u; reflexivity. Qed.
  Lemma apply_update_slot now u n : n_slot (apply_update now u n) = n_slot n.
  Proof. destruct u; reflexivity. Qed.

  (* ---------------------------------------------------------------- drop_node *)
  Lemma drop_node_inv s v s1 :
    Inv s -> drop_node s v = Ok s1 ->
    Inv s1 /\ frame s s1 /\
    s_nodes s1 = remove_first (sel (addr_key (n_addr v)) (n_id v)) (s_nodes s) /\
    existsb (sel (addr_key (n_addr v)) (n_id v)) (s_nodes s) = true.
  Proof.
    intros Hi. unfold Server.drop_node.
    destruct (negb (index_has _ _ _)); [discriminate|].
    destruct (N.eqb _ _); [discriminate|].
    destruct (negb _) eqn:He; [discriminate|].
    intros H. inversion H; subst; clear H. apply negb_false_iff in He.
    split; [|split; [repeat split|split; [reflexivity|exact He]]].
    apply Inv_NInv. apply Inv_NInv in Hi. cbn [Server.s_nodes Server.s_index].
    pose proof Hi as (H1 & _ & _ & _ & H5 & _). rewrite H5 in *.
    rewrite <- (remove_first_map idx_of (sel (addr_key (n_addr v)) (n_id v))).
    - apply NInv_remove_first. exact Hi.
    - intros x Hx. apply (sel_idx (s_nodes s)); assumption.
  Qed.

  Lemma drop_node_ok s v : Inv s -> In v (s_nodes s) -> drop_node s v <> Panic.
  Proof.
    intros Hi Hv. unfold Server.drop_node.
    destruct Hi as [H1 _ _ H4 H5 _].
    assert (Hsel : sel (addr_key (n_addr v)) (n_id v) v = true).
    { unfold sel, same_node. destruct (H1 v Hv) as (-> & _). unfold Server.slot_of.
      rewrite Nat.eqb_refl, N.eqb_refl, key_eqb_refl. reflexivity. }
    assert (Hix : index_has (s_index s) (addr_key (n_addr v)) (n_id v) = true).
    { unfold index_has. apply existsb_exists. exists (idx_of v). split.
      - rewrite H5. apply (in_map idx_of). exact Hv.
      - unfold idx_of. cbn [fst snd]. rewrite key_eqb_refl, N.eqb_refl. reflexivity. }
    rewrite Hix. cbn [negb].
    destruct (N.eqb_spec (n_id v) root) as [E|E]; [destruct (H4 v Hv) as (Hr & _); contradiction|].
    assert (He : existsb (sel (addr_key (n_addr v)) (n_id v)) (s_nodes s) = true).
    { apply existsb_exists. exists v. split; assumption. }
    unfold sel in He. rewrite He. cbn [negb]. discriminate.
  Qed.

  (* ---------------------------------------------------------------- table_add *)
  Lemma table_add_inv s n s2 :
    wf_cfg -> Inv s -> (n_id n < 2 ^ 160)%N -> n_id n <> 0%N -> wf_addr (n_addr n) ->
    table_add s n = Ok s2 -> Inv s2 /\ frame s s2.
  Proof.
    intros (Hroot & _) Hi Hid H0 Ha. unfold Server.table_add.
    destruct (N.eqb_spec (n_id n) root) as [E|E]; [discriminate|].
    destruct (existsb _ _) eqn:Hdup; [discriminate|].
    destruct (Nat.leb _ _) eqn:Hfull; [discriminate|].
    intros H. inversion H; subst; clear H. split; [|repeat split].
    apply Inv_NInv. apply Inv_NInv in Hi. cbn [Server.s_nodes Server.s_index].
    destruct Hi as (H1 & H2 & H3 & H4 & H5 & H6).
    set (n' := mkNode (n_id n) (n_addr n) (n_lq n) (n_lr n) (n_failed n) (slot_of (n_id n))).
    assert (Hn' : n_slot n' = bucket_index root (n_id n') /\ (n_id n' < 2 ^ 160)%N /\ (n_slot n' < 160)%nat).
    { cbn [n' n_slot n_id]. unfold Server.slot_of. split; [reflexivity|]. split; [exact Hid|].
      apply bucket_index_lt; [exact Hroot|exact Hid|]. intros Hc. apply E. symmetry. exact Hc. }
    unfold NInv. repeat apply conj.
    - intros m Hm. apply in_app_or in Hm. destruct Hm as [Hm|[<-|[]]]; [apply H1; exact Hm|exact Hn'].
    - intros i. unfold bucket. rewrite filter_app, app_length. cbn [filter n' n_slot].
      destruct (Nat.eqb_spec (slot_of (n_id n)) i) as [Ei|Ei]; cbn [length].
      + subst i. apply Nat.leb_gt in Hfull. unfold bucket in Hfull. lia.
      + specialize (H2 i). unfold bucket in H2. lia.
    - apply NoDup_map_app_one; [exact H3|].
      intros Hc. apply in_map_iff in Hc. destruct Hc as (m & Hk & Hm).
      unfold node_key in Hk. cbn [n' n_id n_addr] in Hk.
      pose proof (f_equal fst Hk) as Hk1. pose proof (f_equal snd Hk) as Hk2. cbn [fst snd] in Hk1, Hk2.
      apply (proj1 (existsb_false _ _)) with (x := m) in Hdup.
      + unfold same_node in Hdup. rewrite Hk1, Hk2, N.eqb_refl, key_eqb_refl in Hdup. discriminate.
      + unfold bucket. apply filter_In. split; [exact Hm|].
        destruct (H1 m Hm) as (-> & _). rewrite Hk1. unfold Server.slot_of. apply Nat.eqb_refl.
    - intros m Hm. apply in_app_or in Hm. destruct Hm as [Hm|[<-|[]]]; [apply H4; exact Hm|].
      cbn [n' n_id]. split; assumption.
    - rewrite H5, map_app. reflexivity.
    - intros m Hm. apply in_app_or in Hm. destruct Hm as [Hm|[<-|[]]]; [apply H6; exact Hm|exact Ha].
  Qed.

  Lemma table_add_ok s n :
    n_id n <> root ->
    existsb (same_node (addr_key (n_addr n)) (n_id n)) (bucket (s_nodes s) (slot_of (n_id n))) = false ->
    (length (bucket (s_nodes s) (slot_of (n_id n))) < K)%nat ->
    table_add s n <> Panic.
  Proof.
    intros Hr Hd Hl. unfold Server.table_add.
    destruct (N.eqb_spec (n_id n) root) as [E|E]; [contradiction|].
    rewrite Hd. apply Nat.leb_gt in Hl. rewrite Hl. discriminate.
  Qed.

  (* ---------------------------------------------------------------- add_node *)
  Lemma node_bad_false n :
    node_bad n = false -> n_id n <> root /\ n_id n <> 0%N.
  Proof.
    unfold Server.node_bad. intros H.
    apply orb_false_iff in H. destruct H as [H _].
    apply orb_false_iff in H. destruct H as [H _].
    apply orb_false_iff in H. destruct H as [Hr H0].
    apply N.eqb_neq in Hr. apply N.eqb_neq in H0. split; assumption.
  Qed.

  Ltac triv Hi := let H := fresh in intros H; inversion H; subst; split; [exact Hi|apply frame_refl].

  Lemma add_node_inv s n victim s' r :
    wf_cfg -> Inv s -> (n_id n < 2 ^ 160)%N -> wf_addr (n_addr n) ->
    add_node s n victim = Ok (s', r) -> Inv s' /\ frame s s'.
  Proof.
    intros Hc Hi Hid Ha. unfold Server.add_node.
    destruct (node_bad n) eqn:Hbad; [triv Hi|].
    destruct (node_bad_false n Hbad) as (Hr & H0).
    destruct (Nat.leb _ _) eqn:Hfull.
    - destruct (filter _ _) as [|c cs] eqn:Hcs; destruct victim as [[vk vid]|]; try (triv Hi).
      destruct (find (same_node vk vid) _) as [v|] eqn:Hf; [|triv Hi].
      destruct (drop_node s v) as [s1|] eqn:Hd; [|discriminate].
      destruct (table_add s1 n) as [s2|] eqn:Ht; [|discriminate].
      intros H; inversion H; subst; clear H.
      destruct (drop_node_inv _ _ _ Hi Hd) as (Hi1 & Hf1 & _).
      destruct (table_add_inv _ _ _ Hc Hi1 Hid H0 Ha Ht) as (Hi2 & Hf2).
      split; [exact Hi2|eapply frame_trans; eassumption].
    - destruct victim; [triv Hi|].
      destruct (table_add s n) as [s2|] eqn:Ht; [|discriminate].
      intros H; inversion H; subst; clear H.
      exact (table_add_inv _ _ _ Hc Hi Hid H0 Ha Ht).
  Qed.

  Lemma add_node_ok s n victim :
    wf_cfg -> Inv s ->
    find (sel (addr_key (n_addr n)) (n_id n)) (s_nodes s) = None ->
    add_node s n victim <> Panic.
  Proof.
    intros Hc Hi Hnone. unfold Server.add_node.
    destruct (node_bad n) eqn:Hbad; [discriminate|].
    destruct (node_bad_false n Hbad) as (Hr & H0).
    assert (Hnd : forall l, (forall x, In x l -> In x (s_nodes s)) ->
              existsb (same_node (addr_key (n_addr n)) (n_id n)) (bucket l (slot_of (n_id n))) = false).
    { intros l Hl. apply existsb_false. intros x Hx. unfold bucket in Hx. apply filter_In in Hx.
      destruct Hx as (Hx & Hs). pose proof (proj1 (find_none_iff _ _) Hnone x (Hl x Hx)) as Hq.
      unfold sel in Hq. rewrite Hs in Hq. exact Hq. }
    destruct (Nat.leb _ _) eqn:Hfull.
    - destruct (filter _ _) as [|c cs] eqn:Hcs; destruct victim as [[vk vid]|]; try discriminate.
      destruct (find (same_node vk vid) _) as [v|] eqn:Hf; [|discriminate].
      apply find_some in Hf. destruct Hf as (Hv & _). rewrite <- Hcs in Hv.
      apply filter_In in Hv. destruct Hv as (Hv & _). unfold bucket in Hv. apply filter_In in Hv.
      destruct Hv as (Hv & Hvs). apply Nat.eqb_eq in Hvs.
      destruct (drop_node s v) as [s1|] eqn:Hd; [|exfalso; exact (drop_node_ok s v Hi Hv Hd)].
      destruct (drop_node_inv _ _ _ Hi Hd) as (Hi1 & Hf1 & Hn1 & He1).
      destruct (table_add s1 n) as [s2|] eqn:Ht; [discriminate|]. exfalso. revert Ht.
      apply table_add_ok; [exact Hr| |].
      + apply Hnd. intros x Hx. rewrite Hn1 in Hx. eapply remove_first_In; exact Hx.
      + pose proof (inv_cap _ _ _ Hi (slot_of (n_id n))) as Hcap.
        apply Nat.leb_le in Hfull.
        assert (S (length (bucket (s_nodes s1) (slot_of (n_id n)))) = length (bucket (s_nodes s) (slot_of (n_id n)))).
        { rewrite Hn1. unfold bucket. apply filter_remove_first_S; [|exact He1].
          intros x _ Hx. unfold sel in Hx. apply andb_true_iff in Hx. destruct Hx as (Hx & _).
          apply Nat.eqb_eq in Hx. apply Nat.eqb_eq. rewrite Hx.
          destruct (inv_slot _ _ _ Hi v Hv) as (Hsv & _). unfold Server.slot_of. rewrite <- Hsv. exact Hvs. }
        lia.
    - destruct victim; [discriminate|].
      destruct (table_add s n) as [s2|] eqn:Ht; [discriminate|]. exfalso. revert Ht.
      apply table_add_ok; [exact Hr| |].
      + apply Hnd. auto.
      + apply Nat.leb_gt in Hfull. exact Hfull.
  Qed.

  (* ---------------------------------------------------------------- update_node *)
  Lemma update_node_inv s a id ta u victim s' r :
    wf_cfg -> Inv s -> wf_addr a -> (forall i, id = Some i -> (i < 2 ^ 160)%N) ->
    update_node s a id ta u victim = Ok (s', r) -> Inv s' /\ frame s s'.
  Proof.
    intros Hc Hi Ha Hid. unfold Server.update_node. destruct id as [i|]; [|triv Hi].
    destruct (get_node cfg (s_nodes s) a i) eqn:Hg.
    - destruct victim; [triv Hi|]. intros H; inversion H; subst; clear H.
      split; [|repeat split]. apply Inv_NInv. cbn [with_nodes Server.s_nodes Server.s_index].
      apply Inv_NInv in Hi. pose proof Hi as (_ & _ & _ & _ & H5 & _). rewrite H5 in *.
      apply NInv_replace; [apply apply_update_id|apply apply_update_addr|apply apply_update_slot|exact Hi].
    - destruct (negb ta || N.eqb i root); [triv Hi|].
      intros H. eapply add_node_inv in H; [exact H|exact Hc|exact Hi| |].
      + rewrite apply_update_id. cbn [n_id]. apply Hid. reflexivity.
      + rewrite apply_update_addr. cbn [n_addr]. exact Ha.
  Qed.

  Lemma update_node_ok s a id ta u victim :
    wf_cfg -> Inv s -> update_node s a id ta u victim <> Panic.
  Proof.
    intros Hc Hi. unfold Server.update_node. destruct id as [i|]; [|discriminate].
    destruct (get_node cfg (s_nodes s) a i) eqn:Hg; [destruct victim; discriminate|].
    destruct (negb ta || N.eqb i root) eqn:Hb; [discriminate|].
    apply add_node_ok; [exact Hc|exact Hi|].
    rewrite apply_update_id, apply_update_addr. cbn [n_id n_addr].
    unfold get_node in Hg. apply orb_false_iff in Hb. destruct Hb as (_ & Hb). rewrite Hb in Hg.
    exact Hg.
  Qed.

  (* ---------------------------------------------------------------- frames without hypotheses *)
  Lemma drop_node_frame s v s1 : drop_node s v = Ok s1 -> frame s s1.
  Proof.
    unfold Server.drop_node.
    destruct (negb (index_has _ _ _)); [discriminate|].
    destruct (N.eqb _ _); [discriminate|].
    destruct (negb _); [discriminate|].
    intros H; inversion H; subst. repeat split.
  Qed.

  Lemma table_add_frame s n s2 : table_add s n = Ok s2 -> frame s s2.
  Proof.
    unfold Server.table_add.
    destruct (N.eqb _ _); [discriminate|].
    destruct (existsb _ _); [discriminate|].
    destruct (Nat.leb _ _); [discriminate|].
    intros H; inversion H; subst. repeat split.
  Qed.

  Ltac destr :=
    repeat match goal with
    | |- context [match ?c with _ => _ end] => let E := fresh "E" in destruct c eqn:E
    end.

  Lemma add_node_frame s n victim s' r : add_node s n victim = Ok (s', r) -> frame s s'.
  Proof.
    unfold Server.add_node.
    destruct (node_bad n); [intros H; inversion H; apply frame_refl|].
    destruct (Nat.leb _ _).
    - destruct (filter _ _) as [|c cs]; destruct victim as [[vk vid]|];
        try (intros H; inversion H; apply frame_refl).
      destruct (find (same_node vk vid) _) as [v|]; [|intros H; inversion H; apply frame_refl].
      destruct (drop_node s v) as [s1|] eqn:Hd; [|discriminate].
      destruct (table_add s1 n) as [s2|] eqn:Ht; [|discriminate].
      intros H; inversion H; subst.
      eapply frame_trans; [eapply drop_node_frame|eapply table_add_frame]; eassumption.
    - destruct victim; [intros H; inversion H; apply frame_refl|].
      destruct (table_add s n) as [s2|] eqn:Ht; [|discriminate].
      intros H; inversion H; subst. eapply table_add_frame; eassumption.
  Qed.

  Lemma update_node_frame s a id ta u victim s' r :
    update_node s a id ta u victim = Ok (s', r) -> frame s s'.
  Proof.
    unfold Server.update_node. destruct id as [i|]; [|intros H; inversion H; apply frame_refl].
    destruct (get_node cfg (s_nodes s) a i).
    - destruct victim; intros H; inversion H; subst; repeat split.
    - destruct (negb ta || N.eqb i root); [intros H; inversion H; apply frame_refl|].
      apply add_node_frame.
  Qed.

  (* ---------------------------------------------------------------- dispatch *)
  (* what the handlers leave alone: the table, the transactions, time, blocklist, closed *)
  Definition tframe (s s' : sstate) : Prop :=
    s_nodes s' = s_nodes s /\ s_index s' = s_index s /\ s_pending s' = s_pending s /\
    s_next_t s' = s_next_t s /\ s_now s' = s_now s /\ s_blocklist s' = s_blocklist s /\
    s_closed s' = s_closed s.

  Lemma tframe_refl s : tframe s s.
  Proof. repeat split. Qed.

  Lemma tframe_trans s1 s2 s3 : tframe s1 s2 -> tframe s2 s3 -> tframe s1 s3.
  Proof.
    unfold tframe. intros (A1 & A2 & A3 & A4 & A5 & A6 & A7) (B1 & B2 & B3 & B4 & B5 & B6 & B7).
    repeat split; congruence.
  Qed.

  Lemma write_rated_spec s d m k :
    tframe s (fst (write_rated s d m k)) /\ filter is_completed (snd (write_rated s d m k)) = [].
  Proof.
    unfold Server.write_rated.
    destruct (s_closed s); [split; [apply tframe_refl|reflexivity]|].
    destruct (blocked _ _); [split; [apply tframe_refl|reflexivity]|].
    destruct (s_budget s) as [[|b]|]; cbn [fst snd]; split; try apply tframe_refl; try reflexivity.
    repeat split.
  Qed.

  Lemma wr_leaf s s1 d m k :
    tframe s s1 ->
    tframe s (fst (write_rated s1 d m k)) /\ filter is_completed (snd (write_rated s1 d m k)) = [].
  Proof.
    intros H. destruct (write_rated_spec s1 d m k) as (H1 & H2).
    split; [eapply tframe_trans; eassumption|exact H2].
  Qed.

  Lemma dispatch_tframe s src m ch s' out :
    dispatch s src m ch = HQ Store s' out -> tframe s s' /\ filter is_completed out = [].
  Proof.
    unfold Server.dispatch, lift, reply, send_error. cbv zeta.
    destr; intros H; try discriminate H; inversion H; subst; clear H;
      try (apply wr_leaf; repeat split);
      try (split; [apply tframe_refl|reflexivity]).
    all: match goal with
         | E : write_rated ?s1 ?d ?mm ?k = (_, _) |- _ =>
             let W := fresh in
             pose proof (wr_leaf s s1 d mm k) as W; rewrite E in W; cbn [fst snd] in W;
             destruct W as (W1 & W2); [repeat split|]; split; [exact W1|]
         end.
    all: cbn [filter is_completed]; exact W2.
  Qed.

  Lemma to16_wf b : wf_ip b -> to16 b <> None.
  Proof. unfold to16. intros [-> | ->]; discriminate. Qed.

  Lemma valid_token_not_none tok src now : wf_addr src -> valid_token sha1 cfg tok src now <> None.
  Proof.
    intros Hs. unfold valid_token. pose proof (to16_wf _ Hs). destruct (to16 (ip src)); [discriminate|contradiction].
  Qed.

  Lemma create_token_not_none src now : wf_addr src -> create_token sha1 cfg src now <> None.
  Proof.
    intros Hs. unfold create_token. pose proof (to16_wf _ Hs). destruct (to16 (ip src)); [discriminate|contradiction].
  Qed.

  Lemma dispatch_ok s src m ch :
    wf_addr src -> wf_store_get Store w_get -> dispatch s src m ch <> HQPanic Store.
  Proof.
    intros Hs Hg. unfold Server.dispatch, lift, reply, send_error. cbv zeta.
    destr; try discriminate; exfalso.
    all: try (eapply valid_token_not_none; eassumption).
    all: try (eapply create_token_not_none; eassumption).
    all: match goal with
         | E : w_get _ _ _ = (_, GetItem ?i), E' : it_bv ?i = None |- _ => exact (Hg _ _ _ _ _ E E')
         end.
  Qed.

  (* ---------------------------------------------------------------- handle_query *)
  Lemma sender_id_bound m :
    wf_msg_in m -> forall i, option_map id_of (sender_id m) = Some i -> (i < 2 ^ 160)%N.
  Proof.
    intros (Ha & Hr) i. unfold sender_id.
    destruct (bytes_eqb (m_y m) s_q).
    - destruct (m_a m) as [a|]; cbn [option_map]; [|discriminate].
      intros H; inversion H; subst. unfold id_of. apply toN_bound_20. apply (Ha a eq_refl).
    - destruct (bytes_eqb (m_y m) s_r); [|discriminate].
      destruct (m_r m) as [r|]; cbn [option_map]; [|discriminate].
      intros H; inversion H; subst. unfold id_of. apply toN_bound_20. apply (Hr r eq_refl).
  Qed.

  Lemma handle_query_frame s src m ch s' out :
    handle_query s src m ch = HQ Store s' out ->
    s_pending s' = s_pending s /\ s_next_t s' = s_next_t s /\ s_closed s' = s_closed s /\
    s_blocklist s' = s_blocklist s /\ s_now s' = s_now s /\ filter is_completed out = [].
  Proof.
    unfold Server.handle_query.
    destruct (update_node s src _ _ UQuery (ch_victim ch)) as [[s1 r]|] eqn:Hu; [|discriminate].
    apply update_node_frame in Hu. destruct Hu as (U1 & U2 & U3 & U4 & U5 & U6 & U7 & U8).
    assert (Hbase : s_pending s1 = s_pending s /\ s_next_t s1 = s_next_t s /\ s_closed s1 = s_closed s /\
                    s_blocklist s1 = s_blocklist s /\ s_now s1 = s_now s /\ filter is_completed (@nil effect) = [])
      by (repeat split; assumption).
    assert (Hd : dispatch s1 src m ch = HQ Store s' out ->
                 s_pending s' = s_pending s /\ s_next_t s' = s_next_t s /\ s_closed s' = s_closed s /\
                 s_blocklist s' = s_blocklist s /\ s_now s' = s_now s /\ filter is_completed out = []).
    { intros H. apply dispatch_tframe in H. destruct H as ((T1 & T2 & T3 & T4 & T5 & T6 & T7) & Ho).
      repeat split; congruence. }
    destruct r; try discriminate;
      (destruct (negb (c_hook cfg m)); [intros H; inversion H; subst; exact Hbase|]);
      (destruct (c_passive cfg); [intros H; inversion H; subst; exact Hbase|]); exact Hd.
  Qed.

  Lemma handle_query_inv s src m ch s' out :
    wf_cfg -> Inv s -> wf_addr src -> wf_msg_in m ->
    handle_query s src m ch = HQ Store s' out -> Inv s'.
  Proof.
    intros Hc Hi Hs Hm. unfold Server.handle_query.
    destruct (update_node s src _ _ UQuery (ch_victim ch)) as [[s1 r]|] eqn:Hu; [|discriminate].
    apply update_node_inv in Hu; [|exact Hc|exact Hi|exact Hs|apply sender_id_bound; exact Hm].
    destruct Hu as (Hi1 & _).
    assert (Hd : dispatch s1 src m ch = HQ Store s' out -> Inv s').
    { intros H. apply dispatch_tframe in H. destruct H as ((T1 & T2 & _) & _).
      apply (Inv_ext s1); assumption. }
    destruct r; try discriminate;
      (destruct (negb (c_hook cfg m)); [intros H; inversion H; subst; exact Hi1|]);
      (destruct (c_passive cfg); [intros H; inversion H; subst; exact Hi1|]); exact Hd.
  Qed.

  Lemma handle_query_ok s src m ch :
    wf_cfg -> wf_store_get Store w_get -> Inv s -> wf_addr src ->
    handle_query s src m ch <> HQPanic Store.
  Proof.
    intros Hc Hg Hi Hs. unfold Server.handle_query.
    destruct (update_node s src _ _ UQuery (ch_victim ch)) as [[s1 r]|] eqn:Hu;
      [|exfalso; exact (update_node_ok _ _ _ _ _ _ Hc Hi Hu)].
    destruct r; try discriminate;
      (destruct (negb (c_hook cfg m)); [discriminate|]);
      (destruct (c_passive cfg); [discriminate|]); apply dispatch_ok; assumption.
  Qed.

  (* ---------------------------------------------------------------- transactions *)
  Definition TInv (l : list txn) (nt : N) : Prop :=
    (forall x, In x l -> exists n, uvarint_decode (tx_t x) = Some n /\ (n < nt)%N) /\
    NoDup (map tx_t l).

  Lemma NoDup_map_compose {A B C} (g : A -> B) (h : B -> C) l :
    NoDup (map (fun x => h (g x)) l) -> NoDup (map g l).
  Proof.
    induction l as [|a l IH]; cbn [map]; intros H; [constructor|].
    inversion H as [|? ? Hn Hd]; subst. constructor; [|apply IH; exact Hd].
    intros Hc. apply Hn. apply in_map_iff in Hc. destruct Hc as (y & Hy & Hin).
    apply in_map_iff. exists y. split; [rewrite Hy; reflexivity|exact Hin].
  Qed.

  Lemma NoDup_map_filter {A B} (f : A -> B) p l : NoDup (map f l) -> NoDup (map f (filter p l)).
  Proof.
    induction l as [|a l IH]; cbn [map filter]; intros H; [constructor|].
    inversion H as [|? ? Hn Hd]; subst. destruct (p a); cbn [map]; [constructor|]; auto.
    intros Hc; apply Hn. apply in_map_iff in Hc. destruct Hc as (y & Hy & Hin).
    apply filter_In in Hin. apply in_map_iff. exists y. tauto.
  Qed.

  Lemma TxInv_TInv s : TxInv s <-> TInv (s_pending s) (s_next_t s).
  Proof.
    split.
    - intros [H1 H2 _]. split; assumption.
    - intros (H1 & H2). constructor; [exact H1|exact H2|].
      apply (NoDup_map_compose (fun x => (tx_key x, tx_t x)) snd). exact H2.
  Qed.

  Lemma txinv_ext s s' : s_pending s' = s_pending s -> s_next_t s' = s_next_t s -> TxInv s -> TxInv s'.
  Proof. intros Hp Hn H. apply TxInv_TInv. rewrite Hp, Hn. apply TxInv_TInv. exact H. Qed.

  Lemma TInv_remove_first p l nt : TInv l nt -> TInv (remove_first p l) nt.
  Proof.
    intros (H1 & H2). split.
    - intros x Hx. apply H1. eapply remove_first_In; exact Hx.
    - apply remove_first_NoDup_map. exact H2.
  Qed.

  Lemma TInv_filter p l nt : TInv l nt -> TInv (filter p l) nt.
  Proof.
    intros (H1 & H2). split.
    - intros x Hx. apply H1. apply filter_In in Hx. exact (proj1 Hx).
    - apply NoDup_map_filter. exact H2.
  Qed.

  Lemma TInv_mono l nt nt' : TInv l nt -> (nt <= nt')%N -> TInv l nt'.
  Proof.
    clear w_put w_get sha1 id_secure cfg.
    intros (H1 & H2) Hle. split; [|exact H2].
    intros x Hx. destruct (H1 x Hx) as (n & Hn & Hlt). exists n. split; [exact Hn|lia].
  Qed.

  Lemma TInv_add l nt k t q n :
    TInv l nt -> uvarint_decode t = Some n -> (nt <= n)%N -> TInv (l ++ [mkTxn k t q]) (N.succ n).
  Proof.
    clear w_put w_get sha1 id_secure cfg.
    intros (H1 & H2) Hd Hle. split.
    - intros x Hx. apply in_app_or in Hx. destruct Hx as [Hx|[<-|[]]].
      + destruct (H1 x Hx) as (n' & Hn' & Hlt). exists n'. split; [exact Hn'|lia].
      + exists n. cbn [tx_t]. split; [exact Hd|lia].
    - apply NoDup_map_app_one; [exact H2|]. cbn [tx_t]. intros Hc.
      apply in_map_iff in Hc. destruct Hc as (x & Hx & Hin).
      destruct (H1 x Hin) as (n' & Hn' & Hlt). rewrite Hx, Hd in Hn'. inversion Hn'. lia.
  Qed.

  Lemma txinv_init st now bl budget : TxInv (init_state Store st now bl budget).
  Proof. constructor; cbn; [intros x []|constructor|constructor]. Qed.

  Lemma txinv_step s e ch s' out : TxInv s -> step s e ch = SR Store s' out -> TxInv s'.
  Proof.
    intros Ht.
    assert (Hsame : forall o, SR Store s o = SR Store s' out -> TxInv s')
      by (intros o H; inversion H; subst; exact Ht).
    destruct e as [src size dec|d|i p id|qid dst q a rated t|qid|a id|bl|]; unfold Server.step.
    - (* EPacket *)
      destruct (N.eqb size _); [apply Hsame|].
      destruct (N.eqb (port src) 0); [apply Hsame|].
      destruct (s_closed s); [apply Hsame|].
      destruct (blocked _ _); [apply Hsame|].
      destruct dec as [m|]; [|apply Hsame].
      destruct (bytes_eqb (m_y m) s_q).
      + destruct (handle_query s src m ch) as [s1 o| |] eqn:Hq; try discriminate.
        intros H; inversion H; subst. apply handle_query_frame in Hq. destruct Hq as (P1 & P2 & _).
        apply (txinv_ext s); assumption.
      + destruct (find _ _) as [x|]; [|apply Hsame].
        destruct (update_node _ _ _ _ _ _) as [[s2 r]|] eqn:Hu; [|discriminate].
        apply update_node_frame in Hu. destruct Hu as (_ & U2 & _ & _ & _ & _ & U7 & _).
        assert (TxInv s2).
        { apply TxInv_TInv. rewrite U2, U7. cbn [with_pending Server.s_pending Server.s_next_t].
          apply TInv_remove_first. apply TxInv_TInv. exact Ht. }
        destruct r; try discriminate; intros H'; inversion H'; subst; assumption.
    - (* EAdvance *)
      intros H; inversion H; subst. apply (txinv_ext s); [reflexivity|reflexivity|exact Ht].
    - (* EAddNode *)
      destruct (update_node _ _ _ _ _ _) as [[s1 r]|] eqn:Hu; [|discriminate].
      apply update_node_frame in Hu. destruct Hu as (_ & U2 & _ & _ & _ & _ & U7 & _).
      destruct r; try discriminate; intros H'; inversion H'; subst; apply (txinv_ext s); assumption.
    - (* EQueryStart *)
      assert (Hbump : forall o, SR Store (with_pending Store s (s_pending s) (N.succ (s_next_t s))) o = SR Store s' out -> TxInv s').
      { intros o H; inversion H; subst. apply TxInv_TInv. cbn [with_pending Server.s_pending Server.s_next_t].
        apply TInv_mono with (nt := s_next_t s); [apply TxInv_TInv; exact Ht|lia]. }
      cbv zeta.
      destruct (s_closed s); [apply Hbump|].
      destruct (blocked _ _); [apply Hbump|].
      destruct (rated && _); [apply Hbump|].
      destruct (uvarint_decode t) as [n|] eqn:Hdec; [|discriminate].
      destruct (N.ltb n (s_next_t s)) eqn:Hlt; [discriminate|]. apply N.ltb_ge in Hlt.
      destruct (existsb _ _); [discriminate|].
      assert (Hadd : TInv (s_pending s ++ [mkTxn (addr_key dst) t qid]) (N.succ n))
        by (apply TInv_add with (nt := s_next_t s); [apply TxInv_TInv; exact Ht|exact Hdec|exact Hlt]).
      destruct rated.
      + cbn [with_pending Server.s_budget]. destruct (s_budget s) as [[|b]|]; [apply Hbump| |];
          intros H; inversion H; subst; apply TxInv_TInv; exact Hadd.
      + intros H; inversion H; subst; apply TxInv_TInv; exact Hadd.
    - (* EQueryEnd *)
      destruct (existsb _ _); [|apply Hsame].
      intros H; inversion H; subst. apply TxInv_TInv. cbn [with_pending Server.s_pending Server.s_next_t].
      apply TInv_filter. apply TxInv_TInv. exact Ht.
    - (* EFailedPing *)
      destruct (update_node _ _ _ _ _ _) as [[s1 r]|] eqn:Hu; [|discriminate].
      apply update_node_frame in Hu. destruct Hu as (_ & U2 & _ & _ & _ & _ & U7 & _).
      intros H'; inversion H'; subst; apply (txinv_ext s); assumption.
    - intros H; inversion H; subst. apply (txinv_ext s); [reflexivity|reflexivity|exact Ht].
    - intros H; inversion H; subst. apply (txinv_ext s); [reflexivity|reflexivity|exact Ht].
  Qed.

  Theorem txinv_reachable s : reachable s -> TxInv s.
  Proof.
    induction 1 as [st now bl budget|s e ch s' out _ IH _ Hs]; [apply txinv_init|].
    eapply txinv_step; eassumption.
  Qed.

  (* ---------------------------------------------------------------- Inv is inductive *)
  Lemma inv_init st now bl budget : Inv (init_state Store st now bl budget).
  Proof.
    constructor; cbn [init_state Server.s_nodes Server.s_index bucket filter map length].
    - intros n [].
    - intros i. apply Nat.le_0_l.
    - constructor.
    - intros n [].
    - reflexivity.
    - intros n [].
  Qed.

  Lemma inv_step s e ch s' out :
    wf_cfg -> Inv s -> wf_event e -> step s e ch = SR Store s' out -> Inv s'.
  Proof.
    intros Hc Hi Hwf.
    assert (Hsame : forall o, SR Store s o = SR Store s' out -> Inv s')
      by (intros o H; inversion H; subst; exact Hi).
    destruct e as [src size dec|d|i p id|qid dst q a rated t|qid|a id|bl|]; unfold Server.step.
    - (* EPacket *)
      destruct (N.eqb size _); [apply Hsame|].
      destruct (N.eqb (port src) 0); [apply Hsame|].
      destruct (s_closed s); [apply Hsame|].
      destruct (blocked _ _); [apply Hsame|].
      destruct dec as [m|]; [|apply Hsame]. cbn [wf_event] in Hwf. destruct Hwf as (Hsrc & Hm).
      destruct (bytes_eqb (m_y m) s_q).
      + destruct (handle_query s src m ch) as [s1 o| |] eqn:Hq; try discriminate.
        intros H; inversion H; subst. eapply handle_query_inv; eassumption.
      + destruct (find _ _) as [x|]; [|apply Hsame].
        destruct (update_node _ _ _ _ _ _) as [[s2 r]|] eqn:Hu; [|discriminate].
        apply update_node_inv in Hu;
          [|exact Hc|apply (Inv_ext s); [reflexivity|reflexivity|exact Hi]|exact Hsrc|apply sender_id_bound; exact Hm].
        destruct Hu as (Hi2 & _).
        destruct r; try discriminate; intros H'; inversion H'; subst; assumption.
    - intros H; inversion H; subst. apply (Inv_ext s); [reflexivity|reflexivity|exact Hi].
    - (* EAddNode *)
      cbn [wf_event] in Hwf. destruct Hwf as (Hip & Hid).
      destruct (update_node _ _ _ _ _ _) as [[s1 r]|] eqn:Hu; [|discriminate].
      apply update_node_inv in Hu; [|exact Hc|exact Hi|exact Hip|intros j Hj; inversion Hj; subst; exact Hid].
      destruct Hu as (Hi1 & _).
      destruct r; try discriminate; intros H'; inversion H'; subst; assumption.
    - (* EQueryStart *)
      cbv zeta.
      destr; intros H; try discriminate H; inversion H; subst; clear H;
        (apply (Inv_ext s); [reflexivity|reflexivity|exact Hi]).
    - destruct (existsb _ _); [|apply Hsame].
      intros H; inversion H; subst. apply (Inv_ext s); [reflexivity|reflexivity|exact Hi].
    - (* EFailedPing *)
      cbn [wf_event] in Hwf. destruct Hwf as (Hip & Hid).
      destruct (update_node _ _ _ _ _ _) as [[s1 r]|] eqn:Hu; [|discriminate].
      apply update_node_inv in Hu; [|exact Hc|exact Hi|exact Hip|intros j Hj; inversion Hj; subst; exact Hid].
      destruct Hu as (Hi1 & _).
      intros H'; inversion H'; subst; assumption.
    - intros H; inversion H; subst. apply (Inv_ext s); [reflexivity|reflexivity|exact Hi].
    - intros H; inversion H; subst. apply (Inv_ext s); [reflexivity|reflexivity|exact Hi].
  Qed.

  Theorem inv_reachable : wf_cfg -> forall s, reachable s -> Inv s.
  Proof.
    intros Hc s. induction 1 as [st now bl budget|s e ch s' out _ IH Hwf Hs]; [apply inv_init|].
    eapply inv_step; eassumption.
  Qed.
End ServerInv.
