(* ServerC11.v — C11: announced peers come back from get_peers, and only those, per BEP 5 / 32.
   Part 1: the in-memory peer store (add_peer: one entry per (infohash, raw ip bytes)).
   Part 2: BEP 32 filtering filter_peer, should_return_nodes and should_return_nodes6, the permutation acceptance.
   Part 3: the step: s_peers changes exactly by accepted announces ([announce_of]).
   Part 4: histories ([run]): the store is the fold of the accepted announces; roundtrip,
           only-announced, last announce wins.
   Generic in the Section parameters; no hypothesis on sha1 anywhere in this file. *)
From Dht Require Import Base Int160 Msg Server ServerDefs Int160Proofs ServerC10.
From DhtGen Require Import Params.
From Coq Require Import Permutation ZifyN ZifyNat ZifyBool.

Local Open Scope Z_scope.

Local Arguments s_now {Store}.
Local Arguments s_nodes {Store}.
Local Arguments s_index {Store}.
Local Arguments s_pending {Store}.
Local Arguments s_peers {Store}.
Local Arguments s_store {Store}.
Local Arguments s_blocklist {Store}.
Local Arguments s_closed {Store}.
Local Arguments s_next_t {Store}.
Local Arguments s_budget {Store}.

(* ================================================================ Part 1: the peer store *)

(* the store's notion of "same peer": same infohash and same raw IP bytes (port excluded; the
   4-byte and the v4-mapped form of one address are different keys) *)
Definition same_key (q p : peer) : Prop := p_ih q = p_ih p /\ p_ip q = p_ip p.

Lemma same_key_refl p : same_key p p.
Proof. split; reflexivity. Qed.

Lemma same_key_sym p q : same_key p q -> same_key q p.
Proof. intros [H1 H2]. split; congruence. Qed.

Lemma same_key_trans p q r : same_key p q -> same_key q r -> same_key p r.
Proof. intros [H1 H2] [H3 H4]. split; congruence. Qed.

Lemma key_eqb_spec q p :
  bytes_eqb (p_ih q) (p_ih p) && bytes_eqb (p_ip q) (p_ip p) = true <-> same_key q p.
Proof. unfold same_key. rewrite andb_true_iff, !bytes_eqb_eq. tauto. Qed.

Lemma in_add_peer ps p q : In q (add_peer ps p) <-> q = p \/ (In q ps /\ ~ same_key q p).
Proof.
  unfold add_peer. rewrite in_app_iff, filter_In. cbn [In]. rewrite negb_true_iff.
  rewrite <- key_eqb_spec. destruct (bytes_eqb (p_ih q) (p_ih p) && bytes_eqb (p_ip q) (p_ip p)).
  - split; [intros [[_ H]|[H|[]]]; [discriminate | left; congruence]
           | intros [H|[_ H]]; [right; left; congruence | exfalso; apply H; reflexivity]].
  - split; [intros [[H _]|[H|[]]]; [right; split; [exact H | discriminate] | left; congruence]
           | intros [H|[H _]]; [right; left; congruence | left; split; [exact H | reflexivity]]].
Qed.

(* AddPeer then GetPeers: the new entry is listed under its infohash; entries of every other
   (infohash, raw ip) pair are untouched; an older entry of the same pair is gone *)
Theorem add_peer_lookup ps p :
  In p (filter (fun q => bytes_eqb (p_ih q) (p_ih p)) (add_peer ps p)) /\
  (forall q, ~ same_key q p -> (In q (add_peer ps p) <-> In q ps)) /\
  (forall q, In q (add_peer ps p) -> same_key q p -> q = p).
Proof.
  split; [|split].
  - apply filter_In. split; [apply in_add_peer; left; reflexivity | apply bytes_eqb_eq; reflexivity].
  - intros q Hq. rewrite in_add_peer. split.
    + intros [->|[H _]]; [exfalso; apply Hq, same_key_refl | exact H].
    + intros H. right. split; assumption.
  - intros q Hq Hk. apply in_add_peer in Hq. destruct Hq as [H|[_ H]]; [exact H | contradiction].
Qed.

Lemma fold_add_in l ps q : In q (fold_left add_peer l ps) -> In q ps \/ In q l.
Proof.
  revert ps. induction l as [|x l IH]; intros ps H; cbn [fold_left] in H.
  - left. exact H.
  - apply IH in H. destruct H as [H|H]; [|right; right; exact H].
    apply in_add_peer in H. destruct H as [->|[H _]]; [right; left; reflexivity | left; exact H].
Qed.

(* entries whose key is not announced again are neither added nor removed *)
Lemma fold_add_key_stable l ps q :
  (forall x, In x l -> ~ same_key x q) -> (In q (fold_left add_peer l ps) <-> In q ps).
Proof.
  revert ps. induction l as [|x l IH]; intros ps Hl; cbn [fold_left]; [tauto|].
  rewrite IH by (intros y Hy; apply Hl; right; exact Hy).
  rewrite in_add_peer. split.
  - intros [->|[H _]]; [exfalso; apply (Hl x); [left; reflexivity | apply same_key_refl] | exact H].
  - intros H. right. split; [exact H|]. intros Hk. apply (Hl x); [left; reflexivity | apply same_key_sym, Hk].
Qed.

(* the last announce of a key is the one (and only one) in the store *)
Lemma fold_add_last l1 p l2 ps :
  (forall x, In x l2 -> ~ same_key x p) ->
  In p (fold_left add_peer (l1 ++ p :: l2) ps) /\
  (forall q, In q (fold_left add_peer (l1 ++ p :: l2) ps) -> same_key q p -> q = p).
Proof.
  intros Hl. rewrite fold_left_app. cbn [fold_left]. split.
  - apply fold_add_key_stable; [exact Hl|]. apply in_add_peer. left. reflexivity.
  - intros q Hq Hk. apply fold_add_key_stable in Hq.
    + apply in_add_peer in Hq. destruct Hq as [H|[_ H]]; [exact H | contradiction].
    + intros x Hx Hxq. apply (Hl x Hx). eapply same_key_trans; eassumption.
Qed.

(* ================================================================ Part 2: BEP 32 filtering *)

(* every returned entry has a 4-byte IP and the requester wanted IPv4, or a 16-byte IP and the
   requester wanted IPv6; no other width *)
Theorem C11_family r4 r6 p v :
  filter_peer r4 r6 p = Some v ->
  (length (na_ip v) = 4%nat /\ r4 = true) \/ (length (na_ip v) = 16%nat /\ r6 = true).
Proof.
  unfold filter_peer. destruct r4, r6; cbn [andb];
    repeat match goal with
           | |- context [Nat.eqb ?a ?b] => destruct (Nat.eqb a b) eqn:?
           | |- context [match to4 ?b with _ => _ end] => destruct (to4 b) eqn:?
           | |- context [match to16 ?b with _ => _ end] => destruct (to16 b) eqn:?
           end;
    intros H; try discriminate; injection H as <-; cbn [na_ip];
    repeat match goal with
           | E : Nat.eqb _ _ = true |- _ => apply Nat.eqb_eq in E
           | E : to4 _ = Some _ |- _ => apply to4_length in E
           | E : to16 _ = Some _ |- _ => apply to16_length in E
           end; tauto.
Qed.

(* the returned endpoint is the stored one: same port, same address (possibly converted between
   the 4-byte and the 16-byte form) *)
Lemma filter_peer_endpoint r4 r6 p v :
  filter_peer r4 r6 p = Some v ->
  na_port v = p_port p /\
  (na_ip v = p_ip p \/ to4 (p_ip p) = Some (na_ip v) \/ to16 (p_ip p) = Some (na_ip v)).
Proof.
  unfold filter_peer. destruct r4, r6; cbn [andb];
    repeat match goal with
           | |- context [Nat.eqb ?a ?b] => destruct (Nat.eqb a b) eqn:?
           | |- context [match to4 ?b with _ => _ end] => destruct (to4 b) eqn:?
           | |- context [match to16 ?b with _ => _ end] => destruct (to16 b) eqn:?
           end;
    intros H; try discriminate; injection H as <-; cbn [na_ip na_port]; auto.
Qed.

(* a stored peer of the requested family is returned as it is *)
Lemma filter_peer_same_family r4 r6 p :
  (r4 = true /\ length (p_ip p) = 4%nat) \/ (r6 = true /\ length (p_ip p) = 16%nat) ->
  filter_peer r4 r6 p = Some (mkNA (p_ip p) (p_port p)).
Proof.
  unfold filter_peer. intros [[-> H]|[-> H]]; rewrite H; cbn.
  - reflexivity.
  - rewrite andb_false_r. reflexivity.
Qed.

(* representable: an IPv4-wanting requester gets every peer with an IPv4 (or v4-mapped) address,
   an IPv6-wanting requester gets every peer *)
Lemma filter_peer_representable r4 r6 p :
  wf_ip (p_ip p) -> (r4 = true /\ to4 (p_ip p) <> None) \/ r6 = true ->
  exists v, filter_peer r4 r6 p = Some v.
Proof.
  unfold filter_peer, wf_ip. intros Hwf H.
  destruct (r4 && Nat.eqb (length (p_ip p)) 4); [eexists; reflexivity|].
  destruct (r6 && Nat.eqb (length (p_ip p)) 16); [eexists; reflexivity|].
  destruct H as [[-> H]| ->].
  - destruct (to4 (p_ip p)); [eexists; reflexivity | congruence].
  - destruct (if r4 then to4 (p_ip p) else None); [eexists; reflexivity|].
    destruct Hwf as [Hwf|Hwf]; [rewrite (to16_v4 _ Hwf) | rewrite (to16_16 _ Hwf)]; eexists; reflexivity.
Qed.

(* explicit want, else the address family of the query's source *)
Lemma wants_contain_In ws w : wants_contain ws w = true <-> In w ws.
Proof.
  unfold wants_contain. rewrite existsb_exists. split.
  - intros (x & Hx & E). apply bytes_eqb_eq in E. subst. exact Hx.
  - intros H. exists w. split; [exact H | apply bytes_eqb_eq; reflexivity].
Qed.

Theorem C11_wants4 ws src :
  should_return_nodes ws src = true <-> (ws = [] /\ to4 src <> None) \/ (ws <> [] /\ In s_n4 ws).
Proof.
  unfold should_return_nodes. destruct ws as [|w ws].
  - destruct (to4 src); split.
    + intros _. left. split; [reflexivity | discriminate].
    + intros _. reflexivity.
    + discriminate.
    + intros [[_ H]|[H _]]; congruence.
  - rewrite wants_contain_In. split.
    + intros H. right. split; [discriminate | exact H].
    + intros [[H _]|[_ H]]; [discriminate | exact H].
Qed.

Theorem C11_wants6 ws src :
  should_return_nodes6 ws src = true <-> (ws = [] /\ to4 src = None) \/ (ws <> [] /\ In s_n6 ws).
Proof.
  unfold should_return_nodes6. destruct ws as [|w ws].
  - destruct (to4 src); split.
    + discriminate.
    + intros [[_ H]|[H _]]; congruence.
    + intros _. left. split; reflexivity.
    + intros _. reflexivity.
  - rewrite wants_contain_In. split.
    + intros H. right. split; [discriminate | exact H].
    + intros [[H _]|[_ H]]; [discriminate | exact H].
Qed.

Lemma in_opt_list_map {A B} (f : A -> option B) l v :
  In v (opt_list (map f l)) <-> exists x, In x l /\ f x = Some v.
Proof.
  induction l as [|x l IH]; cbn [map opt_list].
  - split; [intros [] | intros (x & [] & _)].
  - destruct (f x) eqn:E; cbn [In]; rewrite IH; split.
    + intros [<-|(y & Hy & Ey)]; [exists x; split; [left; reflexivity | exact E] | exists y; split; [right; exact Hy | exact Ey]].
    + intros (y & [<-|Hy] & Ey); [left; congruence | right; exists y; split; assumption].
    + intros (y & Hy & Ey). exists y. split; [right; exact Hy | exact Ey].
    + intros (y & [<-|Hy] & Ey); [congruence | exists y; split; assumption].
Qed.

Lemma in_filter_peers src ws ps v :
  In v (filter_peers src ws ps) <->
  exists p, In p ps /\ filter_peer (should_return_nodes ws src) (should_return_nodes6 ws src) p = Some v.
Proof. unfold filter_peers. apply in_opt_list_map. Qed.

(* the acceptance function for `values` decides "is a permutation of" *)
Lemma na_eqb_eq a b : na_eqb a b = true <-> a = b.
Proof.
  unfold na_eqb. rewrite andb_true_iff, bytes_eqb_eq, Z.eqb_eq. destruct a, b; cbn. split.
  - intros [-> ->]. reflexivity.
  - intros [= -> ->]. split; reflexivity.
Qed.

Lemma remove_na_perm x l l' : remove_na x l = Some l' -> Permutation l (x :: l').
Proof.
  revert l'. induction l as [|y l IH]; intros l' H; cbn [remove_na] in H; [discriminate|].
  destruct (na_eqb x y) eqn:E.
  - apply na_eqb_eq in E. injection H as <-. subst. apply Permutation_refl.
  - destruct (remove_na x l) as [l0|]; [|discriminate]. injection H as <-.
    eapply perm_trans; [apply perm_skip, IH; reflexivity | apply perm_swap].
Qed.

Lemma remove_na_in x l : In x l -> exists l', remove_na x l = Some l'.
Proof.
  induction l as [|y l IH]; intros H; [destruct H|]. cbn [remove_na].
  destruct (na_eqb x y) eqn:E; [eexists; reflexivity|].
  destruct H as [->|H]; [rewrite (proj2 (na_eqb_eq x x) eq_refl) in E; discriminate|].
  destruct (IH H) as [l' ->]. eexists; reflexivity.
Qed.

Theorem is_perm_na_iff a b : is_perm_na a b = true <-> Permutation a b.
Proof.
  revert b. induction a as [|x a IH]; intros b; cbn [is_perm_na].
  - destruct b; split; intros H; try reflexivity; try discriminate.
    + apply Permutation_nil in H. discriminate.
  - split.
    + destruct (remove_na x b) as [b'|] eqn:E; [|discriminate]. intros H. apply IH in H.
      apply remove_na_perm in E. eapply perm_trans; [apply perm_skip; exact H | apply Permutation_sym; exact E].
    + intros H. destruct (remove_na_in x b) as [b' E].
      { eapply Permutation_in; [exact H | left; reflexivity]. }
      rewrite E. apply IH. apply remove_na_perm in E.
      eapply Permutation_cons_inv. eapply perm_trans; [exact H | exact E].
Qed.

Lemma wire_port_id p : 0 <= p < 65536 -> wire_port p = p.
Proof. intros H. unfold wire_port. apply Z.mod_small. exact H. Qed.

(* destruct every if / match scrutinee of hypothesis H, reducing after each step *)
Ltac break_all H :=
  repeat (match type of H with
          | context [if ?b then _ else _] => destruct b eqn:?
          | context [match ?x with _ => _ end] => destruct x eqn:?
          end; try discriminate H).

Section C11.
  Variable Store : Type.
  Variable w_put : Store -> witem -> Z -> Store * put_result.
  Variable w_get : Store -> bytes -> Z -> Store * get_result.
  Variable sha1 : bytes -> bytes.
  Variable id_secure : N -> bytes -> bool.
  Variable cfg : config.

  Notation sstate := (sstate Store).
  Notation step := (step Store w_put w_get sha1 id_secure cfg).
  Notation run := (run Store w_put w_get sha1 id_secure cfg).
  Notation dispatch := (dispatch Store w_put w_get sha1 id_secure cfg).
  Notation update_node := (update_node Store id_secure cfg).
  Notation create_token := (create_token sha1 cfg).
  Notation valid_token := (valid_token sha1 cfg).
  Notation passes := (passes Store cfg).
  Notation same_rest := (same_rest Store).
  Notation same_but_budget := (same_but_budget Store).
  Notation get_peers_of := (get_peers_of Store).

  (* ================================================================ Part 3: the step *)

  (* port selection: explicit port (0 when absent), overridden by the UDP source port when
     implied_port is set *)
  Definition chosen_port (src : addr) (a : msg_args) : Z :=
    if a_implied_port a then Z.of_N (port src)
    else match a_port a with Some p => p | None => 0 end.

  (* the peer an event stores: an announce_peer query that passes the filters, with the peer store
     configured and a token that validates for its source *)
  Definition announce_of (s : sstate) (e : event) : option peer :=
    match e with
    | EPacket src size (Some m) =>
        if passes s src size m && bytes_eqb (m_y m) s_q && bytes_eqb (m_q m) s_announce_peer
           && c_peer_store cfg
        then match m_a m with
             | Some a => match valid_token (a_token a) src (s_now s) with
                         | Some true => Some (mkPeer (a_info_hash a) (ip src) (chosen_port src a))
                         | _ => None
                         end
             | None => None
             end
        else None
    | _ => None
    end.

  Lemma announce_of_spec s e p :
    announce_of s e = Some p <->
    exists src size m a,
      e = EPacket src size (Some m) /\ passes s src size m = true /\ m_y m = s_q /\
      m_q m = s_announce_peer /\ c_peer_store cfg = true /\ m_a m = Some a /\
      valid_token (a_token a) src (s_now s) = Some true /\
      p = mkPeer (a_info_hash a) (ip src) (chosen_port src a).
  Proof.
    split.
    - destruct e as [src size [m|] | | | | | | | ]; cbn [announce_of]; try discriminate.
      destruct (passes s src size m) eqn:E1; [|discriminate].
      destruct (bytes_eqb (m_y m) s_q) eqn:E2; [|discriminate].
      destruct (bytes_eqb (m_q m) s_announce_peer) eqn:E3; [|discriminate].
      destruct (c_peer_store cfg) eqn:E4; [|discriminate]. cbn [andb].
      destruct (m_a m) as [a|] eqn:E5; [|discriminate].
      destruct (valid_token (a_token a) src (s_now s)) as [[|]|] eqn:E6; try discriminate.
      intros [= <-]. apply bytes_eqb_eq in E2, E3. exists src, size, m, a. repeat split; assumption.
    - intros (src & size & m & a & -> & E1 & E2 & E3 & E4 & E5 & E6 & ->). cbn [announce_of].
      rewrite E1, E2, E3, E4, E5, E6. reflexivity.
  Qed.

  Lemma dispatch_peers s src m ch s' out :
    dispatch s src m ch = HQ Store s' out ->
    s_peers s' =
      if bytes_eqb (m_q m) s_announce_peer && c_peer_store cfg then
        match m_a m with
        | Some a => match valid_token (a_token a) src (s_now s) with
                    | Some true => add_peer (s_peers s) (mkPeer (a_info_hash a) (ip src) (chosen_port src a))
                    | _ => s_peers s
                    end
        | None => s_peers s
        end
      else s_peers s.
  Proof.
    intros H. destruct (bytes_eqb (m_q m) s_announce_peer) eqn:E; cbn [andb].
    - apply bytes_eqb_eq in E. rewrite (dispatch_announce Store w_put w_get sha1 id_secure cfg s src m ch E) in H.
      destruct (m_a m) as [a|].
      2:{ apply lift_error in H. destruct H as [(_ & _ & _ & _ & Hp & _) _]. rewrite Hp. destruct (c_peer_store cfg); reflexivity. }
      destruct (valid_token (a_token a) src (s_now s)) as [[|]|]; try discriminate.
      2:{ injection H as <- _. destruct (c_peer_store cfg); reflexivity. }
      cbv zeta in H.
      match type of H with (let '(_, _) := ?r in _) = _ => destruct r as [s2 o] eqn:Hr end.
      unfold reply in Hr. apply write_rated_spec in Hr. destruct Hr as [(_ & _ & _ & _ & Hp & _) _].
      injection H as <- _. rewrite Hp. destruct (c_peer_store cfg); [|reflexivity].
      cbn [Server.s_peers with_peers]. unfold chosen_port.
      destruct (a_implied_port a); [reflexivity|]. destruct (a_port a); reflexivity.
    - unfold Server.dispatch in H. rewrite E in H. cbv beta iota in H.
      break_all H;
        first [ injection H as <- _; reflexivity
              | apply lift_reply in H; destruct H as [(_ & _ & _ & _ & Hp & _) _]; exact Hp
              | apply lift_error in H; destruct H as [(_ & _ & _ & _ & Hp & _) _]; exact Hp ].
  Qed.
  (* EVERY event: the peer store changes exactly when the event is an accepted announce, and then
     by AddPeer of (infohash, source ip, chosen port) *)
  Theorem step_peers s e ch s' out :
    step s e ch = SR Store s' out ->
    s_peers s' = match announce_of s e with
                 | Some p => add_peer (s_peers s) p
                 | None => s_peers s
                 end.
  Proof.
    intros H. destruct e as [src size [m|] | d | i p id | qid dst q a rated t | qid | a id | bl | ].
    - (* datagram that decodes *)
      cbn [announce_of]. destruct (bytes_eqb (m_y m) s_q) eqn:Hy.
      + destruct (step_query_inv Store w_put w_get sha1 id_secure cfg s src size m ch s' out Hy H) as (s1 & Hr & Hd).
        destruct Hr as (Hnow & _ & Hp & _).
        destruct (passes s src size m); cbn [andb].
        * apply dispatch_peers in Hd. rewrite Hd, Hnow, Hp.
          destruct (bytes_eqb (m_q m) s_announce_peer && c_peer_store cfg); [|reflexivity].
          destruct (m_a m) as [a|]; [|reflexivity].
          destruct (valid_token (a_token a) src (s_now s)) as [[|]|]; reflexivity.
        * destruct Hd as [-> _]. exact Hp.
      + rewrite andb_false_r. cbn [andb]. cbn [Server.step] in H. rewrite Hy in H.
        break_all H; injection H as <- _;
          first [ reflexivity
                | match goal with E : Server.update_node _ _ _ _ _ _ _ _ _ = Ok _ _ |- _ =>
                    apply update_node_rest in E; destruct E as (_ & _ & Hp & _); exact Hp end ].
    - cbn [announce_of]. cbn [Server.step] in H. break_all H; injection H as <- _; reflexivity.
    - cbn in H. injection H as <- _. reflexivity.
    - cbn [announce_of]. cbn [Server.step] in H. break_all H; injection H as <- _;
        first [ reflexivity
              | match goal with E : Server.update_node _ _ _ _ _ _ _ _ _ = Ok _ _ |- _ =>
                  apply update_node_rest in E; destruct E as (_ & _ & Hp & _); exact Hp end ].
    - cbn [announce_of]. cbn [Server.step] in H. break_all H; injection H as <- _; reflexivity.
    - cbn [announce_of]. cbn [Server.step] in H. break_all H; injection H as <- _; reflexivity.
    - cbn [announce_of]. cbn [Server.step] in H. break_all H; injection H as <- _;
        first [ reflexivity
              | match goal with E : Server.update_node _ _ _ _ _ _ _ _ _ = Ok _ _ |- _ =>
                  apply update_node_rest in E; destruct E as (_ & _ & Hp & _); exact Hp end ].
    - cbn in H. injection H as <- _. reflexivity.
    - cbn in H. injection H as <- _. reflexivity.
  Qed.

  (* the explicit form *)
  Theorem C11_store_changes_only_by_accepted_announce s e ch s' out :
    step s e ch = SR Store s' out ->
    s_peers s' = s_peers s \/
    exists src size m a,
      e = EPacket src size (Some m) /\ passes s src size m = true /\ m_y m = s_q /\
      m_q m = s_announce_peer /\ c_peer_store cfg = true /\ m_a m = Some a /\
      valid_token (a_token a) src (s_now s) = Some true /\
      s_peers s' = add_peer (s_peers s) (mkPeer (a_info_hash a) (ip src) (chosen_port src a)).
  Proof.
    intros H. rewrite (step_peers s e ch s' out H).
    destruct (announce_of s e) as [p|] eqn:E; [|left; reflexivity].
    right. apply announce_of_spec in E.
    destruct E as (src & size & m & a & E0 & E1 & E2 & E3 & E4 & E5 & E6 & ->).
    exists src, size, m, a. repeat split; assumption.
  Qed.
  (* ================================================================ Part 4: histories *)

  (* the accepted announces of a history, in order *)
  Fixpoint announced (s : sstate) (evs : list (event * choice)) : list peer :=
    match evs with
    | [] => []
    | (e, ch) :: r =>
        (match announce_of s e with Some p => [p] | None => [] end) ++
        match step s e ch with
        | SR _ s' _ => announced s' r
        | _ => []
        end
    end.

  Lemma run_app s evs1 evs2 s2 outs :
    run s (evs1 ++ evs2) = Some (s2, outs) <->
    exists s1 o1 o2, run s evs1 = Some (s1, o1) /\ run s1 evs2 = Some (s2, o2) /\ outs = o1 ++ o2.
  Proof.
    revert s outs. induction evs1 as [|[e ch] evs1 IH]; intros s outs; cbn [app ServerDefs.run].
    - split.
      + intros H. exists s, [], outs. repeat split. exact H.
      + intros (s1 & o1 & o2 & [= <- <-] & H & ->). exact H.
    - destruct (step s e ch) as [s' out| |].
      + split.
        * destruct (run s' (evs1 ++ evs2)) as [[s'' outs']|] eqn:E; [|discriminate].
          intros [= <- <-]. apply IH in E. destruct E as (s1 & o1 & o2 & E1 & E2 & ->).
          rewrite E1. exists s1, (out :: o1), o2. repeat split. exact E2.
        * intros (s1 & o1 & o2 & H1 & H2 & ->).
          destruct (run s' evs1) as [[s1' o1']|] eqn:E; [|discriminate]. injection H1 as <- <-.
          assert (Hr : run s' (evs1 ++ evs2) = Some (s2, o1' ++ o2)).
          { apply IH. exists s1', o1', o2. repeat split; assumption. }
          rewrite Hr. reflexivity.
      + split; [discriminate | intros (s1 & o1 & o2 & H & _); discriminate].
      + split; [discriminate | intros (s1 & o1 & o2 & H & _); discriminate].
  Qed.

  (* the peer store after any history is the fold of AddPeer over its accepted announces *)
  Theorem C11_store_is_fold_of_announces s evs s' outs :
    run s evs = Some (s', outs) ->
    s_peers s' = fold_left add_peer (announced s evs) (s_peers s).
  Proof.
    revert s outs. induction evs as [|[e ch] evs IH]; intros s outs H; cbn [ServerDefs.run announced] in *.
    - injection H as <- _. reflexivity.
    - destruct (step s e ch) as [s1 out| |] eqn:Hs; try discriminate.
      destruct (run s1 evs) as [[s2 outs']|] eqn:Hr; [|discriminate]. injection H as <- _.
      rewrite fold_left_app, (IH s1 outs' Hr), (step_peers s e ch s1 out Hs).
      destruct (announce_of s e); reflexivity.
  Qed.

  (* every element of [announced] is an accepted announce at its point of the history *)
  Theorem announced_spec s evs s' outs p :
    run s evs = Some (s', outs) -> In p (announced s evs) ->
    exists pre e ch post sp op,
      evs = pre ++ (e, ch) :: post /\ run s pre = Some (sp, op) /\ announce_of sp e = Some p.
  Proof.
    revert s outs. induction evs as [|[e ch] evs IH]; intros s outs H Hin; cbn [ServerDefs.run announced] in *.
    - destruct Hin.
    - destruct (step s e ch) as [s1 out| |] eqn:Hs; try discriminate.
      destruct (run s1 evs) as [[s2 outs']|] eqn:Hr; [|discriminate]. injection H as <- _.
      apply in_app_iff in Hin. destruct Hin as [Hin|Hin].
      + destruct (announce_of s e) as [q|] eqn:Ea; [|destruct Hin]. destruct Hin as [->|[]].
        exists [], e, ch, evs, s, []. repeat split. exact Ea.
      + destruct (IH s1 outs' Hr Hin) as (pre & e0 & ch0 & post & sp & op & -> & Hp & Ha).
        exists ((e, ch) :: pre), e0, ch0, post, sp, (out :: op). repeat split; [|exact Ha].
        cbn [ServerDefs.run]. rewrite Hs, Hp. reflexivity.
  Qed.

  (* "until a later announce from the same IP replaces it", both directions: after the last accepted
     announce of a key (infohash, raw ip) the store holds exactly that endpoint for the key *)
  Theorem C11_last_announce_wins s evs s' outs l1 p l2 :
    run s evs = Some (s', outs) ->
    announced s evs = l1 ++ p :: l2 -> (forall x, In x l2 -> ~ same_key x p) ->
    In p (s_peers s') /\ (forall q, In q (s_peers s') -> same_key q p -> q = p).
  Proof.
    intros H Ha Hl. rewrite (C11_store_is_fold_of_announces s evs s' outs H), Ha.
    apply fold_add_last. exact Hl.
  Qed.

  (* ---- get_peers replies ---- *)

  (* without a peer store no reply has values *)
  Lemma dispatch_get_peers_nostore s src m ch s' out :
    m_q m = s_get_peers -> c_peer_store cfg = false ->
    dispatch s src m ch = HQ Store s' out ->
    forall d rm k r, In (ESend d rm k) out -> m_r rm = Some r -> r_values r = None /\ r_token r = None.
  Proof.
    intros Hq Hps H d rm k r Hin Hr.
    rewrite (dispatch_get_peers Store w_put w_get sha1 id_secure cfg s src m ch Hq), Hps in H.
    destruct (m_a m) as [a|].
    2:{ apply lift_error in H. destruct (proj2 H d rm k Hin) as (_ & _ & ->). discriminate. }
    cbv zeta in H. destruct (ch_values ch); [|discriminate]. cbn [r_values empty_return] in H.
    destruct (set_return_nodes _ _ _ _ _ _ _ _ _) as [r'|] eqn:Hs; [|discriminate].
    apply set_return_nodes_keeps in Hs. destruct Hs as (Ht & Hv & _).
    apply lift_reply in H. destruct (proj2 H d rm k Hin) as (_ & _ & ->).
    cbn in Hr. injection Hr as <-. cbn [r_values r_token]. rewrite Ht, Hv. split; reflexivity.
  Qed.

  Definition expected_values (s : sstate) (src : addr) (a : msg_args) : list node_addr :=
    map (fun x => mkNA (na_ip x) (wire_port (na_port x)))
        (filter_peers (ip src) (want_list a) (get_peers_of s (a_info_hash a))).

  Definition values_of (r : krpc_return) : list node_addr :=
    match r_values r with Some l => l | None => [] end.

  (* a get_peers query that is answered: the `values` of the reply are a permutation of the BEP 32
     filtered store content for the infohash (ports as uint16), never an empty list, and the reply
     carries a token; with no store there are no values *)
  Lemma get_peers_reply s src size m a ch s' out d rm k :
    m_y m = s_q -> m_q m = s_get_peers -> m_a m = Some a ->
    step s (EPacket src size (Some m)) ch = SR Store s' out ->
    In (ESend d rm k) out ->
    d = src /\ k = SReply /\ exists r, m_r rm = Some r /\
      if c_peer_store cfg then
        r_values r = opt_nonempty (ch_values ch) /\ Permutation (ch_values ch) (expected_values s src a) /\
        exists tok, create_token src (s_now s) = Some tok /\ r_token r = Some tok
      else r_values r = None /\ r_token r = None.
  Proof.
    intros Hy Hq Ha H Hin. apply bytes_eqb_eq in Hy.
    destruct (step_query_inv Store w_put w_get sha1 id_secure cfg s src size m ch s' out Hy H) as (s1 & Hr & Hd).
    destruct Hr as (Hnow & _ & Hp & _).
    destruct (passes s src size m); [|destruct Hd as [_ ->]; destruct Hin].
    destruct (c_peer_store cfg) eqn:Hps.
    - destruct (dispatch_get_peers_spec Store w_put w_get sha1 id_secure cfg s1 src m a ch s' out Hq Ha Hps Hd)
        as (Hperm & _ & tok & Ht & Ho).
      destruct (Ho d rm k Hin) as (-> & -> & r & Hr & Hv & Htok). split; [reflexivity|]. split; [reflexivity|].
      exists r. split; [exact Hr|]. split; [exact Hv|]. split.
      + apply is_perm_na_iff in Hperm. unfold expected_values, Server.get_peers_of in *. rewrite <- Hp. exact Hperm.
      + exists tok. rewrite <- Hnow. split; assumption.
    - assert (Hrep : d = src /\ k = SReply /\ exists r, m_r rm = Some r).
      { rewrite (dispatch_get_peers Store w_put w_get sha1 id_secure cfg s1 src m ch Hq), Ha, Hps in Hd.
        cbv zeta in Hd. destruct (ch_values ch); [|discriminate]. cbn [r_values empty_return] in Hd.
        destruct (set_return_nodes _ _ _ _ _ _ _ _ _) as [r'|]; [|discriminate].
        apply lift_reply in Hd. destruct (proj2 Hd d rm k Hin) as (-> & -> & ->).
        split; [reflexivity|]. split; [reflexivity|]. eexists. reflexivity. }
      destruct Hrep as (-> & -> & r & Hr). split; [reflexivity|]. split; [reflexivity|].
      exists r. split; [exact Hr|].
      exact (dispatch_get_peers_nostore s1 src m ch s' out Hq Hps Hd src rm SReply r Hin Hr).
  Qed.

  Theorem C11_values_perm s src size m a ch s' out d rm k r :
    c_peer_store cfg = true -> m_y m = s_q -> m_q m = s_get_peers -> m_a m = Some a ->
    step s (EPacket src size (Some m)) ch = SR Store s' out ->
    In (ESend d rm k) out -> m_r rm = Some r ->
    Permutation (values_of r) (expected_values s src a) /\ r_values r <> Some [] /\
    r_values r = opt_nonempty (ch_values ch).
  Proof.
    intros Hps Hy Hq Ha H Hin Hr.
    destruct (get_peers_reply s src size m a ch s' out d rm k Hy Hq Ha H Hin) as (_ & _ & r' & Hr' & Hc).
    rewrite Hr in Hr'. injection Hr' as <-. rewrite Hps in Hc. destruct Hc as (Hv & Hperm & _).
    unfold values_of. rewrite Hv. destruct (ch_values ch); cbn [opt_nonempty].
    - repeat split; [exact Hperm | discriminate].
    - repeat split; [exact Hperm | discriminate].
  Qed.

  (* every get_peers reply of a node with a peer store carries a token (the one for the querying
     address and the current interval) *)
  Theorem C11_token s src size m a ch s' out d rm k :
    c_peer_store cfg = true -> m_y m = s_q -> m_q m = s_get_peers -> m_a m = Some a ->
    step s (EPacket src size (Some m)) ch = SR Store s' out ->
    In (ESend d rm k) out ->
    exists r tok, m_r rm = Some r /\ r_token r = Some tok /\ create_token src (s_now s) = Some tok.
  Proof.
    intros Hps Hy Hq Ha H Hin.
    destruct (get_peers_reply s src size m a ch s' out d rm k Hy Hq Ha H Hin) as (_ & _ & r & Hr & Hc).
    rewrite Hps in Hc. destruct Hc as (_ & _ & tok & Ht & Hrt). exists r, tok. repeat split; assumption.
  Qed.

  (* each returned value is a stored peer for that infohash, BEP 32-converted *)
  Lemma values_from_store s src size m a ch s' out d rm k r vs v :
    m_y m = s_q -> m_q m = s_get_peers -> m_a m = Some a ->
    step s (EPacket src size (Some m)) ch = SR Store s' out ->
    In (ESend d rm k) out -> m_r rm = Some r -> r_values r = Some vs -> In v vs ->
    c_peer_store cfg = true /\
    exists p v0, In p (s_peers s) /\ p_ih p = a_info_hash a /\
      filter_peer (should_return_nodes (want_list a) (ip src)) (should_return_nodes6 (want_list a) (ip src)) p = Some v0 /\
      v = mkNA (na_ip v0) (wire_port (na_port v0)).
  Proof.
    intros Hy Hq Ha H Hin Hr Hvs Hv.
    destruct (get_peers_reply s src size m a ch s' out d rm k Hy Hq Ha H Hin) as (_ & _ & r' & Hr' & Hc).
    rewrite Hr in Hr'. injection Hr' as <-.
    destruct (c_peer_store cfg); [|destruct Hc as [Hc _]; congruence]. split; [reflexivity|].
    destruct Hc as (Hv' & Hperm & _).
    assert (Hin' : In v (ch_values ch)).
    { rewrite Hvs in Hv'. destruct (ch_values ch); [discriminate|]. injection Hv' as <-. exact Hv. }
    apply (Permutation_in _ Hperm) in Hin'. unfold expected_values in Hin'.
    apply in_map_iff in Hin'. destruct Hin' as (v0 & <- & Hin').
    apply in_filter_peers in Hin'. destruct Hin' as (p & Hp & Hf).
    unfold Server.get_peers_of in Hp. apply filter_In in Hp. destruct Hp as [Hp Hih].
    apply bytes_eqb_eq in Hih. exists p, v0. repeat split; assumption.
  Qed.

  (* BEP 32 on the wire: 4-byte (6 with the port) entries only to requesters wanting IPv4, 16-byte
     (18) entries only to requesters wanting IPv6 *)
  Theorem C11_family_reply s src size m a ch s' out d rm k r vs v :
    m_y m = s_q -> m_q m = s_get_peers -> m_a m = Some a ->
    step s (EPacket src size (Some m)) ch = SR Store s' out ->
    In (ESend d rm k) out -> m_r rm = Some r -> r_values r = Some vs -> In v vs ->
    (length (na_ip v) = 4%nat /\ should_return_nodes (want_list a) (ip src) = true) \/
    (length (na_ip v) = 16%nat /\ should_return_nodes6 (want_list a) (ip src) = true).
  Proof.
    intros Hy Hq Ha H Hin Hr Hvs Hv.
    destruct (values_from_store s src size m a ch s' out d rm k r vs v Hy Hq Ha H Hin Hr Hvs Hv)
      as (_ & p & v0 & _ & _ & Hf & ->).
    cbn [na_ip]. exact (C11_family _ _ p v0 Hf).
  Qed.

  (* history form: never an endpoint that was not announced for that infohash.  [s0] is any state;
     from an initial state (empty store) the first alternative is impossible. *)
  Theorem C11_only_announced s0 evs s outs src size m a ch s' out d rm k r vs v :
    run s0 evs = Some (s, outs) ->
    m_y m = s_q -> m_q m = s_get_peers -> m_a m = Some a ->
    step s (EPacket src size (Some m)) ch = SR Store s' out ->
    In (ESend d rm k) out -> m_r rm = Some r -> r_values r = Some vs -> In v vs ->
    exists p v0, (In p (s_peers s0) \/ In p (announced s0 evs)) /\ p_ih p = a_info_hash a /\
      filter_peer (should_return_nodes (want_list a) (ip src)) (should_return_nodes6 (want_list a) (ip src)) p = Some v0 /\
      v = mkNA (na_ip v0) (wire_port (na_port v0)) /\
      na_port v0 = p_port p /\
      (na_ip v0 = p_ip p \/ to4 (p_ip p) = Some (na_ip v0) \/ to16 (p_ip p) = Some (na_ip v0)).
  Proof.
    intros Hrun Hy Hq Ha H Hin Hr Hvs Hv.
    destruct (values_from_store s src size m a ch s' out d rm k r vs v Hy Hq Ha H Hin Hr Hvs Hv)
      as (_ & p & v0 & Hp & Hih & Hf & ->).
    rewrite (C11_store_is_fold_of_announces s0 evs s outs Hrun) in Hp. apply fold_add_in in Hp.
    destruct (filter_peer_endpoint _ _ p v0 Hf) as [Hport Hip].
    exists p, v0. repeat split; assumption.
  Qed.

  Corollary C11_only_announced_from_init st now bl budget evs s outs src size m a ch s' out d rm k r vs v :
    run (init_state Store st now bl budget) evs = Some (s, outs) ->
    m_y m = s_q -> m_q m = s_get_peers -> m_a m = Some a ->
    step s (EPacket src size (Some m)) ch = SR Store s' out ->
    In (ESend d rm k) out -> m_r rm = Some r -> r_values r = Some vs -> In v vs ->
    exists p v0 pre e che post sp op,
      evs = pre ++ (e, che) :: post /\ run (init_state Store st now bl budget) pre = Some (sp, op) /\
      announce_of sp e = Some p /\ p_ih p = a_info_hash a /\
      filter_peer (should_return_nodes (want_list a) (ip src)) (should_return_nodes6 (want_list a) (ip src)) p = Some v0 /\
      v = mkNA (na_ip v0) (wire_port (na_port v0)).
  Proof.
    intros Hrun Hy Hq Ha H Hin Hr Hvs Hv.
    destruct (C11_only_announced _ evs s outs src size m a ch s' out d rm k r vs v Hrun Hy Hq Ha H Hin Hr Hvs Hv)
      as (p & v0 & [[]|Hp] & Hih & Hf & -> & _).
    destruct (announced_spec _ evs s outs p Hrun Hp) as (pre & e & che & post & sp & op & E1 & E2 & E3).
    exists p, v0, pre, e, che, post, sp, op. repeat split; assumption.
  Qed.

  (* history form: after an accepted announce [p] = (H, A's raw ip, chosen port), for every
     continuation without another accepted announce of the same (H, raw ip), every answered
     get_peers for H from a requester for which p is representable (filter_peer gives Some v) has
     the endpoint among its values, and carries a token *)
  Theorem C11_roundtrip s0 ea cha s1 outa p mid s2 outs src size m a chg s3 outg v d rm k :
    step s0 ea cha = SR Store s1 outa -> announce_of s0 ea = Some p ->
    run s1 mid = Some (s2, outs) ->
    (forall q, In q (announced s1 mid) -> ~ same_key q p) ->
    m_y m = s_q -> m_q m = s_get_peers -> m_a m = Some a -> a_info_hash a = p_ih p ->
    step s2 (EPacket src size (Some m)) chg = SR Store s3 outg ->
    filter_peer (should_return_nodes (want_list a) (ip src)) (should_return_nodes6 (want_list a) (ip src)) p = Some v ->
    In (ESend d rm k) outg ->
    exists r vs tok, m_r rm = Some r /\ r_values r = Some vs /\
      In (mkNA (na_ip v) (wire_port (na_port v))) vs /\ r_token r = Some tok.
  Proof.
    intros Hsa Hann Hrun Hno Hy Hq Ha Hih Hsg Hf Hin.
    assert (Hps : c_peer_store cfg = true).
    { apply announce_of_spec in Hann. destruct Hann as (? & ? & ? & ? & _ & _ & _ & _ & E & _). exact E. }
    assert (Hp1 : In p (s_peers s1)).
    { rewrite (step_peers s0 ea cha s1 outa Hsa), Hann. apply in_add_peer. left. reflexivity. }
    assert (Hp2 : In p (s_peers s2)).
    { rewrite (C11_store_is_fold_of_announces s1 mid s2 outs Hrun). apply fold_add_key_stable; assumption. }
    destruct (get_peers_reply s2 src size m a chg s3 outg d rm k Hy Hq Ha Hsg Hin) as (_ & _ & r & Hr & Hc).
    rewrite Hps in Hc. destruct Hc as (Hv & Hperm & tok & _ & Htok).
    assert (Hexp : In (mkNA (na_ip v) (wire_port (na_port v))) (expected_values s2 src a)).
    { unfold expected_values. apply in_map_iff. exists v. split; [reflexivity|].
      apply in_filter_peers. exists p. split; [|exact Hf].
      unfold Server.get_peers_of. apply filter_In. split; [exact Hp2|]. apply bytes_eqb_eq. congruence. }
    apply (Permutation_in _ (Permutation_sym Hperm)) in Hexp.
    exists r, (ch_values chg), tok. repeat split; try assumption.
    rewrite Hv. destruct (ch_values chg); [destruct Hexp | reflexivity].
  Qed.
End C11.

(* helper for the concrete examples in Props/C11.v: the `values` and token presence of the replies
   among the outputs of one step *)
Definition reply_values (out : list effect) : list (option (list node_addr) * bool) :=
  flat_map (fun e => match e with
                     | ESend _ rm SReply =>
                         match m_r rm with
                         | Some r => [(r_values r, match r_token r with Some _ => true | None => false end)]
                         | None => []
                         end
                     | _ => []
                     end) out.
