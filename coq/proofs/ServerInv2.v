(* ServerInv2.v — consequences of the invariants of ServerInv.v:
   C05 (projections for reachable states), C01 (no step panics; a ping is still answered),
   C07 (transaction ids: varint round trip, unique ids, a query completes only with the
   matching reply, replays are inert). *)
From Dht Require Import Base Int160 Msg Server ServerDefs Int160Proofs ServerInv.
From DhtGen Require Import Params.
From Coq Require Import ZifyN ZifyNat ZifyBool.

Local Arguments N.pow : simpl never.
Local Arguments N.mul : simpl never.
Local Arguments N.add : simpl never.
Local Arguments N.sub : simpl never.
Local Arguments N.div : simpl never.
Local Arguments N.modulo : simpl never.
Local Arguments N.ltb : simpl never.
Local Arguments N.eqb : simpl never.
Local Arguments Ok {A}.
Local Arguments Panic {A}.

(* ------------------------------------------------------------------ uvarint *)
Lemma uvarint_fuel_decode f : forall n,
  (n < 128 ^ N.of_nat (S f))%N -> uvarint_decode (uvarint_fuel (S f) n) = Some n.
Proof.
  induction f as [|f IH]; intros n Hn.
  - cbn [uvarint_fuel]. change (128 ^ N.of_nat 1)%N with 128%N in Hn.
    destruct (N.ltb_spec n 128) as [_|Hge]; [|lia].
    cbn [uvarint_decode]. rewrite to_N_byte_of_N, N.mod_small by lia.
    destruct (N.ltb_spec n 128); [reflexivity|lia].
  - rewrite pow_of_nat_S in Hn.
    remember (S f) as f1 eqn:Hf1. cbn [uvarint_fuel].
    destruct (N.ltb_spec n 128) as [Hlt|Hge].
    + cbn [uvarint_decode]. rewrite to_N_byte_of_N, N.mod_small by lia.
      destruct (N.ltb_spec n 128); [reflexivity|lia].
    + cbn [uvarint_decode]. rewrite to_N_byte_of_N.
      assert (Hm : (n mod 128 < 128)%N) by (apply N.mod_lt; lia).
      rewrite N.mod_small by lia.
      destruct (N.ltb_spec (128 + n mod 128) 128) as [Hc|_]; [lia|].
      subst f1. rewrite IH by (apply N.div_lt_upper_bound; lia).
      assert (Hd : (0 < n / 128)%N) by (apply N.div_str_pos; lia).
      destruct (N.eqb_spec (n / 128) 0) as [E|_]; [lia|].
      f_equal. pose proof (N.div_mod n 128). lia.
Qed.

Theorem uvarint_decode_uvarint n : (n < 2 ^ 64)%N -> uvarint_decode (uvarint n) = Some n.
Proof.
  intros Hn. unfold uvarint. apply uvarint_fuel_decode.
  assert (H : (2 ^ 64 <= 128 ^ N.of_nat 10)%N) by (vm_compute; discriminate).
  lia.
Qed.

Theorem uvarint_decode_inj a : forall b n,
  uvarint_decode a = Some n -> uvarint_decode b = Some n -> a = b.
Proof.
  induction a as [|x r IH]; intros b n; [discriminate|].
  destruct b as [|y r']; [intros _; discriminate|].
  cbn [uvarint_decode].
  pose proof (byte_lt x) as Bx. pose proof (byte_lt y) as By.
  destruct (N.ltb_spec (Byte.to_N x) 128) as [Hx|Hx]; destruct (N.ltb_spec (Byte.to_N y) 128) as [Hy|Hy].
  - destruct r; [|discriminate]. destruct r'; [|intros _; discriminate].
    intros Ha Hb. inversion Ha; inversion Hb; subst. f_equal. apply to_N_inj. congruence.
  - destruct r; [|discriminate]. destruct (uvarint_decode r') as [hi|]; [|intros _; discriminate].
    destruct (N.eqb_spec hi 0); [intros _; discriminate|].
    intros Ha Hb. inversion Ha; inversion Hb; subst. lia.
  - destruct (uvarint_decode r) as [hi|]; [|discriminate].
    destruct (N.eqb_spec hi 0); [discriminate|].
    destruct r'; [|intros _; discriminate].
    intros Ha Hb. inversion Ha; inversion Hb; subst. lia.
  - destruct (uvarint_decode r) as [hi|] eqn:Hr; [|discriminate].
    destruct (uvarint_decode r') as [hi'|] eqn:Hr'; [|intros _; discriminate].
    destruct (N.eqb_spec hi 0); [discriminate|].
    destruct (N.eqb_spec hi' 0); [intros _; discriminate|].
    intros Ha Hb. inversion Ha as [Ha']; inversion Hb as [Hb']. clear Ha Hb.
    assert (hi = hi') by lia. assert (Byte.to_N x = Byte.to_N y) by lia. subst hi'.
    f_equal; [apply to_N_inj; assumption|]. eapply IH; [reflexivity|exact Hr'].
Qed.

Section ServerInv2.
  Variable Store : Type.
  Variable w_put : Store -> witem -> Z -> Store * put_result.
  Variable w_get : Store -> bytes -> Z -> Store * get_result.
  Variable sha1 : bytes -> bytes.
  Variable id_secure : N -> bytes -> bool.
  Variable cfg : config.

  Notation sstate := (sstate Store).
  Notation step := (step Store w_put w_get sha1 id_secure cfg).
  Notation run := (run Store w_put w_get sha1 id_secure cfg).
  Notation Inv := (Inv Store cfg).
  Notation TxInv := (TxInv Store).
  Notation reachable := (reachable Store w_put w_get sha1 id_secure cfg).
  Notation wf_cfg := (wf_cfg cfg).
  Notation wf_store_get := (wf_store_get Store w_get).
  Notation root := (c_root cfg).
  Notation slot_of := (slot_of cfg).
  Notation s_nodes := (s_nodes Store).
  Notation s_index := (s_index Store).
  Notation s_pending := (s_pending Store).
  Notation s_next_t := (s_next_t Store).
  Notation s_now := (s_now Store).
  Notation s_blocklist := (s_blocklist Store).
  Notation s_closed := (s_closed Store).
  Notation s_budget := (s_budget Store).
  Notation drop_node := (drop_node Store cfg).
  Notation table_add := (table_add Store cfg).
  Notation add_node := (add_node Store id_secure cfg).
  Notation update_node := (update_node Store id_secure cfg).
  Notation node_bad := (node_bad id_secure cfg).
  Notation node_good := (node_good id_secure cfg).
  Notation dispatch := (dispatch Store w_put w_get sha1 id_secure cfg).
  Notation handle_query := (handle_query Store w_put w_get sha1 id_secure cfg).
  Notation inv_reachable := (inv_reachable Store w_put w_get sha1 id_secure cfg).
  Notation txinv_reachable := (txinv_reachable Store w_put w_get sha1 id_secure cfg).

  Ltac destr :=
    repeat match goal with
    | |- context [match ?c with _ => _ end] => let E := fresh "E" in destruct c eqn:E
    end.

  (* ================================================================ C05 *)
  Theorem C05_bucket_is_shared_prefix s n :
    wf_cfg -> reachable s -> In n (s_nodes s) ->
    n_slot n = shared_prefix_len root (n_id n) /\ (n_slot n < 160)%nat.
  Proof.
    intros Hc Hr Hn. pose proof (inv_reachable Hc s Hr) as Hi.
    destruct (inv_slot _ _ _ Hi n Hn) as (Hs & Hid & Hlt).
    destruct (inv_ids _ _ _ Hi n Hn) as (Hne & _).
    split; [|exact Hlt]. rewrite Hs. apply bucket_index_shared_prefix; [exact (proj1 Hc)|exact Hid|].
    intros E. apply Hne. symmetry. exact E.
  Qed.

  Theorem C05_capacity s i : wf_cfg -> reachable s -> (length (bucket (s_nodes s) i) <= K)%nat.
  Proof. intros Hc Hr. exact (inv_cap _ _ _ (inv_reachable Hc s Hr) i). Qed.

  Theorem C05_no_duplicate s : wf_cfg -> reachable s -> NoDup (map node_key (s_nodes s)).
  Proof. intros Hc Hr. exact (inv_nodup _ _ _ (inv_reachable Hc s Hr)). Qed.

  Theorem C05_no_own_or_zero_id s n :
    wf_cfg -> reachable s -> In n (s_nodes s) -> n_id n <> root /\ n_id n <> 0%N.
  Proof. intros Hc Hr. exact (inv_ids _ _ _ (inv_reachable Hc s Hr) n). Qed.

  Theorem C05_index_agrees s :
    wf_cfg -> reachable s -> s_index s = map (fun n => (addr_key (n_addr n), n_id n)) (s_nodes s).
  Proof. intros Hc Hr. exact (inv_index _ _ _ (inv_reachable Hc s Hr)). Qed.

  Theorem C05_api_agree (s : sstate) :
    num_nodes Store s = length (s_nodes s) /\
    num_good Store id_secure cfg s = length (filter (node_good (s_now s)) (s_nodes s)) /\
    exported_nodes Store id_secure cfg s = map node_info_of (filter (fun n => negb (node_bad n)) (s_nodes s)).
  Proof. repeat split. Qed.

  (* ================================================================ C01: no panic *)
  Lemma step_ok s e ch :
    wf_cfg -> wf_store_get -> Inv s -> TxInv s -> wf_event e -> step s e ch <> SRPanic Store.
  Proof.
    intros Hc Hg Hi Ht Hwf.
    destruct e as [src size dec|d|i p id|qid dst q a rated t|qid|a id|bl|]; unfold Server.step.
    - destruct (N.eqb size _); [discriminate|].
      destruct (N.eqb (port src) 0); [discriminate|].
      destruct (s_closed s); [discriminate|].
      destruct (blocked _ _); [discriminate|].
      destruct dec as [m|]; [|discriminate]. cbn [wf_event] in Hwf. destruct Hwf as (Hsrc & Hm).
      destruct (bytes_eqb (m_y m) s_q).
      + destruct (handle_query s src m ch) as [s1 o| |] eqn:Hq; try discriminate.
        exfalso. revert Hq. apply handle_query_ok; assumption.
      + destruct (find _ _) as [x|]; [|discriminate].
        destruct (update_node _ _ _ _ _ _) as [[s2 r]|] eqn:Hu; [destruct r; discriminate|].
        exfalso. revert Hu. apply update_node_ok; [exact Hc|].
        apply (Inv_ext _ _ s); [reflexivity|reflexivity|exact Hi].
    - discriminate.
    - destruct (update_node _ _ _ _ _ _) as [[s2 r]|] eqn:Hu; [destruct r; discriminate|].
      exfalso. revert Hu. apply update_node_ok; assumption.
    - cbv zeta.
      destruct (s_closed s); [discriminate|].
      destruct (blocked _ _); [discriminate|].
      destruct (rated && _); [discriminate|].
      destruct (uvarint_decode t) as [n|] eqn:Hdec; [|discriminate].
      destruct (N.ltb_spec n (s_next_t s)) as [Hlt|Hge]; [discriminate|].
      destruct (existsb _ _) eqn:Hex.
      + exfalso. apply existsb_exists in Hex. destruct Hex as (x & Hx & Hmx).
        unfold txn_match in Hmx. apply andb_true_iff in Hmx. destruct Hmx as (_ & Hmt).
        apply bytes_eqb_eq in Hmt. destruct (tx_below _ _ Ht x Hx) as (n' & Hn' & Hlt').
        rewrite Hmt, Hdec in Hn'. inversion Hn'. lia.
      + destruct rated; [|discriminate]. destr; discriminate.
    - destruct (existsb _ _); discriminate.
    - destruct (update_node _ _ _ _ _ _) as [[s2 r]|] eqn:Hu; [discriminate|].
      exfalso. revert Hu. apply update_node_ok; assumption.
    - discriminate.
    - discriminate.
  Qed.

  Theorem C01_total s e :
    wf_cfg -> wf_store_get -> reachable s -> wf_event e -> forall ch, step s e ch <> SRPanic Store.
  Proof.
    intros Hc Hg Hr Hwf ch.
    apply step_ok; [exact Hc|exact Hg|apply inv_reachable; assumption|apply txinv_reachable; assumption|exact Hwf].
  Qed.

  (* histories: a run of well-formed events from a reachable state only ever stops at a choice the
     model does not allow (never at a panic), and every state it passes is reachable *)
  Theorem C01_run_reachable evs : forall s s' outs,
    reachable s -> Forall (fun ec => wf_event (fst ec)) evs -> run s evs = Some (s', outs) -> reachable s'.
  Proof.
    induction evs as [|[e ch] evs IH]; intros s s' outs Hr Hwf; cbn [ServerDefs.run].
    - intros H; inversion H; subst; exact Hr.
    - inversion Hwf as [|? ? Hw Hwf']; subst. cbn [fst] in Hw.
      destruct (Server.step _ _ _ _ _ _ s e ch) as [s1 o| |] eqn:Hs; try discriminate.
      destruct (ServerDefs.run _ _ _ _ _ _ s1 evs) as [[s2 outs2]|] eqn:Hrun; [|discriminate].
      intros H; inversion H; subst. eapply IH; [|exact Hwf'|exact Hrun].
      eapply reach_step; eassumption.
  Qed.

  (* ================================================================ C01: still serves *)
  (* a choice the model accepts for the table update *)
  Definition pick_victim (s : sstate) (a : addr) (id : option N) (ta : bool) (u : upd_kind)
    : option ((bytes * N) * N) :=
    match id with
    | None => None
    | Some i =>
        match get_node cfg (s_nodes s) a i with
        | Some _ => None
        | None =>
            if negb ta || N.eqb i root then None
            else
              let n := apply_update (s_now s) u (mkNode i a None None false (slot_of i)) in
              if node_bad n then None
              else
                let b := bucket (s_nodes s) (slot_of i) in
                if Nat.leb K (length b) then
                  match filter (evictable id_secure cfg (s_now s) n) b with
                  | [] => None
                  | c :: _ => Some (addr_key (n_addr c), n_id c)
                  end
                else None
        end
    end.

  Lemma update_node_pick s a id ta u s' r :
    update_node s a id ta u (pick_victim s a id ta u) = Ok (s', r) -> r <> BadChoice.
  Proof.
    unfold Server.update_node, pick_victim.
    destruct id as [i|]; [|intros H; inversion H; discriminate].
    destruct (get_node cfg (s_nodes s) a i); [intros H; inversion H; discriminate|].
    destruct (negb ta || N.eqb i root); [intros H; inversion H; discriminate|].
    cbv zeta. unfold Server.add_node. rewrite apply_update_id. cbn [n_id].
    destruct (node_bad _); [intros H; inversion H; discriminate|].
    destruct (Nat.leb _ _).
    - destruct (filter _ _) as [|c cs]; [intros H; inversion H; discriminate|].
      cbn [find]. unfold same_node at 1. rewrite N.eqb_refl, key_eqb_refl. cbn [andb].
      destruct (drop_node s c); [|discriminate].
      destruct (table_add _ _); [|discriminate]. intros H; inversion H; discriminate.
    - destruct (table_add _ _); [|discriminate]. intros H; inversion H; discriminate.
  Qed.

  Definition is_ping (m : msg) : Prop := m_y m = s_q /\ m_q m = s_ping.

  Theorem C01_still_serves s a size ping :
    wf_cfg -> Inv s ->
    s_closed s = false -> c_passive cfg = false -> c_hook cfg ping = true ->
    blocked (s_blocklist s) (ip a) = false -> port a <> 0%N -> wf_addr a ->
    s_budget s <> Some 0%N -> size <> Z.to_N udp_buf -> is_ping ping ->
    (forall ch s' out, step s (EPacket a size (Some ping)) ch = SR Store s' out ->
       out = [ESend a (reply_msg cfg a (m_t ping) empty_return) SReply]) /\
    (exists ch s' out, step s (EPacket a size (Some ping)) ch = SR Store s' out).
  Proof.
    intros Hc Hi Hcl Hpa Hho Hbl Hpo Ha Hbu Hsz (Hy & Hq).
    assert (Hy' : bytes_eqb (m_y ping) s_q = true) by (rewrite Hy; reflexivity).
    assert (Hq' : bytes_eqb (m_q ping) s_ping = true) by (rewrite Hq; reflexivity).
    apply N.eqb_neq in Hsz. apply N.eqb_neq in Hpo.
    assert (Hdisp : forall s1 ch, frame Store s s1 ->
              exists s2, dispatch s1 a ping ch = HQ Store s2 [ESend a (reply_msg cfg a (m_t ping) empty_return) SReply]).
    { intros s1 ch (_ & _ & _ & _ & F5 & F6 & _ & F8).
      unfold Server.dispatch. cbv zeta. rewrite Hq'. unfold lift, reply, write_rated.
      rewrite F6, Hcl, F5, Hbl, F8.
      destruct (s_budget s) as [[|b]|]; [contradiction Hbu; reflexivity| |]; cbn [fst snd]; eexists; reflexivity. }
    split.
    - intros ch s' out. unfold Server.step. rewrite Hsz, Hpo, Hcl, Hbl, Hy'.
      unfold Server.handle_query.
      destruct (update_node _ _ _ _ _ _) as [[s1 r]|] eqn:Hu; [|discriminate].
      apply update_node_frame in Hu. destruct (Hdisp s1 ch Hu) as (s2 & Hd).
      rewrite Hho, Hpa, Hd. cbn [negb].
      destruct r; try discriminate; intros H; inversion H; reflexivity.
    - set (v := pick_victim s a (option_map id_of (sender_id ping)) (negb (m_ro ping)) UQuery).
      exists (mkChoice v [] [] []).
      unfold Server.step. rewrite Hsz, Hpo, Hcl, Hbl, Hy'.
      unfold Server.handle_query. cbn [ch_victim].
      destruct (update_node _ _ _ _ _ _) as [[s1 r]|] eqn:Hu;
        [|exfalso; exact (update_node_ok _ _ _ _ _ _ _ _ _ Hc Hi Hu)].
      pose proof (update_node_pick _ _ _ _ _ _ _ Hu) as Hr.
      apply update_node_frame in Hu. destruct (Hdisp s1 (mkChoice v [] [] []) Hu) as (s2 & Hd).
      rewrite Hho, Hpa, Hd. cbn [negb].
      destruct r; try (contradiction Hr; reflexivity); eexists; eexists; reflexivity.
  Qed.

  Theorem C01_still_serves_reachable s a size ping :
    wf_cfg -> reachable s ->
    s_closed s = false -> c_passive cfg = false -> c_hook cfg ping = true ->
    blocked (s_blocklist s) (ip a) = false -> port a <> 0%N -> wf_addr a ->
    s_budget s = None -> size <> Z.to_N udp_buf -> is_ping ping ->
    (forall ch s' out, step s (EPacket a size (Some ping)) ch = SR Store s' out ->
       exists r, out = [ESend a (reply_msg cfg a (m_t ping) r) SReply]) /\
    (exists ch s' out, step s (EPacket a size (Some ping)) ch = SR Store s' out).
  Proof.
    intros Hc Hr Hcl Hpa Hho Hbl Hpo Ha Hbu Hsz Hp.
    destruct (C01_still_serves s a size ping) as (H1 & H2); try assumption.
    - apply inv_reachable; assumption.
    - rewrite Hbu. discriminate.
    - split; [|exact H2]. intros ch s' out Hs. exists empty_return. eapply H1; exact Hs.
  Qed.

  (* ================================================================ C07 *)
  Theorem C07_unique_t s : reachable s -> NoDup (map tx_t (s_pending s)).
  Proof. intros Hr. exact (tx_nodup_t _ _ (txinv_reachable s Hr)). Qed.

  Theorem C07_unique_key_t s :
    reachable s -> NoDup (map (fun x => (tx_key x, tx_t x)) (s_pending s)).
  Proof. intros Hr. exact (tx_nodup_qid_keys _ _ (txinv_reachable s Hr)). Qed.

  Lemma remove_first_fresh (p : txn -> bool) l x :
    NoDup (map tx_t l) -> find p l = Some x ->
    forall y, In y (remove_first p l) -> tx_t y <> tx_t x.
  Proof.
    induction l as [|a l IH]; cbn [find remove_first map]; intros Hd Hf y Hy; [discriminate|].
    inversion Hd as [|? ? Hn Hd']; subst.
    destruct (p a).
    - inversion Hf; subst. intros E. apply Hn. rewrite <- E. apply in_map. exact Hy.
    - destruct Hy as [<-|Hy]; [|apply IH; assumption].
      intros E. apply Hn. rewrite E. apply in_map. apply find_some in Hf. tauto.
  Qed.

  Lemma remove_first_keep {A} (p : A -> bool) l x : In x l -> p x = false -> In x (remove_first p l).
  Proof.
    induction l as [|a l IH]; cbn [remove_first In]; [tauto|].
    intros [<-|H] Hp.
    - rewrite Hp. left. reflexivity.
    - destruct (p a); [exact H|right; auto].
  Qed.

  Lemma no_completed_in out qid m : filter is_completed out = [] -> ~ In (ECompleted qid m) out.
  Proof.
    intros Hf Hin. assert (H : In (ECompleted qid m) (filter is_completed out)) by (apply filter_In; split; [exact Hin|reflexivity]).
    rewrite Hf in H. destruct H.
  Qed.

  (* the datagram got past the serve-loop filters *)
  Definition passes (s : sstate) (src : addr) (size : N) : Prop :=
    size <> Z.to_N udp_buf /\ port src <> 0%N /\ s_closed s = false /\
    blocked (s_blocklist s) (ip src) = false.

  Lemma step_packet_cases s src size dec ch s' out :
    step s (EPacket src size dec) ch = SR Store s' out ->
    (s' = s /\ out = []) \/
    (exists m, dec = Some m /\ passes s src size /\ bytes_eqb (m_y m) s_q = true /\
               handle_query s src m ch = HQ Store s' out) \/
    (exists m x, dec = Some m /\ passes s src size /\ bytes_eqb (m_y m) s_q = false /\
       find (txn_match (addr_key src) (m_t m)) (s_pending s) = Some x /\
       s_pending s' = remove_first (txn_match (addr_key src) (m_t m)) (s_pending s) /\
       s_next_t s' = s_next_t s /\ out = [ECompleted (tx_qid x) m]).
  Proof.
    assert (Hsame : forall o, SR Store s o = SR Store s' out -> o = [] -> s' = s /\ out = [])
      by (intros o H Ho; inversion H; subst; split; reflexivity).
    unfold Server.step.
    destruct (N.eqb_spec size (Z.to_N udp_buf)) as [|Hsz]; [intros H; left; exact (Hsame _ H eq_refl)|].
    destruct (N.eqb_spec (port src) 0) as [|Hpo]; [intros H; left; exact (Hsame _ H eq_refl)|].
    destruct (s_closed s) eqn:Hcl; [intros H; left; exact (Hsame _ H eq_refl)|].
    destruct (blocked _ _) eqn:Hbl; [intros H; left; exact (Hsame _ H eq_refl)|].
    assert (Hp : passes s src size) by (repeat split; assumption).
    destruct dec as [m|]; [|intros H; left; exact (Hsame _ H eq_refl)].
    destruct (bytes_eqb (m_y m) s_q) eqn:Hy.
    - destruct (handle_query s src m ch) as [s1 o| |] eqn:Hq; try discriminate.
      intros H; inversion H; subst. right; left. exists m. repeat split; try assumption; apply Hp.
    - destruct (find _ _) as [x|] eqn:Hf; [|intros H; left; exact (Hsame _ H eq_refl)].
      destruct (update_node _ _ _ _ _ _) as [[s2 r]|] eqn:Hu; [|discriminate].
      apply update_node_frame in Hu. destruct Hu as (_ & U2 & _ & _ & _ & _ & U7 & _).
      cbn [with_pending Server.s_pending Server.s_next_t] in U2, U7.
      intros H. right; right. exists m, x.
      destruct r; try discriminate; inversion H; subst; repeat split; try assumption; apply Hp.
  Qed.

  Theorem C07_match s src size dec ch s' out qid m :
    TxInv s -> step s (EPacket src size dec) ch = SR Store s' out -> In (ECompleted qid m) out ->
    dec = Some m /\ passes s src size /\ bytes_eqb (m_y m) s_q = false /\
    exists x, In x (s_pending s) /\ tx_qid x = qid /\ tx_key x = addr_key src /\ tx_t x = m_t m /\
              ~ In x (s_pending s') /\ out = [ECompleted qid m].
  Proof.
    intros Ht Hs Hin. apply step_packet_cases in Hs.
    destruct Hs as [(_ & ->)|[(m0 & _ & _ & _ & Hq)|(m0 & x & -> & Hp & Hy & Hf & Hpe & _ & ->)]].
    - destruct Hin.
    - apply handle_query_frame in Hq. destruct Hq as (_ & _ & _ & _ & _ & Hc).
      exfalso. exact (no_completed_in _ _ _ Hc Hin).
    - destruct Hin as [Hin|[]]. inversion Hin; subst.
      split; [reflexivity|]. split; [exact Hp|]. split; [exact Hy|]. exists x.
      pose proof (find_some _ _ Hf) as (Hx & Hm). unfold txn_match in Hm.
      apply andb_true_iff in Hm. destruct Hm as (Hk & Htt).
      apply key_eqb_eq in Hk. apply bytes_eqb_eq in Htt.
      repeat split; try assumption; try reflexivity.
      rewrite Hpe. intros Hc.
      exact (remove_first_fresh _ _ _ (tx_nodup_t _ _ Ht) Hf x Hc eq_refl).
  Qed.

  Theorem C07_at_most_one s src size dec ch s' out :
    step s (EPacket src size dec) ch = SR Store s' out -> (length (filter is_completed out) <= 1)%nat.
  Proof.
    intros Hs. apply step_packet_cases in Hs.
    destruct Hs as [(_ & ->)|[(m0 & _ & _ & _ & Hq)|(m0 & x & _ & _ & _ & _ & _ & _ & ->)]].
    - cbn. lia.
    - apply handle_query_frame in Hq. destruct Hq as (_ & _ & _ & _ & _ & ->). cbn. lia.
    - cbn. lia.
  Qed.

  (* only an inbound datagram can complete a query *)
  Theorem C07_only_packets_complete s e ch s' out :
    step s e ch = SR Store s' out -> (forall src size dec, e <> EPacket src size dec) ->
    filter is_completed out = [].
  Proof.
    destruct e as [src size dec|d|i p id|qid dst q a rated t|qid|a id|bl|]; unfold Server.step; cbv zeta.
    1: intros _ H; exfalso; exact (H _ _ _ eq_refl).
    all: destr; intros H _; try discriminate H; inversion H; reflexivity.
  Qed.

  (* how one step can change the set of pending transactions *)
  Theorem C07_pending_change s e ch s' out x :
    step s e ch = SR Store s' out -> In x (s_pending s) ->
    In x (s_pending s') \/ e = EQueryEnd (tx_qid x) \/
    (exists src size m, e = EPacket src size (Some m) /\ passes s src size /\
       bytes_eqb (m_y m) s_q = false /\ tx_key x = addr_key src /\ tx_t x = m_t m).
  Proof.
    intros Hs Hx.
    destruct e as [src size dec|d|i p id|qid dst q a rated t|qid|a id|bl|].
    - apply step_packet_cases in Hs.
      destruct Hs as [(-> & _)|[(m0 & _ & _ & _ & Hq)|(m0 & x0 & -> & Hp & Hy & Hf & Hpe & _ & _)]].
      + left. exact Hx.
      + apply handle_query_frame in Hq. destruct Hq as (-> & _). left. exact Hx.
      + destruct (txn_match (addr_key src) (m_t m0) x) eqn:Hm.
        * right; right. exists src, size, m0. unfold txn_match in Hm.
          apply andb_true_iff in Hm. destruct Hm as (Hk & Htt).
          apply key_eqb_eq in Hk. apply bytes_eqb_eq in Htt. repeat split; try assumption; apply Hp.
        * left. rewrite Hpe. apply remove_first_keep; assumption.
    - left. unfold Server.step in Hs. inversion Hs; subst. exact Hx.
    - left. unfold Server.step in Hs.
      destruct (update_node _ _ _ _ _ _) as [[s1 r]|] eqn:Hu; [|discriminate].
      apply update_node_frame in Hu. destruct Hu as (_ & U2 & _).
      destruct r; try discriminate; inversion Hs; subst; rewrite U2; exact Hx.
    - left. revert Hs. unfold Server.step. cbv zeta.
      destr; intros H; try discriminate H; inversion H; subst;
        cbn [with_pending with_budget Server.s_pending]; try exact Hx; apply in_or_app; left; exact Hx.
    - unfold Server.step in Hs. destruct (existsb _ _); [|left; inversion Hs; subst; exact Hx].
      inversion Hs; subst. cbn [with_pending Server.s_pending].
      destruct (N.eqb_spec (tx_qid x) qid) as [E|E].
      + right; left. rewrite E. reflexivity.
      + left. apply filter_In. split; [exact Hx|]. apply negb_true_iff. apply N.eqb_neq. exact E.
    - left. unfold Server.step in Hs.
      destruct (update_node _ _ _ _ _ _) as [[s1 r]|] eqn:Hu; [|discriminate].
      apply update_node_frame in Hu. destruct Hu as (_ & U2 & _).
      inversion Hs; subst; rewrite U2; exact Hx.
    - left. unfold Server.step in Hs. inversion Hs; subst. exact Hx.
    - left. unfold Server.step in Hs. inversion Hs; subst. exact Hx.
  Qed.

  (* a datagram that is not the matching reply (other address, other id, a query, or dropped by
     the filters) leaves the pending query in place *)
  Theorem C07_unaffected s src size dec ch s' out x :
    step s (EPacket src size dec) ch = SR Store s' out -> In x (s_pending s) ->
    ~ (exists m, dec = Some m /\ tx_key x = addr_key src /\ tx_t x = m_t m /\
                 bytes_eqb (m_y m) s_q = false /\ passes s src size) ->
    In x (s_pending s').
  Proof.
    intros Hs Hx Hn. destruct (C07_pending_change _ _ _ _ _ _ Hs Hx) as [H|[H|H]]; [exact H|discriminate|].
    destruct H as (src0 & size0 & m & He & Hp & Hy & Hk & Htt). inversion He; subst.
    exfalso. apply Hn. exists m. repeat split; try assumption; apply Hp.
  Qed.

  Theorem C07_query_never_touches_pending s src size m ch s' out :
    bytes_eqb (m_y m) s_q = true -> step s (EPacket src size (Some m)) ch = SR Store s' out ->
    s_pending s' = s_pending s /\ filter is_completed out = [].
  Proof.
    intros Hy Hs. apply step_packet_cases in Hs.
    destruct Hs as [(-> & ->)|[(m0 & _ & _ & _ & Hq)|(m0 & x & He & _ & Hy' & _)]].
    - split; reflexivity.
    - apply handle_query_frame in Hq. tauto.
    - inversion He; subst. congruence.
  Qed.

  (* ---- replays: a transaction id that was issued and is no longer pending is never matched again *)
  Definition stale (t : bytes) (s : sstate) : Prop :=
    (exists n, uvarint_decode t = Some n /\ (n < s_next_t s)%N) /\
    forall y, In y (s_pending s) -> tx_t y <> t.

  Lemma step_pending_sub s e ch s' out :
    step s e ch = SR Store s' out ->
    (s_next_t s <= s_next_t s')%N /\
    forall y, In y (s_pending s') ->
      In y (s_pending s) \/ exists n, uvarint_decode (tx_t y) = Some n /\ (s_next_t s <= n)%N.
  Proof.
    assert (Hsame : forall s1, s_pending s1 = s_pending s -> s_next_t s1 = s_next_t s ->
              (s_next_t s <= s_next_t s1)%N /\
              forall y, In y (s_pending s1) ->
                In y (s_pending s) \/ exists n, uvarint_decode (tx_t y) = Some n /\ (s_next_t s <= n)%N).
    { intros s1 -> ->. split; [lia|]. intros y Hy. left. exact Hy. }
    destruct e as [src size dec|d|i p id|qid dst q a rated t|qid|a id|bl|].
    - intros Hs. apply step_packet_cases in Hs.
      destruct Hs as [(-> & _)|[(m0 & _ & _ & _ & Hq)|(m0 & x0 & _ & _ & _ & _ & Hpe & Hnt & _)]].
      + apply Hsame; reflexivity.
      + apply handle_query_frame in Hq. destruct Hq as (Hp & Hn & _). apply Hsame; assumption.
      + rewrite Hpe, Hnt. split; [lia|]. intros y Hy. left. eapply remove_first_In; exact Hy.
    - unfold Server.step. intros H; inversion H; subst. apply Hsame; reflexivity.
    - unfold Server.step.
      destruct (update_node _ _ _ _ _ _) as [[s1 r]|] eqn:Hu; [|discriminate].
      apply update_node_frame in Hu. destruct Hu as (_ & U2 & _ & _ & _ & _ & U7 & _).
      destruct r; try discriminate; intros H; inversion H; subst; apply Hsame; assumption.
    - unfold Server.step. cbv zeta.
      assert (Hbump : forall o, SR Store (with_pending Store s (s_pending s) (N.succ (s_next_t s))) o = SR Store s' out ->
                (s_next_t s <= s_next_t s')%N /\
                forall y, In y (s_pending s') ->
                  In y (s_pending s) \/ exists n, uvarint_decode (tx_t y) = Some n /\ (s_next_t s <= n)%N).
      { intros o H; inversion H; subst. cbn [with_pending Server.s_pending Server.s_next_t].
        split; [lia|]. intros y Hy. left. exact Hy. }
      destruct (s_closed s); [apply Hbump|].
      destruct (blocked _ _); [apply Hbump|].
      destruct (rated && _); [apply Hbump|].
      destruct (uvarint_decode t) as [n|] eqn:Hdec; [|discriminate].
      destruct (N.ltb_spec n (s_next_t s)) as [Hlt|Hge]; [discriminate|].
      destruct (existsb _ _); [discriminate|].
      assert (Hadd : forall s1, s_pending s1 = s_pending s ++ [mkTxn (addr_key dst) t qid] ->
                s_next_t s1 = N.succ n ->
                (s_next_t s <= s_next_t s1)%N /\
                forall y, In y (s_pending s1) ->
                  In y (s_pending s) \/ exists n, uvarint_decode (tx_t y) = Some n /\ (s_next_t s <= n)%N).
      { intros s1 -> ->. split; [lia|]. intros y Hy. apply in_app_or in Hy.
        destruct Hy as [Hy|[<-|[]]]; [left; exact Hy|right]. exists n. cbn [tx_t]. split; assumption. }
      destruct rated.
      + cbn [with_pending Server.s_budget]. destruct (s_budget s) as [[|b]|]; [apply Hbump| |];
          intros H; inversion H; subst; apply Hadd; reflexivity.
      + intros H; inversion H; subst; apply Hadd; reflexivity.
    - unfold Server.step. destruct (existsb _ _); [|intros H; inversion H; subst; apply Hsame; reflexivity].
      intros H; inversion H; subst. cbn [with_pending Server.s_pending Server.s_next_t].
      split; [lia|]. intros y Hy. left. apply filter_In in Hy. tauto.
    - unfold Server.step.
      destruct (update_node _ _ _ _ _ _) as [[s1 r]|] eqn:Hu; [|discriminate].
      apply update_node_frame in Hu. destruct Hu as (_ & U2 & _ & _ & _ & _ & U7 & _).
      intros H; inversion H; subst; apply Hsame; assumption.
    - unfold Server.step. intros H; inversion H; subst. apply Hsame; reflexivity.
    - unfold Server.step. intros H; inversion H; subst. apply Hsame; reflexivity.
  Qed.

  Lemma stale_step t s e ch s' out : stale t s -> step s e ch = SR Store s' out -> stale t s'.
  Proof.
    intros ((n & Hn & Hlt) & Hno) Hs. apply step_pending_sub in Hs. destruct Hs as (Hle & Hsub).
    split; [exists n; split; [exact Hn|lia]|].
    intros y Hy. destruct (Hsub y Hy) as [Hy'|(n' & Hn' & Hge)]; [apply Hno; exact Hy'|].
    intros E. rewrite E, Hn in Hn'. inversion Hn'. lia.
  Qed.

  Lemma stale_run t evs : forall s s' outs, stale t s -> run s evs = Some (s', outs) -> stale t s'.
  Proof.
    induction evs as [|[e ch] evs IH]; intros s s' outs Hst; cbn [ServerDefs.run].
    - intros H; inversion H; subst; exact Hst.
    - destruct (Server.step _ _ _ _ _ _ s e ch) as [s1 o| |] eqn:Hs; try discriminate.
      destruct (ServerDefs.run _ _ _ _ _ _ s1 evs) as [[s2 outs2]|] eqn:Hrun; [|discriminate].
      intros H; inversion H; subst. eapply IH; [|exact Hrun]. eapply stale_step; eassumption.
  Qed.

  Lemma stale_inert s src size m ch s' out :
    stale (m_t m) s -> step s (EPacket src size (Some m)) ch = SR Store s' out ->
    filter is_completed out = [] /\ s_pending s' = s_pending s.
  Proof.
    intros (_ & Hno) Hs. apply step_packet_cases in Hs.
    destruct Hs as [(-> & ->)|[(m0 & _ & _ & _ & Hq)|(m0 & x & He & _ & _ & Hf & _)]].
    - split; reflexivity.
    - apply handle_query_frame in Hq. tauto.
    - inversion He; subst. apply find_some in Hf. destruct Hf as (Hx & Hm).
      unfold txn_match in Hm. apply andb_true_iff in Hm. destruct Hm as (_ & Htt).
      apply bytes_eqb_eq in Htt. exfalso. exact (Hno x Hx Htt).
  Qed.

  Lemma completed_stale s src size dec ch s' out qid m :
    TxInv s -> step s (EPacket src size dec) ch = SR Store s' out -> In (ECompleted qid m) out ->
    stale (m_t m) s'.
  Proof.
    intros Ht Hs Hin. apply step_packet_cases in Hs.
    destruct Hs as [(_ & ->)|[(m0 & _ & _ & _ & Hq)|(m0 & x & -> & Hp & Hy & Hf & Hpe & Hnt & ->)]].
    - destruct Hin.
    - apply handle_query_frame in Hq. destruct Hq as (_ & _ & _ & _ & _ & Hc).
      exfalso. exact (no_completed_in _ _ _ Hc Hin).
    - destruct Hin as [Hin|[]]. inversion Hin; subst.
      pose proof (find_some _ _ Hf) as (Hx & Hm). unfold txn_match in Hm.
      apply andb_true_iff in Hm. destruct Hm as (_ & Htt). apply bytes_eqb_eq in Htt.
      split.
      + destruct (tx_below _ _ Ht x Hx) as (n & Hn & Hlt). exists n. rewrite <- Htt, Hnt. split; assumption.
      + rewrite Hpe. intros y Hy0. rewrite <- Htt. exact (remove_first_fresh _ _ _ (tx_nodup_t _ _ Ht) Hf y Hy0).
  Qed.

  (* after a completion, a datagram carrying that transaction id (the same one again, or any other,
     from any address, at any later time of any history) completes nothing and changes no query *)
  Theorem C07_replay_inert_forever s src size dec ch s1 out qid m :
    TxInv s -> step s (EPacket src size dec) ch = SR Store s1 out -> In (ECompleted qid m) out ->
    forall evs s2 outs, run s1 evs = Some (s2, outs) ->
    forall src' size' m' ch' s3 out', m_t m' = m_t m ->
      step s2 (EPacket src' size' (Some m')) ch' = SR Store s3 out' ->
      filter is_completed out' = [] /\ s_pending s3 = s_pending s2.
  Proof.
    intros Ht Hs Hin evs s2 outs Hrun src' size' m' ch' s3 out' Hm' Hs'.
    eapply stale_inert; [|exact Hs']. rewrite Hm'.
    eapply stale_run; [|exact Hrun]. eapply completed_stale; eassumption.
  Qed.

  Theorem C07_replay_inert s src size m ch s' out qid :
    TxInv s -> step s (EPacket src size (Some m)) ch = SR Store s' out -> In (ECompleted qid m) out ->
    forall size' ch' s'' out', step s' (EPacket src size' (Some m)) ch' = SR Store s'' out' ->
      filter is_completed out' = [] /\ s_pending s'' = s_pending s'.
  Proof.
    intros Ht Hs Hin size' ch' s'' out' Hs'.
    exact (C07_replay_inert_forever _ _ _ _ _ _ _ _ _ Ht Hs Hin [] s' [] eq_refl src size' m ch' s'' out' eq_refl Hs').
  Qed.
  (* a transaction enters the pending set only when a query is started, keyed by the destination
     the query datagram is sent to and by the transaction id that datagram carries *)
  Theorem C07_registered s e ch s' out x :
    step s e ch = SR Store s' out -> In x (s_pending s') -> ~ In x (s_pending s) ->
    exists qid dst q a rated t,
      e = EQueryStart qid dst q a rated t /\ x = mkTxn (addr_key dst) t qid /\
      s_closed s = false /\ blocked (s_blocklist s) (ip dst) = false /\
      out = [ESend dst (query_msg cfg q a t) SQuery].
  Proof.
    intros Hs Hx Hn.
    assert (Hsame : s_pending s' = s_pending s -> False) by (intros E; apply Hn; rewrite <- E; exact Hx).
    destruct e as [src size dec|d|i p id|qid dst q a rated t|qid|a id|bl|].
    - exfalso. apply step_packet_cases in Hs.
      destruct Hs as [(-> & _)|[(m0 & _ & _ & _ & Hq)|(m0 & x0 & _ & _ & _ & _ & Hpe & _ & _)]].
      + apply Hsame; reflexivity.
      + apply handle_query_frame in Hq. destruct Hq as (Hp & _). apply Hsame; exact Hp.
      + apply Hn. rewrite Hpe in Hx. eapply remove_first_In; exact Hx.
    - exfalso. unfold Server.step in Hs. inversion Hs; subst. apply Hsame; reflexivity.
    - exfalso. unfold Server.step in Hs.
      destruct (update_node _ _ _ _ _ _) as [[s1 r]|] eqn:Hu; [|discriminate].
      apply update_node_frame in Hu. destruct Hu as (_ & U2 & _).
      destruct r; try discriminate; inversion Hs; subst; apply Hsame; exact U2.
    - revert Hs. unfold Server.step. cbv zeta.
      assert (Hbump : forall o, SR Store (with_pending Store s (s_pending s) (N.succ (s_next_t s))) o = SR Store s' out -> False).
      { intros o H; inversion H; subst. apply Hsame; reflexivity. }
      destruct (s_closed s) eqn:Hcl; [intros H; exfalso; exact (Hbump _ H)|].
      destruct (blocked _ _) eqn:Hbl; [intros H; exfalso; exact (Hbump _ H)|].
      destruct (rated && _); [intros H; exfalso; exact (Hbump _ H)|].
      destruct (uvarint_decode t) as [n|] eqn:Hdec; [|discriminate].
      destruct (N.ltb n (s_next_t s)); [discriminate|].
      destruct (existsb _ _); [discriminate|].
      assert (Hadd : forall s1, s_pending s1 = s_pending s ++ [mkTxn (addr_key dst) t qid] ->
                SR Store s1 [ESend dst (query_msg cfg q a t) SQuery] = SR Store s' out ->
                exists qid0 dst0 q0 a0 rated0 t0,
                  EQueryStart qid dst q a rated t = EQueryStart qid0 dst0 q0 a0 rated0 t0 /\
                  x = mkTxn (addr_key dst0) t0 qid0 /\ false = false /\
                  blocked (s_blocklist s) (ip dst0) = false /\
                  out = [ESend dst0 (query_msg cfg q0 a0 t0) SQuery]).
      { intros s1 Hp H; inversion H; subst. exists qid, dst, q, a, rated, t.
        rewrite Hp in Hx. apply in_app_or in Hx. destruct Hx as [Hx|[Hx|[]]]; [contradiction|].
        repeat split; [symmetry; exact Hx|exact Hbl]. }
      destruct rated.
      + cbn [with_pending Server.s_budget]. destruct (s_budget s) as [[|b]|];
          [intros H; exfalso; exact (Hbump _ H)| |]; apply Hadd; reflexivity.
      + apply Hadd; reflexivity.
    - exfalso. unfold Server.step in Hs.
      destruct (existsb _ _); [|inversion Hs; subst; apply Hsame; reflexivity].
      inversion Hs; subst. cbn [with_pending Server.s_pending] in Hx. apply filter_In in Hx. tauto.
    - exfalso. unfold Server.step in Hs.
      destruct (update_node _ _ _ _ _ _) as [[s1 r]|] eqn:Hu; [|discriminate].
      apply update_node_frame in Hu. destruct Hu as (_ & U2 & _).
      inversion Hs; subst; apply Hsame; exact U2.
    - exfalso. unfold Server.step in Hs. inversion Hs; subst. apply Hsame; reflexivity.
    - exfalso. unfold Server.step in Hs. inversion Hs; subst. apply Hsame; reflexivity.
  Qed.
End ServerInv2.
