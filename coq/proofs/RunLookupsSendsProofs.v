(* RunLookupsSendsProofs.v — the per-datagram acceptance of RunLookupsSends.v is exactly "sub-multiset of the sends
   the model expects": a sequence of observed announce_peer / put datagrams is accepted iff the expected list is a
   permutation of the observed ones plus a remainder; in particular no datagram is accepted twice for one expected
   send, and one that is not expected is rejected. *)
From Dht Require Import Base Bep44Proofs RunLookupsSends.
From Coq Require Import Permutation.

Lemma rls_eqb_eq a b : rls_eqb a b = true <-> a = b.
Proof.
  destruct a as [[[[[d1 t1] h1] p1] i1] s1], b as [[[[[d2 t2] h2] p2] i2] s2]. cbn [rls_eqb].
  rewrite !andb_true_iff, !N.eqb_eq, !Z.eqb_eq, Bool.eqb_true_iff.
  split.
  - intros (((((-> & Ht) & ->) & ->) & ->) & ->). destruct (bytes_eqb_spec t1 t2); [subst; reflexivity | discriminate].
  - intros E. inversion E; subst. repeat split; try reflexivity. apply bytes_eqb_refl.
Qed.

Lemma rls_eqb_refl a : rls_eqb a a = true.
Proof. apply rls_eqb_eq. reflexivity. Qed.

(* what is taken was there, once, and the rest is kept *)
Lemma rls_take_some x l r : rls_take x l = Some r -> Permutation l (x :: r).
Proof.
  revert r. induction l as [|y l IH]; cbn [rls_take]; intros r H; [discriminate|].
  destruct (rls_eqb x y) eqn:E.
  - apply rls_eqb_eq in E. subst. inversion H; subst. apply Permutation_refl.
  - destruct (rls_take x l) as [r'|] eqn:T; [|discriminate]. inversion H; subst.
    eapply perm_trans; [apply perm_skip, IH; reflexivity|]. apply perm_swap.
Qed.

Lemma rls_take_length x l r : rls_take x l = Some r -> length l = S (length r).
Proof. intros H. apply rls_take_some in H. apply Permutation_length in H. exact H. Qed.

(* nothing to take iff it is not expected *)
Lemma rls_take_none x l : rls_take x l = None <-> ~ In x l.
Proof.
  induction l as [|y l IH]; cbn [rls_take].
  - split; [intros _ []|reflexivity].
  - destruct (rls_eqb x y) eqn:E.
    + apply rls_eqb_eq in E. subst. split; [discriminate|]. intros N. exfalso. apply N. left. reflexivity.
    + assert (x <> y) as Nxy by (intros ->; rewrite rls_eqb_refl in E; discriminate).
      destruct (rls_take x l) as [r'|].
      * split; [discriminate|]. intros N. exfalso.
        assert (~ In x l) as N' by (intros I; apply N; right; exact I).
        apply IH in N'. discriminate.
      * split; [|reflexivity]. intros _ [->|I]; [congruence|]. apply (proj1 IH eq_refl I).
Qed.

Lemma rls_take_in x l : In x l -> exists r, rls_take x l = Some r.
Proof.
  intros I. destruct (rls_take x l) as [r|] eqn:T; [exists r; reflexivity|].
  exfalso. apply (proj1 (rls_take_none x l) T I).
Qed.

(* soundness of a whole accepted run: the expected sends are the observed ones plus what never left *)
Theorem rls_take_all_sound obs l r : rls_take_all obs l = Some r -> Permutation l (obs ++ r).
Proof.
  revert l r. induction obs as [|x obs IH]; cbn [rls_take_all]; intros l r H.
  - inversion H; subst. apply Permutation_refl.
  - destruct (rls_take x l) as [l'|] eqn:T; [|discriminate].
    apply rls_take_some in T. apply IH in H.
    eapply perm_trans; [exact T|]. cbn [app]. apply perm_skip. exact H.
Qed.

(* completeness: every sub-multiset of the expected sends is accepted, in any order *)
Theorem rls_take_all_complete obs : forall l r, Permutation l (obs ++ r) -> exists r', rls_take_all obs l = Some r' /\ Permutation r' r.
Proof.
  induction obs as [|x obs IH]; cbn [rls_take_all app]; intros l r P.
  - exists l. split; [reflexivity|exact P].
  - assert (In x l) as I by (eapply Permutation_in; [apply Permutation_sym; exact P|left; reflexivity]).
    destruct (rls_take_in x l I) as (l' & T). rewrite T.
    apply IH. apply rls_take_some in T.
    apply Permutation_cons_inv with (a := x). eapply perm_trans; [apply Permutation_sym; exact T|exact P].
Qed.

(* an observed datagram is never accepted twice for one expected send *)
Corollary rls_no_second_take x l r : rls_take x l = Some r -> ~ In x r -> rls_take x r = None.
Proof. intros _ N. apply rls_take_none. exact N. Qed.

(* the announce that is announced to twice: two equal datagrams need two expected sends *)
Corollary rls_twice_needs_two x l r : rls_take_all [x; x] l = Some r -> exists l1, Permutation l (x :: x :: l1).
Proof. intros H. apply rls_take_all_sound in H. exists r. exact H. Qed.

Example rls_example_twice_rejected :
  let a := (1%N, [x74], 7%N, 6881%Z, false, 0%Z) in
  let b := (2%N, [x75], 7%N, 6881%Z, false, 0%Z) in
  rls_take_all [a; b] [b; a] = Some [] /\ rls_take_all [a; a] [b; a] = None
  /\ rls_take_all [(1%N, [x75], 7%N, 6881%Z, false, 0%Z)] [b; a] = None.
Proof. vm_compute. repeat split. Qed.
