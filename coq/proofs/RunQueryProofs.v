(* RunQueryProofs.v — facts about the query engine's glue (RunLookups.v, section RunQuery) and the events its
   newer scripts are made of (harness/cmd/h/query_more.go):

   * copies of the reply: the first copy the server can take pops the transaction; from then on the
     transaction is never registered again, so every further copy — at whatever later point of whatever
     schedule — is not even enabled and changes nothing ([reply_copy_no_effect], [reply_copies_no_effect]);
   * stray datagrams (script action [QAStray]: another source address or transaction id): they are no event of
     the query's model; a script with strays has exactly the outcomes of the script with the strays replaced by
     pauses ([explore_destray], [rq_outcomes_destray]). *)
From Coq Require Import List Bool Arith Lia.
Import ListNotations.
From Dht Require Import Base Query RunLookups.

(* ---------------------------------------------------------------- copies of the reply *)

(* the transaction is gone and the caller is past its registration *)
Definition Unreg (s : qstate) : Prop := q_registered s = false /\ q_caller s <> CStart.

Lemma unreg_step c s l : Unreg s -> Unreg (step_en c s l).
Proof.
  intros [Hr Hc]. unfold step_en.
  destruct (enabled c s l) eqn:E; [|split; assumption].
  destruct l; unfold enabled in E; cbn [step]; unfold Unreg, selected, sender_done; cbn;
    try (split; [assumption|]); try assumption; try discriminate.
  - (* LRegister *) destruct (q_caller s); try discriminate. congruence.
  - (* LSelSendErr *) destruct (q_senderr_chan s); cbn; [split; [assumption|discriminate]|split; assumption].
  - (* LDeregister *) split; [reflexivity|discriminate].
  - (* EReplyArrives *) split; [reflexivity|assumption].
Qed.

Lemma unreg_exec c ls : forall s, Unreg s -> Unreg (exec c s ls).
Proof. induction ls as [|l ls IH]; intros s H; cbn; [assumption|]. apply IH, unreg_step, H. Qed.

(* a copy that finds no transaction is not an event *)
Lemma reply_unreg_noop c s : q_registered s = false -> step_en c s EReplyArrives = s.
Proof. intros H. unfold step_en, enabled. rewrite H. reflexivity. Qed.

(* the reply the server takes leaves the transaction unregistered, for good *)
Lemma reply_unregisters c s :
  enabled c s EReplyArrives = true -> q_caller s <> CStart -> Unreg (step_en c s EReplyArrives).
Proof. intros E Hc. unfold step_en. rewrite E. split; [reflexivity|exact Hc]. Qed.

(* the second copy, back to back *)
Theorem reply_copy_no_effect c s :
  step_en c (step_en c s EReplyArrives) EReplyArrives = step_en c s EReplyArrives.
Proof.
  destruct (enabled c s EReplyArrives) eqn:E.
  - apply reply_unreg_noop. unfold step_en. rewrite E. reflexivity.
  - assert (H : step_en c s EReplyArrives = s) by (unfold step_en; rewrite E; reflexivity).
    rewrite H. exact H.
Qed.

(* any number of further copies, each after any schedule of the query's own and the environment's events *)
Theorem reply_copies_no_effect c s :
  enabled c s EReplyArrives = true -> q_caller s <> CStart ->
  forall ls, step_en c (exec c (step_en c s EReplyArrives) ls) EReplyArrives = exec c (step_en c s EReplyArrives) ls.
Proof.
  intros E Hc ls. apply reply_unreg_noop.
  exact (proj1 (unreg_exec c ls _ (reply_unregisters c s E Hc))).
Qed.

(* a reply is enabled only for a registered transaction, i.e. past the caller's registration *)
Lemma reply_enabled_registered c s : enabled c s EReplyArrives = true -> q_registered s = true.
Proof. unfold enabled. intros H. apply andb_prop in H as [H _]. apply andb_prop in H as [H _]. exact H. Qed.

(* ---------------------------------------------------------------- stray datagrams *)

Definition destray (d : qpoint * qaction) : qpoint * qaction :=
  match d with (p, QAStray) => (p, QANop) | x => x end.

Lemma destray_point d : fst (destray d) = fst d.
Proof. destruct d as [p []]; reflexivity. Qed.
Lemma destray_label d : action_label (snd (destray d)) = action_label (snd d).
Proof. destruct d as [p []]; reflexivity. Qed.
Lemma destray_term s d : terminating s (snd (destray d)) = terminating s (snd d).
Proof. destruct d as [p []]; reflexivity. Qed.

Lemma held_destray s script : held s (map destray script) = held s script.
Proof.
  destruct script as [|d rest]; [reflexivity|]. cbn [map held].
  pose proof (destray_point d) as Hp. destruct (destray d) as [p' a'], d as [p a]. cbn in Hp. subst p'. reflexivity.
Qed.

Lemma candidates_destray sc c s script term :
  candidate_labels sc c s (map destray script) term = candidate_labels sc c s script term.
Proof. unfold candidate_labels. rewrite held_destray. reflexivity. Qed.

Definition phi (x : qstate * list (qpoint * qaction) * bool) : qstate * list (qpoint * qaction) * bool :=
  match x with (s, scr, t) => (s, map destray scr, t) end.

Lemma fold_left_map_ext {A B} (f : A -> A) (F G : B -> A -> B) (l : list A) :
  (forall acc x, F acc (f x) = G acc x) -> forall acc, fold_left F (map f l) acc = fold_left G l acc.
Proof. intros H. induction l as [|x l IH]; intros acc; cbn; [reflexivity|]. rewrite H. apply IH. Qed.

Theorem explore_destray : forall fuel sc c s script term,
  explore fuel sc c s (map destray script) term = explore fuel sc c s script term.
Proof.
  induction fuel as [|f IH]; intros sc c s script term; [reflexivity|].
  cbn [explore]. rewrite candidates_destray.
  set (ints := map (fun l => (step c s l, script, term)) (candidate_labels sc c s script term)).
  set (env := match script with
              | (p, a) :: rest =>
                  if point_enabled s p
                  then [(match action_label a with Some l => step_en c s l | None => s end, rest, term || terminating s a)]
                  else if point_passed s p then [(s, rest, term)] else []
              | [] => []
              end).
  assert (Henv : match map destray script with
                 | (p, a) :: rest =>
                     if point_enabled s p
                     then [(match action_label a with Some l => step_en c s l | None => s end, rest, term || terminating s a)]
                     else if point_passed s p then [(s, rest, term)] else []
                 | [] => []
                 end = map phi env).
  { subst env. destruct script as [|d rest]; [reflexivity|]. cbn [map].
    pose proof (destray_point d) as Hp. pose proof (destray_label d) as Hl. pose proof (destray_term s d) as Ht.
    destruct (destray d) as [p' a'], d as [p a]. cbn in Hp, Hl, Ht. subst p'. rewrite Hl, Ht.
    destruct (point_enabled s p); [reflexivity|]. destruct (point_passed s p); reflexivity. }
  rewrite Henv.
  assert (Hints : map (fun l => (step c s l, map destray script, term)) (candidate_labels sc c s script term) = map phi ints).
  { subst ints. rewrite map_map. reflexivity. }
  rewrite Hints, <- map_app.
  destruct (env ++ ints) as [|x r]; [reflexivity|].
  cbn [map]. cbv iota.
  change (phi x :: map phi r) with (map phi (x :: r)).
  apply (fold_left_map_ext phi). intros acc [[s' scr'] t']. cbn [phi]. rewrite IH. reflexivity.
Qed.

Definition scn_destray (sc : qscn) : qscn :=
  mkScn (sc_tries sc) (sc_rl sc) (sc_budget sc) (sc_blocked sc) (sc_closed0 sc) (sc_fail sc) (map destray (sc_script sc)).

(* [explore] reads the scenario only for the failing write *)
Lemma explore_scn_ext : forall fuel sc sc' c s script term,
  sc_fail sc' = sc_fail sc -> explore fuel sc' c s script term = explore fuel sc c s script term.
Proof.
  induction fuel as [|f IH]; intros sc sc' c s script term H; [reflexivity|].
  cbn [explore]. unfold candidate_labels, send_label. rewrite H.
  match goal with |- match ?l with [] => _ | _ => _ end = _ => destruct l as [|x r] end; [reflexivity|].
  generalize (@nil rq_outcome). generalize (x :: r). intros l.
  induction l as [|[[s' scr'] t'] l IHl]; intros acc; cbn; [reflexivity|].
  rewrite (IH sc sc' c s' scr' t' H). apply IHl.
Qed.

(* the outcomes of a script with stray datagrams are those of the script with pauses in their place *)
Theorem rq_outcomes_destray sc : rq_outcomes (scn_destray sc) = rq_outcomes sc.
Proof.
  unfold rq_outcomes. cbn [scn_destray sc_script]. rewrite map_length.
  change (scn_cfg (scn_destray sc)) with (scn_cfg sc).
  change (scn_init (scn_destray sc)) with (scn_init sc).
  rewrite explore_destray. apply explore_scn_ext. reflexivity.
Qed.

(* non-vacuity: a query whose destination sends nothing but is "answered" by two strays times out after its one
   datagram; with the genuine reply after the strays it returns the reply *)
Example strays_only_times_out :
  rq_outcomes (rq_mk_scn 1 false false false false None false false 0
                 [(QPGate 1, QAStray); (QPGate 1, QAStray)]) = [(1, 1, 2, false, false)].
Proof. vm_compute. reflexivity. Qed.

Example strays_then_reply :
  rq_outcomes (rq_mk_scn 1 false false false false None false false 0
                 [(QPGate 1, QAStray); (QPGate 1, QAStray); (QPGate 1, QAReply)]) = [(1, 1, 0, false, false)].
Proof. vm_compute. reflexivity. Qed.

(* six copies of the reply while the sender is held inside its write: the outcome of one copy *)
Example six_copies_in_write :
  rq_outcomes (rq_mk_scn 1 false false false false None false false 0
                 (repeat (QPWrite 1, QAReply) 6))
  = rq_outcomes (rq_mk_scn 1 false false false false None false false 0 [(QPWrite 1, QAReply)]).
Proof. vm_compute. reflexivity. Qed.
