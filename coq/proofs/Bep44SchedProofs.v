(* Bep44SchedProofs.v — concurrent theory of the BEP 44 store wrapper (C13, schedules).
   Threads run Wrapper.Put / Wrapper.Get as programs whose atomic steps are the underlying store's
   Get/Put/Del calls plus lock acquire/release ([Bep44.thread_step]); a schedule is any list of thread
   ids.  With the lock ([locking = true]) every run is linearizable: each change of the store is one
   complete sequential Wrapper operation, and the final state is a sequential execution of the
   threads in the order they released the lock.  Everything about sequence numbers then follows from
   the sequential theory.  Without the lock (the pinned tree) this fails: see the refutations at the
   end. *)
From Dht Require Import Base Bep44 Int160Proofs Bep44Proofs Sha1.
From DhtGen Require Import Params.
Local Open Scope Z_scope.

(* ---------- list update ---------- *)
Lemma length_upd {A} (l : list A) n x : length (upd l n x) = length l.
Proof. revert n. induction l as [|y l IH]; intros [|n]; cbn; auto. Qed.

Lemma nth_error_upd_same {A} (l : list A) n x y :
  nth_error l n = Some y -> nth_error (upd l n x) n = Some x.
Proof. revert n. induction l as [|z l IH]; intros [|n]; cbn; intros H; try discriminate; auto. Qed.

Lemma nth_error_upd_other {A} (l : list A) n m x :
  n <> m -> nth_error (upd l n x) m = nth_error l m.
Proof.
  revert n m. induction l as [|z l IH]; intros [|n] [|m] H; cbn; auto; try congruence.
Qed.

Lemma NoDup_app_snoc {A} (l : list A) x : NoDup l -> ~ In x l -> NoDup (l ++ [x]).
Proof.
  induction l as [|y l IH]; intros Hnd Hin; cbn.
  - constructor; [intros []|constructor].
  - inversion Hnd as [|? ? Hy Hl]; subst. constructor.
    + rewrite in_app_iff. intros [H|[H|[]]]; [contradiction|]. subst. apply Hin. left. reflexivity.
    + apply IH; [exact Hl|]. intros H. apply Hin. right. exact H.
Qed.

Section Sched.
  Variable sha1 : bytes -> bytes.
  Variable ed_verify : bytes -> bytes -> bytes -> bool.
  Variable v : variant.
  Variable exp : Z.
  Variable ths : list thread.
  Variable s0 : store.

  Notation target := (target sha1).
  Notation check := (check ed_verify).
  Notation wrapper_put := (wrapper_put sha1 ed_verify).
  Notation thread_seq := (thread_seq sha1 ed_verify v exp).
  Notation thread_step := (thread_step sha1 ed_verify).
  Notation g_step := (g_step sha1 ed_verify).
  Notation g_next := (g_next sha1 ed_verify).
  Notation g_run := (g_run sha1 ed_verify).
  Notation enter := (enter ed_verify).

  Definition idle (p : pc) : Prop := p = PcInit \/ exists r, p = PcDone r.

  (* what the rest of the thread's program yields when it runs alone from [p] *)
  Definition finish (th : thread) (p : pc) (s : store) : option (tres * store) :=
    match p, th_op th with
    | PcPutGet, TPut i =>
        Some (match store_get (target i) s with
              | None => (RPut POk, store_put (target i) (stamp (th_now th) i) s)
              | Some st =>
                  match check_incoming v st i with
                  | Some e => (RPut (PErr e), s)
                  | None => (RPut POk, store_put (target i) (stamp (th_now th) i) s)
                  end
              end)
    | PcPutPut, TPut i => Some (RPut POk, store_put (target i) (stamp (th_now th) i) s)
    | PcGetGet, TGet t => Some (let '(r, s') := wrapper_get exp (th_now th) t s in (RGet r, s'))
    | PcGetDel, TGet t => Some (RGet None, store_del t s)
    | PcUnlock r, _ => Some (r, s)
    | _, _ => None
    end.

  Lemma finish_enter th s : finish th (enter th) s = Some (thread_seq th s).
  Proof.
    unfold Bep44.enter, Bep44.thread_seq, finish. destruct (th_op th) as [i|t].
    - unfold Bep44.wrapper_put. destruct (check i) as [e|]; [reflexivity|].
      destruct (store_get (target i) s) as [st|]; [|reflexivity].
      destruct (check_incoming v st i); reflexivity.
    - reflexivity.
  Qed.

  Lemma enter_not_idle th : ~ idle (enter th).
  Proof.
    unfold Bep44.enter, idle. destruct (th_op th) as [i|t]; [destruct (check i)|];
      intros [H|[r H]]; discriminate.
  Qed.

  Lemma finish_not_idle th p s x : finish th p s = Some x -> ~ idle p.
  Proof. intros H [->|[r ->]]; cbn in H; destruct (th_op th); discriminate. Qed.

  (* one step of the lock holder keeps [finish]; the store moves only on the last store call *)
  Lemma step_finish th tid p s lock p' s' l' x :
    finish th p s = Some x ->
    thread_step true v exp th tid p s lock = Some (p', s', l') ->
    (exists r, p = PcUnlock r /\ p' = PcDone r /\ s' = s /\ l' = None) \/
    ((forall r, p <> PcUnlock r) /\ l' = lock /\ finish th p' s' = Some x /\
     (s' = s \/ exists r, p' = PcUnlock r)).
  Proof.
    unfold finish, Bep44.thread_step. intros F H.
    destruct p as [| | | | |r|r]; destruct (th_op th) as [i|t] eqn:O; try discriminate;
      try (left; exists r; injection H as <- <- <-; auto; fail).
    - (* PcPutGet *)
      right. split; [discriminate|].
      destruct (store_get (target i) s) as [st|] eqn:G.
      + destruct (check_incoming v st i) as [e|] eqn:C; injection H as <- <- <-; rewrite ?O; auto.
      + injection H as <- <- <-. auto.
    - (* PcPutPut *)
      right. split; [discriminate|]. injection H as <- <- <-. split; [reflexivity|]. split; [exact F|].
      right. eauto.
    - (* PcGetGet *)
      right. split; [discriminate|]. unfold Bep44.wrapper_get in F.
      destruct (store_get t s) as [i|] eqn:G.
      + destruct (th_now th <? it_created i + exp); injection H as <- <- <-; rewrite ?O; auto.
      + injection H as <- <- <-. auto.
    - (* PcGetDel *)
      right. split; [discriminate|]. injection H as <- <- <-. split; [reflexivity|]. split; [exact F|].
      right. eauto.
  Qed.

  (* sequential executions of threads, with the result each one got *)
  Inductive lin : list (nat * tres) -> store -> Prop :=
  | lin_nil : lin [] s0
  | lin_snoc h s tid th :
      lin h s -> nth_error ths tid = Some th ->
      lin (h ++ [(tid, fst (thread_seq th s))]) (snd (thread_seq th s)).

  (* the lock invariant *)
  Definition Inv (g : gstate) : Prop :=
    length (g_pcs g) = length ths /\
    exists hist S,
      lin hist S /\ NoDup (map fst hist) /\
      (forall tid r, nth_error (g_pcs g) tid = Some (PcDone r) <-> In (tid, r) hist) /\
      match g_lock g with
      | None =>
          g_store g = S /\ forall tid p, nth_error (g_pcs g) tid = Some p -> idle p
      | Some h =>
          exists th p,
            nth_error ths h = Some th /\ nth_error (g_pcs g) h = Some p /\
            finish th p (g_store g) = Some (thread_seq th S) /\
            ((forall r, p <> PcUnlock r) -> g_store g = S) /\
            forall tid p', tid <> h -> nth_error (g_pcs g) tid = Some p' -> idle p'
      end.

  Lemma Inv_init : Inv (g_init ths s0).
  Proof.
    unfold Inv, g_init. cbn [g_pcs g_lock g_store]. split; [apply map_length|].
    exists [], s0. split; [constructor|]. split; [constructor|]. split.
    - intros tid r. split; [|intros []]. intros H. exfalso.
      rewrite nth_error_map in H. destruct (nth_error ths tid); discriminate.
    - split; [reflexivity|]. intros tid p H. rewrite nth_error_map in H.
      destruct (nth_error ths tid); [|discriminate]. injection H as <-. left. reflexivity.
  Qed.

  (* every store change of the concurrent system is one whole sequential operation *)
  Definition atomic_change (g g' : gstate) : Prop :=
    g_store g' = g_store g \/
    exists th, In th ths /\ g_store g' = snd (thread_seq th (g_store g)).

  Lemma Inv_step g tid g' :
    Inv g -> g_step true v exp ths g tid = Some g' -> Inv g' /\ atomic_change g g'.
  Proof.
    intros [Hlen [hist [S [Hlin [Hnd [Hdone Hlock]]]]]] Hstep.
    unfold Bep44.g_step in Hstep.
    destruct (nth_error ths tid) as [th|] eqn:Eth; [|discriminate].
    destruct (nth_error (g_pcs g) tid) as [p|] eqn:Ep; [|discriminate].
    destruct (thread_step true v exp th tid p (g_store g) (g_lock g)) as [[[p' s'] l']|] eqn:Ets; [|discriminate].
    injection Hstep as <-.
    destruct (g_lock g) as [h|] eqn:El.
    - (* the lock is held by h *)
      destruct Hlock as [th' [ph [Eth' [Eph [Hfin [Hst Hidle]]]]]].
      destruct (Nat.eq_dec tid h) as [->|Hne].
      2:{ exfalso. destruct (Hidle tid p Hne Ep) as [->|[r ->]]; cbn in Ets; destruct (th_op th); discriminate. }
      rewrite Eth in Eth'. injection Eth' as <-. rewrite Ep in Eph. injection Eph as <-.
      destruct (step_finish th h p (g_store g) (Some h) p' s' l' _ Hfin Ets)
        as [[r [-> [-> [-> ->]]]]|[Hnu [-> [Hfin' Hs']]]].
      + (* release: the operation is complete, append it to the linearization *)
        cbn [finish] in Hfin. injection Hfin as Hfin.
        assert (Hr : r = fst (thread_seq th S)) by (rewrite <- Hfin; reflexivity).
        assert (Hs : g_store g = snd (thread_seq th S)) by (rewrite <- Hfin; reflexivity).
        split; [|left; reflexivity].
        unfold Inv. cbn [g_pcs g_lock g_store]. split; [rewrite length_upd; exact Hlen|].
        exists (hist ++ [(h, r)]), (g_store g). split.
        { rewrite Hr, Hs. apply lin_snoc; assumption. }
        assert (Hnotin : ~ In h (map fst hist)).
        { intros Hin. apply in_map_iff in Hin. destruct Hin as [[h' r'] [E Hin]]. cbn in E. subst h'.
          apply Hdone in Hin. rewrite Ep in Hin. discriminate. }
        split.
        { rewrite map_app. cbn [map fst]. apply NoDup_app_snoc; assumption. }
        split.
        { intros tid r'. rewrite in_app_iff. cbn [In]. destruct (Nat.eq_dec tid h) as [->|Hne].
          - rewrite (nth_error_upd_same _ _ _ _ Ep). split.
            + intros E. injection E as <-. right. left. reflexivity.
            + intros [Hin|[E|[]]]; [|injection E as <-; reflexivity].
              exfalso. apply Hnotin. apply in_map_iff. exists (h, r'). auto.
          - rewrite nth_error_upd_other by congruence. rewrite Hdone. split; [auto|].
            intros [Hin|[E|[]]]; [exact Hin|]. injection E as E _. congruence. }
        split; [reflexivity|].
        intros tid p0 E. destruct (Nat.eq_dec tid h) as [->|Hne].
        * rewrite (nth_error_upd_same _ _ _ _ Ep) in E. injection E as <-. right. eauto.
        * rewrite nth_error_upd_other in E by congruence. eapply Hidle; eauto.
      + (* an inner step of the holder *)
        assert (HS : g_store g = S) by (apply Hst, Hnu).
        split.
        * unfold Inv. cbn [g_pcs g_lock g_store]. split; [rewrite length_upd; exact Hlen|].
          exists hist, S. split; [exact Hlin|]. split; [exact Hnd|]. split.
          { intros tid r'. destruct (Nat.eq_dec tid h) as [->|Hne].
            - rewrite (nth_error_upd_same _ _ _ _ Ep). rewrite <- Hdone, Ep. split; intros E.
              + exfalso. injection E as ->. apply (finish_not_idle _ _ _ _ Hfin'). right. eauto.
              + exfalso. injection E as ->. apply (finish_not_idle _ _ _ _ Hfin). right. eauto.
            - rewrite nth_error_upd_other by congruence. apply Hdone. }
          exists th, p'. split; [exact Eth|]. split; [apply (nth_error_upd_same _ _ _ _ Ep)|].
          split; [exact Hfin'|]. split.
          { intros Hnu'. destruct Hs' as [->|[r ->]]; [exact HS|]. exfalso. eapply Hnu'. reflexivity. }
          intros tid p0 Hne E. rewrite nth_error_upd_other in E by congruence. eapply Hidle; eauto.
        * unfold atomic_change. cbn [g_store]. destruct Hs' as [->|[r ->]]; [left; reflexivity|].
          right. exists th. split; [eapply nth_error_In; eauto|].
          cbn [finish] in Hfin'. injection Hfin' as Hfin'. rewrite HS, <- Hfin'. reflexivity.
    - (* the lock is free: only a waiting thread can move, and it acquires *)
      destruct Hlock as [HS Hidle].
      destruct (Hidle tid p Ep) as [->|[r ->]]; cbn in Ets; [|destruct (th_op th); discriminate].
      assert (E : (p', s', l') = (enter th, g_store g, Some tid)) by (destruct (th_op th); congruence).
      injection E as -> -> ->.
      split; [|left; reflexivity].
      unfold Inv. cbn [g_pcs g_lock g_store]. split; [rewrite length_upd; exact Hlen|].
      exists hist, S. split; [exact Hlin|]. split; [exact Hnd|]. split.
      { intros tid' r'. destruct (Nat.eq_dec tid' tid) as [->|Hne].
        - rewrite (nth_error_upd_same _ _ _ _ Ep). rewrite <- Hdone, Ep. split; intros E; [|discriminate].
          exfalso. apply (enter_not_idle th). right. exists r'. congruence.
        - rewrite nth_error_upd_other by congruence. apply Hdone. }
      exists th, (enter th). split; [exact Eth|]. split; [apply (nth_error_upd_same _ _ _ _ Ep)|].
      split; [rewrite HS; apply finish_enter|]. split; [intros _; exact HS|].
      intros tid' p0 Hne E. rewrite nth_error_upd_other in E by congruence. eapply Hidle; eauto.
  Qed.

  Lemma Inv_next g tid : Inv g -> Inv (g_next true v exp ths g tid) /\ atomic_change g (g_next true v exp ths g tid).
  Proof.
    intros H. unfold Bep44.g_next. destruct (g_step true v exp ths g tid) as [g'|] eqn:E.
    - apply (Inv_step g tid g' H E).
    - split; [exact H|left; reflexivity].
  Qed.

  Theorem Inv_run sched : forall g, Inv g -> Inv (g_run true v exp ths sched g).
  Proof.
    induction sched as [|tid sched IH]; intros g H; [exact H|].
    cbn [Bep44.g_run fold_left]. apply IH, Inv_next, H.
  Qed.

  Theorem Inv_reachable sched : Inv (g_run true v exp ths sched (g_init ths s0)).
  Proof. apply Inv_run, Inv_init. Qed.

  (* ---- mutual exclusion, as a property of reachable states ---- *)
  Theorem mutual_exclusion sched tid1 tid2 p1 p2 :
    let g := g_run true v exp ths sched (g_init ths s0) in
    nth_error (g_pcs g) tid1 = Some p1 -> nth_error (g_pcs g) tid2 = Some p2 ->
    ~ idle p1 -> ~ idle p2 -> tid1 = tid2 /\ g_lock g = Some tid1.
  Proof.
    cbv zeta. intros E1 E2 N1 N2.
    destruct (Inv_reachable sched) as [_ [hist [S [_ [_ [_ Hlock]]]]]].
    destruct (g_lock _) as [h|].
    - destruct Hlock as [th [p [_ [_ [_ [_ Hidle]]]]]].
      destruct (Nat.eq_dec tid1 h) as [->|H1]; [|exfalso; eapply N1, Hidle; eauto].
      destruct (Nat.eq_dec tid2 h) as [->|H2]; [|exfalso; eapply N2, Hidle; eauto]. auto.
    - destruct Hlock as [_ Hidle]. exfalso. eapply N1, Hidle; eauto.
  Qed.

  (* ---- the C12 store invariant holds in every reachable state of every schedule ---- *)
  Lemma atomic_change_store_ok g g' :
    atomic_change g g' -> store_ok sha1 ed_verify (g_store g) -> store_ok sha1 ed_verify (g_store g').
  Proof.
    intros [E|[th [_ E]]] H; rewrite E; [exact H|].
    unfold Bep44.thread_seq. destruct (th_op th) as [i|t].
    - pose proof (wrapper_put_ok_inv sha1 ed_verify v (th_now th) i _ H) as H'.
      destruct (wrapper_put v (th_now th) i (g_store g)). exact H'.
    - pose proof (wrapper_get_ok_inv sha1 ed_verify exp (th_now th) t _ H) as H'.
      destruct (wrapper_get exp (th_now th) t (g_store g)). exact H'.
  Qed.

  Theorem sched_store_ok sched :
    store_ok sha1 ed_verify s0 ->
    store_ok sha1 ed_verify (g_store (g_run true v exp ths sched (g_init ths s0))).
  Proof.
    intros H0.
    assert (G : forall sched g, Inv g -> store_ok sha1 ed_verify (g_store g) ->
                                store_ok sha1 ed_verify (g_store (g_run true v exp ths sched g))).
    { clear sched. induction sched as [|tid sched IH]; intros g HI Hs; [exact Hs|].
      cbn [Bep44.g_run fold_left]. destruct (Inv_next g tid HI) as [HI' Hat].
      apply IH; [exact HI'|]. eapply atomic_change_store_ok; eauto. }
    apply G; [apply Inv_init|exact H0].
  Qed.

  (* ---- stepwise monotonicity under every schedule ---- *)
  Lemma thread_seq_mono th s t a :
    seq_of t s = Some a ->
    (exists b, seq_of t (snd (thread_seq th s)) = Some b /\ a <= b) \/
    (seq_of t (snd (thread_seq th s)) = None /\ th_op th = TGet t /\
     exists i, store_get t s = Some i /\ it_created i + exp <= th_now th).
  Proof.
    intros Ha. unfold Bep44.thread_seq. destruct (th_op th) as [i|tt] eqn:O.
    - left. pose proof (wrapper_put_mono sha1 ed_verify v (th_now th) i s t a Ha) as H.
      destruct (wrapper_put v (th_now th) i s). exact H.
    - destruct (wrapper_get_frame exp (th_now th) tt s t) as [E|[-> [E X]]];
        destruct (wrapper_get exp (th_now th) tt s) as [r s1]; cbn [snd] in *.
      + left. exists a. unfold seq_of in *. rewrite E. split; [exact Ha|lia].
      + right. unfold seq_of. rewrite E. auto.
  Qed.

  Theorem sched_step_monotone sched tid t a :
    let g := g_run true v exp ths sched (g_init ths s0) in
    let g' := g_next true v exp ths g tid in
    seq_of t (g_store g) = Some a ->
    (exists b, seq_of t (g_store g') = Some b /\ a <= b) \/
    (seq_of t (g_store g') = None /\
     exists th i, In th ths /\ th_op th = TGet t /\ store_get t (g_store g) = Some i /\
                  it_created i + exp <= th_now th).
  Proof.
    cbv zeta. intros Ha.
    destruct (Inv_next _ tid (Inv_reachable sched)) as [_ [E|[th [Hin E]]]]; rewrite E.
    - left. exists a. split; [exact Ha|lia].
    - destruct (thread_seq_mono th _ t a Ha) as [H|[H1 [H2 [i [H3 H4]]]]]; [left; exact H|right].
      split; [exact H1|]. exists th, i. auto.
  Qed.

  (* the slot stays occupied along the schedule *)
  Fixpoint g_alive (t : bytes) (sched : list nat) (g : gstate) : Prop :=
    match sched with
    | [] => True
    | tid :: r =>
        let g' := g_next true v exp ths g tid in
        seq_of t (g_store g') <> None /\ g_alive t r g'
    end.

  Lemma run_monotone_from t sched : forall g a,
    Inv g -> seq_of t (g_store g) = Some a -> g_alive t sched g ->
    exists b, seq_of t (g_store (g_run true v exp ths sched g)) = Some b /\ a <= b.
  Proof.
    induction sched as [|tid sched IH]; intros g a HI Ha Hal.
    - exists a. split; [exact Ha|lia].
    - cbn [g_alive] in Hal. destruct Hal as [Hne Hal]. cbn [Bep44.g_run fold_left].
      destruct (Inv_next g tid HI) as [HI' Hat].
      assert (Hb : exists b, seq_of t (g_store (g_next true v exp ths g tid)) = Some b /\ a <= b).
      { destruct Hat as [E|[th [Hin E]]]; rewrite E in *.
        - exists a. split; [exact Ha|lia].
        - destruct (thread_seq_mono th _ t a Ha) as [H|[H _]]; [exact H|contradiction]. }
      destruct Hb as [b [Hb Hab]]. destruct (IH _ b HI' Hb Hal) as [c [Hc Hbc]].
      exists c. split; [exact Hc|lia].
  Qed.

  (* over every schedule, from any point of it: while the item lives its seq never decreases *)
  Theorem sched_monotone t sched1 sched2 a :
    let g1 := g_run true v exp ths sched1 (g_init ths s0) in
    seq_of t (g_store g1) = Some a -> g_alive t sched2 g1 ->
    exists b, seq_of t (g_store (g_run true v exp ths sched2 g1)) = Some b /\ a <= b.
  Proof. cbv zeta. intros Ha Hal. apply (run_monotone_from t sched2 _ a (Inv_reachable sched1) Ha Hal). Qed.

  (* ---- linearizability of complete runs ---- *)
  Definition all_done (g : gstate) : Prop :=
    forall tid, (tid < length ths)%nat -> exists r, nth_error (g_pcs g) tid = Some (PcDone r).

  Theorem sched_linearizable sched :
    let g := g_run true v exp ths sched (g_init ths s0) in
    all_done g ->
    exists hist,
      lin hist (g_store g) /\ NoDup (map fst hist) /\
      (forall tid r, nth_error (g_pcs g) tid = Some (PcDone r) <-> In (tid, r) hist) /\
      (forall tid, (tid < length ths)%nat <-> In tid (map fst hist)).
  Proof.
    cbv zeta. intros Hall.
    destruct (Inv_reachable sched) as [Hlen [hist [S [Hlin [Hnd [Hdone Hlock]]]]]].
    exists hist.
    assert (HS : g_store (g_run true v exp ths sched (g_init ths s0)) = S).
    { destruct (g_lock _) as [h|]; [|tauto].
      destruct Hlock as [th [p [Eth [Ep [Hfin _]]]]]. exfalso.
      assert (Hh : (h < length ths)%nat) by (apply nth_error_Some; congruence).
      destruct (Hall h Hh) as [r Er]. rewrite Ep in Er. injection Er as ->.
      apply (finish_not_idle _ _ _ _ Hfin). right. eauto. }
    rewrite HS. split; [exact Hlin|]. split; [exact Hnd|]. split; [exact Hdone|].
    intros tid. split.
    - intros Ht. destruct (Hall tid Ht) as [r Er]. apply Hdone in Er.
      apply in_map_iff. exists (tid, r). auto.
    - intros Hin. apply in_map_iff in Hin. destruct Hin as [[tid' r] [E Hin]]. cbn in E. subst tid'.
      apply Hdone in Hin. rewrite <- Hlen. apply nth_error_Some. congruence.
  Qed.

  (* ---- what a linearization of puts leaves in a slot ---- *)
  Definition accepted_put (hist : list (nat * tres)) (t : bytes) (tid : nat) (th : thread) (i : item) : Prop :=
    In (tid, RPut POk) hist /\ nth_error ths tid = Some th /\ th_op th = TPut i /\ target i = t.

  Lemma lin_final_put hist S :
    lin hist S ->
    (forall tid r, In (tid, r) hist -> forall th, nth_error ths tid = Some th -> exists i, th_op th = TPut i) ->
    forall t,
      (store_get t S = store_get t s0 /\ forall tid th i, ~ accepted_put hist t tid th i) \/
      (exists tid th i,
         accepted_put hist t tid th i /\ store_get t S = Some (stamp (th_now th) i) /\
         forall tid' th' i', accepted_put hist t tid' th' i' -> it_seq i' <= it_seq i).
  Proof.
    induction 1 as [|h s tid th Hlin IH Eth]; intros Hputs t.
    - left. split; [reflexivity|]. intros tid th i [[] _].
    - assert (Hputs' : forall tid r, In (tid, r) h -> forall th, nth_error ths tid = Some th -> exists i, th_op th = TPut i).
      { intros tid' r' Hin. apply (Hputs tid' r'). apply in_app_iff. auto. }
      specialize (IH Hputs' t).
      assert (Hlast : In (tid, fst (thread_seq th s)) (h ++ [(tid, fst (thread_seq th s))])).
      { apply in_app_iff. right. left. reflexivity. }
      destruct (Hputs tid (fst (thread_seq th s)) Hlast th Eth) as [i Oi]. clear Hlast.
      unfold Bep44.thread_seq. rewrite Oi.
      assert (Hacc_old : forall r tid' th' i', r <> RPut POk \/ target i <> t ->
                accepted_put (h ++ [(tid, r)]) t tid' th' i' -> accepted_put h t tid' th' i').
      { intros r tid' th' i' Hr [Hin [E1 [E2 E3]]]. apply in_app_iff in Hin.
        destruct Hin as [Hin|[E|[]]]; [split; auto|]. exfalso. injection E as -> E.
        rewrite Eth in E1. injection E1 as <-. rewrite Oi in E2. injection E2 as <-.
        destruct Hr as [Hr|Hr]; [apply Hr; congruence|contradiction]. }
      assert (Hacc_mono : forall r tid' th' i',
                accepted_put h t tid' th' i' -> accepted_put (h ++ [(tid, r)]) t tid' th' i').
      { intros r tid' th' i' [Hin X]. split; [apply in_app_iff; auto|exact X]. }
      destruct (wrapper_put_cases sha1 ed_verify v (th_now th) i s) as [[e E]|[E [_ CI]]]; rewrite E; cbn [fst snd].
      + (* rejected: nothing changes *)
        destruct IH as [[G N]|[tid0 [th0 [i0 [A [G M]]]]]].
        * left. split; [exact G|]. intros tid' th' i' Ha. eapply N, Hacc_old; [|exact Ha]. left. discriminate.
        * right. exists tid0, th0, i0. split; [apply Hacc_mono, A|]. split; [exact G|].
          intros tid' th' i' Ha. eapply M, Hacc_old; [|exact Ha]. left. discriminate.
      + destruct (bytes_eqb_spec (target i) t) as [Et|Et].
        * (* accepted on this slot: it is the new content and dominates all earlier ones *)
          right. exists tid, th, i. split.
          { split; [apply in_app_iff; right; left; reflexivity|auto]. }
          split; [rewrite <- Et; apply store_get_put_same|].
          intros tid' th' i' [Hin [E1 [E2 E3]]]. apply in_app_iff in Hin.
          destruct Hin as [Hin|[Eq|[]]].
          -- destruct IH as [[_ N]|[tid0 [th0 [i0 [A [G M]]]]]].
             ++ exfalso. eapply N. split; eauto.
             ++ assert (L1 : it_seq i' <= it_seq i0) by (eapply M; split; eauto).
                rewrite Et, G in CI. apply check_incoming_none_seq in CI. cbn [stamp it_seq] in CI. lia.
          -- injection Eq as ->. rewrite Eth in E1. injection E1 as <-. rewrite Oi in E2. injection E2 as <-. lia.
        * (* accepted on another slot *)
          assert (G' : store_get t (store_put (target i) (stamp (th_now th) i) s) = store_get t s).
          { rewrite store_get_put. destruct (bytes_eqb_spec t (target i)); [congruence|reflexivity]. }
          rewrite G'.
          destruct IH as [[G N]|[tid0 [th0 [i0 [A [G M]]]]]].
          -- left. split; [exact G|]. intros tid' th' i' Ha. eapply N, Hacc_old; [|exact Ha]. auto.
          -- right. exists tid0, th0, i0. split; [apply Hacc_mono, A|]. split; [exact G|].
             intros tid' th' i' Ha. eapply M, Hacc_old; [|exact Ha]. auto.
  Qed.

  (* any number of concurrent puts, any interleaving: when all have returned, each slot holds either
     what it held initially (no put on it was accepted) or the item of an accepted put whose seq is
     the greatest among all accepted puts on that slot *)
  Theorem sched_final_put sched t :
    let g := g_run true v exp ths sched (g_init ths s0) in
    (forall th, In th ths -> exists i, th_op th = TPut i) ->
    all_done g ->
    let accepted tid th i :=
      nth_error (g_pcs g) tid = Some (PcDone (RPut POk)) /\ nth_error ths tid = Some th /\
      th_op th = TPut i /\ target i = t in
    (store_get t (g_store g) = store_get t s0 /\ forall tid th i, ~ accepted tid th i) \/
    (exists tid th i,
       accepted tid th i /\ store_get t (g_store g) = Some (stamp (th_now th) i) /\
       forall tid' th' i', accepted tid' th' i' -> it_seq i' <= it_seq i).
  Proof.
    cbv zeta. intros Hputs Hall.
    destruct (sched_linearizable sched Hall) as [hist [Hlin [_ [Hdone _]]]].
    assert (Hp : forall tid r, In (tid, r) hist -> forall th, nth_error ths tid = Some th -> exists i, th_op th = TPut i).
    { intros tid r _ th E. apply Hputs. eapply nth_error_In; eauto. }
    destruct (lin_final_put hist _ Hlin Hp t) as [[G N]|[tid [th [i [[A1 A2] [G M]]]]]].
    - left. split; [exact G|]. intros tid th i [A1 A2]. apply (N tid th i). split; [apply Hdone, A1|exact A2].
    - right. exists tid, th, i. split; [split; [apply Hdone, A1|exact A2]|]. split; [exact G|].
      intros tid' th' i' [B1 B2]. apply (M tid' th' i'). split; [apply Hdone, B1|exact B2].
  Qed.
End Sched.

(* ================= refutations for the pinned tree (findings D6, D7) ================= *)
(* Concrete instances: the real SHA-1 and a verifier that accepts the witness signatures. *)
Definition ver_all (k m sg : bytes) : bool := true.

Definition wk : bytes := x01 :: repeat x00 31.
Definition wsig : bytes := repeat x00 64.
Definition witem (bv : bytes) (cas seq : Z) : item := mkItem bv wk [] wsig cas seq 0.
Definition wt : bytes := target sha1 (witem [x69; x31; x65] 0 0).

(* D6 (a): stored seq 5; a put with seq 6 and cas 3 (a stale expectation) is accepted by the pinned
   rule because it looks at the stored item's own cas field (0 here), and rejected by the repaired rule *)
Theorem cas_mismatch_accepted_pinned :
  exists hist : list event,
    let run v := seq_run sha1 ver_all v 1000 hist (mkSState 0 []) in
    let put := witem [x69; x32; x65] 3 6 in
    seq_of wt (s_store (run Pinned)) = Some 5 /\
    fst (wrapper_put sha1 ver_all Pinned 0 put (s_store (run Pinned))) = POk /\
    fst (wrapper_put sha1 ver_all Repaired 0 put (s_store (run Repaired))) = PErr 301.
Proof. exists [EPut (witem [x69; x31; x65] 0 5)]. vm_compute. repeat split. Qed.

(* D6 (b): stored (seq 5, own cas 7); a put with seq 6 and the right cas 5 is rejected with 301 *)
Theorem cas_match_rejected_pinned :
  exists hist : list event,
    let run v := seq_run sha1 ver_all v 1000 hist (mkSState 0 []) in
    let put := witem [x69; x32; x65] 5 6 in
    seq_of wt (s_store (run Pinned)) = Some 5 /\
    fst (wrapper_put sha1 ver_all Pinned 0 put (s_store (run Pinned))) = PErr 301 /\
    fst (wrapper_put sha1 ver_all Repaired 0 put (s_store (run Repaired))) = POk.
Proof. exists [EPut (witem [x69; x31; x65] 7 5)]. vm_compute. repeat split. Qed.

(* D7 (a): two unlocked puts (seq 5, seq 3) over seq 1: both pass CheckIncoming against seq 1, then
   the stored seq goes 5 -> 3 and both callers were told "stored" *)
Theorem lost_update_pinned :
  exists (ths : list thread) (sched1 : list nat) (tid : nat),
    let s0 := snd (wrapper_put sha1 ver_all Pinned 0 (witem [x69; x31; x65] 0 1) []) in
    let g1 := g_run sha1 ver_all false Pinned 1000 ths sched1 (g_init ths s0) in
    let g2 := g_next sha1 ver_all false Pinned 1000 ths g1 tid in
    seq_of wt s0 = Some 1 /\
    seq_of wt (g_store g1) = Some 5 /\ seq_of wt (g_store g2) = Some 3 /\
    nth_error (g_pcs g2) 0 = Some (PcUnlock (RPut POk)) /\ nth_error (g_pcs g2) 1 = Some (PcUnlock (RPut POk)).
Proof.
  exists [mkThread (TPut (witem [x69; x35; x65] 0 5)) 10; mkThread (TPut (witem [x69; x33; x65] 0 3)) 10],
         [0; 1; 0; 1; 0]%nat, 1%nat.
  vm_compute. repeat split.
Qed.

(* the same threads and schedule with the lock: thread 1 cannot even start before thread 0 is done,
   and its put is then refused with 302 *)
Example lost_update_repaired :
  let ths := [mkThread (TPut (witem [x69; x35; x65] 0 5)) 10; mkThread (TPut (witem [x69; x33; x65] 0 3)) 10] in
  let s0 := snd (wrapper_put sha1 ver_all Repaired 0 (witem [x69; x31; x65] 0 1) []) in
  let g := g_run sha1 ver_all true Repaired 1000 ths [0; 1; 0; 1; 0; 1; 0; 1; 1; 1; 1]%nat (g_init ths s0) in
  seq_of wt (g_store g) = Some 5 /\
  g_pcs g = [PcDone (RPut POk); PcDone (RPut (PErr 302))].
Proof. vm_compute. repeat split. Qed.

(* D7 (b): an unlocked get that found an expired item deletes the fresh item a concurrent put stored *)
Theorem fresh_item_deleted_pinned :
  exists (ths : list thread) (sched : list nat),
    let s0 := snd (wrapper_put sha1 ver_all Pinned 0 (witem [x69; x31; x65] 0 1) []) in
    let g := g_run sha1 ver_all false Pinned 1000 ths sched (g_init ths s0) in
    g_pcs g = [PcDone (RGet None); PcDone (RPut POk)] /\ store_get wt (g_store g) = None.
Proof.
  exists [mkThread (TGet wt) 2000; mkThread (TPut (witem [x69; x32; x65] 0 2)) 2000],
         [0; 1; 0; 1; 1; 0; 0; 1]%nat.
  vm_compute. repeat split.
Qed.

(* D2: the pinned client dereferences a nil seq when a reply carries the right key and no seq *)
Theorem client_panic_pinned :
  exists (tgt salt : bytes) (replies : list reply),
    client_get sha1 ver_all Pinned tgt salt replies None = COPanic /\
    client_get sha1 ver_all Repaired tgt salt replies None = COResult None.
Proof.
  exists (sha1 wk), [], [mkReply [] wk wsig None]. vm_compute. split; reflexivity.
Qed.
