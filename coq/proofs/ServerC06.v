(* ServerC06.v — C06: only directly verified contacts enter the routing table; good ones are never
   evicted; an eligible sender is admitted whenever its bucket has room.
   All statements are about [step] of model/Server.v, generic in the Section parameters. *)
From Dht Require Import Base Int160 Msg Server ServerDefs Int160Proofs.
From DhtGen Require Import Params.
From Coq Require Import ZifyN ZifyNat ZifyBool.
Local Arguments N.pow : simpl never.
Local Arguments Ok {A} _.
Local Arguments Panic {A}.

(* ------------------------------------------------------------------ generic helpers *)
Lemma key_eqb_eq x y : key_eqb x y = true <-> x = y.
Proof.
  unfold key_eqb. destruct x as [a b], y as [c d]; cbn [fst snd].
  rewrite andb_true_iff, bytes_eqb_eq, N.eqb_eq.
  split; [intros [-> ->]; reflexivity | intros H; inversion H; auto].
Qed.

Lemma same_node_key k id m : same_node k id m = true <-> node_key m = (id, k).
Proof.
  unfold same_node, node_key. rewrite andb_true_iff, N.eqb_eq, key_eqb_eq.
  split; [intros [-> ->]; reflexivity | intros H; inversion H; auto].
Qed.

Lemma remove_first_split {A} (p : A -> bool) l :
  existsb p l = true ->
  exists l1 v l2, l = l1 ++ v :: l2 /\ p v = true /\ (forall y, In y l1 -> p y = false) /\
                  remove_first p l = l1 ++ l2.
Proof.
  induction l as [|x l IH]; cbn [existsb remove_first]; [discriminate|].
  destruct (p x) eqn:E.
  - intros _. exists [], x, l. cbn. repeat split; auto. intros y [].
  - cbn [orb]. intros H. destruct (IH H) as (l1 & v & l2 & -> & Hv & Hl & Hr).
    exists (x :: l1), v, l2. cbn. rewrite Hr. repeat split; auto.
    intros y [<-|Hy]; auto.
Qed.

Lemma NoDup_map_inj {A B} (f : A -> B) l a b :
  NoDup (map f l) -> In a l -> In b l -> f a = f b -> a = b.
Proof.
  induction l as [|x l IH]; cbn [map In]; [intros _ []|].
  intros Hnd Ha Hb E. inversion Hnd as [|y l' Hn Hnd' Heq]; subst.
  destruct Ha as [->|Ha], Hb as [->|Hb]; auto.
  - exfalso. apply Hn. rewrite E. apply in_map; exact Hb.
  - exfalso. apply Hn. rewrite <- E. apply in_map; exact Ha.
Qed.

Lemma find_split {A} (p : A -> bool) l v :
  find p l = Some v ->
  exists l1 l2, l = l1 ++ v :: l2 /\ p v = true /\ (forall y, In y l1 -> p y = false).
Proof.
  induction l as [|x l IH]; cbn [find]; [discriminate|].
  destruct (p x) eqn:E.
  - intros H; inversion H; subst. exists [], l. cbn. repeat split; auto. intros y [].
  - intros H. destruct (IH H) as (l1 & l2 & -> & Hv & Hl).
    exists (x :: l1), l2. cbn. repeat split; auto. intros y [<-|Hy]; auto.
Qed.

Section C06.
  Variable Store : Type.
  Variable w_put : Store -> witem -> Z -> Store * put_result.
  Variable w_get : Store -> bytes -> Z -> Store * get_result.
  Variable sha1 : bytes -> bytes.
  Variable id_secure : N -> bytes -> bool.
  Variable cfg : config.

  Notation sstate := (sstate Store).
  Notation step := (step Store w_put w_get sha1 id_secure cfg).
  Notation update_node := (update_node Store id_secure cfg).
  Notation add_node := (add_node Store id_secure cfg).
  Notation drop_node := (drop_node Store cfg).
  Notation table_add := (table_add Store cfg).
  Notation dispatch := (dispatch Store w_put w_get sha1 id_secure cfg).
  Notation handle_query := (handle_query Store w_put w_get sha1 id_secure cfg).
  Notation node_bad := (node_bad id_secure cfg).
  Notation node_good := (node_good id_secure cfg).
  Notation evictable := (evictable id_secure cfg).
  Notation slot_of := (slot_of cfg).
  Notation Inv := (Inv Store cfg).
  Notation s_nodes := (s_nodes Store).
  Notation s_now := (s_now Store).
  Notation s_pending := (s_pending Store).
  Notation s_closed := (s_closed Store).
  Notation s_blocklist := (s_blocklist Store).
  Notation SR := (SR Store).
  Notation HQ := (HQ Store).

  (* ---------------------------------------------------------------- definitions used in statements *)
  (* the datagram passes the filters of serve() / processPacket before it is decoded *)
  Definition passes_filters (s : sstate) (src : addr) (size : N) : Prop :=
    size <> Z.to_N udp_buf /\ port src <> 0%N /\ s_closed s = false /\
    blocked (s_blocklist s) (ip src) = false.

  (* the routing-table keys of a state *)
  Definition keys (s : sstate) : list (N * (bytes * N)) := map node_key (s_nodes s).

  (* m, received from src, answers one of this node's own pending queries *)
  Definition solicited (s : sstate) (src : addr) (m : msg) : Prop :=
    exists x, In x (s_pending s) /\ txn_match (addr_key src) (m_t m) x = true.

  (* ---------------------------------------------------------------- apply_update *)
  Lemma apply_update_id now u n : n_id (apply_update now u n) = n_id n.
  Proof. destruct u; reflexivity. Qed.
  Lemma apply_update_addr now u n : n_addr (apply_update now u n) = n_addr n.
  Proof. destruct u; reflexivity. Qed.
  Lemma apply_update_slot now u n : n_slot (apply_update now u n) = n_slot n.
  Proof. destruct u; reflexivity. Qed.
  Lemma apply_update_key now u n : node_key (apply_update now u n) = node_key n.
  Proof. destruct u; reflexivity. Qed.

  (* ---------------------------------------------------------------- drop_node / table_add *)
  Lemma drop_node_spec s v s1 :
    drop_node s v = Ok s1 ->
    exists l1 m l2, s_nodes s = l1 ++ m :: l2 /\ node_key m = node_key v /\
                    s_nodes s1 = l1 ++ l2 /\ s_now s1 = s_now s.
  Proof.
    unfold Server.drop_node.
    destruct (negb (index_has _ _ _)); [discriminate|].
    destruct (N.eqb _ _); [discriminate|].
    match goal with |- context[negb (existsb ?p ?l)] => destruct (existsb p l) eqn:E end;
      cbn [negb]; [|discriminate].
    intros H; inversion H; subst; clear H. cbn [Server.s_nodes Server.s_now].
    destruct (remove_first_split _ _ E) as (l1 & m & l2 & H1 & H2 & _ & H4).
    exists l1, m, l2. rewrite H4. repeat split; auto.
    apply andb_true_iff in H2 as [_ H2]. apply same_node_key in H2. exact H2.
  Qed.

  Lemma table_add_spec s n s2 :
    table_add s n = Ok s2 ->
    s_nodes s2 = s_nodes s ++ [mkNode (n_id n) (n_addr n) (n_lq n) (n_lr n) (n_failed n) (slot_of (n_id n))]
    /\ s_now s2 = s_now s
    /\ (length (bucket (s_nodes s) (slot_of (n_id n))) < K)%nat.
  Proof.
    unfold Server.table_add.
    destruct (N.eqb _ _); [discriminate|].
    destruct (existsb _ _); [discriminate|].
    destruct (Nat.leb _ _) eqn:E; [discriminate|].
    intros H; inversion H; subst; clear H. cbn. apply Nat.leb_gt in E. auto.
  Qed.

  (* ---------------------------------------------------------------- add_node *)
  (* how the node list changes when [n0] is inserted *)
  Inductive table_delta (nodes : list node) (now : Z) (n0 : node) (victim : option ((bytes * N) * N))
            (nodes' : list node) : Prop :=
  | td_room :
      victim = None -> (length (bucket nodes (n_slot n0)) < K)%nat ->
      nodes' = nodes ++ [n0] -> table_delta nodes now n0 victim nodes'
  | td_evict vk vid v l1 m l2 :
      victim = Some (vk, vid) -> (K <= length (bucket nodes (n_slot n0)))%nat ->
      In v nodes -> n_slot v = n_slot n0 -> evictable now n0 v = true ->
      nodes = l1 ++ m :: l2 -> node_key m = node_key v ->
      nodes' = l1 ++ l2 ++ [n0] -> table_delta nodes now n0 victim nodes'.

  Lemma add_node_spec s n victim s2 r :
    add_node s n victim = Ok (s2, r) -> n_slot n = slot_of (n_id n) ->
    (r <> Added /\ s2 = s) \/
    (r = Added /\ node_bad n = false /\ table_delta (s_nodes s) (s_now s) n victim (s_nodes s2) /\
     s_now s2 = s_now s).
  Proof.
    intros H Hslot. unfold Server.add_node in H.
    assert (Hn : mkNode (n_id n) (n_addr n) (n_lq n) (n_lr n) (n_failed n) (slot_of (n_id n)) = n).
    { rewrite <- Hslot. destruct n; reflexivity. }
    destruct (node_bad n) eqn:Ebad.
    { inversion H; subst. left; split; [discriminate|reflexivity]. }
    destruct (Nat.leb K _) eqn:Efull.
    - apply Nat.leb_le in Efull.
      destruct (filter _ _) as [|c0 cs] eqn:Ec.
      + destruct victim; inversion H; subst; left; split; (discriminate || reflexivity).
      + destruct victim as [[vk vid]|]; [|inversion H; subst; left; split; (discriminate || reflexivity)].
        destruct (find _ _) as [v|] eqn:Ef; [|inversion H; subst; left; split; (discriminate || reflexivity)].
        destruct (drop_node s v) as [s1|] eqn:Ed; [|discriminate].
        destruct (table_add s1 n) as [s3|] eqn:Et; [|discriminate].
        inversion H; subst; clear H. right.
        apply find_some in Ef as [Hin _]. rewrite <- Ec in Hin.
        apply filter_In in Hin as [Hb Hev]. unfold bucket in Hb. apply filter_In in Hb as [Hv Hs].
        apply Nat.eqb_eq in Hs.
        destruct (drop_node_spec _ _ _ Ed) as (l1 & m & l2 & E1 & E2 & E3 & E4).
        destruct (table_add_spec _ _ _ Et) as (F1 & F2 & _).
        rewrite Hn in F1.
        split; [reflexivity|]. split; [reflexivity|]. split; [|congruence].
        eapply td_evict with (v := v) (m := m) (l1 := l1) (l2 := l2); eauto.
        * rewrite Hslot. exact Efull.
        * congruence.
        * rewrite F1, E3, app_assoc. reflexivity.
    - apply Nat.leb_gt in Efull.
      destruct victim; [inversion H; subst; left; split; (discriminate || reflexivity)|].
      destruct (table_add s n) as [s3|] eqn:Et; [|discriminate].
      inversion H; subst; clear H. right.
      destruct (table_add_spec _ _ _ Et) as (F1 & F2 & _). rewrite Hn in F1.
      split; [reflexivity|]. split; [reflexivity|]. split; [|exact F2].
      apply td_room; auto. rewrite Hslot. exact Efull.
  Qed.

  (* ---------------------------------------------------------------- replace_node *)
  Lemma replace_node_spec k id f l :
    (exists l1 m l2, l = l1 ++ m :: l2 /\ same_node k id m = true /\
                     replace_node cfg k id f l = l1 ++ f m :: l2)
    \/ replace_node cfg k id f l = l.
  Proof.
    induction l as [|x l IH]; cbn [replace_node]; [right; reflexivity|].
    destruct (Nat.eqb _ _ && same_node k id x) eqn:E.
    - left. exists [], x, l. apply andb_true_iff in E as [_ E]. cbn. auto.
    - destruct IH as [(l1 & m & l2 & -> & Hm & Hr)|Hr].
      + left. exists (x :: l1), m, l2. cbn. rewrite Hr. auto.
      + right. rewrite Hr. reflexivity.
  Qed.

  (* ---------------------------------------------------------------- update_node *)
  Inductive upd_delta (nodes : list node) (now : Z) (a : addr) (id : option N) (ta : bool) (u : upd_kind)
            (victim : option ((bytes * N) * N)) (nodes' : list node) : Prop :=
  | ud_same : nodes' = nodes -> upd_delta nodes now a id ta u victim nodes'
  | ud_touch i l1 m l2 :
      id = Some i -> victim = None -> nodes = l1 ++ m :: l2 -> node_key m = (i, addr_key a) ->
      nodes' = l1 ++ apply_update now u m :: l2 -> upd_delta nodes now a id ta u victim nodes'
  | ud_add i n0 :
      id = Some i -> ta = true -> i <> c_root cfg -> get_node cfg nodes a i = None ->
      n0 = apply_update now u (mkNode i a None None false (slot_of i)) ->
      node_bad n0 = false -> table_delta nodes now n0 victim nodes' ->
      upd_delta nodes now a id ta u victim nodes'.

  Lemma update_node_spec s a id ta u victim s1 r :
    update_node s a id ta u victim = Ok (s1, r) -> r <> BadChoice ->
    s_now s1 = s_now s /\ upd_delta (s_nodes s) (s_now s) a id ta u victim (s_nodes s1).
  Proof.
    intros H Hr. unfold Server.update_node in H.
    destruct id as [i|].
    2:{ inversion H; subst. split; [reflexivity|apply ud_same; reflexivity]. }
    destruct (get_node cfg (s_nodes s) a i) as [g|] eqn:Eg.
    - destruct victim; inversion H; subst; [congruence|]. cbn. split; [reflexivity|].
      destruct (replace_node_spec (addr_key a) i (apply_update (s_now s) u) (s_nodes s))
        as [(l1 & m & l2 & E1 & E2 & E3)|E3].
      + eapply ud_touch; eauto. apply same_node_key; exact E2.
      + apply ud_same. exact E3.
    - destruct (negb ta || N.eqb i (c_root cfg)) eqn:E.
      { inversion H; subst. split; [reflexivity|apply ud_same; reflexivity]. }
      apply orb_false_iff in E as [E1 E2]. apply negb_false_iff in E1. apply N.eqb_neq in E2.
      apply add_node_spec in H.
      2:{ rewrite apply_update_slot, apply_update_id. reflexivity. }
      destruct H as [[_ ->]|(-> & Hb & Hd & Hn)].
      + split; [reflexivity|apply ud_same; reflexivity].
      + split; [exact Hn|]. eapply ud_add; eauto.
  Qed.

  (* ---------------------------------------------------------------- replies never touch the table *)
  Lemma write_rated_frame s dst m k :
    s_nodes (fst (write_rated Store s dst m k)) = s_nodes s /\
    s_now (fst (write_rated Store s dst m k)) = s_now s.
  Proof.
    unfold write_rated. destruct (s_closed s); [auto|]. destruct (blocked _ _); [auto|].
    destruct (Server.s_budget Store s) as [[|p]|]; cbn; auto.
  Qed.

  Lemma dispatch_frame s src m ch s' out :
    dispatch s src m ch = HQ s' out -> s_nodes s' = s_nodes s /\ s_now s' = s_now s.
  Proof.
    intros H. unfold Server.dispatch in H.
    repeat match type of H with
           | context[match ?x with _ => _ end] => destruct x eqn:?
           end;
      try discriminate;
      unfold lift, reply, send_error in *;
      repeat match goal with
             | E : write_rated Store ?sx ?d ?mm ?k = (_, _) |- _ =>
                 let F := fresh in
                 pose proof (write_rated_frame sx d mm k) as F; rewrite E in F; cbn [fst] in F; clear E
             end;
      inversion H; subst; clear H;
      repeat match goal with
             | |- context[write_rated Store ?sx ?d ?mm ?k] =>
                 let F := fresh in
                 pose proof (write_rated_frame sx d mm k) as F; revert F;
                 generalize (write_rated Store sx d mm k); intros ? F
             end;
      cbn in *; intuition congruence.
  Qed.

  (* ---------------------------------------------------------------- how a step reaches update_node *)
  Lemma handle_query_spec s src m ch s' out :
    handle_query s src m ch = HQ s' out ->
    exists s1 r,
      update_node s src (option_map id_of (sender_id m)) (negb (m_ro m)) UQuery (ch_victim ch) = Ok (s1, r)
      /\ r <> BadChoice /\ s_nodes s' = s_nodes s1 /\ s_now s' = s_now s1.
  Proof.
    unfold Server.handle_query.
    destruct (update_node s src _ _ UQuery _) as [[s1 r]|] eqn:Eu; [|discriminate].
    intros H. exists s1, r. split; [reflexivity|].
    destruct r; try discriminate; (split; [discriminate|]);
      (destruct (negb (c_hook cfg m)); [inversion H; auto|];
       destruct (c_passive cfg); [inversion H; auto|];
       apply dispatch_frame in H; exact H).
  Qed.

  Lemma step_packet s src size dec ch s' out :
    step s (EPacket src size dec) ch = SR s' out ->
    (s' = s /\ out = [] /\
     (~ passes_filters s src size \/ dec = None \/
      exists m, dec = Some m /\ m_y m <> s_q /\ ~ solicited s src m))
    \/
    exists m s0 u s1 r,
      dec = Some m /\ passes_filters s src size /\
      ((m_y m = s_q /\ s0 = s /\ u = UQuery) \/
       (m_y m <> s_q /\ u = UResponse /\ s_nodes s0 = s_nodes s /\ s_now s0 = s_now s /\
        exists x, In x (s_pending s) /\ txn_match (addr_key src) (m_t m) x = true /\
                  out = [ECompleted (tx_qid x) m])) /\
      update_node s0 src (option_map id_of (sender_id m)) (negb (m_ro m)) u (ch_victim ch) = Ok (s1, r) /\
      r <> BadChoice /\ s_nodes s' = s_nodes s1 /\ s_now s' = s_now s1.
  Proof.
    unfold Server.step. intros H.
    destruct (N.eqb size (Z.to_N udp_buf)) eqn:E1.
    { inversion H; subst. left. repeat split; auto. left. intros (F & _). apply N.eqb_eq in E1. auto. }
    destruct (N.eqb (port src) 0) eqn:E2.
    { inversion H; subst. left. repeat split; auto. left. intros (_ & F & _). apply N.eqb_eq in E2. auto. }
    destruct (s_closed s) eqn:E3.
    { inversion H; subst. left. repeat split; auto. left. intros (_ & _ & F & _). congruence. }
    destruct (blocked (s_blocklist s) (ip src)) eqn:E4.
    { inversion H; subst. left. repeat split; auto. left. intros (_ & _ & _ & F). congruence. }
    assert (Hpf : passes_filters s src size).
    { unfold passes_filters. apply N.eqb_neq in E1, E2. auto. }
    destruct dec as [m|]; [|inversion H; subst; left; auto].
    destruct (bytes_eqb (m_y m) s_q) eqn:Ey.
    - apply bytes_eqb_eq in Ey.
      destruct (handle_query s src m ch) as [s2 o2| |] eqn:Eh; try discriminate.
      inversion H; subst; clear H.
      apply handle_query_spec in Eh as (s1 & r & Hu & Hr & Hn & Ht).
      right. exists m, s, UQuery, s1, r.
      split; [reflexivity|]. split; [exact Hpf|]. split; [left; auto|]. split; [exact Hu|]. auto.
    - assert (Hy : m_y m <> s_q).
      { intros F. apply bytes_eqb_eq in F. congruence. }
      destruct (find (txn_match (addr_key src) (m_t m)) (s_pending s)) as [x|] eqn:Ef.
      + match type of H with context[update_node ?s0 _ _ _ _ _] => set (s0' := s0) in * end.
        destruct (update_node s0' src _ _ UResponse _) as [[s1 r]|] eqn:Eu; [|discriminate].
        apply find_some in Ef as [Hx1 Hx2].
        destruct r; try discriminate; inversion H; subst; clear H; right;
          exists m, s0'; eexists UResponse, _, _; (split; [reflexivity|]); (split; [exact Hpf|]);
          (split; [right; repeat split; auto; exists x; auto|]);
          (split; [exact Eu|]); (split; [discriminate|]); auto.
      + inversion H; subst; clear H. left. repeat split; auto. right; right. exists m.
        repeat split; auto. intros (x & Hx1 & Hx2).
        pose proof (find_none _ _ Ef x Hx1). congruence.
  Qed.

  (* the table update an event performs: whose entry, with try-add or not, which time stamp *)
  Inductive origin (s : sstate) : event -> addr -> option N -> bool -> upd_kind -> Prop :=
  | o_query src size m :
      passes_filters s src size -> m_y m = s_q ->
      origin s (EPacket src size (Some m)) src (option_map id_of (sender_id m)) (negb (m_ro m)) UQuery
  | o_resp src size m :
      passes_filters s src size -> m_y m <> s_q -> solicited s src m ->
      origin s (EPacket src size (Some m)) src (option_map id_of (sender_id m)) (negb (m_ro m)) UResponse
  | o_api i p id : origin s (EAddNode i p id) (mkAddr i p) (Some id) true UNone
  | o_fail a id : origin s (EFailedPing a id) a (Some id) false UFailedPing.

  Lemma step_table s e ch s' out :
    step s e ch = SR s' out ->
    s_nodes s' = s_nodes s \/
    exists a id ta u victim,
      origin s e a id ta u /\ upd_delta (s_nodes s) (s_now s) a id ta u victim (s_nodes s').
  Proof.
    destruct e as [src size dec|d|i p id|qid dst q a rated t|qid|a id|bl|].
    - intros H. apply step_packet in H as [(-> & _)|(m & s0 & u & s1 & r & -> & Hpf & Hc & Hu & Hr & Hn & Ht)];
        [left; reflexivity|].
      apply update_node_spec in Hu as [_ Hd]; [|exact Hr]. right.
      destruct Hc as [(Hy & -> & ->)|(Hy & -> & Hn0 & Ht0 & x & Hx1 & Hx2 & _)].
      + do 5 eexists. split; [apply o_query; eauto|]. rewrite Hn. exact Hd.
      + do 5 eexists. split; [apply o_resp; eauto; exists x; auto|]. rewrite Hn, <- Hn0, <- Ht0. exact Hd.
    - unfold Server.step. intros H; inversion H; subst. left; reflexivity.
    - unfold Server.step. destruct (update_node s _ _ _ _ _) as [[s1 r]|] eqn:Eu; [|discriminate].
      intros H. assert (Hr : r <> BadChoice) by (destruct r; congruence).
      assert (s' = s1) by (destruct r; congruence). subst s1.
      apply update_node_spec in Eu as [_ Hd]; [|exact Hr]. right.
      do 5 eexists. split; [apply o_api|exact Hd].
    - unfold Server.step. intros H.
      repeat match type of H with
             | context[match ?x with _ => _ end] => destruct x eqn:?
             end; try discriminate; inversion H; subst; left; reflexivity.
    - unfold Server.step. destruct (existsb _ _); intros H; inversion H; subst; left; reflexivity.
    - unfold Server.step. destruct (update_node s _ _ _ _ _) as [[s1 r]|] eqn:Eu; [|discriminate].
      intros H. inversion H; subst; clear H.
      assert (Hr : r <> BadChoice).
      { intros ->. unfold Server.update_node in Eu.
        destruct (get_node _ _ _ _); cbn in Eu; inversion Eu. }
      right. apply update_node_spec in Eu as [_ Hd]; [|exact Hr].
      do 5 eexists. split; [apply o_fail|exact Hd].
    - unfold Server.step. intros H; inversion H; subst. left; reflexivity.
    - unfold Server.step. intros H; inversion H; subst. left; reflexivity.
  Qed.

End C06.
