(* ServerC06.v — C06: only directly verified contacts enter the routing table; good ones are never
   evicted; an eligible sender is admitted whenever its bucket has room.
   All statements are about [step] of model/Server.v, generic in the Section parameters. *)
From Dht Require Import Base Int160 Msg Server ServerDefs Int160Proofs.
From DhtGen Require Import Params.
From Coq Require Import ZifyN ZifyNat ZifyBool.
Local Arguments N.pow : simpl never.
Local Arguments Ok {A} _.
Local Arguments Panic {A}.

(* ------------------------------------------------------------------ generic helpers *)
Lemma key_eqb_eq x y : key_eqb x y = true <-> x = y.
Proof.
  unfold key_eqb. destruct x as [a b], y as [c d]; cbn [fst snd].
  rewrite andb_true_iff, bytes_eqb_eq, N.eqb_eq.
  split; [intros [-> ->]; reflexivity | intros H; inversion H; auto].
Qed.

Lemma same_node_key k id m : same_node k id m = true <-> node_key m = (id, k).
Proof.
  unfold same_node, node_key. rewrite andb_true_iff, N.eqb_eq, key_eqb_eq.
  split; [intros [-> ->]; reflexivity | intros H; inversion H; auto].
Qed.

Lemma remove_first_split {A} (p : A -> bool) l :
  existsb p l = true ->
  exists l1 v l2, l = l1 ++ v :: l2 /\ p v = true /\ (forall y, In y l1 -> p y = false) /\
                  remove_first p l = l1 ++ l2.
Proof.
  induction l as [|x l IH]; cbn [existsb remove_first]; [discriminate|].
  destruct (p x) eqn:E.
  - intros _. exists [], x, l. cbn. repeat split; auto. intros y [].
  - cbn [orb]. intros H. destruct (IH H) as (l1 & v & l2 & -> & Hv & Hl & Hr).
    exists (x :: l1), v, l2. cbn. rewrite Hr. repeat split; auto.
    intros y [<-|Hy]; auto.
Qed.

Lemma NoDup_map_inj {A B} (f : A -> B) l a b :
  NoDup (map f l) -> In a l -> In b l -> f a = f b -> a = b.
Proof.
  induction l as [|x l IH]; cbn [map In]; [intros _ []|].
  intros Hnd Ha Hb E. inversion Hnd as [|y l' Hn Hnd' Heq]; subst.
  destruct Ha as [->|Ha], Hb as [->|Hb]; auto.
  - exfalso. apply Hn. rewrite E. apply in_map; exact Hb.
  - exfalso. apply Hn. rewrite <- E. apply in_map; exact Ha.
Qed.

Lemma find_split {A} (p : A -> bool) l v :
  find p l = Some v ->
  exists l1 l2, l = l1 ++ v :: l2 /\ p v = true /\ (forall y, In y l1 -> p y = false).
Proof.
  induction l as [|x l IH]; cbn [find]; [discriminate|].
  destruct (p x) eqn:E.
  - intros H; inversion H; subst. exists [], l. cbn. repeat split; auto. intros y [].
  - intros H. destruct (IH H) as (l1 & l2 & -> & Hv & Hl).
    exists (x :: l1), l2. cbn. repeat split; auto. intros y [<-|Hy]; auto.
Qed.

Section C06.
  Variable Store : Type.
  Variable w_put : Store -> witem -> Z -> Store * put_result.
  Variable w_get : Store -> bytes -> Z -> Store * get_result.
  Variable sha1 : bytes -> bytes.
  Variable id_secure : N -> bytes -> bool.
  Variable cfg : config.

  Notation sstate := (sstate Store).
  Notation step := (step Store w_put w_get sha1 id_secure cfg).
  Notation update_node := (update_node Store id_secure cfg).
  Notation add_node := (add_node Store id_secure cfg).
  Notation drop_node := (drop_node Store cfg).
  Notation table_add := (table_add Store cfg).
  Notation dispatch := (dispatch Store w_put w_get sha1 id_secure cfg).
  Notation handle_query := (handle_query Store w_put w_get sha1 id_secure cfg).
  Notation node_bad := (node_bad id_secure cfg).
  Notation node_good := (node_good id_secure cfg).
  Notation evictable := (evictable id_secure cfg).
  Notation slot_of := (slot_of cfg).
  Notation Inv := (Inv Store cfg).
  Notation s_nodes := (s_nodes Store).
  Notation s_now := (s_now Store).
  Notation s_pending := (s_pending Store).
  Notation s_closed := (s_closed Store).
  Notation s_blocklist := (s_blocklist Store).
  Notation SR := (SR Store).
  Notation HQ := (HQ Store).

  (* ---------------------------------------------------------------- definitions used in statements *)
  (* the datagram passes the filters of serve() / processPacket before it is decoded *)
  Definition passes_filters (s : sstate) (src : addr) (size : N) : Prop :=
    size <> Z.to_N udp_buf /\ port src <> 0%N /\ s_closed s = false /\
    blocked (s_blocklist s) (ip src) = false.

  (* the routing-table keys of a state *)
  Definition keys (s : sstate) : list (N * (bytes * N)) := map node_key (s_nodes s).

  (* m, received from src, answers one of this node's own pending queries *)
  Definition solicited (s : sstate) (src : addr) (m : msg) : Prop :=
    exists x, In x (s_pending s) /\ txn_match (addr_key src) (m_t m) x = true.

  (* ---------------------------------------------------------------- apply_update *)
  Lemma apply_update_id now u n : n_id (apply_update now u n) = n_id n.
  Proof. destruct u; reflexivity. Qed.
  Lemma apply_update_addr now u n : n_addr (apply_update now u n) = n_addr n.
  Proof. destruct u; reflexivity. Qed.
  Lemma apply_update_slot now u n : n_slot (apply_update now u n) = n_slot n.
  Proof. destruct u; reflexivity. Qed.
  Lemma apply_update_key now u n : node_key (apply_update now u n) = node_key n.
  Proof. destruct u; reflexivity. Qed.

  (* ---------------------------------------------------------------- drop_node / table_add *)
  Lemma drop_node_spec s v s1 :
    drop_node s v = Ok s1 ->
    exists l1 m l2, s_nodes s = l1 ++ m :: l2 /\ node_key m = node_key v /\
                    s_nodes s1 = l1 ++ l2 /\ s_now s1 = s_now s.
  Proof.
    unfold Server.drop_node.
    destruct (negb (index_has _ _ _)); [discriminate|].
    destruct (N.eqb _ _); [discriminate|].
    match goal with |- context[negb (existsb ?p ?l)] => destruct (existsb p l) eqn:E end;
      cbn [negb]; [|discriminate].
    intros H; inversion H; subst; clear H. cbn [Server.s_nodes Server.s_now].
    destruct (remove_first_split _ _ E) as (l1 & m & l2 & H1 & H2 & _ & H4).
    exists l1, m, l2. rewrite H4. repeat split; auto.
    apply andb_true_iff in H2 as [_ H2]. apply same_node_key in H2. exact H2.
  Qed.

  Lemma table_add_spec s n s2 :
    table_add s n = Ok s2 ->
    s_nodes s2 = s_nodes s ++ [mkNode (n_id n) (n_addr n) (n_lq n) (n_lr n) (n_failed n) (slot_of (n_id n))]
    /\ s_now s2 = s_now s
    /\ (length (bucket (s_nodes s) (slot_of (n_id n))) < K)%nat.
  Proof.
    unfold Server.table_add.
    destruct (N.eqb _ _); [discriminate|].
    destruct (existsb _ _); [discriminate|].
    destruct (Nat.leb _ _) eqn:E; [discriminate|].
    intros H; inversion H; subst; clear H. cbn. apply Nat.leb_gt in E. auto.
  Qed.

  (* ---------------------------------------------------------------- add_node *)
  (* how the node list changes when [n0] is inserted *)
  Inductive table_delta (nodes : list node) (now : Z) (n0 : node) (victim : option ((bytes * N) * N))
            (nodes' : list node) : Prop :=
  | td_room :
      victim = None -> (length (bucket nodes (n_slot n0)) < K)%nat ->
      nodes' = nodes ++ [n0] -> table_delta nodes now n0 victim nodes'
  | td_evict vk vid v l1 m l2 :
      victim = Some (vk, vid) -> (K <= length (bucket nodes (n_slot n0)))%nat ->
      In v nodes -> n_slot v = n_slot n0 -> evictable now n0 v = true ->
      nodes = l1 ++ m :: l2 -> node_key m = node_key v ->
      nodes' = l1 ++ l2 ++ [n0] -> table_delta nodes now n0 victim nodes'.

  Lemma add_node_spec s n victim s2 r :
    add_node s n victim = Ok (s2, r) -> n_slot n = slot_of (n_id n) ->
    (r <> Added /\ s2 = s) \/
    (r = Added /\ node_bad n = false /\ table_delta (s_nodes s) (s_now s) n victim (s_nodes s2) /\
     s_now s2 = s_now s).
  Proof.
    intros H Hslot. unfold Server.add_node in H.
    assert (Hn : mkNode (n_id n) (n_addr n) (n_lq n) (n_lr n) (n_failed n) (slot_of (n_id n)) = n).
    { rewrite <- Hslot. destruct n; reflexivity. }
    destruct (node_bad n) eqn:Ebad.
    { inversion H; subst. left; split; [discriminate|reflexivity]. }
    destruct (Nat.leb K _) eqn:Efull.
    - apply Nat.leb_le in Efull.
      destruct (filter _ _) as [|c0 cs] eqn:Ec.
      + destruct victim; inversion H; subst; left; split; (discriminate || reflexivity).
      + destruct victim as [[vk vid]|]; [|inversion H; subst; left; split; (discriminate || reflexivity)].
        destruct (find _ _) as [v|] eqn:Ef; [|inversion H; subst; left; split; (discriminate || reflexivity)].
        destruct (drop_node s v) as [s1|] eqn:Ed; [|discriminate].
        destruct (table_add s1 n) as [s3|] eqn:Et; [|discriminate].
        inversion H; subst; clear H. right.
        apply find_some in Ef as [Hin _]. rewrite <- Ec in Hin.
        apply filter_In in Hin as [Hb Hev]. unfold bucket in Hb. apply filter_In in Hb as [Hv Hs].
        apply Nat.eqb_eq in Hs.
        destruct (drop_node_spec _ _ _ Ed) as (l1 & m & l2 & E1 & E2 & E3 & E4).
        destruct (table_add_spec _ _ _ Et) as (F1 & F2 & _).
        rewrite Hn in F1.
        split; [reflexivity|]. split; [reflexivity|]. split; [|congruence].
        eapply td_evict with (v := v) (m := m) (l1 := l1) (l2 := l2); eauto.
        * rewrite Hslot. exact Efull.
        * congruence.
        * rewrite F1, E3, app_assoc. reflexivity.
    - apply Nat.leb_gt in Efull.
      destruct victim; [inversion H; subst; left; split; (discriminate || reflexivity)|].
      destruct (table_add s n) as [s3|] eqn:Et; [|discriminate].
      inversion H; subst; clear H. right.
      destruct (table_add_spec _ _ _ Et) as (F1 & F2 & _). rewrite Hn in F1.
      split; [reflexivity|]. split; [reflexivity|]. split; [|exact F2].
      apply td_room; auto. rewrite Hslot. exact Efull.
  Qed.

  (* ---------------------------------------------------------------- replace_node *)
  Lemma replace_node_spec k id f l :
    (exists l1 m l2, l = l1 ++ m :: l2 /\ same_node k id m = true /\
                     replace_node cfg k id f l = l1 ++ f m :: l2)
    \/ replace_node cfg k id f l = l.
  Proof.
    induction l as [|x l IH]; cbn [replace_node]; [right; reflexivity|].
    destruct (Nat.eqb _ _ && same_node k id x) eqn:E.
    - left. exists [], x, l. apply andb_true_iff in E as [_ E]. cbn. auto.
    - destruct IH as [(l1 & m & l2 & -> & Hm & Hr)|Hr].
      + left. exists (x :: l1), m, l2. cbn. rewrite Hr. auto.
      + right. rewrite Hr. reflexivity.
  Qed.

  (* ---------------------------------------------------------------- update_node *)
  Inductive upd_delta (nodes : list node) (now : Z) (a : addr) (id : option N) (ta : bool) (u : upd_kind)
            (victim : option ((bytes * N) * N)) (nodes' : list node) : Prop :=
  | ud_same : nodes' = nodes -> upd_delta nodes now a id ta u victim nodes'
  | ud_touch i l1 m l2 :
      id = Some i -> victim = None -> nodes = l1 ++ m :: l2 -> node_key m = (i, addr_key a) ->
      nodes' = l1 ++ apply_update now u m :: l2 -> upd_delta nodes now a id ta u victim nodes'
  | ud_add i n0 :
      id = Some i -> ta = true -> i <> c_root cfg -> get_node cfg nodes a i = None ->
      n0 = apply_update now u (mkNode i a None None false (slot_of i)) ->
      node_bad n0 = false -> table_delta nodes now n0 victim nodes' ->
      upd_delta nodes now a id ta u victim nodes'.

  Lemma update_node_spec s a id ta u victim s1 r :
    update_node s a id ta u victim = Ok (s1, r) -> r <> BadChoice ->
    s_now s1 = s_now s /\ upd_delta (s_nodes s) (s_now s) a id ta u victim (s_nodes s1).
  Proof.
    intros H Hr. unfold Server.update_node in H.
    destruct id as [i|].
    2:{ inversion H; subst. split; [reflexivity|apply ud_same; reflexivity]. }
    destruct (get_node cfg (s_nodes s) a i) as [g|] eqn:Eg.
    - destruct victim; inversion H; subst; [congruence|]. cbn. split; [reflexivity|].
      destruct (replace_node_spec (addr_key a) i (apply_update (s_now s) u) (s_nodes s))
        as [(l1 & m & l2 & E1 & E2 & E3)|E3].
      + eapply ud_touch; eauto. apply same_node_key; exact E2.
      + apply ud_same. exact E3.
    - destruct (negb ta || N.eqb i (c_root cfg)) eqn:E.
      { inversion H; subst. split; [reflexivity|apply ud_same; reflexivity]. }
      apply orb_false_iff in E as [E1 E2]. apply negb_false_iff in E1. apply N.eqb_neq in E2.
      apply add_node_spec in H.
      2:{ rewrite apply_update_slot, apply_update_id. reflexivity. }
      destruct H as [[_ ->]|(-> & Hb & Hd & Hn)].
      + split; [reflexivity|apply ud_same; reflexivity].
      + split; [exact Hn|]. eapply ud_add; eauto.
  Qed.

  (* ---------------------------------------------------------------- replies never touch the table *)
  Lemma write_rated_frame s dst m k :
    s_nodes (fst (write_rated Store s dst m k)) = s_nodes s /\
    s_now (fst (write_rated Store s dst m k)) = s_now s.
  Proof.
    unfold write_rated. destruct (s_closed s); [auto|]. destruct (blocked _ _); [auto|].
    destruct (Server.s_budget Store s) as [[|p]|]; cbn; auto.
  Qed.

  Lemma dispatch_frame s src m ch s' out :
    dispatch s src m ch = HQ s' out -> s_nodes s' = s_nodes s /\ s_now s' = s_now s.
  Proof.
    intros H. unfold Server.dispatch in H.
    repeat match type of H with
           | context[match ?x with _ => _ end] => destruct x eqn:?
           end;
      try discriminate;
      unfold lift, reply, send_error in *;
      repeat match goal with
             | E : write_rated Store ?sx ?d ?mm ?k = (_, _) |- _ =>
                 let F := fresh in
                 pose proof (write_rated_frame sx d mm k) as F; rewrite E in F; cbn [fst] in F; clear E
             end;
      inversion H; subst; clear H;
      repeat match goal with
             | |- context[write_rated Store ?sx ?d ?mm ?k] =>
                 let F := fresh in
                 pose proof (write_rated_frame sx d mm k) as F; revert F;
                 generalize (write_rated Store sx d mm k); intros ? F
             end;
      cbn in *; intuition congruence.
  Qed.

  (* ---------------------------------------------------------------- how a step reaches update_node *)
  Lemma handle_query_spec s src m ch s' out :
    handle_query s src m ch = HQ s' out ->
    exists s1 r,
      update_node s src (option_map id_of (sender_id m)) (negb (m_ro m)) UQuery (ch_victim ch) = Ok (s1, r)
      /\ r <> BadChoice /\ s_nodes s' = s_nodes s1 /\ s_now s' = s_now s1.
  Proof.
    unfold Server.handle_query.
    destruct (update_node s src _ _ UQuery _) as [[s1 r]|] eqn:Eu; [|discriminate].
    intros H. exists s1, r. split; [reflexivity|].
    destruct r; try discriminate; (split; [discriminate|]);
      (destruct (negb (c_hook cfg m)); [inversion H; auto|];
       destruct (c_passive cfg); [inversion H; auto|];
       apply dispatch_frame in H; exact H).
  Qed.

  Lemma step_packet s src size dec ch s' out :
    step s (EPacket src size dec) ch = SR s' out ->
    (s' = s /\ out = [] /\
     (~ passes_filters s src size \/ dec = None \/
      exists m, dec = Some m /\ m_y m <> s_q /\ ~ solicited s src m))
    \/
    exists m s0 u s1 r,
      dec = Some m /\ passes_filters s src size /\
      ((m_y m = s_q /\ s0 = s /\ u = UQuery) \/
       (m_y m <> s_q /\ u = UResponse /\ s_nodes s0 = s_nodes s /\ s_now s0 = s_now s /\
        exists x, In x (s_pending s) /\ txn_match (addr_key src) (m_t m) x = true /\
                  out = [ECompleted (tx_qid x) m])) /\
      update_node s0 src (option_map id_of (sender_id m)) (negb (m_ro m)) u (ch_victim ch) = Ok (s1, r) /\
      r <> BadChoice /\ s_nodes s' = s_nodes s1 /\ s_now s' = s_now s1.
  Proof.
    unfold Server.step. intros H.
    destruct (N.eqb size (Z.to_N udp_buf)) eqn:E1.
    { inversion H; subst. left. repeat split; auto. left. intros (F & _). apply N.eqb_eq in E1. auto. }
    destruct (N.eqb (port src) 0) eqn:E2.
    { inversion H; subst. left. repeat split; auto. left. intros (_ & F & _). apply N.eqb_eq in E2. auto. }
    destruct (s_closed s) eqn:E3.
    { inversion H; subst. left. repeat split; auto. left. intros (_ & _ & F & _). congruence. }
    destruct (blocked (s_blocklist s) (ip src)) eqn:E4.
    { inversion H; subst. left. repeat split; auto. left. intros (_ & _ & _ & F). congruence. }
    assert (Hpf : passes_filters s src size).
    { unfold passes_filters. apply N.eqb_neq in E1, E2. auto. }
    destruct dec as [m|]; [|inversion H; subst; left; auto].
    destruct (bytes_eqb (m_y m) s_q) eqn:Ey.
    - apply bytes_eqb_eq in Ey.
      destruct (handle_query s src m ch) as [s2 o2| |] eqn:Eh; try discriminate.
      inversion H; subst; clear H.
      apply handle_query_spec in Eh as (s1 & r & Hu & Hr & Hn & Ht).
      right. exists m, s, UQuery, s1, r.
      split; [reflexivity|]. split; [exact Hpf|]. split; [left; auto|]. split; [exact Hu|]. auto.
    - assert (Hy : m_y m <> s_q).
      { intros F. apply bytes_eqb_eq in F. congruence. }
      destruct (find (txn_match (addr_key src) (m_t m)) (s_pending s)) as [x|] eqn:Ef.
      + match type of H with context[update_node ?s0 _ _ _ _ _] => set (s0' := s0) in * end.
        destruct (update_node s0' src _ _ UResponse _) as [[s1 r]|] eqn:Eu; [|discriminate].
        apply find_some in Ef as [Hx1 Hx2].
        destruct r; try discriminate; inversion H; subst; clear H; right;
          exists m, s0'; eexists UResponse, _, _; (split; [reflexivity|]); (split; [exact Hpf|]);
          (split; [right; repeat split; auto; exists x; auto|]);
          (split; [exact Eu|]); (split; [discriminate|]); auto.
      + inversion H; subst; clear H. left. repeat split; auto. right; right. exists m.
        repeat split; auto. intros (x & Hx1 & Hx2).
        pose proof (find_none _ _ Ef x Hx1). congruence.
  Qed.

  (* the table update an event performs: whose entry, with try-add or not, which time stamp *)
  Inductive origin (s : sstate) : event -> addr -> option N -> bool -> upd_kind -> Prop :=
  | o_query src size m :
      passes_filters s src size -> m_y m = s_q ->
      origin s (EPacket src size (Some m)) src (option_map id_of (sender_id m)) (negb (m_ro m)) UQuery
  | o_resp src size m :
      passes_filters s src size -> m_y m <> s_q -> solicited s src m ->
      origin s (EPacket src size (Some m)) src (option_map id_of (sender_id m)) (negb (m_ro m)) UResponse
  | o_api i p id : origin s (EAddNode i p id) (mkAddr i p) (Some id) true UNone
  | o_fail a id : origin s (EFailedPing a id) a (Some id) false UFailedPing.

  Lemma step_table s e ch s' out :
    step s e ch = SR s' out ->
    s_nodes s' = s_nodes s \/
    exists a id ta u victim,
      origin s e a id ta u /\ upd_delta (s_nodes s) (s_now s) a id ta u victim (s_nodes s') /\
      (victim = ch_victim ch \/ victim = None).
  Proof.
    destruct e as [src size dec|d|i p id|qid dst q a rated t|qid|a id|bl|].
    - intros H. apply step_packet in H as [(-> & _)|(m & s0 & u & s1 & r & -> & Hpf & Hc & Hu & Hr & Hn & Ht)];
        [left; reflexivity|].
      apply update_node_spec in Hu as [_ Hd]; [|exact Hr]. right.
      destruct Hc as [(Hy & -> & ->)|(Hy & -> & Hn0 & Ht0 & x & Hx1 & Hx2 & _)].
      + do 5 eexists. split; [apply o_query; eauto|]. split; [rewrite Hn; exact Hd|left; reflexivity].
      + do 5 eexists. split; [apply o_resp; eauto; exists x; auto|].
        split; [rewrite Hn, <- Hn0, <- Ht0; exact Hd|left; reflexivity].
    - unfold Server.step. intros H; inversion H; subst. left; reflexivity.
    - unfold Server.step. destruct (update_node s _ _ _ _ _) as [[s1 r]|] eqn:Eu; [|discriminate].
      intros H. assert (Hr : r <> BadChoice) by (destruct r; congruence).
      assert (s' = s1) by (destruct r; congruence). subst s1.
      apply update_node_spec in Eu as [_ Hd]; [|exact Hr]. right.
      do 5 eexists. split; [apply o_api|]. split; [exact Hd|left; reflexivity].
    - unfold Server.step. intros H.
      repeat match type of H with
             | context[match ?x with _ => _ end] => destruct x eqn:?
             end; try discriminate; inversion H; subst; left; reflexivity.
    - unfold Server.step. destruct (existsb _ _); intros H; inversion H; subst; left; reflexivity.
    - unfold Server.step. destruct (update_node s _ _ _ _ _) as [[s1 r]|] eqn:Eu; [|discriminate].
      intros H. inversion H; subst; clear H.
      assert (Hr : r <> BadChoice).
      { intros ->. unfold Server.update_node in Eu.
        destruct (get_node _ _ _ _); cbn in Eu; inversion Eu. }
      right. apply update_node_spec in Eu as [_ Hd]; [|exact Hr].
      do 5 eexists. split; [apply o_fail|]. split; [exact Hd|right; reflexivity].
    - unfold Server.step. intros H; inversion H; subst. left; reflexivity.
    - unfold Server.step. intros H; inversion H; subst. left; reflexivity.
  Qed.

  (* ---------------------------------------------------------------- consequences of the deltas *)
  Lemma get_node_none nodes a i n :
    get_node cfg nodes a i = None -> i <> c_root cfg -> In n nodes -> n_slot n = slot_of i ->
    node_key n = (i, addr_key a) -> False.
  Proof.
    unfold get_node. intros H Hi Hin Hs Hk. apply N.eqb_neq in Hi. rewrite Hi in H.
    pose proof (find_none _ _ H n Hin) as F. cbn beta in F.
    rewrite Hs, Nat.eqb_refl in F. apply same_node_key in Hk. rewrite Hk in F. discriminate.
  Qed.

  Lemma node_bad_false n :
    node_bad n = false ->
    n_id n <> c_root cfg /\ n_id n <> 0%N /\
    (c_no_security cfg = true \/ id_secure (n_id n) (ip (n_addr n)) = true) /\ n_failed n = false.
  Proof.
    unfold Server.node_bad. intros H.
    apply orb_false_iff in H as [H H4]. apply orb_false_iff in H as [H H3].
    apply orb_false_iff in H as [H1 H2].
    apply N.eqb_neq in H1, H2. apply negb_false_iff, orb_true_iff in H3. auto.
  Qed.

  Lemma node_good_facts now n :
    node_good now n = true -> node_bad n = false /\ n_lr n <> None.
  Proof.
    unfold Server.node_good. intros H. apply andb_true_iff in H as [H1 H2].
    apply negb_true_iff in H1. split; [exact H1|].
    destruct (n_lr n); [discriminate|]. cbn in H2. discriminate.
  Qed.

  Lemma good_not_evictable now now' n0 n : node_good now n = true -> evictable now' n0 n = false.
  Proof.
    intros H. apply node_good_facts in H as [H1 H2]. unfold Server.evictable.
    rewrite H1. destruct (n_lr n); [|congruence]. rewrite andb_false_r. reflexivity.
  Qed.

  Lemma upd_delta_new nodes now a id ta u victim nodes' n :
    upd_delta nodes now a id ta u victim nodes' -> In n nodes' -> ~ In (node_key n) (map node_key nodes) ->
    exists i, id = Some i /\ ta = true /\ i <> c_root cfg /\
      n = apply_update now u (mkNode i a None None false (slot_of i)) /\ node_bad n = false /\
      get_node cfg nodes a i = None /\ table_delta nodes now n victim nodes'.
  Proof.
    intros Hd Hin Hnew. destruct Hd as [->|i l1 m l2 -> -> -> Hk ->|i n0 -> -> Hi Hg Hn0 Hb Ht].
    - exfalso. apply Hnew. apply in_map. exact Hin.
    - exfalso. apply Hnew. rewrite map_app, in_app_iff. cbn [map In].
      apply in_app_iff in Hin as [Hin|[<-|Hin]].
      + left. apply in_map; exact Hin.
      + right; left. rewrite apply_update_key. reflexivity.
      + right; right. apply in_map; exact Hin.
    - assert (n = n0).
      { destruct Ht as [_ _ ->|vk vid v l1 m l2 _ _ _ _ _ -> _ ->].
        - apply in_app_iff in Hin as [Hin|[<-|[]]]; [|reflexivity].
          exfalso. apply Hnew. apply in_map; exact Hin.
        - rewrite !in_app_iff in Hin. destruct Hin as [Hin|[Hin|[<-|[]]]]; [| |reflexivity];
            exfalso; apply Hnew; apply in_map; rewrite in_app_iff; cbn [In]; auto. }
      subst n0. exists i. subst n. repeat split; auto.
  Qed.

  Lemma upd_delta_fate nodes now a id ta u victim nodes' n :
    NoDup (map node_key nodes) -> upd_delta nodes now a id ta u victim nodes' -> In n nodes ->
    In (node_key n) (map node_key nodes') \/
    exists i n0, id = Some i /\ ta = true /\ i <> c_root cfg /\
      n0 = apply_update now u (mkNode i a None None false (slot_of i)) /\ node_bad n0 = false /\
      get_node cfg nodes a i = None /\ In n0 nodes' /\
      (K <= length (bucket nodes (n_slot n0)))%nat /\ n_slot n = n_slot n0 /\
      evictable now n0 n = true /\ victim <> None.
  Proof.
    intros Hnd Hd Hin. destruct Hd as [->|i l1 m l2 -> -> -> Hk ->|i n0 -> -> Hi Hg Hn0 Hb Ht].
    - left. apply in_map. exact Hin.
    - left. rewrite map_app, in_app_iff. cbn [map In].
      apply in_app_iff in Hin as [Hin|[<-|Hin]].
      + left. apply in_map; exact Hin.
      + right; left. rewrite apply_update_key. reflexivity.
      + right; right. apply in_map; exact Hin.
    - destruct Ht as [_ _ ->|vk vid v l1 m l2 -> Hfull Hv Hs He Hnodes Hk ->].
      + left. apply in_map. apply in_app_iff. auto.
      + rewrite Hnodes in Hin. apply in_app_iff in Hin as [Hin|[<-|Hin]].
        * left. apply in_map. rewrite !in_app_iff. auto.
        * assert (m = v).
          { apply (NoDup_map_inj node_key nodes); auto. rewrite Hnodes, in_app_iff. cbn; auto. }
          subst m. right. exists i, n0. repeat split; auto.
          -- rewrite !in_app_iff. cbn; auto.
          -- discriminate.
        * left. apply in_map. rewrite !in_app_iff. auto.
  Qed.

  Lemma upd_delta_kept nodes now a id ta u victim nodes' n n' :
    NoDup (map node_key nodes) -> (forall x, In x nodes -> n_slot x = slot_of (n_id x)) ->
    upd_delta nodes now a id ta u victim nodes' -> In n nodes -> In n' nodes' ->
    node_key n' = node_key n ->
    n' = n \/ (id = Some (n_id n) /\ addr_key a = addr_key (n_addr n) /\ n' = apply_update now u n).
  Proof.
    intros Hnd Hslot Hd Hin Hin' Hk.
    destruct Hd as [->|i l1 m l2 -> -> Hnodes Hkm ->|i n0 -> -> Hi Hg Hn0 Hb Ht].
    - left. apply (NoDup_map_inj node_key nodes); auto.
    - assert (Hm : In m nodes) by (rewrite Hnodes, in_app_iff; cbn; auto).
      apply in_app_iff in Hin' as [Hin'|[<-|Hin']].
      + left. apply (NoDup_map_inj node_key nodes); auto. rewrite Hnodes, in_app_iff; auto.
      + rewrite apply_update_key in Hk.
        assert (m = n) by (apply (NoDup_map_inj node_key nodes); auto). subst m.
        right. unfold node_key in Hkm. inversion Hkm. repeat split; congruence.
      + left. apply (NoDup_map_inj node_key nodes); auto. rewrite Hnodes, in_app_iff; cbn; auto.
    - assert (Hn0' : n' = n0 -> False).
      { intros ->. apply (get_node_none _ _ _ n Hg Hi Hin).
        - rewrite (Hslot n Hin). f_equal. unfold node_key in Hk.
          rewrite Hn0, apply_update_id, apply_update_addr in Hk. cbn in Hk. inversion Hk; auto.
        - rewrite <- Hk, Hn0, apply_update_key. reflexivity. }
      left. destruct Ht as [_ _ ->|vk vid v l1 m l2 _ _ _ _ _ Hnodes _ ->].
      + apply in_app_iff in Hin' as [Hin'|[<-|[]]]; [|exfalso; auto].
        apply (NoDup_map_inj node_key nodes); auto.
      + rewrite !in_app_iff in Hin'. destruct Hin' as [Hin'|[Hin'|[<-|[]]]]; [| |exfalso; auto];
          apply (NoDup_map_inj node_key nodes); auto; rewrite Hnodes, in_app_iff; cbn; auto.
  Qed.

  Lemma origin_sender s e a id ta u i :
    origin s e a id ta u -> id = Some i -> ta = true ->
    (exists size m idb,
        e = EPacket a size (Some m) /\ passes_filters s a size /\ m_ro m = false /\
        sender_id m = Some idb /\ toN idb = i /\
        ((m_y m = s_q /\ u = UQuery) \/ (m_y m <> s_q /\ solicited s a m /\ u = UResponse)))
    \/ (exists b p, e = EAddNode b p i /\ a = mkAddr b p /\ u = UNone).
  Proof.
    intros Ho Hid Hta. destruct Ho as [src size m Hpf Hy|src size m Hpf Hy Hsol|b p id0|a0 id0].
    - left. destruct (sender_id m) as [idb|] eqn:Es; [|discriminate]. cbn in Hid. inversion Hid.
      apply negb_true_iff in Hta. exists size, m, idb.
      split; [reflexivity|]. split; [exact Hpf|]. split; [exact Hta|]. split; [exact Es|].
      split; [reflexivity|]. left; auto.
    - left. destruct (sender_id m) as [idb|] eqn:Es; [|discriminate]. cbn in Hid. inversion Hid.
      apply negb_true_iff in Hta. exists size, m, idb.
      split; [reflexivity|]. split; [exact Hpf|]. split; [exact Hta|]. split; [exact Es|].
      split; [reflexivity|]. right; auto.
    - right. inversion Hid; subst. exists b, p. auto.
    - discriminate.
  Qed.

  (* ================================================================ C06: who may enter *)
  (* A key that was not in the table before the step belongs to the direct sender of a datagram that
     passed the filters, is not flagged read-only and is a query or answers a pending query of this
     node — or it was handed to the add API.  The new entry is not bad. *)
  Theorem C06_entry s e ch s' out n :
    step s e ch = SR s' out -> In n (s_nodes s') -> ~ In (node_key n) (keys s) ->
    node_bad n = false /\
    ((exists src size m idb,
         e = EPacket src size (Some m) /\ passes_filters s src size /\ m_ro m = false /\
         sender_id m = Some idb /\ toN idb = n_id n /\ n_addr n = src /\
         (m_y m = s_q \/ (m_y m <> s_q /\ solicited s src m)))
     \/ (exists b p, e = EAddNode b p (n_id n) /\ n_addr n = mkAddr b p)).
  Proof.
    intros Hstep Hin Hnew. apply step_table in Hstep as [Heq|(a & id & ta & u & victim & Ho & Hd & _)].
    { exfalso. apply Hnew. unfold keys. rewrite <- Heq. apply in_map; exact Hin. }
    destruct (upd_delta_new _ _ _ _ _ _ _ _ _ Hd Hin Hnew) as (i & Hid & Hta & Hi & Hn & Hb & Hg & Ht).
    split; [exact Hb|].
    assert (Hnid : n_id n = i) by (rewrite Hn, apply_update_id; reflexivity).
    assert (Hna : n_addr n = a) by (rewrite Hn, apply_update_addr; reflexivity).
    destruct (origin_sender _ _ _ _ _ _ _ Ho Hid Hta)
      as [(size & m & idb & -> & Hpf & Hro & Hs & Ht' & Hc)|(b & p & -> & -> & _)].
    - left. exists a, size, m, idb. rewrite Hnid.
      split; [reflexivity|]. split; [exact Hpf|]. split; [exact Hro|]. split; [exact Hs|].
      split; [exact Ht'|]. split; [exact Hna|].
      destruct Hc as [[Hy _]|(Hy & Hsol & _)]; auto.
    - right. exists b, p. rewrite Hnid. auto.
  Qed.

  (* at most the sender: whatever else a message lists (nodes, nodes6, values, target, info_hash ...)
     cannot become an entry *)
  Theorem C06_never_from_hearsay s src size m ch s' out n :
    step s (EPacket src size (Some m)) ch = SR s' out ->
    In n (s_nodes s') -> ~ In (node_key n) (keys s) ->
    n_addr n = src /\ option_map toN (sender_id m) = Some (n_id n).
  Proof.
    intros Hstep Hin Hnew.
    destruct (C06_entry _ _ _ _ _ _ Hstep Hin Hnew) as
      [_ [(src' & size' & m' & idb & He & _ & _ & Hs & Hid & Ha & _)|(b & p & He & _)]]; [|discriminate].
    inversion He; subst. rewrite Hs. cbn. split; congruence.
  Qed.

  Theorem C06_never_from_hearsay_listed s src size m ch s' out id' a' :
    step s (EPacket src size (Some m)) ch = SR s' out ->
    (a' <> src \/ option_map toN (sender_id m) <> Some id') ->
    ~ exists n, In n (s_nodes s') /\ ~ In (node_key n) (keys s) /\ n_id n = id' /\ n_addr n = a'.
  Proof.
    intros Hstep Hne (n & Hin & Hnew & Hid & Ha).
    destruct (C06_never_from_hearsay _ _ _ _ _ _ _ _ Hstep Hin Hnew) as [H1 H2].
    destruct Hne as [F|F]; apply F; congruence.
  Qed.

  (* a datagram stopped by the filters, an undecodable one, an unsolicited or mismatched response
     changes nothing at all *)
  Theorem C06_never_filtered s src size dec ch s' out :
    step s (EPacket src size dec) ch = SR s' out -> ~ passes_filters s src size -> s' = s /\ out = [].
  Proof.
    intros Hstep Hf. apply step_packet in Hstep as [(-> & -> & _)|(m & s0 & u & s1 & r & _ & Hpf & _)]; tauto.
  Qed.

  Theorem C06_never_blocked s src size dec ch s' out :
    step s (EPacket src size dec) ch = SR s' out -> blocked (s_blocklist s) (ip src) = true ->
    s' = s /\ out = [].
  Proof.
    intros Hstep Hb. apply (C06_never_filtered _ _ _ _ _ _ _ Hstep). intros (_ & _ & _ & F). congruence.
  Qed.

  Theorem C06_never_from_unsolicited s src size m ch s' out :
    step s (EPacket src size (Some m)) ch = SR s' out -> m_y m <> s_q -> ~ solicited s src m ->
    s' = s /\ out = [].
  Proof.
    intros Hstep Hy Hns.
    apply step_packet in Hstep as [(-> & -> & _)|(m' & s0 & u & s1 & r & Hm & _ & Hc & _)]; [tauto|].
    inversion Hm; subst m'. exfalso.
    destruct Hc as [(F & _)|(_ & _ & _ & _ & x & Hx1 & Hx2 & _)]; [auto|]. apply Hns. exists x; auto.
  Qed.

  (* a read-only sender is never added: the set of keys is unchanged *)
  Theorem C06_never_readonly s src size m ch s' out :
    step s (EPacket src size (Some m)) ch = SR s' out -> m_ro m = true -> keys s' = keys s.
  Proof.
    intros Hstep Hro. apply step_table in Hstep as [Heq|(a & id & ta & u & victim & Ho & Hd & _)].
    { unfold keys. rewrite Heq. reflexivity. }
    assert (Hta : ta = false).
    { inversion Ho; subst; rewrite Hro; reflexivity. }
    unfold keys. destruct Hd as [->|i l1 x l2 _ _ -> _ ->|i n0 _ F]; [reflexivity| |congruence].
    rewrite !map_app. cbn [map]. rewrite apply_update_key. reflexivity.
  Qed.

  Theorem C06_never_insecure s e ch s' out n :
    c_no_security cfg = false ->
    step s e ch = SR s' out -> In n (s_nodes s') -> ~ In (node_key n) (keys s) ->
    id_secure (n_id n) (ip (n_addr n)) = true.
  Proof.
    intros Hsec Hstep Hin Hnew. destruct (C06_entry _ _ _ _ _ _ Hstep Hin Hnew) as [Hb _].
    apply node_bad_false in Hb as (_ & _ & [F|F] & _); congruence.
  Qed.

  Theorem C06_never_own_or_zero_id s e ch s' out n :
    step s e ch = SR s' out -> In n (s_nodes s') -> ~ In (node_key n) (keys s) ->
    n_id n <> c_root cfg /\ n_id n <> 0%N.
  Proof.
    intros Hstep Hin Hnew. destruct (C06_entry _ _ _ _ _ _ Hstep Hin Hnew) as [Hb _].
    apply node_bad_false in Hb as (H1 & H2 & _). auto.
  Qed.

  (* ================================================================ C06: who may be displaced *)
  Lemma newcomer_good_is_response now u i a sl :
    node_good now (apply_update now u (mkNode i a None None false sl)) = true -> u = UResponse.
  Proof.
    intros H. apply node_good_facts in H as [_ H].
    destruct u; cbn in H; congruence.
  Qed.

  (* what happens to an entry of the old table: its key survives, or it was the victim of an
     eviction; then its bucket was full, it was evictable w.r.t. the newcomer n0, and n0 is a new
     entry of the same bucket *)
  Lemma step_fate s e ch s' out n :
    Inv s -> step s e ch = SR s' out -> In n (s_nodes s) ->
    In (node_key n) (keys s') \/
    exists a id ta u i n0,
      origin s e a id ta u /\ id = Some i /\ ta = true /\
      n0 = apply_update (s_now s) u (mkNode i a None None false (slot_of i)) /\
      node_bad n0 = false /\ In n0 (s_nodes s') /\ ~ In (node_key n0) (keys s) /\
      (K <= length (bucket (s_nodes s) (n_slot n)))%nat /\ n_slot n0 = n_slot n /\
      evictable (s_now s) n0 n = true /\ ch_victim ch <> None.
  Proof.
    intros HI Hstep Hin.
    apply step_table in Hstep as [Heq|(a & id & ta & u & victim & Ho & Hd & Hv)].
    { left. unfold keys. rewrite Heq. apply in_map; exact Hin. }
    destruct (upd_delta_fate _ _ _ _ _ _ _ _ n (inv_nodup _ _ _ HI) Hd Hin)
      as [Hk|(i & n0 & Hid & Hta & Hi & Hn0 & Hb & Hg & Hin0 & Hfull & Hs & He & Hvi)]; [left; exact Hk|].
    right. exists a, id, ta, u, i, n0. rewrite Hs. repeat split; auto.
    - unfold keys. intros F. apply in_map_iff in F as (x & Hx1 & Hx2).
      apply (get_node_none _ _ _ x Hg Hi Hx2).
      + destruct (inv_slot _ _ _ HI x Hx2) as (Hsx & _). rewrite Hsx. unfold Server.slot_of.
        f_equal. unfold node_key in Hx1. rewrite Hn0, apply_update_id in Hx1. cbn in Hx1. congruence.
      + rewrite Hx1, Hn0, apply_update_key. reflexivity.
    - destruct Hv as [->| ->]; congruence.
  Qed.

  (* a contact that is good now is never removed *)
  Theorem C06_good_kept s e ch s' out n :
    Inv s -> step s e ch = SR s' out -> In n (s_nodes s) -> node_good (s_now s) n = true ->
    In (node_key n) (keys s').
  Proof.
    intros HI Hstep Hin Hg.
    destruct (step_fate _ _ _ _ _ _ HI Hstep Hin) as [Hk|(a & id & ta & u & i & n0 & H)]; [exact Hk|].
    destruct H as (_ & _ & _ & _ & _ & _ & _ & _ & _ & He & _).
    rewrite (good_not_evictable _ _ _ _ Hg) in He. discriminate.
  Qed.

  (* an entry is displaced only from a full bucket, by a new not-bad entry of the same bucket, and
     only if it is bad, or it has never answered and the newcomer has just answered one of this
     node's own queries *)
  Theorem C06_displaced_only s e ch s' out n :
    Inv s -> step s e ch = SR s' out -> In n (s_nodes s) -> ~ In (node_key n) (keys s') ->
    exists n',
      In n' (s_nodes s') /\ ~ In (node_key n') (keys s) /\ n_slot n' = n_slot n /\ node_bad n' = false /\
      (K <= length (bucket (s_nodes s) (n_slot n)))%nat /\
      (node_bad n = true \/
       (n_lr n = None /\ node_good (s_now s) n' = true /\ n_lr n' = Some (s_now s) /\
        exists src size m idb,
          e = EPacket src size (Some m) /\ passes_filters s src size /\ m_y m <> s_q /\
          solicited s src m /\ m_ro m = false /\ sender_id m = Some idb /\
          n_id n' = toN idb /\ n_addr n' = src)).
  Proof.
    intros HI Hstep Hin Hgone.
    destruct (step_fate _ _ _ _ _ _ HI Hstep Hin) as [Hk|(a & id & ta & u & i & n0 & H)]; [tauto|].
    destruct H as (Ho & Hid & Hta & Hn0 & Hb & Hin0 & Hnew & Hfull & Hs & He & _).
    exists n0. repeat split; auto.
    unfold Server.evictable in He. apply orb_true_iff in He as [He|He]; [left; exact He|right].
    apply andb_true_iff in He as [Hg Hlr].
    split; [destruct (n_lr n); [discriminate|reflexivity]|]. split; [exact Hg|].
    assert (Hu : u = UResponse) by (rewrite Hn0 in Hg; exact (newcomer_good_is_response _ _ _ _ _ Hg)).
    split; [rewrite Hn0, Hu; reflexivity|].
    destruct (origin_sender _ _ _ _ _ _ _ Ho Hid Hta)
      as [(size & m & idb & He' & Hpf & Hro & Hsd & Hti & Hc)|(b & p & _ & _ & Hc)]; [|congruence].
    destruct Hc as [[_ Hc]|(Hy & Hsol & _)]; [congruence|].
    exists a, size, m, idb. rewrite Hn0, apply_update_id, apply_update_addr. cbn [n_id n_addr].
    split; [exact He'|]. split; [exact Hpf|]. split; [exact Hy|]. split; [exact Hsol|].
    split; [exact Hro|]. split; [exact Hsd|]. split; [symmetry; exact Hti|reflexivity].
  Qed.

  (* ================================================================ C06: admission *)
  Lemma update_node_admit s a i u victim s1 r :
    update_node s a (Some i) true u victim = Ok (s1, r) -> r <> BadChoice ->
    i <> c_root cfg -> i <> 0%N -> (c_no_security cfg = true \/ id_secure i (ip a) = true) ->
    u <> UFailedPing ->
    (length (bucket (s_nodes s) (slot_of i)) < K)%nat ->
    In (i, addr_key a) (map node_key (s_nodes s1)) /\ victim = None /\ r = Added.
  Proof.
    intros H Hr Hi H0 Hsec Hu Hroom. unfold Server.update_node in H.
    destruct (get_node cfg (s_nodes s) a i) as [g|] eqn:Eg.
    - destruct victim; inversion H; subst; [congruence|]. split; [|auto]. cbn [Server.s_nodes with_nodes].
      destruct (replace_node_spec (addr_key a) i (apply_update (s_now s) u) (s_nodes s))
        as [(l1 & m & l2 & E1 & E2 & E3)|E3]; rewrite E3.
      + rewrite map_app, in_app_iff. right. cbn [map In]. left.
        rewrite apply_update_key. apply same_node_key. exact E2.
      + unfold get_node in Eg. destruct (N.eqb i (c_root cfg)); [discriminate|].
        apply find_some in Eg as [Eg1 Eg2]. apply andb_true_iff in Eg2 as [_ Eg2].
        apply same_node_key in Eg2. rewrite <- Eg2. apply in_map. exact Eg1.
    - pose proof Hi as Hi'. apply N.eqb_neq in Hi'. rewrite Hi' in H. cbn [negb orb] in H.
      remember (apply_update (s_now s) u (mkNode i a None None false (slot_of i))) as n0 eqn:Hn0.
      assert (Hid0 : n_id n0 = i) by (rewrite Hn0, apply_update_id; reflexivity).
      assert (Had0 : n_addr n0 = a) by (rewrite Hn0, apply_update_addr; reflexivity).
      assert (Hb : node_bad n0 = false).
      { unfold Server.node_bad. rewrite Hid0, Had0.
        replace (n_failed n0) with false by (rewrite Hn0; destruct u; try reflexivity; congruence).
        apply N.eqb_neq in H0. rewrite Hi', H0.
        destruct Hsec as [-> | ->]; rewrite ?orb_true_r; reflexivity. }
      unfold Server.add_node in H. rewrite Hb, Hid0 in H.
      apply Nat.leb_gt in Hroom. rewrite Hroom in H.
      destruct victim; [inversion H; subst; congruence|].
      destruct (table_add s n0) as [s3|] eqn:Et; [|discriminate].
      inversion H; subst s3 r; clear H.
      destruct (table_add_spec _ _ _ Et) as (F1 & _). split; [|auto].
      rewrite F1, map_app, in_app_iff. right. cbn. left. rewrite Hid0, Had0. reflexivity.
  Qed.

  (* a sender eligible under the rules is in the table after the step whenever its bucket has room,
     and the step is accepted only with no victim *)
  Theorem C06_admitted s src size m idb ch s' out :
    step s (EPacket src size (Some m)) ch = SR s' out ->
    passes_filters s src size -> m_ro m = false -> sender_id m = Some idb ->
    (m_y m = s_q \/ solicited s src m) ->
    toN idb <> c_root cfg -> toN idb <> 0%N ->
    (c_no_security cfg = true \/ id_secure (toN idb) (ip src) = true) ->
    (length (bucket (s_nodes s) (slot_of (toN idb))) < K)%nat ->
    In (toN idb, addr_key src) (keys s') /\ ch_victim ch = None.
  Proof.
    intros Hstep Hpf Hro Hsd Hc Hi H0 Hsec Hroom.
    apply step_packet in Hstep as [(_ & _ & [F|[F|(m' & Hm & Hy & Hns)]])|
                                   (m' & s0 & u & s1 & r & Hm & _ & Hc' & Hu & Hr & Hn & _)].
    - tauto.
    - discriminate.
    - inversion Hm; subst m'. destruct Hc; tauto.
    - inversion Hm; subst m'. rewrite Hsd, Hro in Hu. cbn [option_map negb] in Hu.
      unfold keys. rewrite Hn.
      assert (Hs0 : s_nodes s0 = s_nodes s) by (destruct Hc' as [(_ & -> & _)|(_ & _ & E & _)]; auto).
      assert (Hu' : u <> UFailedPing) by (destruct Hc' as [(_ & _ & ->)|(_ & -> & _)]; discriminate).
      rewrite <- Hs0 in Hroom.
      destruct (update_node_admit _ _ _ _ _ _ _ Hu Hr Hi H0 Hsec Hu' Hroom) as (H1 & H2 & _). auto.
  Qed.

  Theorem C06_admitted_api s b p id ch s' out :
    step s (EAddNode b p id) ch = SR s' out ->
    id <> c_root cfg -> id <> 0%N ->
    (c_no_security cfg = true \/ id_secure id b = true) ->
    (length (bucket (s_nodes s) (slot_of id)) < K)%nat ->
    In (id, addr_key (mkAddr b p)) (keys s') /\ ch_victim ch = None.
  Proof.
    unfold Server.step. destruct (update_node s _ _ _ _ _) as [[s1 r]|] eqn:Eu; [|discriminate].
    intros H Hi H0 Hsec Hroom. assert (Hr : r <> BadChoice) by (destruct r; congruence).
    assert (s' = s1) by (destruct r; congruence). subst s1.
    assert (Hu' : UNone <> UFailedPing) by discriminate.
    destruct (update_node_admit _ _ _ _ _ _ _ Eu Hr Hi H0 Hsec Hu' Hroom) as (H1 & H2 & _). auto.
  Qed.

  (* ... and such a step exists: with room in the bucket the table update cannot fail, so for a
     solicited response every choice without a victim is accepted (the hypotheses of C06_admitted
     are jointly satisfiable in every state) *)
  Lemma update_node_admit_ok s a i u :
    i <> c_root cfg -> i <> 0%N -> (c_no_security cfg = true \/ id_secure i (ip a) = true) ->
    u <> UFailedPing ->
    (length (bucket (s_nodes s) (slot_of i)) < K)%nat ->
    exists s1, update_node s a (Some i) true u None = Ok (s1, Added).
  Proof.
    intros Hi H0 Hsec Hu Hroom. unfold Server.update_node.
    destruct (get_node cfg (s_nodes s) a i) as [g|] eqn:Eg; [eexists; reflexivity|].
    pose proof Hi as Hi'. apply N.eqb_neq in Hi'. rewrite Hi'. cbn [negb orb].
    remember (apply_update (s_now s) u (mkNode i a None None false (slot_of i))) as n0 eqn:Hn0.
    assert (Hid0 : n_id n0 = i) by (rewrite Hn0, apply_update_id; reflexivity).
    assert (Had0 : n_addr n0 = a) by (rewrite Hn0, apply_update_addr; reflexivity).
    assert (Hb : node_bad n0 = false).
    { unfold Server.node_bad. rewrite Hid0, Had0.
      replace (n_failed n0) with false by (rewrite Hn0; destruct u; try reflexivity; congruence).
      apply N.eqb_neq in H0. rewrite Hi', H0.
      destruct Hsec as [-> | ->]; rewrite ?orb_true_r; reflexivity. }
    unfold Server.add_node. rewrite Hb, Hid0.
    pose proof Hroom as Hroom'. apply Nat.leb_gt in Hroom'. rewrite Hroom'.
    unfold Server.table_add. rewrite Hid0, Had0, Hi', Hroom'.
    destruct (existsb _ _) eqn:Ee; [exfalso|eexists; reflexivity].
    apply existsb_exists in Ee as (x & Hx & Hsame). unfold bucket in Hx.
    apply filter_In in Hx as [Hx Hs].
    unfold get_node in Eg. rewrite Hi' in Eg. pose proof (find_none _ _ Eg x Hx) as F.
    cbn beta in F. rewrite Hs, Hsame in F. discriminate.
  Qed.

  Theorem C06_admitted_possible s src size m idb ch :
    passes_filters s src size -> m_y m <> s_q -> solicited s src m ->
    m_ro m = false -> sender_id m = Some idb ->
    toN idb <> c_root cfg -> toN idb <> 0%N ->
    (c_no_security cfg = true \/ id_secure (toN idb) (ip src) = true) ->
    (length (bucket (s_nodes s) (slot_of (toN idb))) < K)%nat ->
    ch_victim ch = None ->
    exists s' qid, step s (EPacket src size (Some m)) ch = SR s' [ECompleted qid m] /\
                   In (toN idb, addr_key src) (keys s').
  Proof.
    intros Hpf Hy Hsol Hro Hsd Hi H0 Hsec Hroom Hv.
    assert (Hex : exists s' qid, step s (EPacket src size (Some m)) ch = SR s' [ECompleted qid m]).
    { destruct Hpf as (P1 & P2 & P3 & P4). apply N.eqb_neq in P1, P2.
      unfold Server.step. rewrite P1, P2, P3, P4.
      destruct (bytes_eqb (m_y m) s_q) eqn:Ey; [apply bytes_eqb_eq in Ey; congruence|].
      destruct (find _ _) as [x|] eqn:Ef.
      2:{ destruct Hsol as (x & Hx1 & Hx2). pose proof (find_none _ _ Ef x Hx1). congruence. }
      rewrite Hsd, Hro, Hv. cbn [option_map negb].
      match goal with |- context[update_node ?s0 _ _ _ _ _] =>
        destruct (update_node_admit_ok s0 src (id_of idb) UResponse Hi H0 Hsec) as [s1 Hu];
          [discriminate|exact Hroom|rewrite Hu] end.
      exists s1, (tx_qid x). reflexivity. }
    destruct Hex as (s' & qid & Hstep). exists s', qid. split; [exact Hstep|].
    assert (Hpf' := Hpf).
    exact (proj1 (C06_admitted _ _ _ _ _ _ _ _ Hstep Hpf Hro Hsd (or_intror Hsol) Hi H0 Hsec Hroom)).
  Qed.

  (* ================================================================ C06: liveness evidence *)
  (* lastGotResponse of an existing entry is set only by a solicited response from its own address
     and id, lastGotQuery only by a query from it *)
  Theorem C06_timestamps s e ch s' out n n' :
    Inv s -> step s e ch = SR s' out -> In n (s_nodes s) -> In n' (s_nodes s') ->
    node_key n' = node_key n ->
    (n_lr n' <> n_lr n ->
     exists src size m idb,
       e = EPacket src size (Some m) /\ passes_filters s src size /\ m_y m <> s_q /\
       solicited s src m /\ sender_id m = Some idb /\ toN idb = n_id n /\
       addr_key src = addr_key (n_addr n) /\ n_lr n' = Some (s_now s)) /\
    (n_lq n' <> n_lq n ->
     exists src size m idb,
       e = EPacket src size (Some m) /\ passes_filters s src size /\ m_y m = s_q /\
       sender_id m = Some idb /\ toN idb = n_id n /\
       addr_key src = addr_key (n_addr n) /\ n_lq n' = Some (s_now s)).
  Proof.
    intros HI Hstep Hin Hin' Hk.
    apply step_table in Hstep as [Heq|(a & id & ta & u & victim & Ho & Hd & _)].
    { rewrite Heq in Hin'.
      assert (n' = n) by (apply (NoDup_map_inj node_key (s_nodes s)); auto; apply (inv_nodup _ _ _ HI)).
      subst n'. split; congruence. }
    assert (Hslot : forall x, In x (s_nodes s) -> n_slot x = slot_of (n_id x)).
    { intros x Hx. destruct (inv_slot _ _ _ HI x Hx) as (Hsx & _). exact Hsx. }
    destruct (upd_delta_kept _ _ _ _ _ _ _ _ _ _ (inv_nodup _ _ _ HI) Hslot Hd Hin Hin' Hk)
      as [->|(Hid & Ha & ->)]; [split; congruence|].
    destruct Ho as [src size m Hpf Hy|src size m Hpf Hy Hsol|b p id0|a0 id0].
    - split; [cbn; congruence|]. intros _.
      destruct (sender_id m) as [idb|] eqn:Es; [|discriminate]. cbn in Hid. inversion Hid.
      exists src, size, m, idb.
      split; [reflexivity|]. split; [exact Hpf|]. split; [exact Hy|]. split; [exact Es|].
      split; [reflexivity|]. split; [exact Ha|reflexivity].
    - split; [|cbn; congruence]. intros _.
      destruct (sender_id m) as [idb|] eqn:Es; [|discriminate]. cbn in Hid. inversion Hid.
      exists src, size, m, idb.
      split; [reflexivity|]. split; [exact Hpf|]. split; [exact Hy|]. split; [exact Hsol|].
      split; [exact Es|]. split; [reflexivity|]. split; [exact Ha|reflexivity].
    - split; cbn; congruence.
    - split; cbn; congruence.
  Qed.

  (* ================================================================ histories *)
  Lemma run_reachable evs : forall s s' outs,
    reachable Store w_put w_get sha1 id_secure cfg s ->
    Forall (fun ec => wf_event (fst ec)) evs ->
    run Store w_put w_get sha1 id_secure cfg s evs = Some (s', outs) ->
    reachable Store w_put w_get sha1 id_secure cfg s'.
  Proof.
    induction evs as [|[e ch] evs IH]; intros s s' outs Hr Hwf H; cbn [run] in H.
    - inversion H; subst; exact Hr.
    - inversion Hwf as [|? ? Hw Hwf']; subst. cbn [fst] in Hw.
      destruct (step s e ch) as [s1 o1| |] eqn:Es; try discriminate.
      destruct (run _ _ _ _ _ _ s1 evs) as [[s2 o2]|] eqn:Er; [|discriminate].
      inversion H; subst. eapply IH; [|exact Hwf'|exact Er].
      eapply reach_step; eauto.
  Qed.

End C06.

(* ------------------------------------------------------------------ a decidable form of wf_event,
   used to discharge the side conditions of concrete histories by computation *)
Definition wf_ip_b (b : bytes) : bool := Nat.eqb (length b) 4 || Nat.eqb (length b) 16.

Definition wf_msg_in_b (m : msg) : bool :=
  match m_a m with
  | Some a => Nat.eqb (length (a_id a)) 20 && Nat.eqb (length (a_info_hash a)) 20 &&
              Nat.eqb (length (a_target a)) 20
  | None => true
  end &&
  match m_r m with Some r => Nat.eqb (length (r_id r)) 20 | None => true end.

Definition wf_event_b (e : event) : bool :=
  match e with
  | EPacket src _ (Some m) => wf_ip_b (ip src) && wf_msg_in_b m
  | EPacket src _ None => wf_ip_b (ip src)
  | EAddNode i _ id => wf_ip_b i && N.ltb id (2 ^ 160)
  | EQueryStart _ dst _ _ _ _ => wf_ip_b (ip dst)
  | EFailedPing a id => wf_ip_b (ip a) && N.ltb id (2 ^ 160)
  | _ => true
  end.

Lemma wf_ip_b_ok b : wf_ip_b b = true -> wf_ip b.
Proof.
  unfold wf_ip_b, wf_ip. intros H. apply orb_true_iff in H as [H|H]; apply Nat.eqb_eq in H; auto.
Qed.

Lemma wf_msg_in_b_ok m : wf_msg_in_b m = true -> wf_msg_in m.
Proof.
  unfold wf_msg_in_b, wf_msg_in, wf_args. intros H. apply andb_true_iff in H as [H1 H2]. split.
  - intros a Ha. rewrite Ha in H1. apply andb_true_iff in H1 as [H1 H3].
    apply andb_true_iff in H1 as [H1 H4]. apply Nat.eqb_eq in H1, H3, H4. auto.
  - intros r Hr. rewrite Hr in H2. apply Nat.eqb_eq in H2. exact H2.
Qed.

Lemma wf_event_b_ok e : wf_event_b e = true -> wf_event e.
Proof.
  destruct e as [src size [m|]|d|i p id|qid dst q a rated t|qid|a id|bl|]; cbn [wf_event_b wf_event];
    intros H; auto.
  - apply andb_true_iff in H as [H1 H2]. split; [apply wf_ip_b_ok; exact H1|apply wf_msg_in_b_ok; exact H2].
  - apply wf_ip_b_ok; exact H.
  - apply andb_true_iff in H as [H1 H2]. split; [apply wf_ip_b_ok; exact H1|apply N.ltb_lt; exact H2].
  - apply wf_ip_b_ok; exact H.
  - apply andb_true_iff in H as [H1 H2]. split; [apply wf_ip_b_ok; exact H1|apply N.ltb_lt; exact H2].
Qed.

Lemma run_reachable_b Store w_put w_get sha1 id_secure cfg st now bl budget evs s' outs :
  forallb (fun ec => wf_event_b (fst ec)) evs = true ->
  run Store w_put w_get sha1 id_secure cfg (init_state Store st now bl budget) evs = Some (s', outs) ->
  reachable Store w_put w_get sha1 id_secure cfg s'.
Proof.
  intros Hwf Hrun. eapply run_reachable; [apply reach_init| |exact Hrun].
  apply Forall_forall. intros ec Hin. apply wf_event_b_ok.
  rewrite forallb_forall in Hwf. apply Hwf; exact Hin.
Qed.
