(* TraversalConc.v — the runner's exploration of several completions released together
   (RunTraversal.rt_conc_begin / rt_conc_succ / rt_quiesce, harness line `tdonem`) stays inside the
   labelled transition system of Traversal.v: every state it produces is [exec] of a label list
   from the state it started in.  The theorems of Props/C02.v, C03.v, C04.v quantify over all label
   lists ([run ls] = [exec init ls]), so they cover every state the runner can accept for an
   overlapping-completions observation.  Closed proofs, no axioms. *)
From Coq Require Import List Arith Bool.
From Dht Require Import Base Int160 Order RunMetric Traversal RunTraversal TraversalExamples.
Import ListNotations.

(* ------------------------------------------------------------------------------------------
   Erasure of the write-only histories.  No step of the LTS and no enabledness test reads
   st_offered or st_responded, so forgetting them commutes with execution.  The runner replaces
   every candidate state by its erasure (RunTraversal.rt_erase) after every line. *)
Section Erase.
  Variable D : Type.
  Variable node_filter : ami -> bool.
  Variable data_filter : D -> bool.
  Variable tb : addrport -> addrport -> comparison.
  Variable pf : bool.
  Variable target : N.
  Variable k alpha : nat.

  Definition erase (s : state D) : state D := set_responded (set_offered s []) [].
  (* s and t agree on everything but the two histories *)
  Definition sim (s t : state D) : Prop := erase s = erase t.

  Notation add_node := (add_node D node_filter target).
  Notation add_nodes := (add_nodes D node_filter target).
  Notation add_closest := (add_closest D node_filter data_filter tb target k).
  Notation start_loop := (start_loop D pf target k alpha).
  Notation run_body := (run_body D pf target k alpha).
  Notation run_step := (run_step D pf target k alpha).
  Notation step := (step D node_filter data_filter tb pf target k alpha).
  Notation step_en := (step_en D node_filter data_filter tb pf target k alpha).
  Notation exec := (exec D node_filter data_filter tb pf target k alpha).

  Ltac open_sim H :=
    match type of H with
    | sim ?s ?t => destruct s, t; unfold sim, erase, set_responded, set_offered in H; cbn in H;
                   inversion H; subst; clear H
    end.

  Lemma sim_refl s : sim s s.
  Proof. reflexivity. Qed.

  Lemma sim_erase s : sim (erase s) s.
  Proof. destruct s; reflexivity. Qed.

  Lemma sim_trans s t u : sim s t -> sim t u -> sim s u.
  Proof. unfold sim. congruence. Qed.

  Lemma sim_sym s t : sim s t -> sim t s.
  Proof. unfold sim. congruence. Qed.

  Lemma sim_add_node s t c : sim s t -> sim (add_node s c) (add_node t c).
  Proof.
    intro H. open_sim H. unfold Traversal.add_node, sim, erase. cbn.
    destruct (existsb (ap_eqb (ami_addr c)) _); [reflexivity|].
    destruct (node_filter c); reflexivity.
  Qed.

  Lemma sim_add_nodes ns : forall s t, sim s t -> sim (add_nodes s ns) (add_nodes t ns).
  Proof.
    unfold Traversal.add_nodes.
    induction ns as [|c ns IH]; intros s t H; cbn; [exact H|].
    apply IH. apply sim_add_node. exact H.
  Qed.

  Lemma sim_add_closest s t x : sim s t -> sim (add_closest s x) (add_closest t x).
  Proof.
    intro H. open_sim H. unfold Traversal.add_closest, sim, erase. cbn.
    destruct (node_filter (ni_ami (fst x)) && data_filter (snd x)); reflexivity.
  Qed.

  Lemma sim_do_prune s t : sim s t -> sim (do_prune D pf s) (do_prune D pf t).
  Proof. intro H. open_sim H. reflexivity. Qed.

  Lemma sim_start_query s t : sim s t -> sim (start_query D s) (start_query D t).
  Proof.
    intro H. open_sim H. unfold Traversal.start_query, sim, erase. cbn.
    match goal with |- context [match ?u with [] => _ | _ :: _ => _ end] => destruct u end; reflexivity.
  Qed.

  Lemma sim_unq s t : sim s t -> st_unq s = st_unq t.
  Proof. intro H. open_sim H. reflexivity. Qed.
  Lemma sim_closest s t : sim s t -> st_closest s = st_closest t.
  Proof. intro H. open_sim H. reflexivity. Qed.
  Lemma sim_out s t : sim s t -> st_out s = st_out t.
  Proof. intro H. open_sim H. reflexivity. Qed.
  Lemma sim_gen s t : sim s t -> st_gen s = st_gen t.
  Proof. intro H. open_sim H. reflexivity. Qed.
  Lemma sim_inflight s t : sim s t -> st_inflight s = st_inflight t.
  Proof. intro H. open_sim H. reflexivity. Qed.
  Lemma sim_stopping s t : sim s t -> st_stopping s = st_stopping t.
  Proof. intro H. open_sim H. reflexivity. Qed.

  Lemma sim_set_loop s t v : sim s t -> sim (set_loop s v) (set_loop t v).
  Proof. intro H. open_sim H. reflexivity. Qed.
  Lemma sim_set_inflight s t v : sim s t -> sim (set_inflight s v) (set_inflight t v).
  Proof. intro H. open_sim H. reflexivity. Qed.

  Lemma start_loop_unfold f s :
    start_loop (S f) s =
      if Nat.ltb (st_out s) alpha then
        if have_query_on D target k (st_unq (do_prune D pf s)) (st_closest (do_prune D pf s))
        then start_loop f (start_query D (do_prune D pf s)) else do_prune D pf s
      else s.
  Proof. reflexivity. Qed.

  Lemma sim_start_loop fuel : forall s t, sim s t -> sim (start_loop fuel s) (start_loop fuel t).
  Proof.
    induction fuel as [|f IH]; intros s t H; [exact H|].
    rewrite !start_loop_unfold.
    rewrite (sim_out s t H).
    destruct (Nat.ltb (st_out t) alpha); [|exact H].
    pose proof (sim_do_prune s t H) as HP.
    rewrite (sim_unq _ _ HP), (sim_closest _ _ HP).
    destruct (have_query_on D target k (st_unq (do_prune D pf t)) (st_closest (do_prune D pf t))).
    - apply IH. apply sim_start_query. exact HP.
    - exact HP.
  Qed.

  Lemma sim_run_body s t : sim s t -> sim (run_body s) (run_body t).
  Proof.
    intro H. unfold Traversal.run_body.
    pose proof (sim_do_prune _ _ (sim_start_loop alpha s t H)) as H2.
    cbv zeta.
    rewrite (sim_unq _ _ H2), (sim_closest _ _ H2), (sim_out _ _ H2), (sim_gen _ _ H2).
    apply sim_set_loop. exact H2.
  Qed.

  Lemma sim_run_step s t : sim s t -> sim (run_step s) (run_step t).
  Proof.
    intro H. unfold Traversal.run_step. rewrite (sim_stopping s t H).
    destruct (st_stopping t); [apply sim_set_loop; exact H | apply sim_run_body; exact H].
  Qed.

  Lemma sim_enabled s t l : sim s t -> enabled D s l = enabled D t l.
  Proof. intro H. open_sim H. reflexivity. Qed.

  Lemma sim_step s t l : sim s t -> sim (step s l) (step t l).
  Proof.
    intro H. destruct l; cbn [Traversal.step].
    - apply sim_run_step. exact H.
    - apply sim_set_loop. exact H.
    - open_sim H. reflexivity.
    - rewrite (sim_inflight s t H). apply sim_set_inflight. exact H.
    - unfold resp_of. rewrite (sim_inflight s t H).
      assert (HS : sim (match r_from (match find_q q (st_inflight t) with Some q0 => q_resp q0 | None => no_resp end) with
                        | Some x => add_closest s x | None => s end)
                       (match r_from (match find_q q (st_inflight t) with Some q0 => q_resp q0 | None => no_resp end) with
                        | Some x => add_closest t x | None => t end)).
      { destruct (r_from _); [apply sim_add_closest|]; exact H. }
      rewrite (sim_inflight _ _ HS). apply sim_set_inflight. exact HS.
    - unfold resp_of. rewrite (sim_inflight s t H).
      pose proof (sim_add_nodes (map ni_ami (r_nodes (match find_q q (st_inflight t) with Some q0 => q_resp q0 | None => no_resp end))) s t H) as HS.
      rewrite (sim_inflight _ _ HS). apply sim_set_inflight. exact HS.
    - unfold resp_of. rewrite (sim_inflight s t H).
      pose proof (sim_add_nodes (map ni_ami (r_nodes6 (match find_q q (st_inflight t) with Some q0 => q_resp q0 | None => no_resp end))) s t H) as HS.
      rewrite (sim_inflight _ _ HS). apply sim_set_inflight. exact HS.
    - open_sim H. reflexivity.
    - apply sim_add_nodes. exact H.
    - open_sim H. reflexivity.
    - open_sim H. reflexivity.
    - rewrite (sim_inflight s t H). apply sim_set_inflight. exact H.
  Qed.

  Lemma sim_step_en s t l : sim s t -> sim (step_en s l) (step_en t l).
  Proof.
    intro H. unfold Traversal.step_en. rewrite (sim_enabled s t l H).
    destruct (enabled D t l); [apply sim_step|]; exact H.
  Qed.

  Lemma sim_exec ls : forall s t, sim s t -> sim (exec s ls) (exec t ls).
  Proof.
    unfold Traversal.exec. induction ls as [|l ls IH]; intros s t H; cbn; [exact H|].
    apply IH. apply sim_step_en. exact H.
  Qed.

  (* forgetting the histories before or after running any schedule makes no difference *)
  Theorem erase_exec s ls : erase (exec (erase s) ls) = erase (exec s ls).
  Proof. apply (sim_exec ls). apply sim_erase. Qed.

  Theorem erase_enabled s l : enabled D (erase s) l = enabled D s l.
  Proof. apply sim_enabled. apply sim_erase. Qed.

  (* and every field other than the two histories is untouched, in particular all observables *)
  Theorem erase_fields s :
    st_unq (erase s) = st_unq s /\ st_queried (erase s) = st_queried s /\
    st_closest (erase s) = st_closest s /\ st_inflight (erase s) = st_inflight s /\
    st_out (erase s) = st_out s /\ st_loop (erase s) = st_loop s /\
    st_stopping (erase s) = st_stopping s /\ st_stopped (erase s) = st_stopped s /\
    st_started (erase s) = st_started s /\ st_pushed (erase s) = st_pushed s.
  Proof. destruct s. cbn. repeat split. Qed.
End Erase.

Lemma rt_erase_is_erase s : rt_erase s = erase N s.
Proof. reflexivity. Qed.

Section Conc.
  Variable c : tcfg.
  Variable pf : bool.

  Definition rt_exec (s : rt_state) (ls : list rt_label) : rt_state :=
    exec N (rt_node_filter c) (rt_data_filter c) ap_cmp pf (c_target c)
         (eff_k (c_k c)) (eff_alpha (c_alpha c)) s ls.

  (* s' is reached from s by running labels of the LTS *)
  Definition reach (s s' : rt_state) : Prop := exists ls, s' = rt_exec s ls.

  Lemma rt_exec_app s l1 l2 : rt_exec s (l1 ++ l2) = rt_exec (rt_exec s l1) l2.
  Proof. unfold rt_exec, exec. apply fold_left_app. Qed.

  Lemma reach_refl s : reach s s.
  Proof. exists []. reflexivity. Qed.

  Lemma reach_trans s1 s2 s3 : reach s1 s2 -> reach s2 s3 -> reach s1 s3.
  Proof.
    intros [l1 H1] [l2 H2]. exists (l1 ++ l2). rewrite rt_exec_app, <- H1. exact H2.
  Qed.

  Lemma reach_step s l : reach s (rt_step c pf s l).
  Proof. exists [l]. reflexivity. Qed.

  Lemma reach_loop_run s : reach s (loop_run c pf s).
  Proof.
    unfold loop_run.
    destruct (rt_enabled s LRun).
    - apply reach_step.
    - destruct (rt_enabled s LWake).
      + eapply reach_trans; apply reach_step.
      + apply reach_refl.
  Qed.

  Lemma reach_fold_cancel (qs : list (query N)) : forall s,
    reach s (fold_left (fun s q => rt_step c pf s (LCancel (q_id q))) qs s).
  Proof.
    induction qs as [|q qs IH]; intro s; cbn.
    - apply reach_refl.
    - eapply reach_trans; [apply reach_step | apply IH].
  Qed.

  Lemma reach_quiesce s : reach s (rt_quiesce c pf s).
  Proof.
    unfold rt_quiesce, quiesce.
    eapply reach_trans.
    { eapply reach_trans; [apply reach_loop_run|].
      eapply reach_trans; [apply reach_loop_run|]. apply reach_loop_run. }
    eapply reach_trans; [apply reach_fold_cancel | apply reach_step].
  Qed.

  (* one exploration step is one or two labels of the LTS *)
  Theorem rt_conc_succ_reach s ids s' :
    In s' (rt_conc_succ c pf s ids) -> reach s s'.
  Proof.
    unfold rt_conc_succ. intro H. apply in_app_or in H. destruct H as [H|H].
    - destruct (loop_can_run s); [|contradiction].
      destruct H as [H|[]]. subst s'. apply reach_loop_run.
    - apply in_flat_map in H. destruct H as [i [_ H]].
      destruct (conc_next s i) as [l|]; [|contradiction].
      destruct H as [H|[]]. subst s'. apply reach_step.
  Qed.

  (* the returns of DoQuery are labels of the LTS *)
  Theorem rt_conc_begin_reach rs : forall s ids s',
    rt_conc_begin c pf s rs = Some (ids, s') -> reach s s'.
  Proof.
    induction rs as [|[a r] rest IH]; intros s ids s' H; cbn in H.
    - inversion H. apply reach_refl.
    - destruct (find_by_addr a (st_inflight s)) as [q|]; [|discriminate].
      destruct (rt_conc_begin c pf (rt_step c pf s (LDoQueryReturn (q_id q) r)) rest)
        as [[ids0 s0]|] eqn:E; [|discriminate].
      inversion H; subst. eapply reach_trans; [apply reach_step | exact (IH _ _ _ E)].
  Qed.

  (* the exploration as the runner performs it: n rounds of "replace every state by its successors
     (keeping the finished ones)"; everything it ever holds is reachable *)
  Fixpoint conc_explore (n : nat) (ids : list nat) (ss : list rt_state) : list rt_state :=
    match n with
    | O => ss
    | S n' =>
        conc_explore n' ids
          (flat_map (fun s => if rt_conc_finished s ids then [s] else rt_conc_succ c pf s ids) ss)
    end.

  Theorem conc_explore_reach n ids : forall ss s0,
    (forall s, In s ss -> reach s0 s) ->
    forall s', In s' (conc_explore n ids ss) -> reach s0 s'.
  Proof.
    induction n as [|n IH]; intros ss s0 Hss s' H; cbn in H.
    - exact (Hss _ H).
    - apply (IH _ s0) in H; [exact H|].
      intros s Hs. apply in_flat_map in Hs. destruct Hs as [s1 [H1 H2]].
      destruct (rt_conc_finished s1 ids).
      + destruct H2 as [H2|[]]. subst. exact (Hss _ H1).
      + eapply reach_trans; [exact (Hss _ H1) | exact (rt_conc_succ_reach _ _ _ H2)].
  Qed.

  (* end to end: begin, explore, quiesce *)
  Corollary rt_conc_reach s rs ids s1 n s' :
    rt_conc_begin c pf s rs = Some (ids, s1) ->
    In s' (map (rt_quiesce c pf) (conc_explore n ids [s1])) -> reach s s'.
  Proof.
    intros Hb H. apply in_map_iff in H. destruct H as [s2 [E H]]. subst s'.
    eapply reach_trans; [|apply reach_quiesce].
    eapply (conc_explore_reach n ids [s1] s); [|exact H].
    intros x [Hx|[]]. subst x. exact (rt_conc_begin_reach _ _ _ _ Hb).
  Qed.
End Conc.

(* Non-vacuity: in the example lookup of TraversalExamples.v (two queries in flight after the seed
   answered) releasing both together yields several distinct successor states, and the exploration
   ends in states in which both are done and both responders are in the closest set. *)
Definition exc_cfg : tcfg := rt_mk_cfg 0%N 2 2 [] [] [].
Definition exc_mid : rt_state := ex_run ex_sched_mid.
Definition exc_begin : option (list nat * rt_state) :=
  rt_conc_begin exc_cfg true exc_mid [(ex_a1, ex_resp ex_n1 10%N); (ex_a2, ex_resp ex_n2 20%N)].

Example exc_begin_ids : option_map fst exc_begin = Some [1; 2].
Proof. vm_compute. reflexivity. Qed.

Example exc_two_successors :
  match exc_begin with
  | Some (ids, s1) => length (rt_conc_succ exc_cfg true s1 ids) = 2
  | None => False
  end.
Proof. vm_compute. reflexivity. Qed.

Example exc_explored_all_done :
  match exc_begin with
  | Some (ids, s1) =>
      let fin := conc_explore exc_cfg true 12 ids [s1] in
      fin <> [] /\
      forallb (fun s => rt_conc_finished s ids
                        && Nat.eqb (length (rt_closest (rt_quiesce exc_cfg true s))) 2
                        && Nat.eqb (rt_out (rt_quiesce exc_cfg true s)) 0) fin = true
  | None => False
  end.
Proof. vm_compute. split; [discriminate | reflexivity]. Qed.
