(* SecurityProofs.v — proofs for C17 (BEP 42 node-ID security), about the byte-level model of
   security.go in model/Security.v.  All statements quantify over every 20-byte id and every
   ip of length 4 or 16.  The CRC function is a Section variable in all but one lemma
   ([crc32c_lt], the 32-bit bound of the executable CRC); SHA-1 enters only through
   "the digest has 20 bytes" ([sha1_length]). *)
From Dht Require Import Base Sha1 Crc32c Security Int160Proofs.
From DhtGen Require Import Params.
From Coq Require Import ZifyN ZifyNat ZifyBool.
Local Open Scope N_scope.

Local Arguments N.pow : simpl never.
Local Arguments N.mul : simpl never.
Local Arguments N.add : simpl never.
Local Arguments N.div : simpl never.
Local Arguments N.modulo : simpl never.
Local Arguments N.land : simpl never.
Local Arguments N.lor : simpl never.
Local Arguments N.lxor : simpl never.
Local Arguments N.shiftr : simpl never.
Local Arguments N.shiftl : simpl never.
Local Arguments Byte.to_N : simpl never.
Local Arguments byte_of_N : simpl never.

(* ---------- small tactics ---------- *)

(* destruct a list whose length is a known numeral into its elements *)
Ltac destr_list l H :=
  repeat (destruct l as [|? l]; [discriminate H|]); destruct l; [|discriminate H]; clear H.

Ltac byte_bounds :=
  repeat match goal with
  | b : byte |- _ =>
      lazymatch goal with
      | _ : Byte.to_N b < 256 |- _ => fail
      | _ => pose proof (byte_lt b)
      end
  end.

(* evaluate closed [N.land c1 c2] *)
Ltac cland :=
  repeat match goal with
  | |- context [N.land (Npos ?a) (Npos ?b)] =>
      let v := eval vm_compute in (N.land (Npos a) (Npos b)) in
      change (N.land (Npos a) (Npos b)) with v
  end.

(* ---------- bytes as numbers ---------- *)

Lemma byte_val v : Byte.to_N (byte_of_N v) = N.land v 255.
Proof. rewrite to_N_byte_of_N. change 255 with (N.ones 8). rewrite N.land_ones. reflexivity. Qed.

Lemma land_byte_255 x : N.land (Byte.to_N x) 255 = Byte.to_N x.
Proof. rewrite <- byte_val, byte_of_to_N. reflexivity. Qed.

Lemma land_land_const x a b : N.land (N.land x a) b = N.land x (N.land a b).
Proof. symmetry. apply N.land_assoc. Qed.

Ltac bitnorm :=
  rewrite ?byte_val; rewrite ?N.land_lor_distr_l; rewrite ?land_land_const; cland;
  rewrite ?N.land_0_r, ?N.lor_0_r, ?N.lor_0_l.

Lemma land_7 x : N.land x 7 = x mod 8.
Proof. change 7 with (N.ones 3). rewrite N.land_ones. reflexivity. Qed.

Lemma land_255 x : N.land x 255 = x mod 256.
Proof. change 255 with (N.ones 8). rewrite N.land_ones. reflexivity. Qed.

(* [N.land x k] for k < 256 only looks at the low byte of x *)
Lemma land_low_byte x k : N.land k 255 = k -> N.land x k = N.land (Byte.to_N (byte_of_N x)) k.
Proof. intros H. rewrite byte_val, land_land_const, (N.land_comm 255 k), H. reflexivity. Qed.

Lemma land_248_byte y : N.land (Byte.to_N y) 248 = Byte.to_N y / 8 * 8.
Proof. destruct y; reflexivity. Qed.
Lemma land_240_byte y : N.land (Byte.to_N y) 240 = Byte.to_N y / 16 * 16.
Proof. destruct y; reflexivity. Qed.
Lemma land_192_byte y : N.land (Byte.to_N y) 192 = Byte.to_N y / 64 * 64.
Proof. destruct y; reflexivity. Qed.

Lemma land_248 x : N.land x 248 = (x mod 256) / 8 * 8.
Proof. rewrite (land_low_byte x 248) by reflexivity. rewrite land_248_byte, to_N_byte_of_N. reflexivity. Qed.

Lemma byte_eqb_true a b : byte_eqb a b = true <-> Byte.to_N a = Byte.to_N b.
Proof. unfold byte_eqb. apply N.eqb_eq. Qed.

Lemma byte_eqb_refl a : byte_eqb a a = true.
Proof. apply byte_eqb_true. reflexivity. Qed.

Lemma bytes_eqb_toN a b : length a = length b -> bytes_eqb a b = (toN a =? toN b).
Proof.
  intros HL. apply Bool.eq_true_iff_eq. rewrite bytes_eqb_eq, N.eqb_eq. split.
  - intros ->. reflexivity.
  - apply toN_inj. exact HL.
Qed.

(* ---------- bytewise and/or = and/or of the big-endian values ---------- *)

Fixpoint zipN (f : N -> N -> N) (a b : bytes) : bytes :=
  match a, b with
  | x :: a', y :: b' => byte_of_N (f (Byte.to_N x) (Byte.to_N y)) :: zipN f a' b'
  | _, _ => []
  end.

Lemma zipN_length f a b : length a = length b -> length (zipN f a b) = length a.
Proof.
  revert b. induction a as [|x a IH]; intros [|y b] H; try discriminate; cbn [zipN length].
  - reflexivity.
  - f_equal. apply IH. cbn [length] in H. lia.
Qed.

Section BitOp.
  Variable f : N -> N -> N.
  Variable fb : bool -> bool -> bool.
  Hypothesis f_spec : forall a b n, N.testbit (f a b) n = fb (N.testbit a n) (N.testbit b n).
  Hypothesis fb_ff : fb false false = false.

  Lemma f_bound a b n : a < 2 ^ n -> b < 2 ^ n -> f a b < 2 ^ n.
  Proof.
    intros Ha Hb. apply lt_pow2_bits. intros m Hm.
    rewrite f_spec, (bits_above a n m Ha Hm), (bits_above b n m Hb Hm). exact fb_ff.
  Qed.

  Lemma f_mul_add x y k r s :
    r < 2 ^ k -> s < 2 ^ k -> f (x * 2 ^ k + r) (y * 2 ^ k + s) = f x y * 2 ^ k + f r s.
  Proof.
    intros Hr Hs. apply N.bits_inj. intros n.
    rewrite f_spec, !testbit_mul_add by (try apply f_bound; assumption).
    destruct (n <? k); rewrite f_spec; reflexivity.
  Qed.

  Lemma f_0_0 : f 0 0 = 0.
  Proof. apply N.bits_inj. intros n. rewrite f_spec, N.bits_0. exact fb_ff. Qed.

  Lemma toN_zipN a b : length a = length b -> toN (zipN f a b) = f (toN a) (toN b).
  Proof.
    revert b. induction a as [|x a IH]; intros [|y b] H; try discriminate; cbn [zipN].
    - rewrite toN_nil, f_0_0. reflexivity.
    - cbn [length] in H. assert (H' : length a = length b) by lia.
      rewrite !toN_cons, zipN_length, IH by exact H'. rewrite <- H'.
      rewrite !pow256. rewrite f_mul_add by apply toN_bound2 || (rewrite H'; apply toN_bound2).
      f_equal. f_equal. rewrite to_N_byte_of_N. apply N.mod_small.
      change 256 with (2 ^ 8). apply f_bound; apply byte_lt.
  Qed.
End BitOp.

Definition land_bound := f_bound N.land andb N.land_spec eq_refl.
Definition lor_bound := f_bound N.lor orb N.lor_spec eq_refl.
Definition toN_zip_land := toN_zipN N.land andb N.land_spec eq_refl.
Definition toN_zip_lor := toN_zipN N.lor orb N.lor_spec eq_refl.
Definition zip_land_length := zipN_length N.land.
Definition zip_lor_length := zipN_length N.lor.

(* ---------- the executable hashes: the only facts the proofs use ---------- *)

Lemma crc32c_bit_lt c : c < 2 ^ 32 -> crc32c_bit c < 2 ^ 32.
Proof.
  intros H. unfold crc32c_bit.
  assert (H1 : N.shiftr c 1 < 2 ^ 32) by (rewrite N.shiftr_div_pow2; change (2 ^ 1) with 2; lia).
  destruct (N.odd c); [|exact H1].
  apply lxor_bound; [exact H1|]. unfold crc32c_poly. lia.
Qed.

Lemma crc32c_byte_lt c b : c < 2 ^ 32 -> crc32c_byte c b < 2 ^ 32.
Proof.
  intros H. unfold crc32c_byte. do 8 apply crc32c_bit_lt.
  apply lxor_bound; [exact H|]. pose proof (byte_lt b). lia.
Qed.

Lemma crc32c_lt m : crc32c m < 2 ^ 32.
Proof.
  unfold crc32c, crc32c_update. apply lxor_bound; [|unfold crc32c_ones; lia].
  assert (H0 : N.lxor 0 crc32c_ones < 2 ^ 32) by (unfold crc32c_ones; rewrite N.lxor_0_l; lia).
  revert H0. generalize (N.lxor 0 crc32c_ones). induction m as [|b m IH]; intros acc Hacc.
  - exact Hacc.
  - cbn [fold_left]. apply IH. apply crc32c_byte_lt. exact Hacc.
Qed.

Lemma sha1_length m : length (sha1 m) = 20%nat.
Proof. unfold sha1. rewrite !app_length, !ofN_length. reflexivity. Qed.

(* ---------- SecureNodeId / NodeIdSecure on a given crc value ---------- *)

Lemma write_crc_length id c : length (write_crc id c) = length id.
Proof. destruct id as [|i0 [|i1 [|i2 rest]]]; reflexivity. Qed.

Lemma write_crc_nth id c k : (3 <= k)%nat -> nth k (write_crc id c) x00 = nth k id x00.
Proof.
  intros Hk. destruct id as [|i0 [|i1 [|i2 rest]]]; try reflexivity.
  destruct k as [|[|[|k]]]; try lia. reflexivity.
Qed.

Lemma write_crc_low3 id c :
  N.land (Byte.to_N (nthb 2 (write_crc id c))) 7 = N.land (Byte.to_N (nthb 2 id)) 7.
Proof.
  destruct id as [|i0 [|i1 [|i2 rest]]]; try reflexivity.
  unfold write_crc, nthb, crc_b2. cbn [nth]. bitnorm. reflexivity.
Qed.

Lemma write_crc_idem id c : write_crc (write_crc id c) c = write_crc id c.
Proof.
  destruct id as [|i0 [|i1 [|i2 rest]]]; try reflexivity.
  unfold write_crc, crc_b2. do 3 f_equal. bitnorm. reflexivity.
Qed.

Lemma check_write_crc id c : (3 <= length id)%nat -> check_crc (write_crc id c) c = true.
Proof.
  intros HL. destruct id as [|i0 [|i1 [|i2 rest]]]; cbn [length] in HL; try lia.
  unfold check_crc, write_crc, nthb. cbn [nth]. rewrite !byte_eqb_refl. cbn [negb].
  replace (N.land _ 248 =? _) with true; [reflexivity|].
  symmetry. apply N.eqb_eq. unfold crc_b2. bitnorm. reflexivity.
Qed.

(* the 21-bit comparison of the code, for a 32-bit crc, is the comparison of the 21 most
   significant bits of the 160-bit id with those of the crc *)
Lemma check_crc_spec id c :
  length id = 20%nat -> c < 2 ^ 32 ->
  (check_crc id c = true <-> top21_id id = top21_crc c).
Proof.
  intros HL Hc. destruct id as [|i0 [|i1 [|i2 rest]]]; try discriminate HL.
  assert (HR : length rest = 17%nat) by (cbn [length] in HL; lia).
  unfold top21_id, top21_crc.
  change (i0 :: i1 :: i2 :: rest) with ([i0; i1; i2] ++ rest) at 2.
  rewrite toN_app, HR. pose proof (toN_bound rest) as BR. rewrite HR in BR.
  unfold toN at 1. cbn [fold_left].
  unfold check_crc, nthb. cbn [nth].
  assert (E0 : byte_eqb i0 (crc_b0 c) = (Byte.to_N i0 =? c / 2 ^ 24)).
  { unfold byte_eqb, crc_b0. rewrite byte_val, land_land_const. cland.
    rewrite land_255, N.shiftr_div_pow2. f_equal. apply N.mod_small. lia. }
  assert (E1 : byte_eqb i1 (crc_b1 c) = (Byte.to_N i1 =? (c / 2 ^ 16) mod 256)).
  { unfold byte_eqb, crc_b1. rewrite byte_val, land_land_const. cland.
    rewrite land_255, N.shiftr_div_pow2. reflexivity. }
  assert (E2 : (N.land (Byte.to_N i2) 248 =? Byte.to_N (crc_b2 c))
               = (Byte.to_N i2 / 8 =? (c / 2 ^ 8) mod 256 / 8)).
  { unfold crc_b2. rewrite byte_val, land_land_const. cland.
    rewrite land_248_byte, land_248, N.shiftr_div_pow2.
    apply Bool.eq_true_iff_eq. rewrite !N.eqb_eq. lia. }
  rewrite E0, E1, E2. byte_bounds.
  generalize dependent (toN rest). intros R BR.
  destruct (Byte.to_N i0 =? c / 2 ^ 24) eqn:F0; cbn [negb];
    [|split; [discriminate|]; intros G; apply N.eqb_neq in F0; exfalso; lia].
  destruct (Byte.to_N i1 =? (c / 2 ^ 16) mod 256) eqn:F1; cbn [negb];
    [|split; [discriminate|]; intros G; apply N.eqb_neq in F1; apply N.eqb_eq in F0; exfalso; lia].
  destruct (Byte.to_N i2 / 8 =? (c / 2 ^ 8) mod 256 / 8) eqn:F2; cbn [negb];
    [|split; [discriminate|]; intros G; apply N.eqb_neq in F2; apply N.eqb_eq in F0, F1; exfalso; lia].
  apply N.eqb_eq in F0, F1, F2. split; [intros _; lia | reflexivity].
Qed.

(* ---------- net.IP helpers ---------- *)

Lemma to4_length ip ip4 : to4 ip = Some ip4 -> length ip4 = 4%nat.
Proof.
  unfold to4. destruct (Nat.eqb (length ip) 4) eqn:E4.
  - intros [= <-]. apply Nat.eqb_eq. exact E4.
  - destruct (Nat.eqb (length ip) 16) eqn:E16; cbn [andb]; [|discriminate].
    destruct (_ && _ && _); [|discriminate]. intros [= <-].
    change (length (skipn 12 ip) = 4%nat). rewrite skipn_length. apply Nat.eqb_eq in E16. rewrite E16. reflexivity.
Qed.

Lemma to4_of4 ip : length ip = 4%nat -> to4 ip = Some ip.
Proof. intros H. unfold to4. rewrite H. reflexivity. Qed.

Lemma to4_None_length ip :
  length ip = 4%nat \/ length ip = 16%nat -> to4 ip = None -> length ip = 16%nat.
Proof. intros [H|H] E; [rewrite to4_of4 in E by exact H; discriminate | exact H]. Qed.

Lemma to4_or_self_idem ip : to4_or_self (to4_or_self ip) = to4_or_self ip.
Proof.
  unfold to4_or_self at 2 3. destruct (to4 ip) as [ip4|] eqn:E.
  - unfold to4_or_self. rewrite (to4_of4 ip4 (to4_length _ _ E)). reflexivity.
  - unfold to4_or_self. rewrite E. reflexivity.
Qed.

Lemma crc_input_to4 ip r : crc_input (to4_or_self ip) r = crc_input ip r.
Proof. unfold crc_input. rewrite to4_or_self_idem. reflexivity. Qed.

(* ---------- crcIP: which bytes are checksummed ---------- *)

Lemma mask4b_eq : mask4b = [x03; x0f; x3f; xff].
Proof. reflexivity. Qed.
Lemma mask6b_eq : mask6b = [x01; x03; x07; x0f; x1f; x3f; x7f; xff].
Proof. reflexivity. Qed.

Definition rand_byte (r : byte) : byte := byte_of_N (N.shiftl (N.land (Byte.to_N r) 7) 5).

Lemma lor_x00 y : byte_of_N (N.lor (Byte.to_N y) (Byte.to_N x00)) = y.
Proof. change (Byte.to_N x00) with 0. rewrite N.lor_0_r. apply byte_of_to_N. Qed.

Lemma crc_input_v4 ip a b c d r :
  to4 ip = Some [a; b; c; d] ->
  crc_input ip r
  = Some (zipN N.lor (zipN N.land [a; b; c; d] mask4b) [rand_byte r; x00; x00; x00]).
Proof.
  intros E. unfold crc_input, to4_or_self. rewrite E.
  unfold mask_for_ip. rewrite to4_of4 by reflexivity. rewrite mask4b_eq.
  cbn [apply_mask option_map length firstn zipN]. unfold bandb, rand_byte.
  rewrite !lor_x00. reflexivity.
Qed.

Lemma crc_input_v6 ip r :
  to4 ip = None -> length ip = 16%nat ->
  crc_input ip r
  = Some (zipN N.lor (zipN N.land (firstn 8 ip) mask6b)
            [rand_byte r; x00; x00; x00; x00; x00; x00; x00]).
Proof.
  intros E HL. unfold crc_input, to4_or_self. rewrite E.
  unfold mask_for_ip. rewrite E. rewrite mask6b_eq.
  destr_list ip HL.
  cbn [apply_mask option_map length firstn zipN]. unfold bandb, rand_byte.
  rewrite !lor_x00. reflexivity.
Qed.

Lemma crc_input_some ip r :
  length ip = 4%nat \/ length ip = 16%nat -> exists m, crc_input ip r = Some m.
Proof.
  intros HL. destruct (to4 ip) as [ip4|] eqn:E.
  - pose proof (to4_length _ _ E) as H4. destr_list ip4 H4.
    eexists. apply crc_input_v4. exact E.
  - eexists. apply crc_input_v6; [exact E | apply to4_None_length; assumption].
Qed.

(* ---------- word-level spec = byte-level code ---------- *)

Lemma toN_rand4 r :
  toN [rand_byte r; x00; x00; x00] = N.shiftl (Byte.to_N r mod 8) 29.
Proof.
  unfold toN. cbn [fold_left]. change (Byte.to_N x00) with 0.
  unfold rand_byte. rewrite byte_val, land_255, land_7, !N.shiftl_mul_pow2.
  pose proof (N.mod_lt (Byte.to_N r) 8). rewrite (N.mod_small _ 256) by lia. lia.
Qed.

Lemma toN_rand8 r :
  toN [rand_byte r; x00; x00; x00; x00; x00; x00; x00] = N.shiftl (Byte.to_N r mod 8) 61.
Proof.
  unfold toN. cbn [fold_left]. change (Byte.to_N x00) with 0.
  unfold rand_byte. rewrite byte_val, land_255, land_7, !N.shiftl_mul_pow2.
  pose proof (N.mod_lt (Byte.to_N r) 8). rewrite (N.mod_small _ 256) by lia. lia.
Qed.

Lemma v4_input_spec ip4 r :
  length ip4 = 4%nat ->
  zipN N.lor (zipN N.land ip4 mask4b) [rand_byte r; x00; x00; x00]
  = ofN 4 (N.lor (N.land (toN ip4) spec_mask4) (N.shiftl (Byte.to_N r mod 8) 29)).
Proof.
  intros HL.
  assert (L1 : length (zipN N.land ip4 mask4b) = 4%nat) by (rewrite zip_land_length; rewrite HL; reflexivity).
  apply toN_inj.
  - rewrite zip_lor_length, ofN_length by (rewrite L1; reflexivity). exact L1.
  - rewrite toN_zip_lor by (rewrite L1; reflexivity).
    rewrite toN_zip_land by (rewrite HL; reflexivity).
    rewrite toN_rand4. change (toN mask4b) with spec_mask4.
    rewrite toN_ofN; [reflexivity|].
    change (256 ^ N.of_nat 4) with (2 ^ 32). apply lor_bound.
    + apply land_bound; [|unfold spec_mask4; lia]. pose proof (toN_bound ip4) as B. rewrite HL in B. exact B.
    + rewrite N.shiftl_mul_pow2. pose proof (N.mod_lt (Byte.to_N r) 8). lia.
Qed.

Lemma v6_input_spec ip8 r :
  length ip8 = 8%nat ->
  zipN N.lor (zipN N.land ip8 mask6b) [rand_byte r; x00; x00; x00; x00; x00; x00; x00]
  = ofN 8 (N.lor (N.land (toN ip8) spec_mask6) (N.shiftl (Byte.to_N r mod 8) 61)).
Proof.
  intros HL.
  assert (L1 : length (zipN N.land ip8 mask6b) = 8%nat) by (rewrite zip_land_length; rewrite HL; reflexivity).
  apply toN_inj.
  - rewrite zip_lor_length, ofN_length by (rewrite L1; reflexivity). exact L1.
  - rewrite toN_zip_lor by (rewrite L1; reflexivity).
    rewrite toN_zip_land by (rewrite HL; reflexivity).
    rewrite toN_rand8. change (toN mask6b) with spec_mask6.
    rewrite toN_ofN; [reflexivity|].
    change (256 ^ N.of_nat 8) with (2 ^ 64). apply lor_bound.
    + apply land_bound; [|unfold spec_mask6; lia]. pose proof (toN_bound ip8) as B. rewrite HL in B. exact B.
    + rewrite N.shiftl_mul_pow2. pose proof (N.mod_lt (Byte.to_N r) 8). lia.
Qed.

(* address family: To4 on bytes = "the upper 96 bits are 0x0000..ffff" on the 128-bit word *)
Lemma spec_v4_word_to4 ip :
  length ip = 4%nat \/ length ip = 16%nat -> spec_v4_word ip = option_map toN (to4 ip).
Proof.
  intros [HL|HL].
  - rewrite to4_of4 by exact HL. unfold spec_v4_word. rewrite HL. reflexivity.
  - unfold spec_v4_word, to4. rewrite HL. cbn [Nat.eqb andb].
    destr_list ip HL.
    match goal with |- context [toN ?l] =>
      change (toN l) with (toN (firstn 12 l ++ skipn 12 l)) end.
    cbn [firstn skipn]. rewrite toN_app. cbn [length].
    match goal with |- context [toN ?h * _ + toN ?t] =>
      pose proof (toN_bound t) as BT; cbn [length] in BT;
      set (H := toN h) in *; set (T := toN t) in * end.
    change (256 ^ N.of_nat 4) with (2 ^ 32) in *.
    replace ((H * 2 ^ 32 + T) / 2 ^ 32) with H by lia.
    replace ((H * 2 ^ 32 + T) mod 2 ^ 32) with T by lia.
    subst H T.
    match goal with |- context [toN ?h =? 65535] =>
      replace (toN h =? 65535) with (bytes_eqb h [x00; x00; x00; x00; x00; x00; x00; x00; x00; x00; xff; xff])
        by (rewrite bytes_eqb_toN by reflexivity; reflexivity) end.
    unfold nthb. cbn [nth all_zero bytes_eqb]. unfold byte_is, byte_eqb.
    change (Byte.to_N x00) with 0. change (Byte.to_N xff) with 255.
    match goal with |- (if ?a then _ else _) = option_map _ (if ?b then _ else _) =>
      replace b with a; [destruct a; reflexivity|] end.
    rewrite !andb_true_r, <- !andb_assoc. reflexivity.
Qed.

Lemma spec_rand_eq id : length id = 20%nat -> spec_rand id = Byte.to_N (nthb 19 id) mod 8.
Proof.
  intros HL. unfold spec_rand, nthb. destr_list id HL. cbn [nth].
  match goal with |- context [toN ?l] => change l with (firstn 19 l ++ skipn 19 l) end.
  cbn [firstn skipn]. rewrite toN_snoc. generalize (toN [b; b0; b1; b2; b3; b4; b5; b6; b7; b8; b9; b10; b11; b12; b13; b14; b15; b16; b17]).
  intros X. lia.
Qed.

Lemma toN_firstn8 ip : length ip = 16%nat -> toN (firstn 8 ip) = toN ip / 2 ^ 64.
Proof.
  intros HL. rewrite <- (firstn_skipn 8 ip) at 2. rewrite toN_app.
  pose proof (toN_bound (skipn 8 ip)) as B. rewrite skipn_length, HL in *.
  change (256 ^ N.of_nat (16 - 8)) with (2 ^ 64) in *.
  generalize dependent (toN (skipn 8 ip)). generalize (toN (firstn 8 ip)). intros. lia.
Qed.

(* ---------- isLocalNetwork = the word-level ranges ---------- *)

Lemma is_local_spec ip :
  length ip = 4%nat \/ length ip = 16%nat -> is_local_network ip = spec_local ip.
Proof.
  intros HL. unfold spec_local. rewrite spec_v4_word_to4 by exact HL.
  unfold is_local_network, ipnet_contains, is_link_local_unicast, is_loopback, to4_or_self.
  destruct (to4 ip) as [ip4|] eqn:E; cbn [option_map].
  - pose proof (to4_length _ _ E) as H4. destr_list ip4 H4.
    unfold class_a_ip, class_a_mask, class_b_ip, class_b_mask, class_c_ip, class_c_mask, nthb.
    cbn [length Nat.eqb masked_eqb nth]. unfold byte_is.
    change (Byte.to_N x00) with 0. change (Byte.to_N xff) with 255.
    change (Byte.to_N x0a) with 10. change (Byte.to_N xac) with 172. change (Byte.to_N x10) with 16.
    change (Byte.to_N xf0) with 240. change (Byte.to_N xc0) with 192. change (Byte.to_N xa8) with 168.
    rewrite !N.land_0_r, !land_byte_255, !land_240_byte. cland.
    unfold spec_local4, toN. cbn [fold_left]. byte_bounds.
    generalize dependent (Byte.to_N b). generalize dependent (Byte.to_N b0).
    generalize dependent (Byte.to_N b1). generalize dependent (Byte.to_N b2). intros.
    apply Bool.eq_true_iff_eq.
    repeat match goal with |- context [if ?c then true else ?d] =>
      replace (if c then true else d) with (c || d) by (destruct c; reflexivity) end.
    lia.
  - pose proof (to4_None_length ip HL E) as H16. rewrite H16.
    cbn [length Nat.eqb andb]. unfold class_a_ip, class_b_ip, class_c_ip. cbn [length Nat.eqb].
    rewrite bytes_eqb_toN by exact H16. change (toN ipv6_loopback) with 1.
    unfold spec_local6. destr_list ip H16. unfold nthb, byte_is. cbn [nth].
    rewrite land_192_byte.
    match goal with |- context [toN (?x :: ?y :: ?t)] =>
      change (x :: y :: t) with ([x; y] ++ t); rewrite toN_app;
      pose proof (toN_bound t) as BT; cbn [length] in *;
      generalize dependent (toN t); intros T BT end.
    change (256 ^ N.of_nat 14) with (2 ^ 112) in *.
    unfold toN. cbn [fold_left]. byte_bounds.
    generalize dependent (Byte.to_N b). generalize dependent (Byte.to_N b0). intros.
    apply Bool.eq_true_iff_eq.
    repeat match goal with |- context [if ?c then true else ?d] =>
      replace (if c then true else d) with (c || d) by (destruct c; reflexivity) end.
    lia.
Qed.

(* ==================================================================================== *)
Lemma nthb19_write_crc id c : nthb 19 (write_crc id c) = nthb 19 id.
Proof. unfold nthb. apply write_crc_nth. lia. Qed.

Section Generic.
  Variable crc : bytes -> N.

  Notation crc_ip := (crc_ip_g crc).
  Notation secure_node_id := (secure_node_id_g crc).
  Notation node_id_secure := (node_id_secure_g crc).

  Definition valid_ip (ip : bytes) : Prop := length ip = 4%nat \/ length ip = 16%nat.

  (* crcIP checksums exactly the bytes of the BEP 42 word *)
  Lemma crc_ip_spec ip id :
    valid_ip ip -> length id = 20%nat ->
    crc_ip ip (nthb 19 id) = Some (spec_crc crc ip id).
  Proof.
    intros HL Hid. unfold crc_ip_g, spec_crc. rewrite spec_v4_word_to4 by exact HL.
    rewrite spec_rand_eq by exact Hid.
    destruct (to4 ip) as [ip4|] eqn:E; cbn [option_map].
    - pose proof (to4_length _ _ E) as H4. pose proof H4 as H4'. destr_list ip4 H4.
      rewrite (crc_input_v4 _ _ _ _ _ _ E). cbn [option_map].
      rewrite v4_input_spec by exact H4'. reflexivity.
    - pose proof (to4_None_length ip HL E) as H16.
      rewrite crc_input_v6 by assumption. cbn [option_map].
      rewrite v6_input_spec by (rewrite firstn_length, H16; reflexivity).
      rewrite toN_firstn8 by exact H16. reflexivity.
  Qed.

  Lemma crc_ip_some ip r : valid_ip ip -> exists c, crc_ip ip r = Some c.
  Proof.
    intros HL. destruct (crc_input_some ip r HL) as [m Hm].
    exists (crc m). unfold crc_ip_g. rewrite Hm. reflexivity.
  Qed.

  Lemma secure_node_id_eq id ip id' :
    secure_node_id id ip = Some id' ->
    exists c, crc_ip ip (nthb 19 id) = Some c /\ id' = write_crc id c.
  Proof.
    unfold secure_node_id_g. destruct (crc_ip ip (nthb 19 id)) as [c|]; [|discriminate].
    intros [= <-]. exists c. split; reflexivity.
  Qed.

  (* -------- C17: no panic -------- *)
  Theorem secure_no_panic id ip : valid_ip ip -> exists id', secure_node_id id ip = Some id'.
  Proof.
    intros HL. destruct (crc_ip_some ip (nthb 19 id) HL) as [c Hc].
    exists (write_crc id c). unfold secure_node_id_g. rewrite Hc. reflexivity.
  Qed.

  Theorem verify_no_panic id ip : valid_ip ip -> exists b, node_id_secure id ip = Some b.
  Proof.
    intros HL. unfold node_id_secure_g. destruct (is_local_network ip); [eexists; reflexivity|].
    unfold crc_ip_g. rewrite crc_input_to4.
    destruct (crc_input_some ip (nthb 19 id) HL) as [m Hm]. rewrite Hm. eexists. reflexivity.
  Qed.

  (* -------- C17: only the first 21 bits change -------- *)
  Theorem only_21_bits id ip id' :
    length id = 20%nat -> secure_node_id id ip = Some id' ->
    length id' = 20%nat
    /\ (forall k, (3 <= k)%nat -> nth k id' x00 = nth k id x00)
    /\ N.land (Byte.to_N (nthb 2 id')) 7 = N.land (Byte.to_N (nthb 2 id)) 7
    /\ toN id' mod 2 ^ 139 = toN id mod 2 ^ 139.
  Proof.
    intros HL HS. destruct (secure_node_id_eq _ _ _ HS) as (c & _ & ->).
    split; [rewrite write_crc_length; exact HL|].
    split; [intros k Hk; apply write_crc_nth; exact Hk|].
    split; [apply write_crc_low3|].
    pose proof (write_crc_low3 id c) as L3. clear HS.
    destruct id as [|i0 [|i1 [|i2 rest]]]; try discriminate HL.
    assert (HR : length rest = 17%nat) by (cbn [length] in HL; lia). clear HL.
    unfold write_crc in *. unfold nthb in L3. cbn [nth] in L3. revert L3.
    match goal with |- context [byte_of_N (N.lor ?a ?b)] => generalize (byte_of_N (N.lor a b)) end.
    intros y L3. rewrite !land_7 in L3.
    change (crc_b0 c :: crc_b1 c :: y :: rest) with ([crc_b0 c; crc_b1 c; y] ++ rest).
    change (i0 :: i1 :: i2 :: rest) with ([i0; i1; i2] ++ rest).
    rewrite !toN_app.
    pose proof (toN_bound rest) as BR. rewrite HR in *.
    unfold toN at 1 3. cbn [fold_left].
    change (256 ^ N.of_nat 17) with (2 ^ 136) in *.
    generalize dependent (toN rest). intros R BR.
    pose proof (byte_lt (crc_b0 c)). pose proof (byte_lt (crc_b1 c)). byte_bounds.
    generalize dependent (Byte.to_N y). generalize dependent (Byte.to_N i2).
    generalize dependent (Byte.to_N (crc_b0 c)). generalize dependent (Byte.to_N (crc_b1 c)).
    generalize dependent (Byte.to_N i0). generalize dependent (Byte.to_N i1).
    intros. lia.
  Qed.

  (* -------- C17: idempotent -------- *)
  Theorem secure_idempotent id ip id' :
    secure_node_id id ip = Some id' -> secure_node_id id' ip = Some id'.
  Proof.
    intros HS. destruct (secure_node_id_eq _ _ _ HS) as (c & Hc & ->).
    unfold secure_node_id_g. rewrite nthb19_write_crc, Hc, write_crc_idem. reflexivity.
  Qed.

  (* -------- C17: the secured id verifies -------- *)
  Theorem secure_verifies id ip id' :
    length id = 20%nat -> secure_node_id id ip = Some id' -> node_id_secure id' ip = Some true.
  Proof.
    intros HL HS. destruct (secure_node_id_eq _ _ _ HS) as (c & Hc & ->).
    unfold node_id_secure_g. destruct (is_local_network ip); [reflexivity|].
    unfold crc_ip_g in *. rewrite crc_input_to4, nthb19_write_crc, Hc.
    rewrite check_write_crc by (rewrite HL; lia). reflexivity.
  Qed.

  Theorem secures id ip :
    length id = 20%nat -> valid_ip ip ->
    exists id', secure_node_id id ip = Some id' /\ node_id_secure id' ip = Some true.
  Proof.
    intros HL HV. destruct (secure_no_panic id ip HV) as [id' H]. exists id'.
    split; [exact H | exact (secure_verifies id ip id' HL H)].
  Qed.

  (* -------- C17: local addresses are exempt -------- *)
  Theorem local_exempt id ip : is_local_network ip = true -> node_id_secure id ip = Some true.
  Proof. intros H. unfold node_id_secure_g. rewrite H. reflexivity. Qed.

  Theorem local_exempt_spec id ip :
    valid_ip ip -> spec_local ip = true -> node_id_secure id ip = Some true.
  Proof. intros HV H. apply local_exempt. rewrite is_local_spec by exact HV. exact H. Qed.

  (* -------- C17: verification = the BEP 42 rule -------- *)
  Section Spec.
  Hypothesis crc_lt : forall m, crc m < 2 ^ 32.

  Theorem verify_agrees_spec id ip :
    length id = 20%nat -> valid_ip ip ->
    (node_id_secure id ip = Some true <-> bep42_ok_g crc ip id).
  Proof.
    intros Hid HL. unfold node_id_secure_g, bep42_ok_g.
    rewrite is_local_spec by exact HL.
    destruct (spec_local ip) eqn:L.
    - split; [left; reflexivity | reflexivity].
    - unfold crc_ip_g at 1. rewrite crc_input_to4. fold (crc_ip ip (nthb 19 id)).
      rewrite crc_ip_spec by assumption.
      assert (CL : spec_crc crc ip id < 2 ^ 32)
        by (unfold spec_crc; destruct (spec_v4_word ip); apply crc_lt).
      pose proof (check_crc_spec id (spec_crc crc ip id) Hid CL) as CS.
      split.
      + intros [= H]. right. apply CS. exact H.
      + intros [H|H]; [discriminate H|]. f_equal. apply CS. exact H.
  Qed.

  End Spec.

  (* -------- HashTuple, InitNodeId, MakeDeterministicNodeID -------- *)
  Variable hash : bytes -> bytes.
  Hypothesis hash_length : forall m, length (hash m) = 20%nat.

  Lemma hash_tuple_length bs : length (hash_tuple_g hash bs) = 20%nat.
  Proof.
    unfold hash_tuple_g. assert (H0 : length (zero_bytes 20) = 20%nat) by reflexivity.
    revert H0. generalize (zero_bytes 20). induction bs as [|b bs IH]; intros acc Hacc.
    - exact Hacc.
    - cbn [fold_left]. apply IH. apply hash_length.
  Qed.

  Notation init_node_id := (init_node_id_g crc hash).

  (* deterministic branch: Conn and PublicIP present (always the case under NewServer with a
     public ip), whatever NoSecurity says *)
  Theorem self_id_deterministic c rnd nw addr ip :
    all_zero (cfg_node_id c) = true -> cfg_conn c = Some (nw, addr) -> cfg_public_ip c = Some ip ->
    valid_ip ip ->
    exists id, init_node_id c rnd = Some (id, true)
               /\ id = write_crc (hash_tuple_g hash [nw; addr; ip]) (spec_crc crc ip (hash_tuple_g hash [nw; addr; ip]))
               /\ length id = 20%nat /\ node_id_secure id ip = Some true.
  Proof.
    intros HZ HC HP HL. unfold init_node_id_g. rewrite HZ, HC, HP.
    set (h := hash_tuple_g hash [nw; addr; ip]).
    assert (Hh : length h = 20%nat) by apply hash_tuple_length.
    destruct (secure_no_panic h ip HL) as [id Hid]. rewrite Hid. cbn [option_map].
    exists id. split; [reflexivity|].
    pose proof Hid as Hid2. unfold secure_node_id_g in Hid2.
    rewrite crc_ip_spec in Hid2 by assumption. injection Hid2 as <-.
    split; [reflexivity|]. split; [rewrite write_crc_length; exact Hh|].
    exact (secure_verifies h ip _ Hh Hid).
  Qed.

  (* random branch with security on *)
  Theorem self_id_random_secure c rnd ip :
    all_zero (cfg_node_id c) = true -> cfg_conn c = None -> cfg_public_ip c = Some ip ->
    cfg_no_security c = false -> length rnd = 20%nat -> valid_ip ip ->
    exists id, init_node_id c rnd = Some (id, false)
               /\ length id = 20%nat /\ node_id_secure id ip = Some true.
  Proof.
    intros HZ HC HP HN HR HL. unfold init_node_id_g. rewrite HZ, HC, HP, HN. cbn [negb].
    destruct (secure_no_panic rnd ip HL) as [id Hid]. rewrite Hid. cbn [option_map].
    exists id. split; [reflexivity|]. split.
    - destruct (only_21_bits rnd ip id HR Hid) as [H _]. exact H.
    - exact (secure_verifies rnd ip _ HR Hid).
  Qed.

  (* the remaining configuration, stated as it is: a direct InitNodeId call with no Conn and
     NoSecurity set leaves the random id unsecured even when a PublicIP is given
     (NewServer never takes this path: it always supplies a Conn) *)
  Theorem init_no_conn_no_security c rnd :
    all_zero (cfg_node_id c) = true -> cfg_conn c = None -> cfg_no_security c = true ->
    init_node_id c rnd = Some (rnd, false).
  Proof.
    intros HZ HC HN. unfold init_node_id_g. rewrite HZ, HC, HN.
    destruct (cfg_public_ip c); reflexivity.
  Qed.

  Theorem init_keeps_configured_id c rnd :
    all_zero (cfg_node_id c) = false -> init_node_id c rnd = Some (cfg_node_id c, false).
  Proof. intros HZ. unfold init_node_id_g. rewrite HZ. reflexivity. Qed.

  Theorem init_no_panic c rnd :
    (forall ip, cfg_public_ip c = Some ip -> valid_ip ip) -> exists r, init_node_id c rnd = Some r.
  Proof.
    intros HV. unfold init_node_id_g. destruct (all_zero (cfg_node_id c)); [|eexists; reflexivity].
    destruct (cfg_public_ip c) as [ip|] eqn:HP.
    - specialize (HV ip eq_refl).
      destruct (cfg_conn c) as [[nw addr]|].
      + destruct (secure_no_panic (hash_tuple_g hash [nw; addr; ip]) ip HV) as [id ->]. eexists. reflexivity.
      + destruct (cfg_no_security c); cbn [negb]; [eexists; reflexivity|].
        destruct (secure_no_panic rnd ip HV) as [id ->]. eexists. reflexivity.
    - destruct (cfg_conn c) as [[nw addr]|]; eexists; reflexivity.
  Qed.

  (* the runner's acceptance test for the random branch is exact: an observed id is accepted
     iff some value of RandomNodeID() produces it *)
  Theorem accept_init_iff c obs det :
    length obs = 20%nat ->
    (accept_init_node_id_g crc hash c obs det = true
     <-> exists rnd, init_node_id c rnd = Some (obs, det)).
  Proof.
    intros HO. unfold accept_init_node_id_g. split.
    - destruct (init_node_id c obs) as [[id d]|] eqn:E; [|discriminate].
      intros H. apply andb_prop in H as [H _]. apply andb_prop in H as [H1 H2].
      apply bytes_eqb_eq in H1. apply Bool.eqb_prop in H2. subst. exists obs. exact E.
    - intros [rnd H].
      assert (E : init_node_id c obs = Some (obs, det)).
      { revert H. unfold init_node_id_g.
        destruct (all_zero (cfg_node_id c)); [|exact (fun x => x)].
        destruct (cfg_conn c) as [[nw addr]|]; destruct (cfg_public_ip c) as [ip|]; try exact (fun x => x).
        - intros [= -> <-]. reflexivity.
        - destruct (negb (cfg_no_security c)).
          + destruct (secure_node_id rnd ip) as [id|] eqn:S; [|discriminate]. cbn [option_map].
            intros [= -> <-]. rewrite (secure_idempotent _ _ _ S). reflexivity.
          + intros [= -> <-]. reflexivity.
        - intros [= -> <-]. reflexivity. }
      rewrite E. rewrite HO, Nat.eqb_refl, Bool.eqb_reflx, andb_true_r, andb_true_r.
      apply bytes_eqb_eq. reflexivity.
  Qed.

  Theorem make_deterministic_verifies addr_str ip :
    valid_ip ip ->
    exists id, make_deterministic_node_id_g crc hash addr_str ip = Some id
               /\ length id = 20%nat /\ node_id_secure id ip = Some true.
  Proof.
    intros HL. unfold make_deterministic_node_id_g.
    destruct (secure_no_panic (hash addr_str) ip HL) as [id Hid]. exists id.
    split; [exact Hid|]. split.
    - destruct (only_21_bits _ ip id (hash_length _) Hid) as [H _]. exact H.
    - exact (secure_verifies _ ip _ (hash_length _) Hid).
  Qed.
End Generic.
