(* ServerDefs.v — shared definitions for the proofs about the server model (Server.v):
   well-formed inputs, reachable states, the routing-table invariant.  Definitions only. *)
From Dht Require Import Base Int160 Msg Server.
From DhtGen Require Import Params.

Section Defs.
  Variable Store : Type.
  Variable w_put : Store -> witem -> Z -> Store * put_result.
  Variable w_get : Store -> bytes -> Z -> Store * get_result.
  Variable sha1 : bytes -> bytes.
  Variable id_secure : N -> bytes -> bool.
  Variable cfg : config.

  Notation sstate := (sstate Store).
  Notation step := (step Store w_put w_get sha1 id_secure cfg).
  Notation step_result := (step_result Store).

  (* ---- well-formed inputs: what the decoder and the UDP socket guarantee ---- *)
  Definition wf_ip (b : bytes) : Prop := length b = 4%nat \/ length b = 16%nat.
  Definition wf_addr (a : addr) : Prop := wf_ip (ip a).

  Definition wf_args (a : msg_args) : Prop :=
    length (a_id a) = 20%nat /\ length (a_info_hash a) = 20%nat /\ length (a_target a) = 20%nat.

  Definition wf_msg_in (m : msg) : Prop :=
    (forall a, m_a m = Some a -> wf_args a) /\ (forall r, m_r m = Some r -> length (r_id r) = 20%nat).

  Definition wf_event (e : event) : Prop :=
    match e with
    | EPacket src _ (Some m) => wf_addr src /\ wf_msg_in m
    | EPacket src _ None => wf_addr src
    | EAddNode i _ id => wf_ip i /\ (id < 2 ^ 160)%N
    | EQueryStart _ dst _ _ _ _ => wf_addr dst
    | EFailedPing a id => wf_addr a /\ (id < 2 ^ 160)%N
    | _ => True
    end.

  Definition wf_cfg : Prop := (c_root cfg < 2 ^ 160)%N /\ (0 < K)%nat.

  (* the store wrapper never hands out an item without a value (it only stores checked items) *)
  Definition wf_store_get : Prop :=
    forall st t now st' i, w_get st t now = (st', GetItem i) -> it_bv i <> None.

  (* ---- runs ---- *)
  Inductive reachable : sstate -> Prop :=
  | reach_init st now bl budget : reachable (init_state Store st now bl budget)
  | reach_step s e ch s' out :
      reachable s -> wf_event e -> step s e ch = SR Store s' out -> reachable s'.

  (* a history: events with the implementation's choices, and the outputs they produced *)
  Fixpoint run (s : sstate) (evs : list (event * choice)) : option (sstate * list (list effect)) :=
    match evs with
    | [] => Some (s, [])
    | (e, ch) :: r =>
        match step s e ch with
        | SR _ s' out => match run s' r with
                         | Some (s'', outs) => Some (s'', out :: outs)
                         | None => None
                         end
        | _ => None
        end
    end.

  (* ---- routing-table invariant (C05) ---- *)
  Definition node_key (n : node) : N * (bytes * N) := (n_id n, addr_key (n_addr n)).

  Record Inv (s : sstate) : Prop := mkInv {
    inv_slot : forall n, In n (s_nodes Store s) ->
                 n_slot n = bucket_index (c_root cfg) (n_id n) /\ (n_id n < 2 ^ 160)%N /\ (n_slot n < 160)%nat;
    inv_cap : forall i, (length (bucket (s_nodes Store s) i) <= K)%nat;
    inv_nodup : NoDup (map node_key (s_nodes Store s));
    inv_ids : forall n, In n (s_nodes Store s) -> n_id n <> c_root cfg /\ n_id n <> 0%N;
    inv_index : s_index Store s = map (fun n => (addr_key (n_addr n), n_id n)) (s_nodes Store s);
    inv_addr : forall n, In n (s_nodes Store s) -> wf_addr (n_addr n)
  }.

  (* transactions: ids issued so far are below the issuer's counter and pairwise distinct *)
  Record TxInv (s : sstate) : Prop := mkTxInv {
    tx_below : forall x, In x (s_pending Store s) ->
                 exists n, uvarint_decode (tx_t x) = Some n /\ (n < s_next_t Store s)%N;
    tx_nodup_t : NoDup (map tx_t (s_pending Store s));
    tx_nodup_qid_keys : NoDup (map (fun x => (tx_key x, tx_t x)) (s_pending Store s))
  }.
End Defs.
