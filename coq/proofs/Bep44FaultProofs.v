(* Bep44FaultProofs.v — the store wrapper over a failing underlying Store (model/Bep44Fault.v).

   Main facts
     wrapper_put_f_dichotomy   a put hit by faults either behaves exactly like the put over a healthy
                               store, or returns an error (never POk) and leaves the store unchanged
     wrapper_put_f_get_fault   s.Get failing: never accepted, store unchanged
     wrapper_put_f_put_fault   s.Put failing: never accepted, store unchanged
     wrapper_put_f_ok_inv      POk only when no call failed, and then it is the healthy put
     fseq_step_mono            the C13 step theorem (stored seq never decreases) holds for every
                               operation under every choice of failing calls
     mixed_run_monotone        ... and along every history mixing healthy and faulty operations
     fseq_step_store_ok        the C12 store invariant survives faults *)
From Dht Require Import Base Bep44 Bep44Fault Bep44Proofs.
From DhtGen Require Import Params.
Local Open Scope Z_scope.

Section FaultProofs.
  Variable sha1 : bytes -> bytes.
  Variable ed_verify : bytes -> bytes -> bytes -> bool.

  Notation target := (target sha1).
  Notation check := (check ed_verify).
  Notation wrapper_put := (wrapper_put sha1 ed_verify).
  Notation wrapper_put_f := (wrapper_put_f sha1 ed_verify).
  Notation handle_put := (handle_put sha1 ed_verify).
  Notation handle_put_f := (handle_put_f sha1 ed_verify).
  Notation server_put_local := (server_put_local sha1 ed_verify).
  Notation server_put_local_f := (server_put_local_f sha1 ed_verify).
  Notation seq_step := (seq_step sha1 ed_verify).
  Notation fseq_step := (fseq_step sha1 ed_verify).
  Notation mixed_step := (mixed_step sha1 ed_verify).
  Notation mixed_run := (mixed_run sha1 ed_verify).

  (* ---- no fault: the model of Bep44.v ---- *)
  Theorem wrapper_put_f_no_faults v now i s :
    wrapper_put_f v no_faults now i s = wrapper_put v now i s.
  Proof.
    unfold Bep44Fault.wrapper_put_f, Bep44.wrapper_put, store_put_f. cbn [no_faults f_get f_put].
    destruct (check i); [reflexivity|].
    destruct (store_get (target i) s) as [st|]; [|reflexivity].
    destruct (check_incoming v st i); reflexivity.
  Qed.

  Theorem wrapper_get_f_no_faults exp now t s :
    wrapper_get_f no_faults exp now t s =
    (fget_of_opt (fst (wrapper_get exp now t s)), snd (wrapper_get exp now t s)).
  Proof.
    unfold wrapper_get_f, wrapper_get. cbn [no_faults f_get f_del].
    destruct (store_get t s) as [i|]; [|reflexivity].
    destruct (now <? it_created i + exp); reflexivity.
  Qed.

  (* ---- Wrapper.Put under faults ---- *)
  Theorem wrapper_put_f_dichotomy v f now i s :
    wrapper_put_f v f now i s = wrapper_put v now i s \/
    (wrapper_put_f v f now i s = (POther, s) /\ (f_get f = true \/ f_put f = true)).
  Proof.
    unfold Bep44Fault.wrapper_put_f, Bep44.wrapper_put, store_put_f.
    destruct (check i); [left; reflexivity|].
    destruct (f_get f); [right; auto|].
    destruct (store_get (target i) s) as [st|].
    - destruct (check_incoming v st i); [left; reflexivity|].
      destruct (f_put f); [right; auto|left; reflexivity].
    - destruct (f_put f); [right; auto|left; reflexivity].
  Qed.

  (* the underlying Get fails: nothing is accepted, nothing changes *)
  Theorem wrapper_put_f_get_fault v f now i s :
    f_get f = true ->
    fst (wrapper_put_f v f now i s) <> POk /\ snd (wrapper_put_f v f now i s) = s /\
    (check i = None -> wrapper_put_f v f now i s = (POther, s)).
  Proof.
    intros Hg. unfold Bep44Fault.wrapper_put_f. rewrite Hg.
    destruct (check i); cbn [fst snd]; repeat split; try discriminate; reflexivity.
  Qed.

  (* the underlying Put fails: nothing is accepted, nothing changes *)
  Theorem wrapper_put_f_put_fault v f now i s :
    f_put f = true ->
    fst (wrapper_put_f v f now i s) <> POk /\ snd (wrapper_put_f v f now i s) = s.
  Proof.
    intros Hp. unfold Bep44Fault.wrapper_put_f, store_put_f. rewrite Hp.
    destruct (check i); [cbn [fst snd]; split; [discriminate|reflexivity]|].
    destruct (f_get f); [cbn [fst snd]; split; [discriminate|reflexivity]|].
    destruct (store_get (target i) s) as [st|]; [|cbn [fst snd]; split; [discriminate|reflexivity]].
    destruct (check_incoming v st i); cbn [fst snd]; split; try discriminate; reflexivity.
  Qed.

  (* an accepted put met no fault and is the accepted put of the healthy store *)
  Theorem wrapper_put_f_ok_inv v f now i s s' :
    wrapper_put_f v f now i s = (POk, s') ->
    f_get f = false /\ f_put f = false /\ wrapper_put v now i s = (POk, s').
  Proof.
    intros H. destruct (f_get f) eqn:Hg.
    - destruct (wrapper_put_f_get_fault v f now i s Hg) as [N _]. rewrite H in N. cbn in N. congruence.
    - destruct (f_put f) eqn:Hp.
      + destruct (wrapper_put_f_put_fault v f now i s Hp) as [N _]. rewrite H in N. cbn in N. congruence.
      + destruct (wrapper_put_f_dichotomy v f now i s) as [E|[_ [E|E]]]; try congruence.
        repeat split. congruence.
  Qed.

  (* a put that is not accepted, for whatever reason, leaves the store unchanged *)
  Theorem wrapper_put_f_rejected_unchanged v f now i s r s' :
    wrapper_put_f v f now i s = (r, s') -> r <> POk -> s' = s.
  Proof.
    intros H Hr. destruct (wrapper_put_f_dichotomy v f now i s) as [E|[E _]]; rewrite E in H.
    - exact (wrapper_put_rejected_unchanged sha1 ed_verify v now i s r s' H Hr).
    - injection H as _ <-. reflexivity.
  Qed.

  (* the decision of C13 survives a failing read: a lower seq is never accepted *)
  Theorem wrapper_put_f_lower_rejected f now i s st :
    check i = None -> store_get (target i) s = Some st ->
    it_seq i < it_seq st \/ (it_seq i = it_seq st /\ it_bv i <> it_bv st) ->
    fst (wrapper_put_f Repaired f now i s) <> POk /\ snd (wrapper_put_f Repaired f now i s) = s.
  Proof.
    intros C G L.
    destruct (wrapper_put_decision_prop sha1 ed_verify now i s st C G) as [D _]. specialize (D L).
    destruct (wrapper_put_f_dichotomy Repaired f now i s) as [E|[E _]]; rewrite E; [rewrite D|];
      cbn [fst snd]; split; try discriminate; reflexivity.
  Qed.

  (* ---- Wrapper.Get under faults ---- *)
  Theorem wrapper_get_f_dichotomy f exp now t s :
    wrapper_get_f f exp now t s =
      (fget_of_opt (fst (wrapper_get exp now t s)), snd (wrapper_get exp now t s)) \/
    (wrapper_get_f f exp now t s = (FGOther, s) /\ (f_get f = true \/ f_del f = true)).
  Proof.
    unfold wrapper_get_f, wrapper_get.
    destruct (f_get f); [right; auto|].
    destruct (store_get t s) as [i|]; [|left; reflexivity].
    destruct (now <? it_created i + exp); [left; reflexivity|].
    destruct (f_del f); [right; auto|left; reflexivity].
  Qed.

  (* a get never serves anything but the stored, unexpired item, faults or not *)
  Theorem wrapper_get_f_served f exp now t s i s' :
    wrapper_get_f f exp now t s = (FGItem i, s') ->
    store_get t s = Some i /\ s' = s /\ now < it_created i + exp.
  Proof.
    intros H. destruct (wrapper_get_f_dichotomy f exp now t s) as [E|[E _]]; rewrite E in H; [|discriminate].
    destruct (wrapper_get exp now t s) as [[j|] s1] eqn:W; cbn [fget_of_opt fst snd] in H; [|discriminate].
    injection H as <- <-. exact (wrapper_get_served exp now t s j s1 W).
  Qed.

  (* ---- the entry points of the server ---- *)
  Theorem handle_put_f_dichotomy v f now a s :
    handle_put_f v f now a s = handle_put v now a s \/
    (handle_put_f v f now a s = (SError err_value_method_unknown, s) /\ (f_get f = true \/ f_put f = true)).
  Proof.
    unfold Bep44Fault.handle_put_f, Bep44.handle_put. destruct (pa_seq a) as [q|]; [|left; reflexivity].
    destruct (wrapper_put_f_dichotomy v f now (item_of_args a q) s) as [E|[E F]]; rewrite E; [left|right]; auto.
  Qed.

  (* wire: a put that met a failing store call is answered with an error and stores nothing *)
  Theorem handle_put_f_fault v f now a s :
    f_get f = true \/ f_put f = true ->
    (exists c, fst (handle_put_f v f now a s) = SError c) /\ snd (handle_put_f v f now a s) = s.
  Proof.
    intros F. unfold Bep44Fault.handle_put_f. destruct (pa_seq a) as [q|]; [|cbn [fst snd]; eauto].
    destruct (wrapper_put_f v f now (item_of_args a q) s) as [r s1] eqn:W. cbn [fst snd].
    assert (r <> POk /\ s1 = s) as [Hr ->].
    { destruct F as [F|F].
      - destruct (wrapper_put_f_get_fault v f now (item_of_args a q) s F) as [A [B _]]. rewrite W in A, B. auto.
      - destruct (wrapper_put_f_put_fault v f now (item_of_args a q) s F) as [A B]. rewrite W in A, B. auto. }
    split; [|reflexivity]. destruct r; [congruence| |]; cbn [put_result_to_wire]; eauto.
  Qed.

  Theorem server_put_local_f_dichotomy v f now p s :
    server_put_local_f v f now p s = server_put_local v now p s \/
    (server_put_local_f v f now p s = (LErr POther, s) /\ (f_get f = true \/ f_put f = true)).
  Proof.
    unfold Bep44Fault.server_put_local_f, Bep44.server_put_local.
    destruct (wrapper_put_f_dichotomy v f now (put_to_item p) s) as [E|[E F]]; rewrite E; [left|right]; auto.
  Qed.

  (* Server.Put: no query leaves the node when a store call of the local put failed *)
  Theorem server_put_local_f_fault v f now p s :
    f_get f = true \/ f_put f = true ->
    (exists r, r <> POk /\ fst (server_put_local_f v f now p s) = LErr r) /\
    snd (server_put_local_f v f now p s) = s.
  Proof.
    intros F. unfold Bep44Fault.server_put_local_f.
    destruct (wrapper_put_f v f now (put_to_item p) s) as [r s1] eqn:W.
    assert (r <> POk /\ s1 = s) as [Hr ->].
    { destruct F as [F|F].
      - destruct (wrapper_put_f_get_fault v f now (put_to_item p) s F) as [A [B _]]. rewrite W in A, B. auto.
      - destruct (wrapper_put_f_put_fault v f now (put_to_item p) s F) as [A B]. rewrite W in A, B. auto. }
    destruct r; [congruence| |]; cbn [fst snd]; split; try reflexivity; eexists; split; try reflexivity; discriminate.
  Qed.

  Theorem handle_get_f_store f exp now t sq s :
    snd (handle_get_f f exp now t sq s) = snd (wrapper_get_f f exp now t s).
  Proof.
    unfold handle_get_f. destruct (wrapper_get_f f exp now t s) as [[i| |] s1]; reflexivity.
  Qed.

  (* a get reply under faults carries a value only for a stored, unexpired, newer item *)
  Theorem handle_get_f_value f exp now t sq s g s' bv k sg :
    handle_get_f f exp now t sq s = (FGReply g, s') -> gr_val g = Some (bv, k, sg) ->
    exists i, store_get t s = Some i /\ now < it_created i + exp /\
              bv = it_bv i /\ k = it_k i /\ sg = it_sig i /\ gr_seq g = Some (it_seq i) /\
              match sq with Some n => n < it_seq i | None => True end.
  Proof.
    unfold handle_get_f. destruct (wrapper_get_f f exp now t s) as [[i| |] s1] eqn:W; intros H Hv;
      try discriminate; injection H as <- <-; cbn [gr_val gr_seq] in *; [|discriminate].
    apply wrapper_get_f_served in W. destruct W as [G [_ L]]. exists i.
    destruct sq as [n|].
    - destruct (Z.leb_spec (it_seq i) n); [discriminate|]. injection Hv as <- <- <-. repeat split; auto.
    - injection Hv as <- <- <-. repeat split; auto.
  Qed.

  (* ---- histories ---- *)
  (* a faulty operation leaves the state of the healthy operation, or the state it started from *)
  Theorem fseq_step_state v exp st e :
    fst (fseq_step v exp st e) = fst (seq_step v exp st (fevent_plain e)) \/
    fst (fseq_step v exp st e) = st.
  Proof.
    destruct st as [now s].
    destruct e as [f i|f t|f a|f t sq|f p]; unfold Bep44Fault.fseq_step, Bep44.seq_step;
      cbn [fevent_plain s_clock s_store].
    - destruct (wrapper_put_f_dichotomy v f now i s) as [E|[E _]]; rewrite E; [left|right; reflexivity].
      destruct (wrapper_put v now i s); reflexivity.
    - destruct (wrapper_get_f_dichotomy f exp now t s) as [E|[E _]]; rewrite E; [left|right; reflexivity].
      destruct (wrapper_get exp now t s); reflexivity.
    - destruct (handle_put_f_dichotomy v f now a s) as [E|[E _]]; rewrite E; [left|right; reflexivity].
      destruct (handle_put v now a s); reflexivity.
    - pose proof (handle_get_f_store f exp now t sq s) as Hs.
      destruct (handle_get_f f exp now t sq s) as [g s1]. cbn [snd] in Hs. subst s1. cbn [fst].
      destruct (wrapper_get_f_dichotomy f exp now t s) as [E|[E _]]; rewrite E; cbn [snd]; [left|right; reflexivity].
      unfold handle_get. destruct (wrapper_get exp now t s) as [[i|] s1]; reflexivity.
    - destruct (server_put_local_f_dichotomy v f now p s) as [E|[E _]]; rewrite E; [left|right; reflexivity].
      destruct (server_put_local v now p s); reflexivity.
  Qed.

  (* C13, one step, any faults: an occupied slot keeps or raises its seq, or is deleted by a get that
     found it expired *)
  Theorem fseq_step_mono v exp st e t a :
    seq_of t (s_store st) = Some a ->
    (exists b, seq_of t (s_store (fst (fseq_step v exp st e))) = Some b /\ a <= b) \/
    (seq_of t (s_store (fst (fseq_step v exp st e))) = None /\
     (exists f, e = FGet f t \/ exists sq, e = FWireGet f t sq) /\
     exists i, store_get t (s_store st) = Some i /\ it_created i + exp <= s_clock st).
  Proof.
    intros Ha. destruct (fseq_step_state v exp st e) as [E|E]; rewrite E.
    - destruct (seq_step_mono sha1 ed_verify v exp st (fevent_plain e) t a Ha) as [L|[N [K X]]]; [left; exact L|].
      right. split; [exact N|]. split; [|exact X].
      destruct e as [f i|f t'|f a'|f t' sq'|f p]; cbn [fevent_plain] in K; destruct K as [K|[sq K]];
        try discriminate; injection K as <-; exists f; eauto.
    - left. exists a. split; [exact Ha|lia].
  Qed.

  (* the store invariant of C12 (every stored item genuine, within limits, under its own target) *)
  Theorem fseq_step_store_ok v exp st e :
    store_ok sha1 ed_verify (s_store st) -> store_ok sha1 ed_verify (s_store (fst (fseq_step v exp st e))).
  Proof.
    intros Hs. destruct (fseq_step_state v exp st e) as [E|E]; rewrite E; [|exact Hs].
    apply seq_step_store_ok, Hs.
  Qed.

  Lemma mixed_step_mono v exp st e t a :
    seq_of t (s_store st) = Some a ->
    (exists b, seq_of t (s_store (mixed_step v exp st e)) = Some b /\ a <= b) \/
    seq_of t (s_store (mixed_step v exp st e)) = None.
  Proof.
    intros Ha. destruct e as [e|e]; cbn [Bep44Fault.mixed_step].
    - destruct (seq_step_mono sha1 ed_verify v exp st e t a Ha) as [L|[N _]]; auto.
    - destruct (fseq_step_mono v exp st e t a Ha) as [L|[N _]]; auto.
  Qed.

  (* the slot is occupied after every operation of the history *)
  Fixpoint mixed_alive (v : variant) (exp : Z) (t : bytes) (evs : list (event + fevent)) (st : sstate) : Prop :=
    match evs with
    | [] => True
    | e :: r =>
        let st' := mixed_step v exp st e in
        seq_of t (s_store st') <> None /\ mixed_alive v exp t r st'
    end.

  (* C13 over every history of healthy and faulty operations: while the item lives its seq never
     decreases *)
  Theorem mixed_run_monotone v exp t evs : forall st a,
    seq_of t (s_store st) = Some a -> mixed_alive v exp t evs st ->
    exists b, seq_of t (s_store (mixed_run v exp evs st)) = Some b /\ a <= b.
  Proof.
    induction evs as [|e evs IH]; intros st a Ha Hal.
    - exists a. split; [exact Ha|lia].
    - cbn [mixed_alive] in Hal. destruct Hal as [Hne Hal]. cbn [Bep44Fault.mixed_run fold_left].
      destruct (mixed_step_mono v exp st e t a Ha) as [[b [Hb Hab]]|Hn]; [|contradiction].
      destruct (IH _ b Hb Hal) as [c [Hc Hbc]]. exists c. split; [exact Hc|lia].
  Qed.

  Theorem mixed_run_store_ok v exp evs : forall st,
    store_ok sha1 ed_verify (s_store st) -> store_ok sha1 ed_verify (s_store (mixed_run v exp evs st)).
  Proof.
    induction evs as [|e evs IH]; intros st Hs; [exact Hs|].
    cbn [Bep44Fault.mixed_run fold_left]. apply IH. destruct e as [e|e]; cbn [Bep44Fault.mixed_step].
    - apply seq_step_store_ok, Hs.
    - apply fseq_step_store_ok, Hs.
  Qed.
End FaultProofs.
