(* TraversalC03Live.v — C03 liveness: progress, a well-founded lexicographic measure that every
   internal step (and every DoQuery return) strictly decreases, termination of the internal-step
   relation over any finite universe of addresses.  What is NOT proved here (trusted, see DESIGN
   section 7): that the Go scheduler eventually runs an enabled goroutine (weak fairness). *)
From Dht Require Import Base Int160 Order OrderProofs Traversal TraversalInv TraversalC03.
From Coq Require Import Sorting.Sorted ZifyN ZifyNat ZifyBool Wellfounded.
Local Arguments ap_mem : simpl never.
Local Arguments Nat.ltb : simpl never.
Local Arguments kn_run : simpl never.
Local Arguments kn_push : simpl never.
Local Arguments have_query_on : simpl never.

Section Live.
  Variable D : Type.
  Variable node_filter : ami -> bool.
  Variable data_filter : D -> bool.
  Variable tb : addrport -> addrport -> comparison.
  Hypothesis tb_refl : forall a, tb a a = Eq.
  Hypothesis tb_eq : forall a b, tb a b = Eq -> a = b.
  Hypothesis tb_antisym : forall a b, tb b a = CompOpp (tb a b).
  Hypothesis tb_trans : forall a b c, tb a b = Lt -> tb b c = Lt -> tb a c = Lt.
  Variable target : N.
  Variable k : nat.
  Variable alpha : nat.
  Hypothesis k_pos : 1 <= k.
  Hypothesis alpha_pos : 1 <= alpha.

  Notation state := (state D).
  Notation label := (label D).
  Notation query := (query D).
  Notation TInv := (TInv D node_filter data_filter tb target k alpha).
  Notation hq := (have_query D true target k).
  Notation hqon := (have_query_on D target k).
  Notation do_prune := (do_prune D true).
  Notation start_query := (start_query D).
  Notation start_loop := (start_loop D true target k alpha).
  Notation enabled := (enabled D).
  Notation step := (step D node_filter data_filter tb true target k alpha).
  Notation run := (run D node_filter data_filter tb true target k alpha).
  Notation inv_run := (inv_run D node_filter data_filter tb tb_refl tb_eq tb_antisym tb_trans target k alpha).
  Notation inv_step := (inv_step D node_filter data_filter tb tb_refl tb_eq tb_antisym tb_trans target k alpha).
  Notation inv_start_query := (inv_start_query D node_filter data_filter tb target k alpha).
  Notation inv_do_prune := (inv_do_prune D node_filter data_filter tb target k alpha).

  (* labels performed by the operation's own goroutines *)
  Definition internal (l : label) : bool :=
    match l with
    | LRun | LWake | LResp _ | LAddN _ | LAddN6 _ | LDone _ | LStopWait | LCancel _ => true
    | _ => false
    end.
  (* ... plus the network answering an in-flight query *)
  Definition progress_label (l : label) : bool :=
    match l with LDoQueryReturn _ _ => true | _ => internal l end.

  (* ---------------- C03_progress ---------------- *)
  Lemma inflight_progress (s : state) q :
    TInv s -> In q (st_inflight s) ->
    (exists l, internal l = true /\ enabled s l = true) \/ q_pc q = QWait.
  Proof.
    intros H Hq.
    pose proof (In_find_q D _ q (inv_qids _ _ _ _ _ _ _ _ H) Hq) as Hf.
    destruct (q_pc q) eqn:Epc; [right; reflexivity| | | |]; left.
    - exists (LResp (q_id q)). split; [reflexivity|]. cbn. unfold q_at. rewrite Hf, Epc. reflexivity.
    - exists (LAddN (q_id q)). split; [reflexivity|]. cbn. unfold q_at. rewrite Hf, Epc. reflexivity.
    - exists (LAddN6 (q_id q)). split; [reflexivity|]. cbn. unfold q_at. rewrite Hf, Epc. reflexivity.
    - exists (LDone (q_id q)). split; [reflexivity|]. cbn. unfold q_at. rewrite Hf, Epc. reflexivity.
  Qed.

  (* In every reachable state: some goroutine of the operation can move, or a query waits for the
     network, or the loop offers a current stall, or the operation has stopped and the loop exited. *)
  Theorem C03_progress sched :
    let s := run sched in
    (exists l, internal l = true /\ enabled s l = true) \/
    (exists q, In q (st_inflight s) /\ q_pc q = QWait) \/
    at_stalled_offer s = true \/
    (st_stopped s = true /\ st_loop s = Exited).
  Proof.
    intros s. pose proof (inv_run sched) as H. fold s in H.
    destruct (st_inflight s) as [|q0 rest] eqn:Ein.
    2:{ assert (Hq : In q0 (st_inflight s)) by (rewrite Ein; left; reflexivity).
        destruct (inflight_progress s q0 H Hq) as [Hp|Hp]; [left; exact Hp|].
        right. left. exists q0. rewrite <- Ein. split; assumption. }
    assert (Ho : st_out s = 0) by (rewrite (inv_out _ _ _ _ _ _ _ _ H), Ein; reflexivity).
    destruct (st_loop s) as [|g o|] eqn:El.
    - left. exists LRun. split; [reflexivity|]. cbn. rewrite El. reflexivity.
    - destruct (Nat.ltb g (st_gen s) || st_stopping s) eqn:Ew.
      + left. exists LWake. split; [reflexivity|]. cbn. rewrite El. exact Ew.
      + apply orb_false_iff in Ew. destruct Ew as [Eg Es]. apply Nat.ltb_ge in Eg.
        destruct (inv_gen _ _ _ _ _ _ _ _ H g o El) as [Hle Hv].
        assert (Hg : g = st_gen s) by lia. destruct (Hv Hg) as [H1 H2].
        right. right. left. unfold at_stalled_offer. rewrite El.
        assert (Ea : Nat.eqb alpha 0 = false) by (apply Nat.eqb_neq; lia).
        assert (El' : Nat.ltb (st_out s) alpha = true) by (apply Nat.ltb_lt; lia).
        rewrite El' in H1. simpl in H1. rewrite H1, Ea, Ho in H2. simpl in H2. subst o.
        apply Nat.eqb_eq. exact Hg.
    - pose proof (inv_exited _ _ _ _ _ _ _ _ H El) as Hst.
      destruct (st_stopped s) eqn:Esd.
      + right. right. right. split; reflexivity.
      + left. exists LStopWait. split; [reflexivity|]. cbn. rewrite Hst, Esd, Ho. reflexivity.
  Qed.

  (* ---------------- C03_measure ---------------- *)
  Variable U : list addrport.     (* a finite universe containing every address ever offered *)

  Definition pcw (p : qpc) : nat :=
    match p with QWait => 5 | QResp => 4 | QAddN => 3 | QAddN6 => 2 | QDone => 1 end.
  Definition qw (q : query) : nat := pcw (q_pc q) + (if q_cancelled q then 0 else 1).
  Definition sumw (l : list query) : nat := fold_right (fun q a => qw q + a) 0 l.

  Definition mu1 (s : state) : nat :=
    length (filter (fun a => negb (ap_mem a (st_queried s))) (nodup ap_eq_dec U)).
  Definition mu2 (s : state) : nat :=
    sumw (st_inflight s) + (if st_stopping s && negb (st_stopped s) then 1 else 0).
  Definition mu3 (s : state) : nat :=
    match st_loop s with
    | Awake => 1
    | Waiting g _ => if Nat.ltb g (st_gen s) || st_stopping s then 2 else 0
    | Exited => 0
    end.
  (* (addresses of U not yet queried, remaining sub-steps of in-flight queries, loop awake) *)
  Definition mu (s : state) : nat * nat * nat := (mu1 s, mu2 s, mu3 s).

  Lemma sumw_upd_lt i f (l : list query) q :
    find_q i l = Some q ->
    (forall x, In x l -> q_id x = i -> qw (f x) < qw x) ->
    sumw (upd_q D i f l) < sumw l.
  Proof.
    unfold find_q, upd_q. induction l as [|x l IH]; simpl; intros Hf Hlt; [discriminate|].
    assert (Hle : forall l', (forall y, In y l' -> q_id y = i -> qw (f y) < qw y) ->
              sumw (map (fun q0 => if Nat.eqb (q_id q0) i then f q0 else q0) l') <= sumw l').
    { induction l' as [|y l' IH']; simpl; intros Hy; [lia|].
      assert (sumw (map (fun q0 => if Nat.eqb (q_id q0) i then f q0 else q0) l') <= sumw l')
        by (apply IH'; intros z Hz; apply Hy; right; exact Hz).
      destruct (Nat.eqb (q_id y) i) eqn:E; [|lia].
      apply Nat.eqb_eq in E. pose proof (Hy y (or_introl eq_refl) E). lia. }
    destruct (Nat.eqb (q_id x) i) eqn:E.
    - apply Nat.eqb_eq in E. pose proof (Hlt x (or_introl eq_refl) E).
      assert (sumw (map (fun q0 => if Nat.eqb (q_id q0) i then f q0 else q0) l) <= sumw l)
        by (apply Hle; intros z Hz; apply Hlt; right; exact Hz).
      lia.
    - assert (sumw (map (fun q0 => if Nat.eqb (q_id q0) i then f q0 else q0) l) < sumw l)
        by (apply IH; [exact Hf|intros z Hz; apply Hlt; right; exact Hz]).
      lia.
  Qed.

  Lemma sumw_del i (l : list query) q :
    find_q i l = Some q -> sumw (del_q D i l) + qw q = sumw l.
  Proof.
    unfold find_q, del_q. induction l as [|x l IH]; simpl; intros Hf; [discriminate|].
    destruct (Nat.eqb (q_id x) i).
    - injection Hf as ->. lia.
    - simpl. specialize (IH Hf). lia.
  Qed.

  Lemma qw_pos (q : query) : 1 <= qw q.
  Proof. unfold qw, pcw. destruct (q_pc q); lia. Qed.

  Local Arguments sumw : simpl never.

  (* a sub-step of an in-flight query: mu1 unchanged, mu2 smaller *)
  Lemma substep_decreases (s s1 : state) i f q :
    TInv s -> find_q i (st_inflight s) = Some q -> qw (f q) < qw q ->
    st_inflight s1 = st_inflight s -> st_queried s1 = st_queried s ->
    st_stopping s1 = st_stopping s -> st_stopped s1 = st_stopped s ->
    lex3 (mu (set_inflight s1 (upd_q D i f (st_inflight s1)))) (mu s).
  Proof.
    intros H Hf Hlt Hi Hq Hst Hsd. unfold mu, lex3, mu1, mu2. cbn.
    rewrite Hi, Hq, Hst, Hsd. right. split; [reflexivity|]. left.
    assert (sumw (upd_q D i f (st_inflight s)) < sumw (st_inflight s)).
    { apply (sumw_upd_lt i f _ q Hf). intros x Hx Hid.
      rewrite (inflight_unique D node_filter data_filter tb target k alpha s i q x H Hf Hx Hid).
      exact Hlt. }
    lia.
  Qed.

  (* the start loop: the queried set only grows; if anything was started, an address of U that
     was not queried is queried now *)
  Lemma start_loop_mu fuel : forall s,
    TInv s -> st_loop s = Awake -> st_stopping s = false ->
    incl (map ami_addr (st_offered s)) U ->
    let s' := start_loop fuel s in
    (forall a, In a (st_queried s) -> In a (st_queried s')) /\
    st_stopping s' = st_stopping s /\ st_stopped s' = st_stopped s /\
    ((st_inflight s' = st_inflight s /\ st_queried s' = st_queried s) \/
     (exists a, In a U /\ ~ In a (st_queried s) /\ In a (st_queried s'))).
  Proof.
    induction fuel as [|f IH]; intros s H Hawake Hns HU.
    - simpl. repeat split; auto.
    - cbv zeta. rewrite (start_loop_S D target k alpha).
      destruct (Nat.ltb (st_out s) alpha) eqn:El; [|repeat split; auto].
      apply Nat.ltb_lt in El.
      destruct (hqon (st_unq (do_prune s)) (st_closest (do_prune s))) eqn:Eh;
        [|cbn; repeat split; auto].
      pose proof (inv_do_prune s H) as H1.
      destruct (st_unq (do_prune s)) as [|c u] eqn:Eu; [discriminate|].
      assert (Hnq : ~ In (ami_addr c) (st_queried (do_prune s))).
      { cbn in Eu |- *. exact (prune_head _ _ _ _ Eu). }
      pose proof (inv_start_query (do_prune s) c u H1 Eu Hnq El Hawake Hns) as H2.
      assert (Hc : In (ami_addr c) U).
      { apply HU. apply in_map.
        apply (inv_unq _ _ _ _ _ _ _ _ H c). apply (prune_incl (st_queried s)).
        cbn in Eu. rewrite Eu. left. reflexivity. }
      assert (E2 : start_query (do_prune s) =
                   set_started (set_inflight (set_out (set_queried (set_unq (do_prune s) u)
                      (ap_add (ami_addr c) (st_queried (do_prune s)))) (S (st_out (do_prune s))))
                      (st_inflight (do_prune s) ++ [mkQ (length (st_started (do_prune s))) c QWait no_resp false]))
                      (st_started (do_prune s) ++ [c])).
      { unfold Traversal.start_query. rewrite Eu. reflexivity. }
      destruct (IH (start_query (do_prune s)) H2) as [I1 [I2 [I3 _]]].
      + rewrite E2. exact Hawake.
      + rewrite E2. exact Hns.
      + rewrite E2. exact HU.
      + assert (Hin : In (ami_addr c) (st_queried (start_query (do_prune s)))).
        { rewrite E2. cbn. apply ap_add_In. left. reflexivity. }
        split; [|split; [|split]].
        * intros a Ha. apply I1. rewrite E2. cbn. apply ap_add_In. right. exact Ha.
        * rewrite I2, E2. reflexivity.
        * rewrite I3, E2. reflexivity.
        * right. exists (ami_addr c). split; [exact Hc|]. split; [exact Hnq|]. exact (I1 _ Hin).
  Qed.

  Lemma mu1_le (s s' : state) :
    (forall a, In a (st_queried s) -> In a (st_queried s')) -> mu1 s' <= mu1 s.
  Proof.
    intros Hs. unfold mu1. apply filter_length_le. intros a _ Ha.
    apply negb_true_iff in Ha. apply negb_true_iff.
    apply ap_mem_false in Ha. apply ap_mem_false. intros Hin. apply Ha. exact (Hs a Hin).
  Qed.

  Lemma mu1_lt (s s' : state) a :
    (forall x, In x (st_queried s) -> In x (st_queried s')) ->
    In a U -> ~ In a (st_queried s) -> In a (st_queried s') -> mu1 s' < mu1 s.
  Proof.
    intros Hs HaU Hn Hy. unfold mu1.
    apply (filter_length_lt _ _ _ a).
    - intros x _ Hx. apply negb_true_iff in Hx. apply negb_true_iff.
      apply ap_mem_false in Hx. apply ap_mem_false. intros Hin. apply Hx. exact (Hs x Hin).
    - apply nodup_In. exact HaU.
    - apply negb_true_iff. apply ap_mem_false. exact Hn.
    - apply negb_false_iff. apply ap_mem_In. exact Hy.
  Qed.

  (* every internal label, and every DoQuery return, strictly decreases the measure *)
  Theorem C03_measure (s : state) l :
    TInv s -> incl (map ami_addr (st_offered s)) U ->
    progress_label l = true -> enabled s l = true ->
    lex3 (mu (step s l)) (mu s).
  Proof.
    intros H HU Hp En.
    destruct l as [| | |i r|i|i|i|i|ns| | |i]; try discriminate Hp;
      cbn [Traversal.step Traversal.enabled] in *.
    - (* LRun *)
      destruct (st_loop s) eqn:El; try discriminate. unfold Traversal.run_step.
      destruct (st_stopping s) eqn:Es.
      + unfold mu, lex3, mu1, mu2, mu3. cbn. rewrite El. right. split; [reflexivity|].
        right. split; [reflexivity|]. lia.
      + unfold Traversal.run_body.
        destruct (start_loop_mu alpha s H El Es HU) as [M1 [M2 [M3 M4]]].
        set (s1 := start_loop alpha s) in *.
        destruct M4 as [[Mi Mq]|[a [Ma [Mn My]]]].
        * unfold mu, lex3, mu1, mu2, mu3. cbn. rewrite Mi, Mq, M2, M3, El, Es.
          right. split; [reflexivity|]. right. split; [reflexivity|].
          rewrite Nat.ltb_irrefl. simpl. lia.
        * unfold mu, lex3. left.
          apply (mu1_lt s _ a); cbn; assumption.
    - (* LWake *)
      destruct (st_loop s) as [|g o|] eqn:El; try discriminate.
      unfold mu, lex3, mu1, mu2, mu3. cbn. rewrite El, En.
      right. split; [reflexivity|]. right. split; [reflexivity|]. lia.
    - (* LDoQueryReturn *)
      destruct (q_at_find D s i QWait En) as [q [Hf Hpc]].
      apply (substep_decreases s s i (q_returned D r) q H Hf); try reflexivity.
      unfold qw. cbn. rewrite Hpc. cbn. destruct (q_cancelled q); lia.
    - (* LResp *)
      destruct (q_at_find D s i QResp En) as [q [Hf Hpc]].
      assert (Hlt : qw (q_set_pc D QAddN q) < qw q) by (unfold qw; cbn; rewrite Hpc; cbn; lia).
      destruct (r_from (resp_of D s i)) as [x|].
      + destruct (add_closest_frame D node_filter data_filter tb target k s x)
          as [F1 [_ [F3 [_ [_ [_ [_ [_ [F9 [F10 _]]]]]]]]]].
        apply (substep_decreases s _ i (q_set_pc D QAddN) q H Hf Hlt); assumption.
      + apply (substep_decreases s s i (q_set_pc D QAddN) q H Hf Hlt); reflexivity.
    - (* LAddN *)
      destruct (q_at_find D s i QAddN En) as [q [Hf Hpc]].
      assert (Hlt : qw (q_set_pc D QAddN6 q) < qw q) by (unfold qw; cbn; rewrite Hpc; cbn; lia).
      destruct (add_nodes_frame D node_filter target (map ni_ami (r_nodes (resp_of D s i))) s)
        as [F1 [_ [F3 [_ [_ [_ [_ [_ [F9 [F10 _]]]]]]]]]].
      apply (substep_decreases s _ i (q_set_pc D QAddN6) q H Hf Hlt); assumption.
    - (* LAddN6 *)
      destruct (q_at_find D s i QAddN6 En) as [q [Hf Hpc]].
      assert (Hlt : qw (q_set_pc D QDone q) < qw q) by (unfold qw; cbn; rewrite Hpc; cbn; lia).
      destruct (add_nodes_frame D node_filter target (map ni_ami (r_nodes6 (resp_of D s i))) s)
        as [F1 [_ [F3 [_ [_ [_ [_ [_ [F9 [F10 _]]]]]]]]]].
      apply (substep_decreases s _ i (q_set_pc D QDone) q H Hf Hlt); assumption.
    - (* LDone *)
      destruct (q_at_find D s i QDone En) as [q [Hf _]].
      unfold mu, lex3, mu1, mu2. cbn. right. split; [reflexivity|]. left.
      pose proof (sumw_del i _ q Hf). pose proof (qw_pos q). lia.
    - (* LStopWait *)
      apply andb_true_iff in En. destruct En as [En _].
      unfold mu, lex3, mu1, mu2. cbn. rewrite En. right. split; [reflexivity|]. left.
      apply andb_true_iff in En. destruct En as [-> _]. simpl. lia.
    - (* LCancel *)
      apply andb_true_iff in En. destruct En as [_ En].
      destruct (find_q i (st_inflight s)) as [q|] eqn:Hf; [|discriminate].
      apply negb_true_iff in En.
      apply (substep_decreases s s i (q_cancel D) q H Hf); try reflexivity.
      unfold qw. cbn. rewrite En. lia.
  Qed.

  (* ---------------- termination ---------------- *)
  (* one step of the operation (or of the network) inside the finite universe U *)
  Definition istep (s' s : state) : Prop :=
    TInv s /\ incl (map ami_addr (st_offered s)) U /\
    exists l, progress_label l = true /\ enabled s l = true /\ s' = step s l.

  (* no infinite sequence of such steps exists: every maximal execution without external calls
     is finite, whatever the order and content of the answers *)
  Theorem C03_termination : well_founded istep.
  Proof.
    apply (wf_incl _ _ (fun s' s => lex3 (mu s') (mu s))).
    - intros s' s [H [HU [l [Hp [En ->]]]]]. exact (C03_measure s l H HU Hp En).
    - apply (wf_inverse_image _ _ lex3 mu). exact lex3_wf.
  Qed.
End Live.

Print Assumptions C03_progress.
Print Assumptions C03_measure.
Print Assumptions C03_termination.
