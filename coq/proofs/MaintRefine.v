(* MaintRefine.v — the pass model's write-back of an unanswered questionable-node ping is the server LTS's own event:
   Server.step on EFailedPing for an entry of the table applies exactly apply_update UFailedPing to that entry (the
   first entry of its bucket with that id and address), emits nothing and touches nothing else.  This ties Maint.v's
   [settle_ping] (the not-answered branch) to the transition system C05 / C06 / C09 are proved about. *)
From Coq Require Import List NArith ZArith Bool Arith Lia.
From Dht Require Import Base Msg Server ServerDefs ServerInv Maint.
From DhtGen Require Import Params.
Import ListNotations.

Section MaintRefine.
  Variable Store : Type.
  Variable w_put : Store -> witem -> Z -> Store * put_result.
  Variable w_get : Store -> bytes -> Z -> Store * get_result.
  Variable sha1 : bytes -> bytes.
  Variable id_secure : N -> bytes -> bool.
  Variable cfg : config.

  Lemma key_eqb_same (k : bytes * N) : key_eqb k k = true.
  Proof. exact (key_eqb_refl k). Qed.

  Lemma failed_ping_is_server_event (s : sstate Store) (n : node) :
    In n (s_nodes Store s) -> n_slot n = slot_of cfg (n_id n) -> N.eqb (n_id n) (c_root cfg) = false ->
    step Store w_put w_get sha1 id_secure cfg s (EFailedPing (n_addr n) (n_id n)) no_choice =
    SR Store (with_nodes Store s
                (replace_node cfg (addr_key (n_addr n)) (n_id n) (apply_update (s_now Store s) UFailedPing)
                              (s_nodes Store s))) [].
  Proof.
    intros Hin Hslot Hroot. cbn [step]. unfold update_node, get_node. rewrite Hroot.
    destruct (find (fun m => Nat.eqb (n_slot m) (slot_of cfg (n_id n)) && same_node (addr_key (n_addr n)) (n_id n) m)
                   (s_nodes Store s)) as [x|] eqn:Ef.
    - reflexivity.
    - exfalso. pose proof (find_none _ _ Ef n Hin) as H. cbn beta in H.
      rewrite Hslot, Nat.eqb_refl in H. unfold same_node in H. rewrite N.eqb_refl, key_eqb_same in H. discriminate H.
  Qed.

  (* what replace_node does to the list: every entry stays or is the updated form of an entry with that id, address
     and bucket *)
  Lemma replace_node_origin k id f l m :
    In m (replace_node cfg k id f l) ->
    In m l \/ exists x, In x l /\ n_slot x = slot_of cfg id /\ same_node k id x = true /\ m = f x.
  Proof.
    induction l as [|y l IH]; cbn [replace_node]; [intros []|].
    destruct (Nat.eqb (n_slot y) (slot_of cfg id) && same_node k id y) eqn:E.
    - intros [<-|Hin].
      + right. exists y. apply andb_true_iff in E. destruct E as [E1 E2]. apply Nat.eqb_eq in E1.
        repeat split; [left; reflexivity | exact E1 | exact E2].
      + left. right. exact Hin.
    - intros [<-|Hin].
      + left. left. reflexivity.
      + destruct (IH Hin) as [H|(x & Hx & H)]; [left; right; exact H | right; exists x; split; [right; exact Hx | exact H]].
  Qed.

  (* hence: after the server's EFailedPing step the failed flag is new only on an entry carrying the pinged id and
     address - the statement C06_maint_flag_only_unanswered_questionable makes about the pass, now about the LTS *)
  Lemma failed_ping_step_flags (s : sstate Store) (n m : node) :
    In n (s_nodes Store s) -> n_slot n = slot_of cfg (n_id n) -> N.eqb (n_id n) (c_root cfg) = false ->
    forall s' out, step Store w_put w_get sha1 id_secure cfg s (EFailedPing (n_addr n) (n_id n)) no_choice = SR Store s' out ->
    In m (s_nodes Store s') -> n_failed m = true ->
    In m (s_nodes Store s) \/
    exists x, In x (s_nodes Store s) /\ same_node (addr_key (n_addr n)) (n_id n) x = true /\
              m = apply_update (s_now Store s) UFailedPing x.
  Proof.
    intros Hin Hslot Hroot s' out Hstep Hm Hf.
    rewrite (failed_ping_is_server_event s n Hin Hslot Hroot) in Hstep. injection Hstep as <- <-.
    cbn [with_nodes s_nodes] in Hm.
    destruct (replace_node_origin _ _ _ _ _ Hm) as [H|(x & Hx & _ & Hs & ->)]; [left; exact H|].
    right. exists x. repeat split; assumption.
  Qed.
End MaintRefine.

(* the other branch of [settle_ping]: an answered ping is the LTS's ordinary response event.  When the datagram passes
   the serve-loop filters, matches a pending transaction and carries the id of an entry stored at that address, the step
   completes that query and applies apply_update UResponse to the entry - nothing else of the table changes. *)
Section MaintRefineResponse.
  Variable Store : Type.
  Variable w_put : Store -> witem -> Z -> Store * put_result.
  Variable w_get : Store -> bytes -> Z -> Store * get_result.
  Variable sha1 : bytes -> bytes.
  Variable id_secure : N -> bytes -> bool.
  Variable cfg : config.

  Lemma answered_ping_is_server_event (s : sstate Store) (n : node) (size : N) (m : msg) (x : txn) :
    In n (s_nodes Store s) -> n_slot n = slot_of cfg (n_id n) -> N.eqb (n_id n) (c_root cfg) = false ->
    N.eqb size (Z.to_N udp_buf) = false -> N.eqb (port (n_addr n)) 0 = false ->
    s_closed Store s = false -> blocked (s_blocklist Store s) (ip (n_addr n)) = false ->
    bytes_eqb (m_y m) s_q = false ->
    option_map id_of (sender_id m) = Some (n_id n) ->
    find (txn_match (addr_key (n_addr n)) (m_t m)) (s_pending Store s) = Some x ->
    exists s',
      step Store w_put w_get sha1 id_secure cfg s (EPacket (n_addr n) size (Some m)) no_choice =
      SR Store s' [ECompleted (tx_qid x) m] /\
      s_nodes Store s' =
      replace_node cfg (addr_key (n_addr n)) (n_id n) (apply_update (s_now Store s) UResponse) (s_nodes Store s).
  Proof.
    intros Hin Hslot Hroot Hsize Hport Hclosed Hbl Hy Hid Hfind.
    cbn [step]. rewrite Hsize, Hport, Hclosed, Hbl, Hy, Hfind. rewrite Hid.
    unfold update_node, get_node. cbn [with_pending s_nodes s_now]. rewrite Hroot.
    destruct (find (fun k => Nat.eqb (n_slot k) (slot_of cfg (n_id n)) && same_node (addr_key (n_addr n)) (n_id n) k)
                   (s_nodes Store s)) as [y|] eqn:Ef.
    - cbn [no_choice ch_victim]. eexists. split; [reflexivity|]. reflexivity.
    - exfalso. pose proof (find_none _ _ Ef n Hin) as H. cbn beta in H.
      rewrite Hslot, Nat.eqb_refl in H. unfold same_node in H. rewrite N.eqb_refl, (key_eqb_refl (addr_key (n_addr n))) in H.
      discriminate H.
  Qed.
End MaintRefineResponse.
