(* ServerEncode.v — the server slice (Server.v: event -> step -> ESend dst m kind) composed with the
   ENCODER of the codec slice (Krpc.v: encode_msg / encode_xmsg = bencode.Marshal(krpc.Msg)).

   The real code turns every outgoing krpc.Msg into bytes with bencode.Marshal: `reply` through
   bencode.MustMarshal (a marshal error is a panic), `sendError` and `Query` through Marshal; the
   compact node-list encoders (marshalBinarySlice) panic when a contact's address does not have the
   width of its list (DESIGN.md Appendix A, "Encoder").  In the codec model these outcomes are
   explicit: encode_xmsg : xmsg -> cresult bytes = COk bytes | CErr (Marshal returns an error) |
   CPanic (an encoder panics); encode_msg m = Some b iff encode_xmsg (x_of_msg m) = COk b.

   Here: every datagram the server model emits (replies, errors, its own queries) is well-formed in
   the codec's sense (Krpc.wf_msg), hence
     - encodes: neither an error nor a panic                       (C01_reply_encodes)
     - the bytes decode back to exactly the model's message        (C08_wire_roundtrip)
     - end to end over bytes: inbound datagram -> outbound datagram echoes `t` (C08_t_echo_bytes).

   What is needed beyond the routing-table invariant [Inv], all stated explicitly:
     - sha1_ok: the token hash is a string within the decoder's limit (20 bytes for SHA-1);
     - ports: a UDP source port / AddNode port is below 65536 (the model's `port : N` is unbounded),
       kept for every table entry by the invariant [PInv] (proved inductive here);
     - the inbound message is what the decoder delivers ([in_msg_ok]: t within the string limit; k 32
       and sig 64 bytes, v canonical, seq in int64 — consequences of C15_decode_wf);
     - the BEP 44 store wrapper hands out items whose fields have the codec's widths
       ([wf_store_items], relative to a store invariant [store_ok] that w_put / w_get preserve);
       discharged for the Bep44.v wrapper of RunServer.v at the end of the file;
     - for the node's own queries: the caller-supplied method name, transaction id and arguments
       ([query_args_ok]). *)
From Coq Require Import String.
From Dht Require Import Base Int160 Msg Compact Bencode Krpc.
From Dht Require Import Int160Proofs CompactProofs BencodeProofs KrpcProofs KrpcRecProofs KrpcRtProofs KrpcWfProofs CodecProofs.
From Dht Require Import Server ServerDefs ServerInv ServerInv2 ServerC08 ServerC09 ServerC11 ServerBytes ServerExamples.
From Dht Require Bep44 RunServer.
From DhtGen Require Import Params KrpcSchema.
From Coq Require Import Lia ZifyN ZifyNat ZifyBool Arith Permutation.
Close Scope string_scope.

(* ================================================================================================
   Part 1 — sufficient conditions for Krpc.wf_msg, record by record (no server here)
   ================================================================================================ *)
Definition err_ok (e : krpc_error) : Prop := in_int64 (e_code e) = true /\ str_ok (e_msg e) = true.

Definition args_ok (a : msg_args) : Prop :=
  length (a_id a) = 20%nat /\ length (a_info_hash a) = 20%nat /\ length (a_target a) = 20%nat /\
  str_ok (a_token a) = true /\
  (forall p, a_port a = Some p -> in_int64 p = true) /\
  (forall l, a_want a = Some l -> forallb str_ok l = true) /\
  in_int64 (a_noseed a) = true /\ in_int64 (a_scrape a) = true /\
  (forall v, a_v a = Some v -> canonb v = true) /\
  (forall q, a_seq a = Some q -> in_int64 q = true) /\
  in_int64 (a_cas a) = true /\
  length (a_k a) = 32%nat /\ str_ok (a_salt a) = true /\ length (a_sig a) = 64%nat.

(* a node list of a reply: absent, or non-empty, every contact of the list's family (w = 4 / 16),
   at most 8 entries *)
Definition infos_ok (w : nat) (o : option (list node_info)) : Prop :=
  match o with
  | None => True
  | Some l => l <> [] /\ Forall (Compact.wf_info w) l /\ (length l <= 8)%nat
  end.

Definition ret_ok (r : krpc_return) : Prop :=
  length (r_id r) = 20%nat /\ infos_ok 4 (r_nodes r) /\ infos_ok 16 (r_nodes6 r) /\
  (forall t, r_token r = Some t -> str_ok t = true) /\
  (forall l, r_values r = Some l -> forallb addr_okb l = true) /\
  r_bfsd r = None /\ r_bfpe r = None /\ r_interval r = None /\ r_num r = None /\ r_samples r = None /\
  (r_v r = [] \/ one_raw_valueb (r_v r) = true) /\
  length (r_k r) = 32%nat /\ length (r_sig r) = 64%nat /\
  (forall q, r_seq r = Some q -> in_int64 q = true).

Lemma arr_ok n s : length s = n -> (N.of_nat n <= max_str_len)%N -> Nat.eqb (length s) n && str_ok s = true.
Proof. intros <- H. rewrite Nat.eqb_refl. unfold str_ok. cbn [andb]. apply N.leb_le. exact H. Qed.

Lemma opt_wf {A} (p : A -> bool) (o : option A) :
  (forall x, o = Some x -> p x = true) -> match o with Some x => p x | None => true end = true.
Proof. destruct o; intros H; [apply H|]; reflexivity. Qed.

Lemma infos4_field o :
  infos_ok 4 o -> wf_fieldb (KCompact nm_CompactIPv4NodeInfo) (FInfos o) = true.
Proof.
  cbn [wf_fieldb compact_wfb]. change (bytes_eqb nm_CompactIPv4NodeInfo nm_CompactIPv4NodeInfo) with true.
  destruct o as [l|]; [|reflexivity]. intros (Hne & Hf & Hl). cbn [orb].
  assert (W : forallb (wf_infob 4) l = true) by (eapply forallb_of_Forall; [apply wf_info_b | exact Hf]).
  rewrite W. destruct l; [contradiction|]. cbn [is_nil negb andb].
  unfold blob_okb, max_str_len. apply N.leb_le. lia.
Qed.

Lemma infos6_field o :
  infos_ok 16 o -> wf_fieldb (KCompact nm_CompactIPv6NodeInfo) (FInfos o) = true.
Proof.
  cbn [wf_fieldb compact_wfb]. change (bytes_eqb nm_CompactIPv6NodeInfo nm_CompactIPv4NodeInfo) with false.
  change (bytes_eqb nm_CompactIPv6NodeInfo nm_CompactIPv6NodeInfo) with true.
  destruct o as [l|]; [|reflexivity]. intros (Hne & Hf & Hl). cbn [orb].
  assert (W : forallb (wf_infob 16) l = true) by (eapply forallb_of_Forall; [apply wf_info_b | exact Hf]).
  rewrite W. destruct l; [contradiction|]. cbn [is_nil negb andb].
  unfold blob_okb, max_str_len. apply N.leb_le. lia.
Qed.

Lemma samples_none_field :
  wf_fieldb (KPtrCompact nm_CompactInfohashes) (FStrs None) = true.
Proof. reflexivity. Qed.

Ltac fin_field :=
  first
    [ reflexivity
    | assumption
    | (apply Nat.eqb_eq; assumption)
    | (apply opt_wf; assumption)
    | (apply arr_ok; [assumption | unfold max_str_len; lia])
    | (apply infos4_field; assumption)
    | (apply infos6_field; assumption) ].

Theorem args_ok_wf a : args_ok a -> wf_xargsb (a, negb (is_nil (a_salt a))) = true.
Proof.
  intros (H1 & H2 & H3 & H4 & H5 & H6 & H7 & H8 & H9 & H10 & H11 & H12 & H13 & H14).
  unfold wf_xargsb. apply andb_true_intro. split; [|cbn [fst snd]; destruct (a_salt a); reflexivity].
  apply (all_wf_structb SArgs get_args wf_fieldb argsF (in_schema_F SArgs argsF argsF_eq)).
  intros fd Hin. unfold argsF in Hin.
  destruct a as [id ih tg tok port imp want noseed scrape v seq cas k salt sg].
  cbn [a_id a_info_hash a_target a_token a_port a_implied_port a_want a_noseed a_scrape a_v a_seq a_cas a_k a_salt a_sig] in *.
  each_in Hin ltac:(idtac; eexists; split; [reflexivity|]; cbn [f_kind wf_fieldb]; try fin_field).
  destruct salt; cbn [is_nil negb]; [reflexivity | exact H13].
Qed.

Theorem ret_ok_wf r : ret_ok r -> wf_xretb (r, negb (is_nil (r_v r))) = true.
Proof.
  intros (H1 & H2 & H3 & H4 & H5 & H6 & H7 & H8 & H9 & H10 & H11 & H12 & H13 & H14).
  unfold wf_xretb. apply andb_true_intro. split; [|cbn [fst snd]; destruct (r_v r); reflexivity].
  apply (all_wf_structb SRet get_ret wf_fieldb retF (in_schema_F SRet retF retF_eq)).
  intros fd Hin. unfold retF in Hin.
  destruct r as [id nodes nodes6 tok values bfsd bfpe interval num samples v k sg seq].
  cbn [r_id r_nodes r_nodes6 r_token r_values r_bfsd r_bfpe r_interval r_num r_samples r_v r_k r_sig r_seq] in *.
  subst bfsd bfpe interval num samples.
  each_in Hin ltac:(idtac; eexists; split; [reflexivity|]; cbn [f_kind wf_fieldb]; try fin_field).
  destruct v as [|v0 v]; cbn [is_nil negb]; [reflexivity|].
  destruct H11 as [H11|H11]; [discriminate H11 | exact H11].
Qed.

Lemma args_field o :
  (forall xa, o = Some xa -> wf_xargsb xa = true) -> wf_fieldb_msg (KPtrStruct nm_MsgArgs) (FArgs o) = true.
Proof.
  cbn [wf_fieldb_msg]. change (sid_of_name nm_MsgArgs) with (Some SArgs). cbv iota.
  destruct o as [xa|]; intros H; [apply H|]; reflexivity.
Qed.

Lemma ret_field o :
  (forall xr, o = Some xr -> wf_xretb xr = true) -> wf_fieldb_msg (KPtrStruct nm_Return) (FRet o) = true.
Proof.
  cbn [wf_fieldb_msg]. change (sid_of_name nm_Return) with (Some SRet). cbv iota.
  destruct o as [xr|]; intros H; [apply H|]; reflexivity.
Qed.

(* the `ip` field: the zero NodeAddr (omitted), or an address whose binary form is a valid string and
   whose port is a uint16 *)
Definition ip_field_ok (a : node_addr) : Prop :=
  (na_ip a = [] /\ na_port a = 0%Z) \/ addr_okb a = true.

Theorem wf_msg_intro m :
  str_ok (m_q m) = true -> (forall a, m_a m = Some a -> args_ok a) ->
  str_ok (m_t m) = true -> str_ok (m_y m) = true ->
  (forall r, m_r m = Some r -> ret_ok r) -> (forall e, m_e m = Some e -> err_ok e) ->
  ip_field_ok (m_ip m) -> str_ok (m_v m) = true ->
  Krpc.wf_msg m.
Proof.
  intros Hq Ha Ht Hy Hr He Hip Hv.
  unfold Krpc.wf_msg, wf_xmsgb. apply andb_true_intro. split; [apply andb_true_intro; split|].
  - apply (all_wf_structb SMsg get_msg wf_fieldb_msg msgF (in_schema_F SMsg msgF msgF_eq)).
    intros fd Hin. unfold msgF in Hin.
    destruct m as [q a t y r e ip ro v]. cbn [m_q m_a m_t m_y m_r m_e m_ip m_ro m_v] in *.
    each_in Hin ltac:(idtac; eexists; split; [reflexivity|];
                      cbn [f_kind x_of_msg x_msg x_ip_nn x_salt_nn x_rv_nn m_q m_a m_t m_y m_r m_e m_ip m_ro m_v];
                      try (cbn [wf_fieldb_msg wf_fieldb]; fin_field)).
    + (* a *)
      apply args_field. intros xa E. destruct a as [a0|]; [|discriminate E]. cbn [option_map] in E.
      injection E as <-. pose proof (args_ok_wf a0 (Ha a0 eq_refl)) as W.
      destruct (a_salt a0); exact W.
    + (* e *)
      cbn [wf_fieldb_msg wf_fieldb]. destruct e as [e0|]; [|reflexivity].
      destruct (He e0 eq_refl) as (E1 & E2). rewrite E1, E2. reflexivity.
    + (* ip *)
      cbn [wf_fieldb_msg wf_fieldb]. destruct Hip as [(E1 & E2)|Hok].
      * rewrite E1, E2. reflexivity.
      * destruct (na_ip ip) as [|x l] eqn:Ei; cbn [andb negb]; [|exact Hok].
        destruct (Z.eqb (na_port ip) 0) eqn:Ep; cbn [negb]; [|exact Hok].
        reflexivity.
    + (* r *)
      apply ret_field. intros xr E. destruct r as [r0|]; [|discriminate E]. cbn [option_map] in E.
      injection E as <-. pose proof (ret_ok_wf r0 (Hr r0 eq_refl)) as W.
      destruct (r_v r0); exact W.
  - cbn [x_of_msg x_msg x_salt_nn]. destruct (m_a m); [apply Bool.orb_true_r | reflexivity].
  - cbn [x_of_msg x_msg x_rv_nn]. destruct (m_r m); [apply Bool.orb_true_r | reflexivity].
Qed.

(* ================================================================================================
   Part 2 — what the server needs of an inbound message beyond wf_msg_in, and that the decoder
   delivers it
   ================================================================================================ *)
Definition in_msg_ok (m : msg) : Prop :=
  str_ok (m_t m) = true /\
  forall a, m_a m = Some a ->
    length (a_k a) = 32%nat /\ length (a_sig a) = 64%nat /\
    (forall v, a_v a = Some v -> canonb v = true) /\
    (forall q, a_seq a = Some q -> in_int64 q = true).

Definition fd_msg_t : field := mkField nm_T ["t"]%byte false KStr.
Definition fd_args_k : field := mkField nm_K ["k"]%byte true (KArr 32).
Definition fd_args_sig : field := mkField nm_Sig ["s"; "i"; "g"]%byte true (KArr 64).
Definition fd_args_v : field := mkField nm_V ["v"]%byte true KAny.
Definition fd_args_seq : field := mkField nm_Seq ["s"; "e"; "q"]%byte true KPtrInt.

Theorem wf_xmsg_in_msg_ok x : wf_xmsg x -> in_msg_ok (x_msg x).
Proof.
  unfold wf_xmsg, wf_xmsgb. intros H. apply andb_prop in H. destruct H as [H _]. apply andb_prop in H. destruct H as [Hs _].
  assert (St : In fd_msg_t (schema_of SMsg)) by (cbn [schema_of]; unfold msg_schema; in_literal).
  assert (Sa : In fd_msg_a (schema_of SMsg)) by (cbn [schema_of]; unfold msg_schema; in_literal).
  destruct (wf_struct_in SMsg get_msg wf_fieldb_msg _ _ Hs St) as (fvt & Gt & Wt).
  destruct (wf_struct_in SMsg get_msg wf_fieldb_msg _ _ Hs Sa) as (fva & Ga & Wa).
  change (get_msg (f_name fd_msg_t) x) with (Some (FStr (m_t (x_msg x)))) in Gt.
  change (get_msg (f_name fd_msg_a) x) with
    (Some (FArgs (option_map (fun a => (a, x_salt_nn x)) (m_a (x_msg x))))) in Ga.
  injection Gt as <-. injection Ga as <-.
  split; [exact Wt|].
  intros a Ea. rewrite Ea in Wa. cbn [option_map] in Wa.
  change (wf_xargsb (a, x_salt_nn x) = true) in Wa. unfold wf_xargsb in Wa.
  apply andb_prop in Wa. destruct Wa as [Wa _].
  assert (S1 : In fd_args_k (schema_of SArgs)) by (cbn [schema_of]; unfold args_schema; in_literal).
  assert (S2 : In fd_args_sig (schema_of SArgs)) by (cbn [schema_of]; unfold args_schema; in_literal).
  assert (S3 : In fd_args_v (schema_of SArgs)) by (cbn [schema_of]; unfold args_schema; in_literal).
  assert (S4 : In fd_args_seq (schema_of SArgs)) by (cbn [schema_of]; unfold args_schema; in_literal).
  destruct (wf_struct_in SArgs get_args wf_fieldb _ _ Wa S1) as (fv1 & G1 & W1).
  destruct (wf_struct_in SArgs get_args wf_fieldb _ _ Wa S2) as (fv2 & G2 & W2).
  destruct (wf_struct_in SArgs get_args wf_fieldb _ _ Wa S3) as (fv3 & G3 & W3).
  destruct (wf_struct_in SArgs get_args wf_fieldb _ _ Wa S4) as (fv4 & G4 & W4).
  change (get_args (f_name fd_args_k) (a, x_salt_nn x)) with (Some (FStr (a_k a))) in G1.
  change (get_args (f_name fd_args_sig) (a, x_salt_nn x)) with (Some (FStr (a_sig a))) in G2.
  change (get_args (f_name fd_args_v) (a, x_salt_nn x)) with (Some (FAny (a_v a))) in G3.
  change (get_args (f_name fd_args_seq) (a, x_salt_nn x)) with (Some (FOInt (a_seq a))) in G4.
  injection G1 as <-. injection G2 as <-. injection G3 as <-. injection G4 as <-.
  cbn [wf_fieldb fd_args_k fd_args_sig fd_args_v fd_args_seq f_kind] in W1, W2, W3, W4.
  apply andb_prop in W1. destruct W1 as [W1 _]. apply andb_prop in W2. destruct W2 as [W2 _].
  apply Nat.eqb_eq in W1, W2.
  split; [exact W1|]. split; [exact W2|]. split.
  - intros v Ev. rewrite Ev in W3. exact W3.
  - intros q Eq. rewrite Eq in W4. exact W4.
Qed.

(* every datagram within the decoder's own string limit (a UDP datagram has at most 65535 bytes) *)
Theorem decoded_in_msg_ok b m :
  (N.of_nat (length b) <= max_str_len)%N -> decoded b = Some m -> in_msg_ok m.
Proof.
  intros Hb Hd. apply decoded_some_iff in Hd. destruct Hd as [_ Hd].
  assert (Hx : exists x, x_msg x = m /\
                 (decode_xmsg_fixed b = DOk x \/ exists n, decode_xmsg_fixed b = DOkTrailing x n)).
  { unfold decode_msg_fixed, decode_msg in Hd. fold decode_xmsg_fixed in Hd.
    destruct (decode_xmsg_fixed b) as [x|x n| |]; destruct Hd as [Hd|(n' & Hd)]; try discriminate.
    - injection Hd as <-. exists x. split; [reflexivity | left; reflexivity].
    - injection Hd as <- <-. exists x. split; [reflexivity | right; exists n; reflexivity]. }
  destruct Hx as (x & <- & Hdx).
  apply wf_xmsg_in_msg_ok. exact (decode_xmsg_wf nodeinfo_unmarshal ni_ok_fixed b x Hb Hdx).
Qed.

(* ================================================================================================
   Part 3 — the server model: every datagram it emits is well-formed
   ================================================================================================ *)
Local Arguments Ok {A} _.
Local Arguments Panic {A}.
Local Arguments N.pow : simpl never.

Lemma addr_okb_intro a :
  (length (na_ip a) <= 16)%nat -> (0 <= na_port a < 65536)%Z -> addr_okb a = true.
Proof.
  intros Hl Hp. unfold addr_okb, port_okb, str_ok, nodeaddr_marshal, port_enc.
  rewrite app_length. cbn [length]. apply andb_true_intro. split; [lia|].
  apply N.leb_le. unfold max_str_len. lia.
Qed.

(* caller-supplied arguments of an outgoing query (Server.Query / the traversal): everything but the
   id, which the server fills in *)
Definition query_args_ok (a : msg_args) : Prop :=
  length (a_info_hash a) = 20%nat /\ length (a_target a) = 20%nat /\
  str_ok (a_token a) = true /\
  (forall p, a_port a = Some p -> in_int64 p = true) /\
  (forall l, a_want a = Some l -> forallb str_ok l = true) /\
  in_int64 (a_noseed a) = true /\ in_int64 (a_scrape a) = true /\
  (forall v, a_v a = Some v -> canonb v = true) /\
  (forall q, a_seq a = Some q -> in_int64 q = true) /\
  in_int64 (a_cas a) = true /\
  length (a_k a) = 32%nat /\ str_ok (a_salt a) = true /\ length (a_sig a) = 64%nat.

(* BEP 44 items as the put handler hands them to the store wrapper, and as the wrapper hands them out *)
Definition put_item_ok (it : witem) : Prop :=
  length (it_k it) = 32%nat /\ length (it_sig it) = 64%nat /\ in_int64 (it_seq it) = true /\
  (it_bv it = None \/ exists v, canonb v = true /\ it_bv it = Some (benc v)).

Definition get_item_ok (it : witem) : Prop :=
  length (it_k it) = 32%nat /\ length (it_sig it) = 64%nat /\ in_int64 (it_seq it) = true /\
  forall bv, it_bv it = Some bv -> bv = [] \/ one_raw_valueb bv = true.

Definition get_result_ok (r : get_result) : Prop :=
  match r with
  | GetNotFound => True
  | GetKrpcErr e => err_ok e
  | GetOtherErr txt => str_ok txt = true
  | GetItem it => get_item_ok it
  end.

Section ServerEncode.
  Variable Store : Type.
  Variable w_put : Store -> witem -> Z -> Store * put_result.
  Variable w_get : Store -> bytes -> Z -> Store * get_result.
  Variable sha1 : bytes -> bytes.
  Variable id_secure : N -> bytes -> bool.
  Variable cfg : config.
  (* an invariant of the BEP 44 store the wrapper maintains (e.g. "every stored item is put_item_ok") *)
  Variable store_ok : Store -> Prop.

  Notation sstate := (sstate Store).
  Notation step := (step Store w_put w_get sha1 id_secure cfg).
  Notation update_node := (update_node Store id_secure cfg).
  Notation add_node := (add_node Store id_secure cfg).
  Notation drop_node := (drop_node Store cfg).
  Notation table_add := (table_add Store cfg).
  Notation dispatch := (dispatch Store w_put w_get sha1 id_secure cfg).
  Notation handle_query := (handle_query Store w_put w_get sha1 id_secure cfg).
  Notation accept_closest := (accept_closest Store id_secure cfg).
  Notation set_return_nodes := (set_return_nodes Store id_secure cfg).
  Notation write_rated := (write_rated Store).
  Notation create_token := (create_token sha1 cfg).
  Notation Inv := (Inv Store cfg).
  Notation TxInv := (TxInv Store).
  Notation wf_cfg := (wf_cfg cfg).
  Notation reachable := (reachable Store w_put w_get sha1 id_secure cfg).
  Notation s_nodes := (s_nodes Store).
  Notation s_store := (s_store Store).
  Notation s_now := (s_now Store).
  Notation SR := (SR Store).
  Notation HQ := (HQ Store).

  (* ---------------------------------------------------------------- hypotheses, as definitions *)
  (* the token hash yields a string the decoder accepts (SHA-1: 20 bytes) *)
  Definition sha1_ok : Prop := forall b, str_ok (sha1 b) = true.

  Definition wf_store_items : Prop :=
    (forall st it now st' r, store_ok st -> put_item_ok it -> w_put st it now = (st', r) ->
       store_ok st' /\ forall e, r = PutKrpcErr e -> err_ok e) /\
    (forall st t now st' r, store_ok st -> w_get st t now = (st', r) ->
       store_ok st' /\ get_result_ok r).

  (* ports of table entries fit a uint16; the store satisfies its invariant *)
  Definition PInv (s : sstate) : Prop := forall n, In n (s_nodes s) -> (port (n_addr n) < 65536)%N.
  Definition EncInv (s : sstate) : Prop := PInv s /\ store_ok (s_store s).

  (* what the socket, the decoder and the callers of Query / AddNode guarantee beyond wf_event *)
  Definition enc_event (e : event) : Prop :=
    match e with
    | EPacket src _ (Some m) => (port src < 65536)%N /\ in_msg_ok m
    | EAddNode _ p _ => (p < 65536)%N
    | EQueryStart _ _ q a _ t => str_ok q = true /\ str_ok t = true /\ query_args_ok a
    | _ => True
    end.

  (* ---------------------------------------------------------------- the table: addresses *)
  Lemma drop_node_nodes s v s1 n :
    drop_node s v = Ok s1 -> In n (s_nodes s1) -> In n (s_nodes s).
  Proof.
    unfold Server.drop_node.
    destruct (negb (index_has _ _ _)); [discriminate|].
    destruct (N.eqb _ _); [discriminate|].
    destruct (negb _); [discriminate|].
    intros H; inversion H; subst; clear H. cbn [Server.s_nodes]. apply remove_first_In.
  Qed.

  Lemma table_add_nodes s x s2 n :
    table_add s x = Ok s2 -> In n (s_nodes s2) -> In n (s_nodes s) \/ n_addr n = n_addr x.
  Proof.
    unfold Server.table_add.
    destruct (N.eqb _ _); [discriminate|].
    destruct (existsb _ _); [discriminate|].
    destruct (Nat.leb _ _); [discriminate|].
    intros H; inversion H; subst; clear H. cbn [Server.s_nodes]. intros Hin.
    apply in_app_or in Hin. destruct Hin as [Hin|[<-|[]]]; [left; exact Hin | right; reflexivity].
  Qed.

  Lemma add_node_nodes s x victim s' r n :
    add_node s x victim = Ok (s', r) -> In n (s_nodes s') -> In n (s_nodes s) \/ n_addr n = n_addr x.
  Proof.
    unfold Server.add_node.
    destruct (node_bad _ _ _); [intros H; inversion H; subst; auto|].
    destruct (Nat.leb _ _).
    - destruct (filter _ _) as [|c cs]; destruct victim as [[vk vid]|];
        try (intros H; inversion H; subst; auto; fail).
      destruct (find (same_node vk vid) _) as [v|]; [|intros H; inversion H; subst; auto].
      destruct (drop_node s v) as [s1|] eqn:Hd; [|discriminate].
      destruct (table_add s1 x) as [s2|] eqn:Ht; [|discriminate].
      intros H; inversion H; subst; clear H. intros Hin.
      destruct (table_add_nodes _ _ _ _ Ht Hin) as [Hin1|E]; [left|right; exact E].
      eapply drop_node_nodes; eassumption.
    - destruct victim; [intros H; inversion H; subst; auto|].
      destruct (table_add s x) as [s2|] eqn:Ht; [|discriminate].
      intros H; inversion H; subst; clear H. eapply table_add_nodes; eassumption.
  Qed.

  (* an entry of the table after updateNode has the address of an entry before, or (only when the
     caller allows adding) the address it was called with *)
  Lemma update_node_nodes s a id ta u victim s' r n :
    update_node s a id ta u victim = Ok (s', r) -> In n (s_nodes s') ->
    (exists m, In m (s_nodes s) /\ n_addr n = n_addr m) \/ (ta = true /\ n_addr n = a).
  Proof.
    unfold Server.update_node. destruct id as [i|]; [|intros H; inversion H; subst; intros; left; eauto].
    destruct (get_node cfg (s_nodes s) a i).
    - destruct victim; intros H; inversion H; subst; clear H; [intros; left; eauto|].
      cbn [with_nodes Server.s_nodes]. intros Hin. left.
      eapply replace_node_In in Hin. destruct Hin as (m & Hm & [->| ->]); exists m; split; auto.
      apply apply_update_addr.
    - destruct ta; cbn [negb orb]; [|intros H; inversion H; subst; intros; left; eauto].
      destruct (N.eqb i (c_root cfg)); [intros H; inversion H; subst; intros; left; eauto|].
      intros H Hin. destruct (add_node_nodes _ _ _ _ _ _ H Hin) as [Hin1|E]; [left; eauto|].
      right. split; [reflexivity|]. rewrite E, apply_update_addr. reflexivity.
  Qed.

  Lemma update_node_pinv s a id ta u victim s' r :
    (ta = true -> (port a < 65536)%N) -> PInv s ->
    update_node s a id ta u victim = Ok (s', r) -> PInv s' /\ s_store s' = s_store s.
  Proof.
    intros Ha HP H. split.
    - intros n Hn. destruct (update_node_nodes _ _ _ _ _ _ _ _ _ H Hn) as [(m & Hm & ->)|(Et & ->)]; auto.
    - apply (update_node_frame Store id_secure cfg) in H. destruct H as (_ & _ & _ & H & _). exact H.
  Qed.

  (* ---------------------------------------------------------------- node lists of a reply *)
  Lemma accepted_infos_ok s (v6 : bool) tg l :
    Inv s -> PInv s -> accept_closest s v6 tg l = true ->
    Forall (Compact.wf_info (if v6 then 16%nat else 4%nat)) l /\ (length l <= 8)%nat.
  Proof.
    intros HI HP Hacc.
    destruct (accept_closest_sound Store id_secure cfg s v6 tg l HI Hacc) as (_ & Hlen & Hc & _).
    split; [|destruct C09_pin as [E _]; rewrite E in Hlen; exact Hlen].
    apply Forall_forall. intros c Hin.
    destruct (Hc c Hin) as (n & Hn & Ec & _).
    assert (Hport : Compact.port_ok (na_port (ni_addr c))).
    { rewrite Ec. unfold wire_info. cbn [ni_addr na_port]. specialize (HP n Hn). unfold Compact.port_ok. lia. }
    destruct v6.
    - destruct (C09_gate_ipv6_38_bytes Store id_secure cfg s tg l c Hacc HI Hin) as (G1 & G2 & _).
      split; [exact G1|]. split; assumption.
    - destruct (C09_gate_ipv4_26_bytes Store id_secure cfg s tg l c Hacc HI Hin) as (G1 & G2 & _).
      split; [exact G1|]. split; assumption.
  Qed.

  Ltac ret_tac :=
    unfold ret_ok in *;
    cbn [r_id r_nodes r_nodes6 r_token r_values r_bfsd r_bfpe r_interval r_num r_samples r_v r_k r_sig r_seq
         ret_with_token ret_with_values empty_return] in *.

  Lemma ret_ok_empty : ret_ok empty_return.
  Proof.
    ret_tac. cbn [infos_ok]. repeat split; try reflexivity; try discriminate. left. reflexivity.
  Qed.

  Lemma set_return_nodes_ok s src a tg ch r r' :
    Inv s -> PInv s -> ret_ok r -> set_return_nodes s src a tg ch r = Some r' -> ret_ok r'.
  Proof.
    intros HI HP Hr H. unfold Server.set_return_nodes in H.
    match type of H with (if ?c then _ else _) = _ => destruct c eqn:Eok; [|discriminate] end.
    injection H as <-. apply andb_true_iff in Eok. destruct Eok as [E4 E6].
    assert (I4 : infos_ok 4 (opt_nonempty (ch_nodes ch))).
    { destruct (ch_nodes ch) as [|c0 cs] eqn:Ec; [exact I|]. cbn [opt_nonempty infos_ok].
      destruct (should_return_nodes _ _); [|discriminate E4].
      split; [discriminate|]. apply (accepted_infos_ok s false tg); assumption. }
    assert (I6 : infos_ok 16 (opt_nonempty (ch_nodes6 ch))).
    { destruct (ch_nodes6 ch) as [|c0 cs] eqn:Ec; [exact I|]. cbn [opt_nonempty infos_ok].
      destruct (should_return_nodes6 _ _); [|discriminate E6].
      split; [discriminate|]. apply (accepted_infos_ok s true tg); assumption. }
    ret_tac. tauto.
  Qed.

  (* `values`: whatever order the implementation chose, 4- or 16-byte addresses, uint16 ports *)
  Lemma values_ok (s : sstate) src ws ih l :
    is_perm_na l (map (fun x => mkNA (na_ip x) (wire_port (na_port x)))
                      (filter_peers src ws (get_peers_of Store s ih))) = true ->
    forallb addr_okb l = true.
  Proof.
    intros Hp. apply is_perm_na_iff in Hp. apply forallb_forall. intros x Hx.
    pose proof (Permutation_in _ Hp Hx) as Hin. apply in_map_iff in Hin. destruct Hin as (y & <- & Hy).
    apply in_filter_peers in Hy. destruct Hy as (p & _ & Hf).
    apply addr_okb_intro; cbn [na_ip na_port].
    - destruct (C11_family _ _ _ _ Hf) as [(E & _)|(E & _)]; rewrite E; lia.
    - unfold wire_port. apply Z.mod_pos_bound. lia.
  Qed.

  Lemma token_ok src now tok : sha1_ok -> create_token src now = Some tok -> str_ok tok = true.
  Proof.
    intros Hs. unfold Server.create_token. destruct (to16 (ip src)); [|discriminate].
    intros [= <-]. unfold token_for. apply Hs.
  Qed.

  (* ---------------------------------------------------------------- the three message builders *)
  Lemma reply_msg_wf src t r :
    wf_addr src -> (port src < 65536)%N -> str_ok t = true -> ret_ok r ->
    Krpc.wf_msg (reply_msg cfg src t r).
  Proof.
    intros Hsrc Hport Ht Hr. apply wf_msg_intro; cbn [reply_msg m_q m_a m_t m_y m_r m_e m_ip m_ro m_v];
      try reflexivity; try discriminate; try assumption.
    - intros r0 [= <-]. ret_tac. unfold own_id_bytes. rewrite ofN_length. tauto.
    - right. apply addr_okb_intro; unfold addr_krpc; cbn [na_ip na_port].
      + destruct Hsrc as [E|E]; rewrite E; lia.
      + lia.
  Qed.

  Lemma error_msg_wf t e : str_ok t = true -> err_ok e -> Krpc.wf_msg (error_msg t e).
  Proof.
    intros Ht He. apply wf_msg_intro; cbn [error_msg m_q m_a m_t m_y m_r m_e m_ip m_ro m_v];
      try reflexivity; try discriminate; try assumption.
    - intros e0 [= <-]. exact He.
    - left. split; reflexivity.
  Qed.

  Lemma query_msg_wf q a t :
    str_ok q = true -> str_ok t = true -> query_args_ok a -> Krpc.wf_msg (query_msg cfg q a t).
  Proof.
    intros Hq Ht Ha. apply wf_msg_intro; cbn [query_msg m_q m_a m_t m_y m_r m_e m_ip m_ro m_v];
      try reflexivity; try discriminate; try assumption.
    - intros a0 [= <-]. unfold args_ok, query_args_ok in *.
      cbn [a_id a_info_hash a_target a_token a_port a_implied_port a_want a_noseed a_scrape a_v a_seq a_cas a_k a_salt a_sig].
      unfold own_id_bytes. rewrite ofN_length. tauto.
    - left. split; reflexivity.
  Qed.

  Lemma err_consts_ok : err_ok err_missing_args /\ err_ok err_method_unknown /\ err_ok err_expected_seq.
  Proof. repeat split; reflexivity. Qed.

  (* ---------------------------------------------------------------- writeToNode, reply, sendError *)
  Lemma write_rated_enc s d m k s2 o :
    write_rated s d m k = (s2, o) ->
    s_store s2 = s_store s /\ s_nodes s2 = s_nodes s /\
    forall d' rm k', In (ESend d' rm k') o -> rm = m.
  Proof.
    unfold Server.write_rated. destruct (Server.s_closed Store s).
    { intros H; inversion H; subst. repeat split. intros d' rm k' [F|[]]; discriminate F. }
    destruct (blocked _ _).
    { intros H; inversion H; subst. repeat split. intros d' rm k' [F|[]]; discriminate F. }
    destruct (Server.s_budget Store s) as [[|p]|]; intros H; inversion H; subst; repeat split;
      intros d' rm k' [F|[]]; inversion F; reflexivity.
  Qed.

  Definition sends_wf (out : list effect) : Prop :=
    forall d rm k, In (ESend d rm k) out -> Krpc.wf_msg rm.

  Lemma leaf_reply s src t r s' out :
    store_ok (s_store s) -> wf_addr src -> (port src < 65536)%N -> str_ok t = true -> ret_ok r ->
    lift Store (reply Store cfg s src t r) = HQ s' out ->
    store_ok (s_store s') /\ sends_wf out.
  Proof.
    intros Hst Hsrc Hport Ht Hr H. unfold lift, reply in H.
    destruct (write_rated s src (reply_msg cfg src t r) SReply) as [s2 o] eqn:Ew. cbn [fst snd] in H.
    inversion H; subst; clear H. destruct (write_rated_enc _ _ _ _ _ _ Ew) as (E1 & _ & Hm).
    split; [rewrite E1; exact Hst|]. intros d rm k Hin. rewrite (Hm _ _ _ Hin).
    apply reply_msg_wf; assumption.
  Qed.

  Lemma leaf_error s src t e s' out :
    store_ok (s_store s) -> str_ok t = true -> err_ok e ->
    lift Store (send_error Store s src t e) = HQ s' out ->
    store_ok (s_store s') /\ sends_wf out.
  Proof.
    intros Hst Ht He H. unfold lift, send_error in H.
    destruct (write_rated s src (error_msg t e) SError) as [s2 o] eqn:Ew. cbn [fst snd] in H.
    inversion H; subst; clear H. destruct (write_rated_enc _ _ _ _ _ _ Ew) as (E1 & _ & Hm).
    split; [rewrite E1; exact Hst|]. intros d rm k Hin. rewrite (Hm _ _ _ Hin).
    apply error_msg_wf; assumption.
  Qed.

  Ltac by_reply H := eapply leaf_reply; [| | | | | exact H]; eauto.
  Ltac by_error H := eapply leaf_error; [| | | exact H]; eauto.

  (* ---------------------------------------------------------------- the query handlers *)
  Lemma dispatch_enc s src m ch s' out :
    sha1_ok -> wf_store_items -> Inv s -> PInv s -> store_ok (s_store s) ->
    wf_addr src -> (port src < 65536)%N -> in_msg_ok m ->
    dispatch s src m ch = HQ s' out ->
    store_ok (s_store s') /\ sends_wf out.
  Proof.
    intros Hsha (Hput & Hget) HI HP Hst Hsrc Hport (Ht & Hargs) H.
    destruct err_consts_ok as (Ek1 & Ek2 & Ek3).
    unfold Server.dispatch in H. cbv zeta in H.
    destruct (bytes_eqb (m_q m) s_ping).
    { by_reply H; apply ret_ok_empty. }
    destruct (bytes_eqb (m_q m) s_get_peers).
    { destruct (m_a m) as [a|] eqn:Ea; [|by_error H].
      match type of H with match ?R with Some _ => _ | None => _ end = _ =>
        destruct R as [r|] eqn:Er0; [|discriminate H] end.
      assert (Hr : ret_ok r).
      { destruct (c_peer_store cfg).
        - destruct (is_perm_na _ _) eqn:Eperm; [|discriminate Er0].
          destruct (create_token src (s_now s)) as [tok|] eqn:Etok; [|discriminate Er0].
          injection Er0 as <-. pose proof (token_ok _ _ _ Hsha Etok) as Htok.
          pose proof (values_ok _ _ _ _ _ Eperm) as Hv.
          pose proof ret_ok_empty as He. ret_tac.
          repeat split; try tauto; try discriminate.
          + intros t0 [= <-]. exact Htok.
          + intros l0 E0. destruct (ch_values ch); cbn [opt_nonempty] in E0; [discriminate E0|].
            injection E0 as <-. exact Hv.
        - destruct (ch_values ch); [|discriminate Er0]. injection Er0 as <-. apply ret_ok_empty. }
      destruct (r_values r).
      - destruct (ch_nodes ch); [|discriminate H]. destruct (ch_nodes6 ch); [|discriminate H].
        by_reply H.
      - destruct (set_return_nodes s src a _ ch r) as [r'|] eqn:Es; [|discriminate H].
        by_reply H. eapply set_return_nodes_ok; eauto. }
    destruct (bytes_eqb (m_q m) s_find_node).
    { destruct (m_a m) as [a|] eqn:Ea; [|by_error H].
      destruct (set_return_nodes s src a _ ch empty_return) as [r'|] eqn:Es; [|discriminate H].
      by_reply H. eapply set_return_nodes_ok; eauto using ret_ok_empty. }
    destruct (bytes_eqb (m_q m) s_announce_peer).
    { destruct (m_a m) as [a|] eqn:Ea; [|by_error H].
      destruct (valid_token sha1 cfg (a_token a) src (s_now s)) as [[|]|]; [| |discriminate H].
      2:{ inversion H; subst. split; [exact Hst|]. intros d rm k []. }
      match type of H with context [reply Store cfg ?x1 ?x2 ?x3 ?x4] =>
        destruct (reply Store cfg x1 x2 x3 x4) as [s2 o] eqn:Er end.
      inversion H; subst; clear H. unfold reply in Er.
      destruct (write_rated_enc _ _ _ _ _ _ Er) as (E1 & _ & Hm). split.
      - rewrite E1. destruct (c_peer_store cfg); exact Hst.
      - intros d rm k Hin. apply in_app_or in Hin. destruct Hin as [Hin|Hin].
        { destruct (c_announce_cb cfg); [destruct Hin as [F|[]]; discriminate F | destruct Hin]. }
        apply in_app_or in Hin. destruct Hin as [Hin|Hin].
        { destruct (c_peer_store cfg); [destruct Hin as [F|[]]; discriminate F | destruct Hin]. }
        rewrite (Hm _ _ _ Hin). apply reply_msg_wf; auto using ret_ok_empty. }
    destruct (bytes_eqb (m_q m) s_put).
    { destruct (m_a m) as [a|] eqn:Ea; [|by_error H].
      destruct (valid_token sha1 cfg (a_token a) src (s_now s)) as [[|]|]; [| |discriminate H].
      2:{ inversion H; subst. split; [exact Hst|]. intros d rm k []. }
      destruct (a_seq a) as [seq|] eqn:Eseq; [|by_error H].
      destruct (w_put (s_store s) _ (s_now s)) as [st res] eqn:Ew.
      destruct (Hargs a eq_refl) as (Ak & Asig & Av & Aseq).
      assert (Hit : put_item_ok (mkItem (option_map benc (a_v a)) (a_k a) (a_salt a) (a_sig a) (a_cas a) seq)).
      { unfold put_item_ok; cbn [it_k it_sig it_seq it_bv]. repeat split; auto.
        destruct (a_v a) as [v|]; cbn [option_map]; [right; exists v; auto | left; reflexivity]. }
      destruct (Hput _ _ _ _ _ Hst Hit Ew) as (Hst' & Herr).
      destruct res as [|e|].
      - by_reply H; apply ret_ok_empty.
      - by_error H.
      - by_error H. }
    destruct (bytes_eqb (m_q m) s_get).
    { destruct (m_a m) as [a|] eqn:Ea; [|by_error H].
      destruct (set_return_nodes s src a _ ch empty_return) as [r0|] eqn:Es; [|discriminate H].
      pose proof (set_return_nodes_ok _ _ _ _ _ _ _ HI HP ret_ok_empty Es) as Hr0.
      destruct (create_token src (s_now s)) as [tok|] eqn:Etok; [|discriminate H].
      pose proof (token_ok _ _ _ Hsha Etok) as Htok.
      destruct (w_get (s_store s) (a_target a) (s_now s)) as [st res] eqn:Ew.
      destruct (Hget _ _ _ _ _ Hst Ew) as (Hst' & Hres).
      assert (Hr : ret_ok (ret_with_token r0 (Some tok))).
      { ret_tac. repeat split; try tauto. intros t0 [= <-]. exact Htok. }
      destruct res as [|e|txt|it]; cbn [get_result_ok] in Hres.
      - by_reply H.
      - by_error H.
      - by_error H. split; [reflexivity | exact Hres].
      - destruct Hres as (Ik & Isig & Iseq & Ibv).
        match type of H with (if ?g then _ else _) = _ => destruct g end.
        + by_reply H. ret_tac. repeat split; try tauto. intros q [= <-]. exact Iseq.
        + destruct (it_bv it) as [bv|] eqn:Ebv; [|discriminate H].
          by_reply H. ret_tac. repeat split; try tauto.
          * apply Ibv. reflexivity.
          * intros q [= <-]. exact Iseq. }
    by_error H.
  Qed.

  Lemma handle_query_enc s src m ch s' out :
    wf_cfg -> sha1_ok -> wf_store_items -> Inv s -> EncInv s ->
    wf_addr src -> wf_msg_in m -> (port src < 65536)%N -> in_msg_ok m ->
    handle_query s src m ch = HQ s' out -> EncInv s' /\ sends_wf out.
  Proof.
    intros Hc Hsha Hsi HI (HP & Hst) Hsrc Hm Hport Hin. unfold Server.handle_query.
    destruct (update_node s src _ _ UQuery (ch_victim ch)) as [[s1 r]|] eqn:Hu; [|discriminate].
    pose proof Hu as Hu'.
    eapply update_node_inv in Hu'; [|exact Hc|exact HI|exact Hsrc|apply sender_id_bound; exact Hm].
    destruct Hu' as (HI1 & _).
    eapply update_node_pinv in Hu; [|intros _; exact Hport|exact HP]. destruct Hu as (HP1 & Es1).
    assert (Hst1 : store_ok (s_store s1)) by (rewrite Es1; exact Hst).
    assert (Hbase : EncInv s1 /\ sends_wf []) by (split; [split; assumption | intros d rm k []]).
    assert (Hd : dispatch s1 src m ch = HQ s' out -> EncInv s' /\ sends_wf out).
    { intros H. destruct (dispatch_enc _ _ _ _ _ _ Hsha Hsi HI1 HP1 Hst1 Hsrc Hport Hin H) as (Hst' & Hw).
      split; [split|exact Hw]; [|exact Hst'].
      apply dispatch_tframe in H. destruct H as ((T1 & _) & _).
      intros n Hn. rewrite T1 in Hn. apply HP1. exact Hn. }
    destruct r; try discriminate;
      (destruct (negb (c_hook cfg m)); [intros H; inversion H; subst; exact Hbase|]);
      (destruct (c_passive cfg); [intros H; inversion H; subst; exact Hbase|]); exact Hd.
  Qed.

  Ltac destr_goal :=
    repeat match goal with
           | |- context [match ?c with _ => _ end] => let E := fresh "E" in destruct c eqn:E
           end.

  (* ---------------------------------------------------------------- the step *)
  (* EncInv is inductive, and every datagram of every step is well-formed *)
  Theorem step_enc s e ch s' out :
    wf_cfg -> sha1_ok -> wf_store_items -> Inv s -> EncInv s -> wf_event e -> enc_event e ->
    step s e ch = SR s' out -> EncInv s' /\ sends_wf out.
  Proof.
    intros Hc Hsha Hsi HI HE Hwf Henc.
    assert (Hnil : sends_wf []) by (intros d rm k []).
    assert (Hsame : forall o, sends_wf o -> SR s o = SR s' out -> EncInv s' /\ sends_wf out)
      by (intros o Ho H; inversion H; subst; split; assumption).
    pose proof HE as (HP & Hst).
    destruct e as [src size dec|d|i p id|qid dst q a rated t|qid|a id|bl|]; unfold Server.step.
    - (* EPacket *)
      destruct (N.eqb size _); [apply Hsame; exact Hnil|].
      destruct (N.eqb (port src) 0); [apply Hsame; exact Hnil|].
      destruct (Server.s_closed Store s); [apply Hsame; exact Hnil|].
      destruct (blocked _ _); [apply Hsame; exact Hnil|].
      destruct dec as [m|]; [|apply Hsame; exact Hnil].
      cbn [wf_event enc_event] in Hwf, Henc. destruct Hwf as (Hsrc & Hm). destruct Henc as (Hport & Hin).
      destruct (bytes_eqb (m_y m) s_q).
      + destruct (handle_query s src m ch) as [s1 o| |] eqn:Hq; try discriminate.
        intros H; inversion H; subst. eapply handle_query_enc; eassumption.
      + destruct (find _ _) as [x|]; [|apply Hsame; exact Hnil].
        destruct (update_node _ _ _ _ _ _) as [[s2 r]|] eqn:Hu; [|discriminate].
        eapply update_node_pinv in Hu; [|intros _; exact Hport|exact HP]. destruct Hu as (HP2 & Es2).
        assert (HE2 : EncInv s2) by (split; [exact HP2 | rewrite Es2; exact Hst]).
        destruct r; try discriminate; intros H'; inversion H'; subst;
          (split; [exact HE2 | intros d0 rm k0 [F|[]]; discriminate F]).
    - (* EAdvance *)
      intros H; inversion H; subst. split; [split; [exact HP | exact Hst] | exact Hnil].
    - (* EAddNode *)
      cbn [enc_event] in Henc.
      destruct (update_node _ _ _ _ _ _) as [[s1 r]|] eqn:Hu; [|discriminate].
      eapply update_node_pinv in Hu; [|intros _; exact Henc|exact HP]. destruct Hu as (HP1 & Es1).
      assert (HE1 : EncInv s1) by (split; [exact HP1 | rewrite Es1; exact Hst]).
      destruct r; try discriminate; intros H'; inversion H'; subst; (split; [exact HE1 | exact Hnil]).
    - (* EQueryStart *)
      cbn [enc_event] in Henc. destruct Henc as (Hq & Ht & Ha).
      pose proof (query_msg_wf q a t Hq Ht Ha) as Hqm.
      cbv zeta.
      destr_goal; intros H; try discriminate H; inversion H; subst; clear H;
        (split; [split; [exact HP | exact Hst]|]);
        intros d0 rm k0 Hin;
        repeat (destruct Hin as [F|Hin]; [try discriminate F; inversion F; subst; exact Hqm|]);
        destruct Hin.
    - (* EQueryEnd *)
      destruct (existsb _ _); [|apply Hsame; exact Hnil].
      intros H; inversion H; subst. split; [split; [exact HP | exact Hst]|].
      intros d0 rm k0 [F|[]]; discriminate F.
    - (* EFailedPing *)
      destruct (update_node _ _ _ _ _ _) as [[s1 r]|] eqn:Hu; [|discriminate].
      eapply update_node_pinv in Hu; [|intros F; discriminate F|exact HP]. destruct Hu as (HP1 & Es1).
      intros H'; inversion H'; subst. split; [split; [exact HP1 | rewrite Es1; exact Hst] | exact Hnil].
    - intros H; inversion H; subst. split; [split; [exact HP | exact Hst] | exact Hnil].
    - intros H; inversion H; subst. split; [split; [exact HP | exact Hst] | exact Hnil].
  Qed.

  Lemma encinv_init st now bl budget : store_ok st -> EncInv (init_state Store st now bl budget).
  Proof. intros H. split; [intros n []|exact H]. Qed.

  (* 1. every datagram of every step, from every state satisfying the invariants *)
  Theorem server_msgs_wf s e ch s' out dst m kind :
    wf_cfg -> sha1_ok -> wf_store_items -> Inv s -> EncInv s -> wf_event e -> enc_event e ->
    step s e ch = SR s' out -> In (ESend dst m kind) out -> Krpc.wf_msg m.
  Proof.
    intros Hc Hsha Hsi HI HE Hwf Henc H Hin.
    destruct (step_enc _ _ _ _ _ Hc Hsha Hsi HI HE Hwf Henc H) as (_ & Hw). exact (Hw _ _ _ Hin).
  Qed.

  (* runs whose events satisfy wf_event and enc_event, from an initial state whose store is ok *)
  Inductive reachable_enc : sstate -> Prop :=
  | renc_init st now bl budget : store_ok st -> reachable_enc (init_state Store st now bl budget)
  | renc_step s e ch s' out :
      reachable_enc s -> wf_event e -> enc_event e -> step s e ch = SR s' out -> reachable_enc s'.

  Theorem reachable_enc_inv :
    wf_cfg -> sha1_ok -> wf_store_items -> forall s, reachable_enc s -> reachable s /\ Inv s /\ EncInv s.
  Proof.
    intros Hc Hsha Hsi s. induction 1 as [st now bl budget Hst|s e ch s' out _ (Hr & HI & HE) Hwf Henc Hs].
    - split; [apply reach_init|]. split; [apply inv_init | apply encinv_init; exact Hst].
    - split; [eapply reach_step; eassumption|]. split.
      + eapply inv_step; eassumption.
      + exact (proj1 (step_enc _ _ _ _ _ Hc Hsha Hsi HI HE Hwf Henc Hs)).
  Qed.

  Theorem server_msgs_wf_reachable s e ch s' out dst m kind :
    wf_cfg -> sha1_ok -> wf_store_items -> reachable_enc s -> wf_event e -> enc_event e ->
    step s e ch = SR s' out -> In (ESend dst m kind) out -> Krpc.wf_msg m.
  Proof.
    intros Hc Hsha Hsi Hr. destruct (reachable_enc_inv Hc Hsha Hsi s Hr) as (_ & HI & HE).
    apply server_msgs_wf; assumption.
  Qed.

  (* 2. bencode.Marshal of every datagram the model emits succeeds: no encoder panic (CPanic: a contact
        of the wrong family in a compact list), no encode error (CErr: an empty non-nil r.v) *)
  Theorem C01_reply_encodes s e ch s' out dst m kind :
    wf_cfg -> sha1_ok -> wf_store_items -> Inv s -> EncInv s -> wf_event e -> enc_event e ->
    step s e ch = SR s' out -> In (ESend dst m kind) out ->
    exists b, encode_xmsg (x_of_msg m) = COk b /\ encode_msg m = Some b.
  Proof.
    intros Hc Hsha Hsi HI HE Hwf Henc H Hin.
    pose proof (server_msgs_wf _ _ _ _ _ _ _ _ Hc Hsha Hsi HI HE Hwf Henc H Hin) as W.
    destruct (msg_roundtrip nodeinfo_unmarshal m ni_ok_fixed W) as (b & He & _).
    exists b. split; [apply encode_msg_x; exact He | exact He].
  Qed.

  (* 3. the bytes put on the wire decode back to exactly the model's message — equality of Msg.msg
        records, and at the level the codec observes (xmsg) the three nil-vs-empty flags come back in
        the normal form x_of_msg: a.salt / r.v non-nil iff non-empty, ip nil iff the zero NodeAddr —
        with the repaired NodeInfo decoder and with the one of the pinned tree *)
  Theorem C08_wire_roundtrip s e ch s' out dst m kind :
    wf_cfg -> sha1_ok -> wf_store_items -> Inv s -> EncInv s -> wf_event e -> enc_event e ->
    step s e ch = SR s' out -> In (ESend dst m kind) out ->
    forall b, encode_msg m = Some b ->
      decode_msg_fixed b = DOk m /\ decode_xmsg_fixed b = DOk (x_of_msg m) /\ decode_msg_pinned b = DOk m.
  Proof.
    intros Hc Hsha Hsi HI HE Hwf Henc H Hin b Hb.
    pose proof (server_msgs_wf _ _ _ _ _ _ _ _ Hc Hsha Hsi HI HE Hwf Henc H Hin) as W.
    destruct (x_roundtrip nodeinfo_unmarshal (x_of_msg m) ni_ok_fixed W) as (b1 & He1 & Hd1).
    destruct (x_roundtrip nodeinfo_unmarshal_pinned (x_of_msg m) ni_ok_pinned W) as (b2 & He2 & Hd2).
    apply encode_msg_x in Hb. rewrite Hb in He1, He2. injection He1 as <-. injection He2 as <-.
    split; [|split; [exact Hd1|]].
    - unfold decode_msg_fixed, decode_msg. fold decode_xmsg_fixed. unfold decode_xmsg_fixed. rewrite Hd1. reflexivity.
    - unfold decode_msg_pinned, decode_msg. rewrite Hd2. reflexivity.
  Qed.

  (* 4. end to end over bytes: a datagram `bin` read from `src` that elicits a send — the bytes written
        go to src, they decode to the very message of the model, and its `t` is the `t` of the message
        `bin` decoded to (a query) *)
  Theorem C08_t_echo_bytes s src (bin : bytes) ch s' out d rm k :
    wf_cfg -> sha1_ok -> wf_store_items -> Inv s -> EncInv s ->
    wf_addr src -> (port src < 65536)%N -> (N.of_nat (length bin) <= max_str_len)%N ->
    step s (packet_of_bytes src bin) ch = SR s' out -> In (ESend d rm k) out ->
    d = src /\
    exists min bout mout,
      decoded bin = Some min /\ m_y min = s_q /\
      encode_msg rm = Some bout /\ decode_msg_fixed bout = DOk mout /\ mout = rm /\ m_t mout = m_t min.
  Proof.
    intros Hc Hsha Hsi HI HE Hsrc Hport Hlen H Hin.
    destruct (C08_bytes Store w_put w_get sha1 id_secure cfg s src bin ch s' out H) as (Hb & _).
    destruct (Hb d rm k Hin) as (-> & min & Hdec & Hy & Ht).
    split; [reflexivity|].
    assert (Hwf : wf_event (packet_of_bytes src bin)) by (apply packet_of_bytes_wf; exact Hsrc).
    assert (Henc : enc_event (packet_of_bytes src bin)).
    { unfold packet_of_bytes. rewrite Hdec. cbn [enc_event]. split; [exact Hport|].
      exact (decoded_in_msg_ok bin min Hlen Hdec). }
    destruct (C01_reply_encodes _ _ _ _ _ _ _ _ Hc Hsha Hsi HI HE Hwf Henc H Hin) as (bout & _ & Hbout).
    destruct (C08_wire_roundtrip _ _ _ _ _ _ _ _ Hc Hsha Hsi HI HE Hwf Henc H Hin bout Hbout) as (Hd & _).
    exists min, bout, rm. repeat split; assumption.
  Qed.
End ServerEncode.

(* ================================================================================================
   Part 4 — wf_store_items is satisfiable: the BEP 44 wrapper of Bep44.v as RunServer.v plugs it in
   ================================================================================================ *)
(* the raw scanner (bencode.Bytes targets) accepts the canonical encoding of every canonical value *)
Lemma benc_head_not_e v rest : exists c r, benc v ++ rest = c :: r /\ byte_eqb c ch_e = false.
Proof.
  destruct v as [z|s|l|d]; cbn [benc benc_int app]; try (eexists; eexists; split; [reflexivity | reflexivity]).
  destruct (benc_str_head s) as (c & t & E & Hd). rewrite E. cbn [app].
  exists c, (t ++ rest). split; [reflexivity | apply (is_digit_chars _ Hd)].
Qed.

Theorem scan_value_benc v :
  canonb v = true ->
  forall fuel rest, (length (benc v) <= fuel)%nat ->
  scan_value_fuel fuel (benc v ++ rest) = Some (benc v, rest).
Proof.
  induction v as [z|s|l IHl|d IHd] using bval_ind'; intros Hc fuel rest Hf.
  - destruct fuel as [|f]; [pose proof (benc_length_pos (BInt z)); lia|].
    cbn [benc]. apply scan_benc_int.
  - destruct fuel as [|f]; [pose proof (benc_length_pos (BStr s)); lia|].
    cbn [benc]. apply scan_benc_str. exact Hc.
  - cbn [canonb] in Hc.
    assert (L : forall l, Forall (fun v => canonb v = true ->
                  forall fuel rest, (length (benc v) <= fuel)%nat ->
                  scan_value_fuel fuel (benc v ++ rest) = Some (benc v, rest)) l ->
                forallb canonb l = true ->
                forall fuel rest, (length (flat_map benc l) + 1 <= fuel)%nat ->
                scan_items_fuel fuel (flat_map benc l ++ ch_e :: rest) = Some (flat_map benc l ++ [ch_e], rest)).
    { clear. induction l as [|x l IH]; intros HF Hc fuel rest Hf.
      - destruct fuel; [simpl in Hf; lia|]. reflexivity.
      - destruct fuel as [|f]; [lia|].
        apply Forall_cons_iff in HF. destruct HF as [Hx Hl].
        simpl in Hc. apply andb_prop in Hc. destruct Hc as [Hcx Hcl].
        cbn [flat_map]. rewrite <- !app_assoc.
        pose proof (benc_length_pos x) as Lx.
        cbn [flat_map] in Hf. rewrite app_length in Hf.
        destruct (benc_head_not_e x (flat_map benc l ++ ch_e :: rest)) as (c & r & Eb & Ece).
        rewrite si_S, Eb, Ece, <- Eb.
        rewrite (Hx Hcx) by lia.
        rewrite (IH Hl Hcl) by lia. reflexivity. }
    destruct fuel as [|f]; [pose proof (benc_length_pos (BList l)); lia|].
    cbn [benc app]. rewrite sv_S.
    change (byte_eqb "l" ch_d || byte_eqb "l" ch_l) with true. cbv iota.
    rewrite <- app_assoc. cbn [app].
    cbn [benc length] in Hf. rewrite app_length in Hf. simpl in Hf.
    rewrite (L l IHl Hc) by lia. reflexivity.
  - cbn [canonb] in Hc. apply andb_prop in Hc. destruct Hc as [_ Hv].
    assert (L : forall d, Forall (fun kv => canonb (snd kv) = true ->
                  forall fuel rest, (length (benc (snd kv)) <= fuel)%nat ->
                  scan_value_fuel fuel (benc (snd kv) ++ rest) = Some (benc (snd kv), rest)) d ->
                forallb (fun kv => str_ok (fst kv) && canonb (snd kv)) d = true ->
                forall fuel rest, (length (dict_body d) + 1 <= fuel)%nat ->
                scan_items_fuel fuel (dict_body d ++ ch_e :: rest) = Some (dict_body d ++ [ch_e], rest)).
    { clear. induction d as [|[k v] d IH]; intros HF Hc fuel rest Hf.
      - destruct fuel; [simpl in Hf; lia|]. reflexivity.
      - apply Forall_cons_iff in HF. destruct HF as [Hx Hl]. cbn [snd] in Hx.
        cbn [forallb fst snd] in Hc. apply andb_prop in Hc. destruct Hc as [Hc1 Hcl].
        apply andb_prop in Hc1. destruct Hc1 as [Hsk Hcv].
        unfold dict_body in *. cbn [flat_map fst snd] in *.
        rewrite <- !app_assoc. rewrite !app_length in Hf.
        pose proof (benc_length_pos v) as Lv. pose proof (benc_str_length_pos k) as Lk.
        destruct fuel as [|[|f]]; [lia|lia|].
        destruct (benc_str_head k) as (c & t & E & Hd).
        rewrite si_S. rewrite E at 1. cbn [app].
        rewrite (proj2 (proj2 (proj2 (is_digit_chars c Hd)))).
        rewrite (scan_benc_str f k _ Hsk).
        destruct (benc_head_not_e v (flat_map (fun kv => benc_str (fst kv) ++ benc (snd kv)) d ++ ch_e :: rest))
          as (c2 & r2 & Eb & Ece).
        rewrite si_S, Eb, Ece, <- Eb.
        rewrite (Hx Hcv) by lia.
        rewrite (IH Hl Hcl) by lia. reflexivity. }
    destruct fuel as [|f]; [pose proof (benc_length_pos (BDict d)); lia|].
    cbn [benc app]. rewrite sv_S.
    change (byte_eqb "d" ch_d || byte_eqb "d" ch_l) with true. cbv iota.
    rewrite <- app_assoc. cbn [app].
    cbn [benc length] in Hf. rewrite app_length in Hf. simpl in Hf.
    fold (dict_body d) in *.
    rewrite (L d IHd Hv) by lia. reflexivity.
Qed.

Theorem one_raw_benc v : canonb v = true -> one_raw_valueb (benc v) = true.
Proof.
  intros Hc. apply one_raw_valueb_of. unfold one_raw_value, scan_value.
  pose proof (scan_value_benc v Hc (length (benc v)) [] (le_n _)) as P. rewrite app_nil_r in P. exact P.
Qed.

(* ---- the store invariant of the Bep44 wrapper: every stored item has the codec's field widths ---- *)
Definition b44_item_ok (i : Bep44.item) : Prop :=
  length (Bep44.it_k i) = 32%nat /\ length (Bep44.it_sig i) = 64%nat /\
  in_int64 (Bep44.it_seq i) = true /\ (Bep44.it_bv i = [] \/ one_raw_valueb (Bep44.it_bv i) = true).

Definition b44_store_ok (st : Bep44.store) : Prop := forall t i, In (t, i) st -> b44_item_ok i.

Lemma b44_store_get_in t st i : Bep44.store_get t st = Some i -> exists t', In (t', i) st.
Proof.
  induction st as [|[t0 i0] st IH]; cbn [Bep44.store_get]; [discriminate|].
  destruct (bytes_eqb t t0).
  - intros [= <-]. exists t0. left. reflexivity.
  - intros H. destruct (IH H) as (t' & Hin). exists t'. right. exact Hin.
Qed.

Lemma b44_store_del_in t st x : In x (Bep44.store_del t st) -> In x st.
Proof.
  induction st as [|[t0 i0] st IH]; cbn [Bep44.store_del]; [intros []|].
  destruct (bytes_eqb t t0).
  - intros H. right. apply IH. exact H.
  - intros [<-|H]; [left; reflexivity | right; apply IH; exact H].
Qed.

Lemma b44_store_put_ok t now i st :
  b44_store_ok st -> b44_item_ok i -> b44_store_ok (Bep44.store_put t (Bep44.stamp now i) st).
Proof.
  intros Hst Hi t' i' [E|Hin].
  - injection E as _ <-. exact Hi.
  - apply b44_store_del_in in Hin. exact (Hst _ _ Hin).
Qed.

Lemma b44_err_code_ok c :
  In c [bep44_ErrValueFieldTooBig; bep44_ErrInvalidSignature; bep44_ErrSaltFieldTooBig;
        bep44_ErrCasHashMismatched; bep44_ErrSequenceNumberLessThanCurrent] ->
  err_ok (mkErr c (RunServer.bep44_err_text c)).
Proof.
  intros H. cbn [In] in H.
  repeat (destruct H as [<-|H]; [split; vm_compute; reflexivity|]). destruct H.
Qed.

Lemma b44_wrapper_put_spec edv now i st r st' :
  b44_store_ok st -> b44_item_ok i ->
  Bep44.wrapper_put Sha1.sha1 edv Bep44.Repaired now i st = (r, st') ->
  b44_store_ok st' /\ forall c, r = Bep44.PErr c -> err_ok (mkErr c (RunServer.bep44_err_text c)).
Proof.
  intros Hst Hi. unfold Bep44.wrapper_put.
  destruct (Bep44.check edv i) as [e|] eqn:Ec.
  { intros [= <- <-]. split; [exact Hst|]. intros c [= <-]. apply b44_err_code_ok.
    unfold Bep44.check in Ec.
    repeat match type of Ec with (if ?b then _ else _) = _ => destruct b end;
      try discriminate Ec; injection Ec as <-; cbn [In]; tauto. }
  destruct (Bep44.store_get _ st) as [old|].
  - destruct (Bep44.check_incoming Bep44.Repaired old i) as [e|] eqn:Ei.
    + intros [= <- <-]. split; [exact Hst|]. intros c [= <-]. apply b44_err_code_ok.
      unfold Bep44.check_incoming in Ei.
      repeat match type of Ei with (if ?b then _ else _) = _ => destruct b end;
        try discriminate Ei; injection Ei as <-; cbn [In]; tauto.
    + intros [= <- <-]. split; [apply b44_store_put_ok; assumption | discriminate].
  - intros [= <- <-]. split; [apply b44_store_put_ok; assumption | discriminate].
Qed.

(* the premise of the theorems above holds of the instance the model runner uses (any signature
   check, any expiry, with or without the harness's failing-store option) *)
Theorem wf_store_items_bep44 edv exp store_fail :
  wf_store_items RunServer.store (RunServer.w_put_impl edv store_fail) (RunServer.w_get_impl exp) b44_store_ok.
Proof.
  split.
  - intros st it now st' r Hst (Hk & Hsig & Hseq & Hbv). unfold RunServer.w_put_impl.
    set (bv := RunServer.put_bv it).
    assert (Hi : b44_item_ok (RunServer.to_b44 it bv)).
    { unfold b44_item_ok, RunServer.to_b44. cbn [Bep44.it_k Bep44.it_sig Bep44.it_seq Bep44.it_bv].
      repeat split; try assumption. unfold bv, RunServer.put_bv.
      destruct Hbv as [F|(v & Hc & E)]; [rewrite F; left; reflexivity|]. rewrite E. right. apply one_raw_benc. exact Hc. }
    destruct (Bep44.wrapper_put _ _ _ _ _ _) as [r0 st1] eqn:Ew.
    destruct (b44_wrapper_put_spec _ _ _ _ _ _ Hst Hi Ew) as (Hst1 & Herr).
    intros [= <- <-]. split.
    + destruct (store_fail && _); assumption.
    + intros e. destruct r0 as [|c|]; [destruct (store_fail && _); discriminate | | discriminate].
      intros [= <-]. apply Herr. reflexivity.
  - intros st t now st' r Hst. unfold RunServer.w_get_impl, Bep44.wrapper_get.
    destruct (Bep44.store_get t st) as [i|] eqn:Eg.
    2:{ intros [= <- <-]. split; [exact Hst | exact I]. }
    destruct (Z.ltb now _).
    + intros [= <- <-]. split; [exact Hst|]. cbn [get_result_ok].
      destruct (b44_store_get_in _ _ _ Eg) as (t' & Hin). destruct (Hst _ _ Hin) as (Hk & Hsig & Hseq & Hbv).
      unfold get_item_ok, RunServer.of_b44. cbn [it_k it_sig it_seq it_bv].
      repeat split; try assumption. intros bv [= <-]. exact Hbv.
    + intros [= <- <-]. split; [|exact I]. intros t' i' Hin. apply b44_store_del_in in Hin. exact (Hst _ _ Hin).
Qed.

Example b44_store_ok_empty : b44_store_ok [].
Proof. intros t i []. Qed.

(* ================================================================================================
   Part 5 — the hypotheses on the concrete instance of ServerExamples.v (state s0)
   ================================================================================================ *)
Lemma sha0_ok : sha1_ok sha0.
Proof.
  intros b. unfold sha0, str_ok. apply N.leb_le. pose proof (firstn_le_length 20 b). unfold max_str_len. lia.
Qed.

Lemma store0_ok : wf_store_items unit wp0 wg0 (fun _ => True).
Proof.
  split.
  - intros st it now st' r _ _ H. unfold wp0 in H. injection H as <- <-. split; [exact I | discriminate].
  - intros st t now st' r _ H. unfold wg0 in H. injection H as <- <-. split; exact I.
Qed.

(* The state s0 of ServerExamples.v cannot serve here: none of its table entries is good (no response
   was ever received), so its replies carry no node list, and its AddNode example for bucket 159 uses
   the port 6880 + (2^159 + 1), which no UDP socket reports — PInv fails on s0.  The state sE below is
   built from the same parameters (wp0 wg0 sha0 sec0 cfg0 init0): two pings go out, to an IPv4 and to
   an IPv6 address, both are answered, which puts two good contacts into the table. *)
Local Open Scope N_scope.
Definition ip6a : bytes := [x20; x01; x0d; xb8; x00; x00; x00; x00; x00; x00; x00; x00; x00; x00; x00; x01].
Definition idA : N := 2 ^ 159 + 2.
Definition idB : N := 2 ^ 159 + 4.
Definition adA : addr := mkAddr ip4 7001.
Definition adB : addr := mkAddr ip6a 7002.

Definition evsE : list (event * choice) :=
  [ (EQueryStart 1 adA s_ping empty_args false [x00], no_choice);
    (EQueryStart 2 adB s_ping empty_args false [x01], no_choice);
    (EPacket adA 47 (Some (resp [x00] idA)), no_choice);
    (EPacket adB 47 (Some (resp [x01] idB)), no_choice);
    (EAdvance 1000, no_choice) ].

Definition runE := run unit wp0 wg0 sha0 sec0 cfg0 init0 evsE.
Definition sE : sstate unit := match runE with Some (s, _) => s | None => init0 end.
Definition outsE : list (list effect) := match runE with Some (_, o) => o | None => [] end.

Lemma runE_eq : run unit wp0 wg0 sha0 sec0 cfg0 init0 evsE = Some (sE, outsE).
Proof. vm_compute. reflexivity. Qed.

Lemma evsE_wf : Forall (fun ec => wf_event (fst ec) /\ enc_event (fst ec)) evsE.
Proof.
  unfold evsE.
  repeat (apply Forall_cons; [cbn [fst wf_event enc_event]|]); try apply Forall_nil.
  - split; [left; reflexivity|]. split; [reflexivity|]. split; [reflexivity|].
    unfold query_args_ok. repeat split; try reflexivity; discriminate.
  - split; [right; reflexivity|]. split; [reflexivity|]. split; [reflexivity|].
    unfold query_args_ok. repeat split; try reflexivity; discriminate.
  - split; [split; [left; reflexivity|split; [discriminate | intros r [= <-]; reflexivity]]|].
    split; [reflexivity|]. split; [reflexivity | discriminate].
  - split; [split; [right; reflexivity|split; [discriminate | intros r [= <-]; reflexivity]]|].
    split; [reflexivity|]. split; [reflexivity | discriminate].
  - split; exact I.
Qed.

Lemma run_reachable_enc Store w_put w_get sha1 id_secure cfg store_ok evs :
  forall s s' outs,
    reachable_enc Store w_put w_get sha1 id_secure cfg store_ok s ->
    Forall (fun ec => wf_event (fst ec) /\ enc_event (fst ec)) evs ->
    run Store w_put w_get sha1 id_secure cfg s evs = Some (s', outs) ->
    reachable_enc Store w_put w_get sha1 id_secure cfg store_ok s'.
Proof.
  induction evs as [|[e ch] evs IH]; intros s s' outs Hr Hwf; cbn [run].
  - intros [= <- <-]. exact Hr.
  - inversion Hwf as [|? ? (Hw & He) Hwf']; subst. cbn [fst] in Hw, He.
    destruct (Server.step _ _ _ _ _ _ s e ch) as [s1 o| |] eqn:Hs; try discriminate.
    destruct (run _ _ _ _ _ _ s1 evs) as [[s2 os]|] eqn:Hrun; [|discriminate].
    intros [= <- <-]. eapply IH; [|exact Hwf'|exact Hrun].
    eapply renc_step; eassumption.
Qed.

Lemma sE_reachable_enc : reachable_enc unit wp0 wg0 sha0 sec0 cfg0 (fun _ => True) sE.
Proof.
  apply (run_reachable_enc unit wp0 wg0 sha0 sec0 cfg0 (fun _ => True) evsE init0 sE outsE).
  - apply renc_init. exact I.
  - exact evsE_wf.
  - exact runE_eq.
Qed.

Lemma sE_invs : reachable unit wp0 wg0 sha0 sec0 cfg0 sE /\ Inv unit cfg0 sE /\ EncInv unit (fun _ => True) sE.
Proof. exact (reachable_enc_inv unit wp0 wg0 sha0 sec0 cfg0 (fun _ => True) cfg0_wf sha0_ok store0_ok sE sE_reachable_enc). Qed.

Definition stepE := step unit wp0 wg0 sha0 sec0 cfg0.
Definition srcE : addr := mkAddr ip4 99.
Definition niA : node_info := mkNI (ofN 20 idA) (mkNA ip4 7001).
Definition niB : node_info := mkNI (ofN 20 idB) (mkNA ip6a 7002).
(* the order of `nodes` / `nodes6` is the implementation's choice; with one contact each there is one *)
Definition chE : choice := mkChoice None [niA] [niB] [].

(* find_node for the id next to the node's own, asking for both families (BEP 32) *)
Definition dgE_find_node : bytes :=
  (ascii_bytes "d1:ad2:id20:iiiiiiiiiiiiiiiiiiii6:target20:" ++ ofN 20 (2 ^ 159 + 1)
   ++ ascii_bytes "4:wantl2:n42:n6ee1:q9:find_node1:t2:aa1:y1:qe")%list.

(* the datagram the reply is expected to be on the wire: ip (compact, 6 bytes), r.id, r.nodes (one
   26-byte entry), r.nodes6 (one 38-byte entry), t, y — keys in sorted order *)
Definition wireE_find_node : bytes :=
  (ascii_bytes "d2:ip6:" ++ ip4 ++ [x00; x63]
   ++ ascii_bytes "1:rd2:id20:" ++ ofN 20 root0
   ++ ascii_bytes "5:nodes26:" ++ ofN 20 idA ++ ip4 ++ [x1b; x59]
   ++ ascii_bytes "6:nodes638:" ++ ofN 20 idB ++ ip6a ++ [x1b; x5a]
   ++ ascii_bytes "e1:t2:aa1:y1:re")%list.

(* the 34-byte announce_peer without an `a` dictionary (defect D1, repaired in the model): error 203 *)
Definition dgE_announce : bytes := ascii_bytes "d1:q13:announce_peer1:t2:aa1:y1:qe".
Definition wireE_203 : bytes := ascii_bytes "d1:eli203e22:missing arguments dicte1:t2:aa1:y1:ee".

(* ---- why the port premise is there.  The model's `port : N` is unbounded, wf_event does not bound
        the port given to AddNode / reported for a packet, and the compact encoder writes uint16(port):
        a contact recorded under port 65536 + 7 is offered, encodes without error, and comes back from
        the wire with port 7.  (A real UDP socket never reports such a port; Server.AddNode would accept
        one from its caller.)  So without `port < 65536` the round trip is false, while the encoding
        still succeeds. ---- *)
Definition adP : addr := mkAddr ip4 (65536 + 7).
Definition evsP : list (event * choice) :=
  [ (EQueryStart 1 adP s_ping empty_args false [x00], no_choice);
    (EPacket adP 47 (Some (resp [x00] idA)), no_choice) ].
Definition sP : sstate unit :=
  match run unit wp0 wg0 sha0 sec0 cfg0 init0 evsP with Some (s, _) => s | None => init0 end.
Definition chP : choice := mkChoice None [mkNI (ofN 20 idA) (mkNA ip4 (65536 + 7))] [] [].

Definition node_ports (m : msg) : list Z :=
  match m_r m with
  | Some r => match r_nodes r with Some l => map (fun c => na_port (ni_addr c)) l | None => [] end
  | None => []
  end.

(* ports of `nodes` in the message the model sends, and in what its bytes decode to *)
Definition ports_sent_and_decoded : option (list Z * list Z) :=
  match stepE sP (packet_of_bytes srcE dgE_find_node) chP with
  | Server.SR _ _ [ESend _ m _] =>
      match encode_msg m with
      | Some b => match decode_msg_fixed b with DOk m' => Some (node_ports m, node_ports m') | _ => None end
      | None => None
      end
  | _ => None
  end.

Example roundtrip_needs_port_bound :
  Forall (fun ec => wf_event (fst ec)) evsP /\
  ports_sent_and_decoded = Some ([65543%Z], [7%Z]).
Proof.
  split.
  - unfold evsP. repeat (apply Forall_cons; [cbn [fst wf_event]|]); try apply Forall_nil.
    + left. reflexivity.
    + split; [left; reflexivity|]. split; [discriminate | intros r [= <-]; reflexivity].
  - vm_compute. reflexivity.
Qed.

(* the hypotheses of the theorems of Part 3 hold of sE and the find_node datagram *)
Lemma sE_find_node_hyps :
  wf_cfg cfg0 /\ sha1_ok sha0 /\ wf_store_items unit wp0 wg0 (fun _ => True) /\
  Inv unit cfg0 sE /\ EncInv unit (fun _ => True) sE /\
  wf_addr srcE /\ (port srcE < 65536)%N /\ (N.of_nat (length dgE_find_node) <= max_str_len)%N /\
  wf_event (packet_of_bytes srcE dgE_find_node) /\ enc_event (packet_of_bytes srcE dgE_find_node).
Proof.
  destruct sE_invs as (_ & HI & HE).
  split; [exact cfg0_wf|]. split; [exact sha0_ok|]. split; [exact store0_ok|]. split; [exact HI|]. split; [exact HE|].
  split; [left; reflexivity|]. split; [reflexivity|].
  assert (L : (N.of_nat (length dgE_find_node) <= max_str_len)%N) by (vm_compute; discriminate).
  split; [exact L|].
  split; [apply packet_of_bytes_wf; left; reflexivity|].
  assert (D : exists m, decoded dgE_find_node = Some m) by (vm_compute; eexists; reflexivity).
  destruct D as (m & D). unfold packet_of_bytes. rewrite D. split; [reflexivity|].
  exact (decoded_in_msg_ok dgE_find_node m L D).
Qed.
