(* KrpcWfProofs.v — what the message decoder returns is well-formed (for inputs within the decoder's
   own string limit), hence re-encodes, and the re-encoding is a fixpoint of decode-then-encode. *)
From Coq Require Import String.
From Dht Require Import Base Msg Compact Bencode Krpc Int160Proofs CompactProofs BencodeProofs KrpcProofs KrpcRecProofs KrpcRtProofs.
From DhtGen Require Import KrpcSchema.
From Coq Require Import Lia ZifyN ZifyNat ZifyBool Arith.
Close Scope string_scope.
Local Arguments firstn : simpl never.
Local Arguments skipn : simpl never.

Lemma pt_S_gen f t dirty b :
  t <> GUnm -> t <> GAny ->
  parse_ty (S f) t dirty b =
          match b with
          | [] => None
          | c :: r =>
              if byte_eqb c ch_e then None            (* no value here: caller reports the error *)
              else if byte_eqb c ch_d then
                match t with
                | GStruct s =>
                    match parse_fields f s dirty r with
                    | Some (fs, r', d') => Some (VStruct fs, r', d')
                    | None => None
                    end
                | _ =>
                    (* parseDict into a non-struct: fails at the first key, so only `de` passes *)
                    match r with
                    | c2 :: r2 => if byte_eqb c2 ch_e then Some (VZero, r2, dirty) else None
                    | [] => None
                    end
                end
              else if byte_eqb c ch_l then
                match t with
                | GSlice t' =>
                    match parse_elems f t' None dirty r with
                    | Some (l, r', d') => Some (VList l, r', d')
                    | None => None
                    end
                | GBytes =>
                    match parse_elems f GU8 None dirty r with
                    | Some (l, r', d') => Some (VList l, r', d')
                    | None => None
                    end
                | GArr n =>
                    match parse_elems f GU8 (Some n) dirty r with
                    | Some (l, r', d') => Some (VList l, r', d')
                    | None => None
                    end
                | _ =>
                    (* singleton-list coercion: parse as []T and require exactly one element *)
                    match parse_elems f t None dirty r with
                    | Some ([v], r', d') => Some (v, r', d')
                    | _ => None
                    end
                end
              else if byte_eqb c ch_i then
                if dirty then None      (* unreachable in a Msg: a typed integer never follows a raw value directly *)
                else match read_until ch_e r with
                     | None => None
                     | Some (txt, r') =>
                         if check_buffered_int txt then
                           match t with
                           | GInt =>
                               match parse_sdec txt with
                               | Some z => if in_int64 z then Some (VInt z, r', false) else None
                               | None => None
                               end
                           | GU8 =>
                               match parse_udec txt with
                               | Some n => if N.leb n 255 then Some (VInt (Z.of_N n), r', false) else None
                               | None => None
                               end
                           | GBool => Some (VBool (negb (bytes_eqb txt zero_text)), r', false)
                           | _ => None
                           end
                         else None
                     end
              else if is_digit c then
                match parse_str_tok b with
                | None => None
                | Some (s, r') =>
                    match t with
                    | GStr | GBytes => Some (VStr s, r', false)
                    | GArr n => Some (VStr (fit n s), r', false)
                    | _ => None
                    end
                end
              else None
          end.
Proof. intros H1 H2. destruct t; try congruence; reflexivity. Qed.

Lemma gty_eq_dec (a b : gty) : {a = b} + {a <> b}.
Proof. decide equality; [apply Nat.eq_dec | decide equality]. Qed.

Lemma gty_struct_dec t : {s | t = GStruct s} + {forall s, t <> GStruct s}.
Proof. destruct t; try (right; discriminate). left. eauto. Qed.


(* ================================================================================================
   Invariant of the type-directed parser: shape and sizes of what it leaves in the target
   ================================================================================================ *)
Section ParseOk.
  Variable N : nat.      (* a bound on the length of the whole input *)

  Inductive tv_ok : gty -> gval -> Prop :=
  | ok_zero t : (forall s, t <> GStruct s) -> t <> GUnm -> t <> GAny -> tv_ok t VZero
  | ok_str t s : t = GStr \/ t = GBytes -> str_ok s = true -> tv_ok t (VStr s)
  | ok_arr k s : length s = k -> tv_ok (GArr k) (VStr s)
  | ok_int z : in_int64 z = true -> tv_ok GInt (VInt z)
  | ok_u8 z : tv_ok GU8 (VInt z)
  | ok_bool b : tv_ok GBool (VBool b)
  | ok_list t l : Forall (tv_ok t) l -> (length l <= N)%nat -> tv_ok (GSlice t) (VList l)
  | ok_bytes_list l : Forall (tv_ok GU8) l -> (length l <= N)%nat -> tv_ok GBytes (VList l)
  | ok_arr_list k l : Forall (tv_ok GU8) l -> tv_ok (GArr k) (VList l)
  | ok_raw raw : one_raw_value raw -> (length raw <= N)%nat -> tv_ok GUnm (VRaw raw)
  | ok_any v : canonb v = true -> tv_ok GAny (VAny v)
  | ok_struct s fs :
      Forall (fun kv => exists fd t, lookup_field s (fst kv) = Some fd /\ ty_of_kind (f_kind fd) = Some t /\
                                      tv_ok t (snd kv)) fs ->
      tv_ok (GStruct s) (VStruct fs).

  Definition fields_ok (s : sid) (fs : list (bytes * gval)) : Prop :=
    Forall (fun kv => exists fd t, lookup_field s (fst kv) = Some fd /\ ty_of_kind (f_kind fd) = Some t /\
                                    tv_ok t (snd kv)) fs.

  Lemma read_until_len sep b s r : read_until sep b = Some (s, r) -> (length r < length b)%nat.
  Proof. intros H. apply read_until_spec in H. destruct H as (-> & _). rewrite app_length. simpl. lia. Qed.

  Lemma parse_str_tok_len b s r : parse_str_tok b = Some (s, r) -> (length r < length b)%nat /\ str_ok s = true.
  Proof.
    intros H. destruct (parse_str_tok_spec _ _ _ H) as (pre & -> & Hne & Hs). split; [|exact Hs].
    rewrite app_length. destruct pre; [congruence | simpl; lia].
  Qed.

  Lemma parse_value_d_len d b v r : parse_value_d d b = Some (v, r) -> (length r < length b)%nat.
  Proof.
    intros H. destruct (parse_value_d_spec _ _ _ _ H) as (pre & -> & Hne).
    rewrite app_length. destruct pre; [congruence | simpl; lia].
  Qed.

  Lemma scan_value_len b raw r :
    scan_value b = Some (raw, r) -> (length r < length b)%nat /\ (length raw <= length b)%nat /\ one_raw_value raw.
  Proof.
    intros H. destruct (scan_value_spec _ _ _ H) as (-> & Hne & Ho).
    rewrite app_length. destruct raw; [congruence|]. simpl. repeat split; try lia. exact Ho.
  Qed.

  Lemma zero_ok t : (forall s, t <> GStruct s) -> t <> GUnm -> t <> GAny -> tv_ok t VZero.
  Proof. apply ok_zero. Qed.

  Lemma parse_ok f :
    (forall t d b gv r d', (length b <= N)%nat -> parse_ty f t d b = Some (gv, r, d') ->
       tv_ok t gv /\ (length r < length b)%nat) /\
    (forall t cap d b l r d', (length b <= N)%nat -> parse_elems f t cap d b = Some (l, r, d') ->
       Forall (tv_ok t) l /\ (length r < length b)%nat /\ (length l <= length b)%nat) /\
    (forall s d b fs r d', (length b <= N)%nat -> parse_fields f s d b = Some (fs, r, d') ->
       fields_ok s fs /\ (length r < length b)%nat).
  Proof.
    induction f as [|f (IHt & IHe & IHf)].
    - repeat split; intros; discriminate.
    - split; [|split].
      + (* parse_ty *)
        intros t d b gv r d' Hb.
        destruct (gty_eq_dec t GUnm) as [-> | Hu].
        { rewrite pt_S. destruct b as [|c b0]; [discriminate|]. destruct (byte_eqb c ch_e); [discriminate|].
          destruct (scan_value (c :: b0)) as [[raw r0]|] eqn:S; [|discriminate]. intros [= <- <- <-].
          destruct (scan_value_len _ _ _ S) as (L1 & L2 & Ho).
          split; [constructor; [exact Ho | lia] | exact L1]. }
        destruct (gty_eq_dec t GAny) as [-> | Ha].
        { rewrite pt_S. destruct (parse_value_d d b) as [[v r0]|] eqn:P; [|discriminate]. intros [= <- <- <-].
          split; [constructor; eapply parse_value_d_canon; exact P | eapply parse_value_d_len; exact P]. }
        rewrite pt_S_gen by assumption.
        destruct b as [|c b0]; [discriminate|]. cbn [length] in *.
        destruct (byte_eqb c ch_e); [discriminate|].
        destruct (byte_eqb c ch_d).
        { (* dictionary *)
          destruct (gty_struct_dec t) as [(s & ->) | Hs].
          - destruct (parse_fields f s d b0) as [[[fs r0] d0]|] eqn:P; [|discriminate]. intros [= <- <- <-].
            destruct (IHf _ _ b0 _ _ _ ltac:(lia) P) as (Hok & L). split; [constructor; exact Hok | lia].
          - destruct t; try congruence; try (exfalso; eapply Hs; reflexivity);
              (destruct b0 as [|c2 r2]; [discriminate|]; destruct (byte_eqb c2 ch_e); [|discriminate];
               intros [= <- <- <-]; split; [apply ok_zero; [discriminate | assumption | assumption] | cbn [length]; lia]). }
        destruct (byte_eqb c ch_l).
        { (* list *)
          destruct t; try congruence;
            match goal with
            | |- match parse_elems f ?t' ?cap d b0 with _ => _ end = _ -> _ =>
                destruct (parse_elems f t' cap d b0) as [[[l r0] d0]|] eqn:P; [|discriminate];
                destruct (IHe _ _ _ b0 _ _ _ ltac:(lia) P) as (Hl & L1 & L2)
            end;
            try (intros [= <- <- <-]; split; [constructor; [exact Hl | lia] | lia]);
            try (destruct l as [|v [|v2 l2]]; try discriminate; intros [= <- <- <-];
                 split; [apply Forall_inv in Hl; exact Hl | lia]).
          (* [n]byte from a list *)
          intros [= <- <- <-]. split; [apply ok_arr_list; exact Hl | lia]. }
        destruct (byte_eqb c ch_i).
        { (* integer *)
          destruct d; [discriminate|].
          destruct (read_until ch_e b0) as [[txt r0]|] eqn:R; [|discriminate].
          pose proof (read_until_len _ _ _ _ R) as L.
          destruct (check_buffered_int txt); [|discriminate].
          destruct t; try discriminate.
          - destruct (parse_sdec txt) as [z|]; [|discriminate]. destruct (in_int64 z) eqn:I; [|discriminate].
            intros [= <- <- <-]. split; [constructor; exact I | lia].
          - destruct (parse_udec txt) as [n|]; [|discriminate]. destruct (N.leb n 255); [|discriminate].
            intros [= <- <- <-]. split; [constructor | lia].
          - intros [= <- <- <-]. split; [constructor | lia]. }
        destruct (is_digit c); [|discriminate].
        destruct (parse_str_tok (c :: b0)) as [[s r0]|] eqn:T; [|discriminate].
        destruct (parse_str_tok_len _ _ _ T) as (L & Hs). cbn [length] in L.
        destruct t; try discriminate; intros [= <- <- <-].
        * split; [apply ok_str; [left; reflexivity | exact Hs] | lia].
        * split; [apply ok_str; [right; reflexivity | exact Hs] | lia].
        * split; [apply ok_arr; apply fit_length | lia].
      + (* parse_elems *)
        intros t cap d b l r d' Hb. rewrite pe_S.
        destruct b as [|c b0]; [discriminate|].
        destruct (byte_eqb c ch_e).
        { intros [= <- <- <-]. split; [constructor | cbn [length]; lia]. }
        destruct (cap_full cap).
        { destruct (parse_value_d d (c :: b0)) as [[v b1]|] eqn:P; [|discriminate].
          pose proof (parse_value_d_len _ _ _ _ P) as L.
          intros Q. destruct (IHe _ _ _ b1 _ _ _ ltac:(lia) Q) as (Hl & L1 & L2). split; [exact Hl | cbn [length] in *; lia]. }
        destruct (parse_ty f t d (c :: b0)) as [[[v b1] d1]|] eqn:P; [|discriminate].
        destruct (IHt _ _ _ _ _ _ Hb P) as (Hv & L).
        destruct (parse_elems f t (dec_cap cap) d1 b1) as [[[l' b2] d2]|] eqn:Q; [|discriminate].
        intros [= <- <- <-].
        destruct (IHe _ _ _ b1 _ _ _ ltac:(lia) Q) as (Hl & L1 & L2).
        split; [constructor; assumption | cbn [length] in *; lia].
      + (* parse_fields *)
        intros s d b fs r d' Hb. rewrite pf_S.
        destruct b as [|c b0]; [discriminate|].
        destruct (byte_eqb c ch_e).
        { intros [= <- <- <-]. split; [constructor | cbn [length]; lia]. }
        destruct (parse_ty f GStr d (c :: b0)) as [[[kv b1] d1]|] eqn:P; [|discriminate].
        destruct (IHt _ _ _ _ _ _ Hb P) as (_ & L).
        destruct (lookup_field s (key_of kv)) as [fd|] eqn:Lk.
        * destruct (ty_of_kind (f_kind fd)) as [t|] eqn:Tk; [|discriminate].
          destruct (parse_ty f t d1 b1) as [[[v b2] d2]|] eqn:P2; [|discriminate].
          destruct (IHt _ _ b1 _ _ _ ltac:(lia) P2) as (Hv & L2).
          destruct (parse_fields f s d2 b2) as [[[fs' b3] d3]|] eqn:Q; [|discriminate].
          intros [= <- <- <-].
          destruct (IHf _ _ b2 _ _ _ ltac:(lia) Q) as (Hfs & L3).
          split; [|cbn [length] in *; lia]. constructor; [|exact Hfs]. cbn [fst snd]. eauto.
        * destruct (parse_value_d d1 b1) as [[v b2]|] eqn:P2; [|discriminate].
          pose proof (parse_value_d_len _ _ _ _ P2) as L2.
          intros Q. destruct (IHf _ _ b2 _ _ _ ltac:(lia) Q) as (Hfs & L3). split; [exact Hfs | cbn [length] in *; lia].
  Qed.
End ParseOk.

(* ================================================================================================
   From parsed values to well-formed field values, kind by kind
   ================================================================================================ *)
Lemma bytes_of_vlist_length l bs : bytes_of_vlist l = Some bs -> length bs = length l.
Proof.
  revert bs. induction l as [|v l IH]; simpl; intros bs.
  - intros [= <-]. reflexivity.
  - destruct (u8_of v); [|discriminate]. destruct (bytes_of_vlist l); [|discriminate].
    intros [= <-]. simpl. f_equal. apply IH. reflexivity.
Qed.

Lemma wf_info_b n x : wf_info n x -> wf_infob n x = true.
Proof.
  unfold wf_infob, wf_addrb, port_okb, wf_info, wf_addr, port_ok. intros (H1 & H2 & H3).
  rewrite H1, H2, !Nat.eqb_refl. simpl. lia.
Qed.

Lemma lookup_field_in s key fd : lookup_field s key = Some fd -> In fd (schema_of s).
Proof. unfold lookup_field. intros H. apply find_some in H. destruct H as [H _]. apply in_rev. exact H. Qed.

(* what the schema may ask for: array lengths within the string limit, compact types the model knows *)
Definition kind_sane (k : kind) : Prop :=
  match k with
  | KArr n | KPtrArr n => (N.of_nat n <= max_str_len)%N
  | KCompact c | KPtrCompact c => c = nm_CompactIPv4NodeInfo \/ c = nm_CompactIPv6NodeInfo \/ c = nm_CompactInfohashes
  | KUnknown _ => False
  | _ => True
  end.

Section ConvWf.
  Variable ni : bytes -> cresult node_info.
  Hypothesis ni_long : forall b, (22 <= length b)%nat -> ni b = nodeinfo_unmarshal b.
  Variable N : nat.
  Hypothesis N_ok : (N.of_nat N <= max_str_len)%N.

  Lemma unmarshal_exact_ok t raw v :
    (length raw <= N)%nat -> unmarshal_exact t raw = Some v -> tv_ok N t v.
  Proof.
    unfold unmarshal_exact. intros L.
    destruct (parse_ty (length raw) t false raw) as [[[v' r] d]|] eqn:P; [|discriminate].
    destruct r; [|discriminate]. intros [= <-].
    apply (proj1 (parse_ok N (length raw))) in P; [tauto | exact L].
  Qed.

  Lemma conv_str_ok v s : tv_ok N GStr v -> conv_str v = Some s -> str_ok s = true.
  Proof.
    intros H. inversion H; subst; simpl; try discriminate; intros [= <-]; [reflexivity | assumption].
  Qed.

  Lemma len_str_ok s : (length s <= N)%nat -> str_ok s = true.
  Proof. unfold str_ok. intros H. apply N.leb_le. lia. Qed.

  Lemma conv_bytes_ok v ob :
    tv_ok N GBytes v -> conv_bytes v = Some ob -> match ob with Some s => str_ok s = true | None => True end.
  Proof.
    intros H. inversion H; subst; simpl; try discriminate.
    - intros [= <-]. exact I.
    - intros [= <-]. assumption.
    - destruct (bytes_of_vlist l) as [bs|] eqn:E; [|discriminate]. intros [= <-].
      apply len_str_ok. rewrite (bytes_of_vlist_length _ _ E). assumption.
  Qed.

  Lemma id_unmarshal_len raw s : id_unmarshal raw = Some s -> length s = 20%nat.
  Proof.
    unfold id_unmarshal. destruct (unmarshal_exact GStr raw); [|discriminate].
    destruct (conv_str g) as [s0|]; [|discriminate].
    destruct (Nat.ltb_spec (length s0) 20); [discriminate|]. intros [= <-]. apply firstn_len. lia.
  Qed.

  Lemma nodeaddr_unmarshal_benc_ok raw a :
    (length raw <= N)%nat -> nodeaddr_unmarshal_benc raw = COk a -> addr_okb a = true.
  Proof.
    intros L. unfold nodeaddr_unmarshal_benc.
    destruct (unmarshal_exact GBytes raw) as [v|] eqn:U; [|discriminate].
    pose proof (unmarshal_exact_ok _ _ _ L U) as Hv.
    destruct (conv_bytes v) as [ob|] eqn:C; [|discriminate].
    pose proof (conv_bytes_ok _ _ Hv C) as Hs.
    set (bs := match ob with Some s => s | None => [] end) in *.
    intros E.
    destruct (Nat.lt_ge_cases (length bs) 2) as [Hlt|Hge].
    { rewrite nodeaddr_unmarshal_short in E by exact Hlt. discriminate. }
    destruct (nodeaddr_unmarshal_ok bs Hge) as (a' & E' & M & _ & P). rewrite E in E'. injection E' as <-.
    unfold addr_okb. rewrite M. unfold port_ok in P. unfold port_okb.
    assert (str_ok bs = true) by (subst bs; destruct ob; [exact Hs | reflexivity]).
    lia.
  Qed.

  Lemma benc_string_of_raw_ok raw s : (length raw <= N)%nat -> benc_string_of_raw raw = COk s -> str_ok s = true.
  Proof.
    intros L. unfold benc_string_of_raw. destruct (unmarshal_exact GStr raw) as [v|] eqn:U; [|discriminate].
    pose proof (unmarshal_exact_ok _ _ _ L U) as Hv. intros E. apply of_opt_ok in E. eapply conv_str_ok; eassumption.
  Qed.

  Lemma blob_ok_of s n w : str_ok s = true -> length s = (n * w)%nat -> blob_okb n w = true.
  Proof. unfold str_ok, blob_okb. intros H <-. exact H. Qed.

  Lemma forallb_of_Forall {A} (p : A -> bool) (P : A -> Prop) l :
    (forall x, P x -> p x = true) -> Forall P l -> forallb p l = true.
  Proof. intros H F. apply forallb_forall. rewrite Forall_forall in F. auto. Qed.

  Lemma compact_conv_ok c ptr raw fv :
    (length raw <= N)%nat ->
    c = nm_CompactIPv4NodeInfo \/ c = nm_CompactIPv6NodeInfo \/ c = nm_CompactInfohashes ->
    compact_conv ni c ptr raw = COk fv -> compact_wfb c ptr fv = true.
  Proof.
    intros L Hc. unfold compact_conv. intros E. apply obind_ok in E. destruct E as (s & Es & E).
    pose proof (benc_string_of_raw_ok _ _ L Es) as Hs.
    destruct Hc as [-> | [-> | ->]].
    - change (bytes_eqb nm_CompactIPv4NodeInfo nm_CompactIPv4NodeInfo) with true in E. cbv iota in E.
      apply obind_ok in E. destruct E as (l & D & E). injection E as <-.
      pose proof D as D'. rewrite w_info4_eq in D, D'.
      apply (infos_dec_wf_gen ni ni_long 26 s l ltac:(lia)) in D. simpl in D.
      apply (compact_dec_reencode 26 ni (fun n => nodeinfo_marshal (info4_conv n)) (info4_fg ni ni_long)) in D'.
      pose proof (enc_length 26 _ ni ltac:(lia) l s D') as Ln.
      assert (W : forallb (wf_infob 4) l = true) by (eapply forallb_of_Forall; [apply wf_info_b | exact D]).
      pose proof (blob_ok_of s _ 26 Hs Ln) as B.
      destruct ptr; [|destruct l]; unfold nonnil_list, compact_wfb; rewrite ?W, ?B; reflexivity.
    - change (bytes_eqb nm_CompactIPv6NodeInfo nm_CompactIPv4NodeInfo) with false in E.
      change (bytes_eqb nm_CompactIPv6NodeInfo nm_CompactIPv6NodeInfo) with true in E. cbv iota in E.
      apply obind_ok in E. destruct E as (l & D & E). injection E as <-.
      pose proof D as D'. rewrite w_info6_eq in D, D'.
      apply (infos_dec_wf_gen ni ni_long 38 s l ltac:(lia)) in D. simpl in D.
      apply (compact_dec_reencode 38 ni (fun n => nodeinfo_marshal (info6_conv n)) (info6_fg ni ni_long)) in D'.
      pose proof (enc_length 38 _ ni ltac:(lia) l s D') as Ln.
      assert (W : forallb (wf_infob 16) l = true) by (eapply forallb_of_Forall; [apply wf_info_b | exact D]).
      pose proof (blob_ok_of s _ 38 Hs Ln) as B.
      destruct ptr; [|destruct l]; unfold nonnil_list, compact_wfb; rewrite ?W, ?B; reflexivity.
    - change (bytes_eqb nm_CompactInfohashes nm_CompactIPv4NodeInfo) with false in E.
      change (bytes_eqb nm_CompactInfohashes nm_CompactIPv6NodeInfo) with false in E.
      change (bytes_eqb nm_CompactInfohashes nm_CompactIPv4NodeAddrs) with false in E.
      change (bytes_eqb nm_CompactInfohashes nm_CompactIPv6NodeAddrs) with false in E.
      change (bytes_eqb nm_CompactInfohashes nm_CompactInfohashes) with true in E. cbv iota in E.
      apply obind_ok in E. destruct E as (l & D & E). injection E as <-.
      pose proof (hashes_dec_wf _ _ D) as W0. pose proof (hashes_reencode _ _ D) as R. injection R as R.
      assert (Ln : length s = (length l * 20)%nat).
      { rewrite <- R. clear -W0. induction W0 as [|x l Hx Hl IH]; simpl; [reflexivity|]. rewrite app_length, IH, Hx. lia. }
      assert (W : forallb (fun h => Nat.eqb (length h) 20) l = true).
      { eapply forallb_of_Forall; [|exact W0]. intros x Hx. apply Nat.eqb_eq. exact Hx. }
      pose proof (blob_ok_of s _ 20 Hs Ln) as B.
      destruct ptr; [|destruct l]; unfold nonnil_list, compact_wfb; rewrite ?W, ?B; reflexivity.
  Qed.

  Lemma conv_addr_list_ok l r :
    Forall (tv_ok N GUnm) l -> conv_addr_list l = COk r -> forallb addr_okb r = true.
  Proof.
    intros H. revert r. induction H as [|v l Hv Hl IH]; simpl; intros r.
    - intros [= <-]. reflexivity.
    - inversion Hv; subst; simpl; try discriminate.
      intros E. apply obind_ok in E. destruct E as (a & Ea & E). apply obind_ok in E. destruct E as (r' & Er & E).
      injection E as <-. simpl. rewrite (nodeaddr_unmarshal_benc_ok _ _ ltac:(eassumption) Ea), (IH _ Er). reflexivity.
  Qed.

  Lemma conv_str_list_ok l r :
    Forall (tv_ok N GStr) l -> conv_str_list l = Some r -> forallb str_ok r = true.
  Proof.
    intros H. revert r. induction H as [|v l Hv Hl IH]; simpl; intros r.
    - intros [= <-]. reflexivity.
    - destruct (conv_str v) as [s|] eqn:C; [|discriminate]. destruct (conv_str_list l) as [r'|]; [|discriminate].
      intros [= <-]. simpl. rewrite (conv_str_ok _ _ Hv C), (IH _ eq_refl). reflexivity.
  Qed.

  Lemma error_unmarshal_ok raw e : error_unmarshal raw = Some e -> in_int64 (e_code e) && str_ok (e_msg e) = true.
  Proof.
    unfold error_unmarshal. destruct (parse_value raw) as [[v r]|] eqn:P; [|discriminate].
    pose proof (parse_value_canon _ _ _ P) as C.
    destruct v as [z|m|l|d]; try discriminate.
    - destruct r; [|discriminate]. intros [= <-]. simpl in *. rewrite C. reflexivity.
    - destruct l as [|[c| | |] [|[|m| |] l']]; try discriminate. destruct r; [|discriminate].
      destruct (in_int64 c) eqn:I; [|discriminate]. intros [= <-]. simpl in *.
      apply andb_prop in C. destruct C as [C _]. rewrite I, C. reflexivity.
  Qed.

  Lemma fit_str_ok n s : (N.of_nat n <= max_str_len)%N -> str_ok (fit n s) = true.
  Proof. intros H. unfold str_ok. rewrite fit_length. apply N.leb_le. exact H. Qed.

  Lemma arr_wf n s : length s = n -> (N.of_nat n <= max_str_len)%N -> Nat.eqb (length s) n && str_ok s = true.
  Proof. intros <- H. rewrite Nat.eqb_refl. unfold str_ok. simpl. apply N.leb_le. exact H. Qed.

  Lemma conv_arr_len n v s : tv_ok N (GArr n) v -> conv_arr n v = Some s -> length s = n.
  Proof.
    intros Hv. inversion Hv; subst; simpl; try discriminate;
      try (match goal with H : _ \/ _ |- _ => destruct H; discriminate end).
    - intros [= <-]. unfold zero_bytes. apply repeat_length.
    - intros [= <-]. reflexivity.
    - destruct (bytes_of_vlist l); [|discriminate]. intros [= <-]. apply fit_length.
  Qed.

  Theorem kind_wf k t gv fv :
    ty_of_kind k = Some t -> tv_ok N t gv -> kind_sane k ->
    conv_kind ni k gv = COk fv -> wf_fieldb k fv = true.
  Proof.
    intros Ht Hv Hsane Hc.
    destruct k; simpl in Ht; try discriminate; injection Ht as <-; simpl in Hc, Hsane.
    - (* KStr *)
      apply obind_ok in Hc. destruct Hc as (s & Hs & E). injection E as <-. apply of_opt_ok in Hs.
      simpl. eapply conv_str_ok; eassumption.
    - (* KBytes *)
      apply obind_ok in Hc. destruct Hc as (o & Ho & E). injection E as <-. apply of_opt_ok in Ho.
      pose proof (conv_bytes_ok _ _ Hv Ho) as H. simpl. destruct o; [exact H | reflexivity].
    - (* KInt *)
      apply obind_ok in Hc. destruct Hc as (z & Hz & E). injection E as <-. apply of_opt_ok in Hz.
      inversion Hv; subst; simpl in Hz; try discriminate; injection Hz as <-; simpl; [reflexivity | assumption].
    - (* KBool *)
      apply obind_ok in Hc. destruct Hc as (z & Hz & E). injection E as <-. reflexivity.
    - (* KPtrInt *)
      apply obind_ok in Hc. destruct Hc as (z & Hz & E). injection E as <-. apply of_opt_ok in Hz.
      inversion Hv; subst; simpl in Hz; try discriminate; injection Hz as <-; simpl; [reflexivity | assumption].
    - (* KPtrStr *)
      apply obind_ok in Hc. destruct Hc as (s & Hs & E). injection E as <-. apply of_opt_ok in Hs.
      simpl. eapply conv_str_ok; eassumption.
    - (* KId *)
      apply obind_ok in Hc. destruct Hc as (raw & Hr & E). apply obind_ok in E. destruct E as (s & Hs & E).
      injection E as <-. apply of_opt_ok in Hs. simpl. apply Nat.eqb_eq. eapply id_unmarshal_len; exact Hs.
    - (* KArr *)
      apply obind_ok in Hc. destruct Hc as (s & Hs & E). injection E as <-. apply of_opt_ok in Hs.
      cbn [wf_fieldb]. apply arr_wf; [eapply conv_arr_len; eassumption | exact Hsane].
    - (* KPtrArr *)
      apply obind_ok in Hc. destruct Hc as (s & Hs & E). injection E as <-. apply of_opt_ok in Hs.
      cbn [wf_fieldb]. apply arr_wf; [eapply conv_arr_len; eassumption | exact Hsane].
    - (* KNodeAddr *)
      apply obind_ok in Hc. destruct Hc as (raw & Hr & E). apply obind_ok in E. destruct E as (a & Ha & E).
      injection E as <-. apply of_opt_ok in Hr. inversion Hv; subst; simpl in Hr; try discriminate. injection Hr as <-.
      simpl. eapply nodeaddr_unmarshal_benc_ok; eassumption.
    - (* KCompact *)
      apply obind_ok in Hc. destruct Hc as (raw & Hr & E). apply of_opt_ok in Hr.
      inversion Hv; subst; simpl in Hr; try discriminate. injection Hr as <-.
      simpl. eapply compact_conv_ok; eassumption.
    - (* KPtrCompact *)
      apply obind_ok in Hc. destruct Hc as (raw & Hr & E). apply of_opt_ok in Hr.
      inversion Hv; subst; simpl in Hr; try discriminate. injection Hr as <-.
      simpl. eapply compact_conv_ok; eassumption.
    - (* KAddrList *)
      inversion Hv; subst; try discriminate.
      + injection Hc as <-. reflexivity.
      + apply obind_ok in Hc. destruct Hc as (r & Hr & E). injection E as <-. simpl. eapply conv_addr_list_ok; eassumption.
    - (* KWants *)
      inversion Hv; subst; try discriminate.
      + injection Hc as <-. reflexivity.
      + apply obind_ok in Hc. destruct Hc as (r & Hr & E). injection E as <-. apply of_opt_ok in Hr.
        simpl. eapply conv_str_list_ok; eassumption.
    - (* KPtrErr *)
      apply obind_ok in Hc. destruct Hc as (raw & Hr & E). apply obind_ok in E. destruct E as (e & He & E).
      injection E as <-. apply of_opt_ok in He. simpl. apply error_unmarshal_ok in He. exact He.
    - (* KRaw *)
      apply obind_ok in Hc. destruct Hc as (raw & Hr & E). injection E as <-. apply of_opt_ok in Hr.
      inversion Hv; subst; simpl in Hr; try discriminate. injection Hr as <-. simpl. apply one_raw_valueb_of. assumption.
    - (* KAny *)
      inversion Hv; subst; try discriminate. injection Hc as <-. simpl. assumption.
  Qed.
End ConvWf.

(* ================================================================================================
   Assignments into a struct keep it well-formed
   ================================================================================================ *)
Lemma nodup_map_inj {A B} (f : A -> B) l a b :
  NoDup (map f l) -> In a l -> In b l -> f a = f b -> a = b.
Proof.
  induction l as [|x l IH]; simpl; intros Hn Ha Hb E; [contradiction|].
  apply NoDup_cons_iff in Hn. destruct Hn as [Hx Hn].
  destruct Ha as [->|Ha]; destruct Hb as [->|Hb]; auto.
  - exfalso. apply Hx. rewrite E. apply in_map. exact Hb.
  - exfalso. apply Hx. rewrite <- E. apply in_map. exact Ha.
Qed.

Lemma bytes_eq_dec (a b : bytes) : {a = b} + {a <> b}.
Proof.
  destruct (bytes_eqb a b) eqn:E; [left; apply bytes_eqb_eq; exact E|].
  right. intros ->. rewrite bytes_eqb_refl in E. discriminate.
Qed.

Section FieldsWf.
  Context {R : Type}.
  Variable N : nat.
  Variable s : sid.
  Variable get : bytes -> R -> option fval.
  Variable set : bytes -> fval -> R -> option R.
  Variable conv : kind -> gval -> cresult fval.
  Variable wfk : kind -> fval -> bool.
  Variable Inv : R -> Prop.
  Variable F : list field.
  Hypothesis F_in : forall fd, In fd (schema_of s) -> In fd F.
  Hypothesis F_nodup : NoDup (map f_name F).
  Hypothesis set_ok : forall fd fv acc acc', In fd F -> set (f_name fd) fv acc = Some acc' -> Inv acc ->
    Inv acc' /\ get (f_name fd) acc' = Some fv /\
    (forall fd', In fd' F -> f_name fd' <> f_name fd -> get (f_name fd') acc' = get (f_name fd') acc).
  Hypothesis conv_wf : forall fd t v fv, In fd F -> ty_of_kind (f_kind fd) = Some t -> tv_ok N t v ->
    conv (f_kind fd) v = COk fv -> wfk (f_kind fd) fv = true.

  Definition all_wf (x : R) : Prop :=
    forall fd, In fd F -> exists fv, get (f_name fd) x = Some fv /\ wfk (f_kind fd) fv = true.

  Lemma conv_fields_wf fs :
    fields_ok N s fs -> forall acc x, all_wf acc -> Inv acc ->
    conv_fields s conv set fs acc = COk x -> all_wf x /\ Inv x.
  Proof.
    induction 1 as [|[key v] fs (fd & t & Hl & Ht & Hv) Hfs IH]; intros acc x Hw Hi; simpl.
    - intros [= <-]. split; assumption.
    - cbn [fst snd] in *. rewrite Hl. intros E.
      apply obind_ok in E. destruct E as (fv & Hc & E). apply obind_ok in E. destruct E as (acc' & Hs & E).
      apply of_opt_ok in Hs.
      assert (Hin : In fd F) by (apply F_in; eapply lookup_field_in; exact Hl).
      destruct (set_ok fd fv acc acc' Hin Hs Hi) as (Hi' & Hg & Ho).
      apply (IH acc' x); [|exact Hi' | exact E].
      intros fd' Hin'. destruct (bytes_eq_dec (f_name fd') (f_name fd)) as [En|En].
      + assert (fd' = fd) by (eapply nodup_map_inj; eassumption). subst fd'.
        exists fv. split; [exact Hg | eapply conv_wf; eassumption].
      + rewrite (Ho fd' Hin' En). apply Hw. exact Hin'.
  Qed.

  Lemma all_wf_structb x : all_wf x -> wf_structb s get wfk x = true.
  Proof.
    intros H. unfold wf_structb. apply forallb_forall. intros fd Hin.
    destruct (H fd (F_in fd Hin)) as (fv & -> & W). exact W.
  Qed.
End FieldsWf.

(* the zero structs are well-formed, and the schema asks for nothing the model does not know *)
Lemma in_schema_F s F : enc_fields_of s = F -> forall fd, In fd (schema_of s) -> In fd F.
Proof. intros <- fd H. unfold enc_fields_of. apply In_sort_fields. exact H. Qed.

Ltac sane_tac := cbn [kind_sane f_kind]; first [exact I | unfold max_str_len; lia | auto].

Lemma argsF_sane fd : In fd argsF -> kind_sane (f_kind fd).
Proof. intros H. unfold argsF in H. each_in H sane_tac. Qed.
Lemma retF_sane fd : In fd retF -> kind_sane (f_kind fd).
Proof. intros H. unfold retF in H. each_in H sane_tac. Qed.
Lemma msgF_sane fd : In fd msgF -> kind_sane (f_kind fd).
Proof. intros H. unfold msgF in H. each_in H sane_tac. Qed.

Lemma argsF_zero_wf fd : In fd argsF -> wf_fieldb (f_kind fd) (zero_fval (f_kind fd)) = true.
Proof. intros H. unfold argsF in H. each_in H ltac:(vm_compute; reflexivity). Qed.
Lemma retF_zero_wf fd : In fd retF -> wf_fieldb (f_kind fd) (zero_fval (f_kind fd)) = true.
Proof. intros H. unfold retF in H. each_in H ltac:(vm_compute; reflexivity). Qed.
Lemma msgF_zero_wf fd : In fd msgF -> wf_fieldb_msg (f_kind fd) (zero_fval (f_kind fd)) = true.
Proof. intros H. unfold msgF in H. each_in H ltac:(vm_compute; reflexivity). Qed.

Lemma argsF_ty fd : In fd argsF -> exists t, ty_of_kind (f_kind fd) = Some t /\ forall s, t <> GStruct s.
Proof. intros H. unfold argsF in H. each_in H ltac:(eexists; split; [reflexivity | discriminate]). Qed.
Lemma retF_ty fd : In fd retF -> exists t, ty_of_kind (f_kind fd) = Some t /\ forall s, t <> GStruct s.
Proof. intros H. unfold retF in H. each_in H ltac:(eexists; split; [reflexivity | discriminate]). Qed.

Section DecodeWf.
  Variable ni : bytes -> cresult node_info.
  Hypothesis ni_long : forall b, (22 <= length b)%nat -> ni b = nodeinfo_unmarshal b.
  Variable N : nat.
  Hypothesis N_ok : (N.of_nat N <= max_str_len)%N.

  Theorem conv_args_wf fs x :
    fields_ok N SArgs fs -> conv_fields SArgs (conv_kind ni) set_args fs empty_xargs = COk x -> wf_xargsb x = true.
  Proof.
    intros Hfs Hc.
    destruct (conv_fields_wf N SArgs get_args set_args (conv_kind ni) wf_fieldb inv_args argsF
                (in_schema_F SArgs argsF argsF_eq) argsF_nodup) with (fs := fs) (acc := empty_xargs) (x := x) as (Hw & Hi).
    all: try assumption.
    - intros fd fv acc acc' Hin. apply args_set_ok. exact Hin.
    - intros fd t v fv Hin Ht Hv. apply (kind_wf ni ni_long N N_ok _ _ _ _ Ht Hv (argsF_sane fd Hin)).
    - intros fd Hin. exists (zero_fval (f_kind fd)). split; [apply argsF_zero; exact Hin | apply argsF_zero_wf; exact Hin].
    - unfold inv_args. reflexivity.
    - unfold wf_xargsb. rewrite (all_wf_structb SArgs get_args wf_fieldb argsF (in_schema_F SArgs argsF argsF_eq) x Hw).
      unfold inv_args in Hi. destruct (snd x); [reflexivity|]. rewrite Hi by reflexivity. reflexivity.
  Qed.

  Theorem conv_ret_wf fs x :
    fields_ok N SRet fs -> conv_fields SRet (conv_kind ni) set_ret fs empty_xret = COk x -> wf_xretb x = true.
  Proof.
    intros Hfs Hc.
    destruct (conv_fields_wf N SRet get_ret set_ret (conv_kind ni) wf_fieldb inv_ret retF
                (in_schema_F SRet retF retF_eq) retF_nodup) with (fs := fs) (acc := empty_xret) (x := x) as (Hw & Hi).
    all: try assumption.
    - intros fd fv acc acc' Hin. apply ret_set_ok. exact Hin.
    - intros fd t v fv Hin Ht Hv. apply (kind_wf ni ni_long N N_ok _ _ _ _ Ht Hv (retF_sane fd Hin)).
    - intros fd Hin. exists (zero_fval (f_kind fd)). split; [apply retF_zero; exact Hin | apply retF_zero_wf; exact Hin].
    - unfold inv_ret. reflexivity.
    - unfold wf_xretb. rewrite (all_wf_structb SRet get_ret wf_fieldb retF (in_schema_F SRet retF retF_eq) x Hw).
      unfold inv_ret in Hi. destruct (snd x); [reflexivity|]. rewrite Hi by reflexivity. reflexivity.
  Qed.

  Lemma msg_conv_wf fd t v fv :
    In fd msgF -> ty_of_kind (f_kind fd) = Some t -> tv_ok N t v ->
    conv_kind_msg ni (f_kind fd) v = COk fv -> wf_fieldb_msg (f_kind fd) fv = true.
  Proof.
    intros Hin Ht Hv Hc.
    assert (Hk : (forall n, f_kind fd <> KPtrStruct n) \/ exists sn, f_kind fd = KPtrStruct sn).
    { destruct (f_kind fd); try (left; discriminate). right. eauto. }
    destruct Hk as [Hflat | (sn & Ek)].
    - destruct (msg_kind_flat ni (f_kind fd) fv Hflat) as (W & _ & C). rewrite W. rewrite C in Hc.
      apply (kind_wf ni ni_long N N_ok _ _ _ _ Ht Hv (msgF_sane fd Hin) Hc).
    - rewrite Ek in *. cbn [ty_of_kind conv_kind_msg] in *.
      destruct (sid_of_name sn) as [[| |]|] eqn:Es; try discriminate; injection Ht as <-;
        inversion Hv; subst; try (exfalso; eapply H; reflexivity);
        try (match goal with H : _ \/ _ |- _ => destruct H; discriminate end).
      + apply obind_ok in Hc. destruct Hc as (xa & Ha & E). injection E as <-.
        cbn [wf_fieldb_msg]. rewrite Es. unfold conv_args in Ha. eapply conv_args_wf; eassumption.
      + apply obind_ok in Hc. destruct Hc as (xr & Hr & E). injection E as <-.
        cbn [wf_fieldb_msg]. rewrite Es. unfold conv_ret in Hr. eapply conv_ret_wf; eassumption.
  Qed.

  Theorem conv_msg_wf fs x :
    fields_ok N SMsg fs -> conv_fields SMsg (conv_kind_msg ni) set_msg fs empty_xmsg = COk x -> wf_xmsgb x = true.
  Proof.
    intros Hfs Hc.
    destruct (conv_fields_wf N SMsg get_msg set_msg (conv_kind_msg ni) wf_fieldb_msg inv_msg msgF
                (in_schema_F SMsg msgF msgF_eq) msgF_nodup) with (fs := fs) (acc := empty_xmsg) (x := x) as (Hw & Hi).
    all: try assumption.
    - intros fd fv acc acc' Hin. apply msg_set_ok. exact Hin.
    - intros fd t v fv Hin. apply msg_conv_wf. exact Hin.
    - intros fd Hin. exists (zero_fval (f_kind fd)). split; [apply msgF_zero; exact Hin | apply msgF_zero_wf; exact Hin].
    - unfold inv_msg. split; reflexivity.
    - unfold wf_xmsgb. rewrite (all_wf_structb SMsg get_msg wf_fieldb_msg msgF (in_schema_F SMsg msgF msgF_eq) x Hw).
      destruct Hi as [H1 H2]. cbn [andb].
      destruct (m_a (x_msg x)); [rewrite Bool.orb_true_r | rewrite (H1 eq_refl)];
        (destruct (m_r (x_msg x)); [rewrite Bool.orb_true_r | rewrite (H2 eq_refl)]); reflexivity.
  Qed.
End DecodeWf.

(* what decodes — with or without unused trailing bytes — is a well-formed message *)
Theorem decode_xmsg_wf ni (ni_long : forall b, (22 <= length b)%nat -> ni b = nodeinfo_unmarshal b) b x :
  (N.of_nat (length b) <= max_str_len)%N ->
  decode_xmsg ni b = DOk x \/ (exists n, decode_xmsg ni b = DOkTrailing x n) -> wf_xmsg x.
Proof.
  intros Hb H. unfold decode_xmsg in H.
  destruct (parse_ty (length b) (GStruct SMsg) false b) as [[[v rest] d]|] eqn:P;
    [|destruct H as [H|(n & H)]; discriminate].
  destruct (proj1 (parse_ok (length b) (length b)) _ _ _ _ _ _ (le_n _) P) as (Hv & _).
  destruct (conv_msg ni v) as [x'| |] eqn:C; try (destruct H as [H|(n & H)]; discriminate).
  assert (x' = x) by (destruct rest; destruct H as [H|(n & H)]; congruence). subst x'.
  inversion Hv; subst; try (exfalso; eapply H0; reflexivity);
    try (match goal with H1 : _ \/ _ |- _ => destruct H1; discriminate end).
  unfold conv_msg in C. unfold wf_xmsg.
  apply (conv_msg_wf ni ni_long (length b) Hb fs x); assumption.
Qed.
