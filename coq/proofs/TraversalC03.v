(* TraversalC03.v — C03: the lookup terminates, and stalls only when nothing closer is left to
   ask.  Repaired algorithm (prune_front = true); every schedule, response function, K, Alpha >= 1. *)
From Dht Require Import Base Int160 Order OrderProofs Traversal TraversalInv.
From Coq Require Import Sorting.Sorted ZifyN ZifyNat ZifyBool Wellfounded.
Local Arguments ap_mem : simpl never.
Local Arguments Nat.ltb : simpl never.
Local Arguments kn_run : simpl never.
Local Arguments kn_push : simpl never.
Local Arguments have_query_on : simpl never.

(* lexicographic order on triples of naturals *)
Definition lex3 (a b : nat * nat * nat) : Prop :=
  let '(a1, a2, a3) := a in
  let '(b1, b2, b3) := b in
  a1 < b1 \/ (a1 = b1 /\ (a2 < b2 \/ (a2 = b2 /\ a3 < b3))).

Lemma lex3_wf : well_founded lex3.
Proof.
  intros [[a b] c]. revert b c.
  induction a as [a IHa] using (well_founded_induction lt_wf).
  intros b. induction b as [b IHb] using (well_founded_induction lt_wf).
  intros c. induction c as [c IHc] using (well_founded_induction lt_wf).
  constructor. intros [[a' b'] c'] H. simpl in H.
  destruct H as [H|[-> [H|[-> H]]]].
  - apply IHa. exact H.
  - apply IHb. exact H.
  - apply IHc. exact H.
Qed.

Lemma filter_length_le {A} (f f' : A -> bool) l :
  (forall x, In x l -> f' x = true -> f x = true) ->
  length (filter f' l) <= length (filter f l).
Proof.
  induction l as [|x l IH]; simpl; intros H; [lia|].
  assert (IH' : length (filter f' l) <= length (filter f l)).
  { apply IH. intros y Hy. apply H. right. exact Hy. }
  destruct (f' x) eqn:E'.
  - rewrite (H x (or_introl eq_refl) E'). simpl. lia.
  - destruct (f x); simpl; lia.
Qed.

Lemma filter_length_lt {A} (f f' : A -> bool) l a :
  (forall x, In x l -> f' x = true -> f x = true) ->
  In a l -> f a = true -> f' a = false ->
  length (filter f' l) < length (filter f l).
Proof.
  induction l as [|x l IH]; simpl; intros H Ha Hfa Hfa'; [destruct Ha|].
  assert (Hl : forall y, In y l -> f' y = true -> f y = true).
  { intros y Hy. apply H. right. exact Hy. }
  destruct Ha as [->|Ha].
  - rewrite Hfa, Hfa'. simpl. pose proof (filter_length_le f f' l Hl). lia.
  - specialize (IH Hl Ha Hfa Hfa').
    destruct (f' x) eqn:E'.
    + rewrite (H x (or_introl eq_refl) E'). simpl. lia.
    + destruct (f x); simpl; lia.
Qed.

Section C03.
  Variable D : Type.
  Variable node_filter : ami -> bool.
  Variable data_filter : D -> bool.
  Variable tb : addrport -> addrport -> comparison.
  Hypothesis tb_refl : forall a, tb a a = Eq.
  Hypothesis tb_eq : forall a b, tb a b = Eq -> a = b.
  Hypothesis tb_antisym : forall a b, tb b a = CompOpp (tb a b).
  Hypothesis tb_trans : forall a b c, tb a b = Lt -> tb b c = Lt -> tb a c = Lt.
  Variable target : N.
  Variable k : nat.
  Variable alpha : nat.
  Hypothesis k_pos : 1 <= k.
  Hypothesis alpha_pos : 1 <= alpha.

  Notation state := (state D).
  Notation label := (label D).
  Notation TInv := (TInv D node_filter data_filter tb target k alpha).
  Notation wait_valid := (wait_valid D target k alpha).
  Notation hq := (have_query D true target k).
  Notation hqon := (have_query_on D target k).
  Notation do_prune := (do_prune D true).
  Notation start_query := (start_query D).
  Notation start_loop := (start_loop D true target k alpha).
  Notation enabled := (enabled D).
  Notation step := (step D node_filter data_filter tb true target k alpha).
  Notation step_en := (step_en D node_filter data_filter tb true target k alpha).
  Notation exec := (exec D node_filter data_filter tb true target k alpha).
  Notation run := (run D node_filter data_filter tb true target k alpha).
  Notation inv_run := (inv_run D node_filter data_filter tb tb_refl tb_eq tb_antisym tb_trans target k alpha).
  Notation inv_step := (inv_step D node_filter data_filter tb tb_refl tb_eq tb_antisym tb_trans target k alpha).

  (* ---------------- C03_bounded ---------------- *)
  (* queries started <= distinct addresses ever offered (seeds, AddNodes, nodes of replies) *)
  Theorem C03_bounded sched :
    length (st_started (run sched)) <=
    length (nodup ap_eq_dec (map ami_addr (st_offered (run sched)))).
  Proof.
    pose proof (inv_run sched) as H.
    rewrite <- (map_length ami_addr (st_started (run sched))).
    apply NoDup_incl_length.
    - exact (inv_started_nodup _ _ _ _ _ _ _ _ H).
    - intros a Ha. apply nodup_In. apply in_map_iff in Ha. destruct Ha as [c [<- Hc]].
      apply in_map. exact (inv_started_offered _ _ _ _ _ _ _ _ H c Hc).
  Qed.

  (* ---------------- C03_no_lost_wakeup ---------------- *)
  (* If the loop sleeps, either its wake-up is enabled (channel closed or stopping), or what it
     decided under the lock is still right: no query can be started, and it offers the stalled
     signal exactly when nothing qualifies and nothing is in flight. *)
  Theorem C03_no_lost_wakeup sched g o :
    st_loop (run sched) = Waiting g o ->
    enabled (run sched) LWake = true \/
    (g = st_gen (run sched) /\
     (Nat.ltb (st_out (run sched)) alpha && hq (run sched) = false) /\
     o = negb (hq (run sched)) && Nat.eqb (st_out (run sched)) 0).
  Proof.
    intros Hl. pose proof (inv_run sched) as H.
    destruct (inv_gen _ _ _ _ _ _ _ _ H g o Hl) as [Hle Hv].
    cbn [Traversal.enabled]. rewrite Hl.
    destruct (Nat.ltb g (st_gen (run sched))) eqn:E; [left; reflexivity|].
    apply Nat.ltb_ge in E. assert (Hg : g = st_gen (run sched)) by lia.
    right. split; [exact Hg|]. destruct (Hv Hg) as [H1 H2]. split; [exact H1|].
    assert (Ea : Nat.eqb alpha 0 = false) by (apply Nat.eqb_neq; lia).
    rewrite Ea, orb_false_r in H2. exact H2.
  Qed.

  (* the generation only grows, and the sleeping loop never holds a channel from the future *)
  Theorem C03_gen_discipline sched g o :
    st_loop (run sched) = Waiting g o -> g <= st_gen (run sched).
  Proof.
    intros Hl. exact (proj1 (inv_gen _ _ _ _ _ _ _ _ (inv_run sched) g o Hl)).
  Qed.

  (* ---------------- C03_stop ---------------- *)
  Theorem C03_stop sched :
    st_stopping (run sched) = true -> st_inflight (run sched) = [] -> st_stopped (run sched) = false ->
    enabled (run sched) LStopWait = true /\ st_stopped (step (run sched) LStopWait) = true.
  Proof.
    intros Hst Hin Hsd. split; [|reflexivity].
    cbn [Traversal.enabled]. rewrite Hst, Hsd.
    rewrite (inv_out _ _ _ _ _ _ _ _ (inv_run sched)), Hin. reflexivity.
  Qed.

  (* ---------------- C03_stall_predicate ---------------- *)
  Lemma closer_cmp_none_after t a b :
    closer_cmp t a b <> Gt -> ami_id a = None -> ami_id b = None.
  Proof.
    unfold closer_cmp. intros H Ha. rewrite Ha in H.
    destruct (ami_id b); [exfalso; apply H; reflexivity|reflexivity].
  Qed.

  Lemma closer_cmp_dist_le t a b i j :
    closer_cmp t a b <> Gt -> ami_id a = Some i -> ami_id b = Some j ->
    (dist i t <= dist j t)%N.
  Proof.
    unfold closer_cmp. intros H Ha Hb. rewrite Ha, Hb in H.
    destruct (N.compare_spec (dist i t) (dist j t)) as [E|L|G]; try lia.
    exfalso. apply H. reflexivity.
  Qed.

  Lemma full_farthest (cl : list (kelem D)) :
    kn_full k cl = true -> exists f, kn_farthest cl = Some f.
  Proof.
    intros Hf. apply (kn_farthest_nonempty D). intros ->.
    unfold kn_full in Hf. apply Nat.leb_le in Hf. simpl in Hf. lia.
  Qed.

  (* Farthest() is never called on an empty set *)
  Lemma have_query_no_panic (cl : list (kelem D)) : kn_full k cl = true -> kn_farthest cl <> None.
  Proof. intros Hf. destruct (full_farthest cl Hf) as [f ->]. discriminate. Qed.

  (* what a false haveQuery() means for the members of the (pruned, sorted) frontier *)
  Lemma hqon_false_spec (u : list ami) (cl : list (kelem D)) c :
    ss_sorted target u -> hqon u cl = false -> In c u ->
    kn_full k cl = true /\
    (ami_id c = None \/
     exists i f, ami_id c = Some i /\ kn_farthest cl = Some f /\
                 (dist (k_id f) target < dist i target)%N).
  Proof.
    intros Hs Hh Hc. unfold have_query_on in Hh.
    destruct u as [|cu r]; [destruct Hc|].
    pose proof (sorted_head_le target cu r c Hs Hc) as Hle.
    destruct (kn_full k cl) eqn:Fu; simpl in Hh; [|discriminate].
    split; [reflexivity|].
    destruct (ami_id cu) as [i|] eqn:Ei.
    - destruct (full_farthest cl Fu) as [f Ff]. rewrite Ff in Hh.
      apply N.leb_gt in Hh.
      destruct (ami_id c) as [j|] eqn:Ej; [|left; reflexivity].
      right. exists j, f. split; [reflexivity|]. split; [exact Ff|].
      pose proof (closer_cmp_dist_le target cu c i j Hle Ei Ej). lia.
    - left. exact (closer_cmp_none_after target cu c Hle Ei).
  Qed.

  (* When the stalled offer is made (and while it is current): nothing is in flight, and every
     learned contact that passes the node filter has been queried, except -- only when the
     closest set is full -- contacts of unknown ID or strictly farther than the farthest member. *)
  Theorem C03_stall_predicate sched :
    at_stalled_offer (run sched) = true ->
    st_out (run sched) = 0 /\ st_inflight (run sched) = [] /\
    forall c, In c (st_offered (run sched)) -> node_filter c = true ->
      In (ami_addr c) (st_queried (run sched)) \/
      (kn_full k (st_closest (run sched)) = true /\
       (ami_id c = None \/
        exists i f, ami_id c = Some i /\ kn_farthest (st_closest (run sched)) = Some f /\
                    (dist (k_id f) target < dist i target)%N)).
  Proof.
    set (s := run sched). intros Hoff. pose proof (inv_run sched) as H. fold s in H.
    unfold at_stalled_offer in Hoff.
    destruct (st_loop s) as [|g o|] eqn:El; try discriminate.
    destruct o; [|discriminate]. apply Nat.eqb_eq in Hoff.
    destruct (inv_gen _ _ _ _ _ _ _ _ H g true El) as [_ Hv].
    destruct (Hv Hoff) as [_ H2].
    assert (Ea : Nat.eqb alpha 0 = false) by (apply Nat.eqb_neq; lia).
    rewrite Ea, orb_false_r in H2. symmetry in H2. apply andb_true_iff in H2.
    destruct H2 as [Hh Ho]. apply Nat.eqb_eq in Ho. apply negb_true_iff in Hh.
    split; [exact Ho|]. split.
    { pose proof (inv_out _ _ _ _ _ _ _ _ H) as Hl. rewrite Ho in Hl.
      destruct (st_inflight s); [reflexivity|discriminate]. }
    intros c Hc Hf.
    destruct (inv_learned _ _ _ _ _ _ _ _ H c Hc Hf) as [Hq|Hu]; [left; exact Hq|].
    destruct (prune_In_or (st_queried s) _ c Hu) as [Hq|Hp]; [left; exact Hq|].
    right. rewrite (hq_eq D target k) in Hh.
    apply (hqon_false_spec (prune (st_queried s) (st_unq s)) (st_closest s) c).
    - apply prune_sorted. exact (inv_sorted _ _ _ _ _ _ _ _ H).
    - exact Hh.
    - exact Hp.
  Qed.

  (* A stalled offer can only become stale through an external AddNodes call: every other label
     keeps "an offered stall is current". *)
  Theorem C03_offer_current (s : state) l :
    TInv s -> enabled s l = true -> (forall ns, l <> LAddNodes ns) ->
    (forall g, st_loop s = Waiting g true -> g = st_gen s) ->
    forall g, st_loop (step s l) = Waiting g true -> g = st_gen (step s l).
  Proof.
    intros H En Hl Hcur g Hg.
    assert (Hbusy : forall i p, q_at D s i p = true -> forall g', st_loop s = Waiting g' true -> False).
    { intros i p Hat g' Hw. destruct (q_at_find D s i p Hat) as [q [Hf _]].
      destruct (inv_gen _ _ _ _ _ _ _ _ H g' true Hw) as [_ Hv].
      destruct (Hv (Hcur g' Hw)) as [_ H2]. symmetry in H2. apply andb_true_iff in H2.
      destruct H2 as [_ Ho]. apply Nat.eqb_eq in Ho.
      pose proof (inv_out _ _ _ _ _ _ _ _ H) as Hlen. rewrite Ho in Hlen.
      destruct (find_q_In D i _ q Hf) as [Hin _].
      destruct (st_inflight s); [destruct Hin|discriminate]. }
    destruct l as [| | |i r|i|i|i|i|ns| | |i]; cbn [Traversal.step Traversal.enabled] in *.
    - unfold Traversal.run_step in *. destruct (st_stopping s); [cbn in Hg; discriminate|].
      unfold Traversal.run_body in *. cbn in Hg |- *. injection Hg as <- _.
      reflexivity.
    - cbn in Hg. discriminate.
    - cbn in Hg. discriminate.
    - cbn in Hg |- *. exact (Hcur g Hg).
    - exfalso. destruct (r_from (resp_of D s i)) as [x|]; cbn in Hg.
      + rewrite (proj1 (proj2 (proj2 (proj2 (proj2 (proj2 (proj2 (proj2
                 (add_closest_frame D node_filter data_filter tb target k s x))))))))) in Hg.
        exact (Hbusy i QResp En g Hg).
      + exact (Hbusy i QResp En g Hg).
    - exfalso. cbn in Hg.
      rewrite (proj1 (proj2 (proj2 (proj2 (proj2 (proj2 (proj2 (proj2
                 (add_nodes_frame D node_filter target _ s))))))))) in Hg.
      exact (Hbusy i QAddN En g Hg).
    - exfalso. cbn in Hg.
      rewrite (proj1 (proj2 (proj2 (proj2 (proj2 (proj2 (proj2 (proj2
                 (add_nodes_frame D node_filter target _ s))))))))) in Hg.
      exact (Hbusy i QAddN6 En g Hg).
    - exfalso. cbn in Hg. exact (Hbusy i QDone En g Hg).
    - exfalso. exact (Hl ns eq_refl).
    - cbn in Hg |- *. exact (Hcur g Hg).
    - cbn in Hg |- *. exact (Hcur g Hg).
    - cbn in Hg |- *. exact (Hcur g Hg).
  Qed.
End C03.

Print Assumptions C03_bounded.
Print Assumptions C03_no_lost_wakeup.
Print Assumptions C03_stall_predicate.
