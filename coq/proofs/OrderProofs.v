(* OrderProofs.v — closer_than is a strict total order; the sorted set and the
   K-nearest container meet their specifications (C18; used by C02/C03/C04). *)
From Dht Require Import Base Int160 Order.
From Coq Require Import Sorting.Sorted ZifyN ZifyNat ZifyBool.

(* The only fact about [dist] needed here is injectivity in the first argument.
   It is re-proved locally (same statement as Int160Proofs.dist_inj) so that this
   file does not depend on Int160Proofs.v. *)
Lemma dist_inj_l t a b : dist a t = dist b t -> a = b.
Proof.
  unfold dist. intros H.
  assert (Ha : N.lxor (N.lxor a t) t = a)
    by (rewrite N.lxor_assoc, N.lxor_nilpotent, N.lxor_0_r; reflexivity).
  assert (Hb : N.lxor (N.lxor b t) t = b)
    by (rewrite N.lxor_assoc, N.lxor_nilpotent, N.lxor_0_r; reflexivity).
  rewrite <- Ha, <- Hb, H. reflexivity.
Qed.

(* ---------- generic: insertion into a list sorted by a three-way comparison ---------- *)

Section SortedIns.
  Variable A : Type.
  Variable cmp : A -> A -> comparison.
  Context (cmp_antisym : forall a b, cmp b a = CompOpp (cmp a b)).
  Context (cmp_trans : forall a b c, cmp a b = Lt -> cmp b c = Lt -> cmp a c = Lt).
  (* elements that compare Eq are indistinguishable for the order *)
  Context (cmp_eq_l : forall a b c, cmp a b = Eq -> cmp a c = cmp b c).

  Fixpoint ins (x : A) (l : list A) : list A :=
    match l with
    | [] => [x]
    | y :: l' =>
        match cmp x y with
        | Lt => x :: l
        | Eq => x :: l'
        | Gt => y :: ins x l'
        end
    end.

  Definition srt (l : list A) : Prop := StronglySorted (fun a b => cmp a b = Lt) l.

  Lemma cmp_gt_lt a b : cmp a b = Gt -> cmp b a = Lt.
  Proof. intros H. rewrite (cmp_antisym a b), H. reflexivity. Qed.

  Lemma cmp_lt_gt a b : cmp a b = Lt -> cmp b a = Gt.
  Proof. intros H. rewrite (cmp_antisym a b), H. reflexivity. Qed.

  Lemma cmp_eq_sym a b : cmp a b = Eq -> cmp b a = Eq.
  Proof. intros H. rewrite (cmp_antisym a b), H. reflexivity. Qed.

  Lemma srt_inv a l : srt (a :: l) -> srt l /\ forall z, In z l -> cmp a z = Lt.
  Proof.
    intros H. apply StronglySorted_inv in H. destruct H as [Hs Hf].
    split; [exact Hs|]. apply Forall_forall. exact Hf.
  Qed.

  Lemma srt_cons a l : srt l -> (forall z, In z l -> cmp a z = Lt) -> srt (a :: l).
  Proof. intros Hs Hf. constructor; [exact Hs|]. apply Forall_forall. exact Hf. Qed.

  Lemma ins_incl x l z : In z (ins x l) -> z = x \/ In z l.
  Proof.
    induction l as [|y l IH]; simpl.
    - intros [H|[]]. left. symmetry. exact H.
    - destruct (cmp x y); simpl; intros [H|H].
      + left. symmetry. exact H.
      + right. right. exact H.
      + left. symmetry. exact H.
      + right. exact H.
      + right. left. exact H.
      + destruct (IH H) as [H'|H']; [left; exact H'|right; right; exact H'].
  Qed.

  Lemma ins_in_self x l : In x (ins x l).
  Proof.
    induction l as [|y l IH]; simpl.
    - left. reflexivity.
    - destruct (cmp x y); simpl; auto.
  Qed.

  Lemma ins_sorted x l : srt l -> srt (ins x l).
  Proof.
    induction l as [|y l IH]; simpl; intros Hs.
    - apply srt_cons; [constructor|]. intros z [].
    - destruct (srt_inv _ _ Hs) as [Hl Hy].
      destruct (cmp x y) eqn:E.
      + apply srt_cons; [exact Hl|]. intros z Hz.
        rewrite (cmp_eq_l x y z E). apply Hy. exact Hz.
      + apply srt_cons; [exact Hs|]. intros z [Hz|Hz].
        * subst z. exact E.
        * apply (cmp_trans x y z E). apply Hy. exact Hz.
      + apply srt_cons; [apply IH; exact Hl|]. intros z Hz.
        destruct (ins_incl _ _ _ Hz) as [Hz'|Hz'].
        * subst z. apply cmp_gt_lt. exact E.
        * apply Hy. exact Hz'.
  Qed.

  (* membership after an insert: x itself, plus the old elements not Eq to x *)
  Lemma ins_in x l z :
    srt l -> (In z (ins x l) <-> z = x \/ (In z l /\ cmp z x <> Eq)).
  Proof.
    induction l as [|y l IH]; simpl; intros Hs.
    - split.
      + intros [H|[]]. left. symmetry. exact H.
      + intros [H|[[] _]]. left. symmetry. exact H.
    - destruct (srt_inv _ _ Hs) as [Hl Hy].
      destruct (cmp x y) eqn:E; simpl.
      + split.
        * intros [H|H]; [left; symmetry; exact H|]. right. split; [right; exact H|].
          assert (Hxz : cmp x z = Lt) by (rewrite (cmp_eq_l x y z E); apply Hy; exact H).
          rewrite (cmp_lt_gt _ _ Hxz). discriminate.
        * intros [H|[[H|H] Hne]].
          -- left. symmetry. exact H.
          -- subst z. exfalso. apply Hne. apply cmp_eq_sym. exact E.
          -- right. exact H.
      + split.
        * intros [H|H]; [left; symmetry; exact H|]. right. split; [exact H|].
          assert (Hxz : cmp x z = Lt).
          { destruct H as [H|H]; [subst z; exact E|].
            apply (cmp_trans x y z E). apply Hy. exact H. }
          rewrite (cmp_lt_gt _ _ Hxz). discriminate.
        * intros [H|[H _]]; [left; symmetry; exact H|right; exact H].
      + rewrite (IH Hl). split.
        * intros [H|[H|[H Hne]]].
          -- right. split; [left; exact H|]. subst z.
             rewrite (cmp_gt_lt _ _ E). discriminate.
          -- left. exact H.
          -- right. split; [right; exact H|exact Hne].
        * intros [H|[[H|H] Hne]].
          -- right. left. exact H.
          -- left. exact H.
          -- right. right. split; [exact H|exact Hne].
  Qed.

  Lemma In_firstn k (l : list A) z : In z (firstn k l) -> In z l.
  Proof.
    revert k. induction l as [|y l IH]; intros [|k]; simpl; try tauto.
    intros [H|H]; [left; exact H|right; exact (IH _ H)].
  Qed.

  Lemma srt_firstn k l : srt l -> srt (firstn k l).
  Proof.
    revert k. induction l as [|y l IH]; intros [|k] Hs; simpl; try constructor.
    - destruct (srt_inv _ _ Hs) as [Hl Hy]. apply IH. exact Hl.
    - destruct (srt_inv _ _ Hs) as [Hl Hy]. apply Forall_forall. intros z Hz.
      apply Hy. exact (In_firstn _ _ _ Hz).
  Qed.

  (* in a sorted list every element of a prefix precedes every element of the rest *)
  Lemma srt_app l1 l2 a b : srt (l1 ++ l2) -> In a l1 -> In b l2 -> cmp a b = Lt.
  Proof.
    induction l1 as [|y l1 IH]; simpl; intros Hs Ha Hb; [destruct Ha|].
    destruct (srt_inv _ _ Hs) as [Hl Hy]. destruct Ha as [Ha|Ha].
    - subst y. apply Hy. apply in_or_app. right. exact Hb.
    - apply IH; assumption.
  Qed.

  Lemma srt_nodup l : srt l -> (forall a, cmp a a = Eq) -> NoDup l.
  Proof.
    intros Hs Hrefl. induction l as [|y l IH]; constructor.
    - destruct (srt_inv _ _ Hs) as [Hl Hy]. intros Hin.
      specialize (Hy y Hin). rewrite Hrefl in Hy. discriminate.
    - apply IH. destruct (srt_inv _ _ Hs) as [Hl _]. exact Hl.
  Qed.

  (* trimming to k before an insert does not change the first k after it *)
  Lemma firstn_ins_firstn k x l : firstn k (ins x (firstn k l)) = firstn k (ins x l).
  Proof.
    revert k. induction l as [|y l IH]; intros [|k]; try reflexivity.
    change (firstn (S k) (y :: l)) with (y :: firstn k l). simpl ins.
    destruct (cmp x y); simpl; f_equal.
    - rewrite firstn_firstn, Nat.min_id. reflexivity.
    - change (y :: firstn k l) with (firstn (S k) (y :: l)).
      rewrite firstn_firstn, (Nat.min_l k (S k)) by apply Nat.le_succ_diag_r. reflexivity.
    - apply IH.
  Qed.
End SortedIns.

Arguments ins {A}.
Arguments srt {A}.

(* ---------- address order ---------- *)

Lemma ap_cmp_lt_iff a b :
  ap_cmp a b = Lt <->
  (ap_fam a < ap_fam b \/
   (ap_fam a = ap_fam b /\
    (ap_val a < ap_val b \/ (ap_val a = ap_val b /\ ap_port a < ap_port b))))%N.
Proof.
  unfold ap_cmp.
  destruct (N.compare_spec (ap_fam a) (ap_fam b)) as [F|F|F];
    [destruct (N.compare_spec (ap_val a) (ap_val b)) as [V|V|V];
       [destruct (N.compare_spec (ap_port a) (ap_port b)) as [P|P|P]| |]| |];
    (split; [intros H; try discriminate H; lia | intros H; try reflexivity; exfalso; lia]).
Qed.

Lemma ap_cmp_eq_iff a b :
  ap_cmp a b = Eq <->
  (ap_fam a = ap_fam b /\ ap_val a = ap_val b /\ ap_port a = ap_port b).
Proof.
  unfold ap_cmp.
  destruct (N.compare_spec (ap_fam a) (ap_fam b)) as [F|F|F];
    [destruct (N.compare_spec (ap_val a) (ap_val b)) as [V|V|V];
       [destruct (N.compare_spec (ap_port a) (ap_port b)) as [P|P|P]| |]| |];
    (split; [intros H; try discriminate H; auto | intros H; try reflexivity; exfalso; lia]).
Qed.

Lemma ap_cmp_refl a : ap_cmp a a = Eq.
Proof. apply ap_cmp_eq_iff. auto. Qed.

Lemma ap_cmp_eq a b : ap_cmp a b = Eq -> a = b.
Proof.
  intros H. apply ap_cmp_eq_iff in H. destruct H as [F [V P]].
  destruct a, b; simpl in *. subst. reflexivity.
Qed.

Lemma ap_cmp_antisym a b : ap_cmp b a = CompOpp (ap_cmp a b).
Proof.
  unfold ap_cmp.
  rewrite (N.compare_antisym (ap_fam a) (ap_fam b)).
  rewrite (N.compare_antisym (ap_val a) (ap_val b)).
  rewrite (N.compare_antisym (ap_port a) (ap_port b)).
  destruct (ap_fam a ?= ap_fam b)%N; simpl; try reflexivity.
  destruct (ap_val a ?= ap_val b)%N; simpl; reflexivity.
Qed.

Lemma ap_cmp_trans a b c : ap_cmp a b = Lt -> ap_cmp b c = Lt -> ap_cmp a c = Lt.
Proof. rewrite !ap_cmp_lt_iff. lia. Qed.

Lemma ap_eqb_eq a b : ap_eqb a b = true <-> a = b.
Proof.
  unfold ap_eqb. rewrite !andb_true_iff, !N.eqb_eq. split.
  - intros [[F V] P]. destruct a, b; simpl in *. subst. reflexivity.
  - intros ->. auto.
Qed.

(* ---------- closer_cmp: a total order on AddrMaybeId ---------- *)

Theorem closer_cmp_refl t a : closer_cmp t a a = Eq.
Proof.
  unfold closer_cmp. destruct (ami_id a) as [ia|].
  - rewrite N.compare_refl. apply ap_cmp_refl.
  - apply ap_cmp_refl.
Qed.

Theorem closer_cmp_eq t a b : closer_cmp t a b = Eq -> a = b.
Proof.
  unfold closer_cmp. destruct a as [aa [ia|]], b as [ab [ib|]]; simpl; try discriminate.
  - destruct (N.compare_spec (dist ia t) (dist ib t)) as [E|L|G]; try discriminate.
    intros H. apply ap_cmp_eq in H. apply dist_inj_l in E. subst. reflexivity.
  - intros H. apply ap_cmp_eq in H. subst. reflexivity.
Qed.

Theorem closer_cmp_antisym t a b : closer_cmp t b a = CompOpp (closer_cmp t a b).
Proof.
  unfold closer_cmp. destruct (ami_id a) as [ia|], (ami_id b) as [ib|]; try reflexivity.
  - rewrite (N.compare_antisym (dist ia t) (dist ib t)).
    destruct (dist ia t ?= dist ib t)%N; simpl; try reflexivity. apply ap_cmp_antisym.
  - apply ap_cmp_antisym.
Qed.

Theorem closer_cmp_trans t a b c :
  closer_cmp t a b = Lt -> closer_cmp t b c = Lt -> closer_cmp t a c = Lt.
Proof.
  unfold closer_cmp.
  destruct (ami_id a) as [ia|], (ami_id b) as [ib|], (ami_id c) as [ic|];
    try discriminate; try reflexivity.
  - destruct (N.compare_spec (dist ia t) (dist ib t)) as [E1|L1|G1]; try discriminate;
      destruct (N.compare_spec (dist ib t) (dist ic t)) as [E2|L2|G2]; try discriminate;
      intros H1 H2;
      destruct (N.compare_spec (dist ia t) (dist ic t)) as [E3|L3|G3];
      try reflexivity; try (exfalso; lia).
    exact (ap_cmp_trans _ _ _ H1 H2).
  - apply ap_cmp_trans.
Qed.

(* the boolean relation the code exposes *)
Lemma closer_than_lt t a b : closer_than t a b = true <-> closer_cmp t a b = Lt.
Proof. unfold closer_than. destruct (closer_cmp t a b); split; congruence. Qed.

Theorem closer_than_irrefl t a : closer_than t a a = false.
Proof. unfold closer_than. rewrite closer_cmp_refl. reflexivity. Qed.

Theorem closer_than_trans t a b c :
  closer_than t a b = true -> closer_than t b c = true -> closer_than t a c = true.
Proof. rewrite !closer_than_lt. apply closer_cmp_trans. Qed.

Theorem closer_than_asym t a b : closer_than t a b = true -> closer_than t b a = false.
Proof.
  rewrite closer_than_lt. intros H. unfold closer_than.
  rewrite (closer_cmp_antisym t a b), H. reflexivity.
Qed.

Theorem closer_than_total t a b : a <> b -> closer_than t a b = true \/ closer_than t b a = true.
Proof.
  intros Hne. rewrite !closer_than_lt. rewrite (closer_cmp_antisym t a b).
  destruct (closer_cmp t a b) eqn:E; simpl; auto.
  exfalso. apply Hne. exact (closer_cmp_eq _ _ _ E).
Qed.

Theorem closer_known_before_unknown t a b ia :
  ami_id a = Some ia -> ami_id b = None -> closer_than t a b = true.
Proof. intros Ha Hb. unfold closer_than, closer_cmp. rewrite Ha, Hb. reflexivity. Qed.

Theorem closer_known_by_distance t a b ia ib :
  ami_id a = Some ia -> ami_id b = Some ib ->
  (dist ia t < dist ib t)%N -> closer_than t a b = true.
Proof.
  intros Ha Hb Hlt. unfold closer_than, closer_cmp. rewrite Ha, Hb.
  apply N.compare_lt_iff in Hlt. rewrite Hlt. reflexivity.
Qed.

Theorem closer_known_by_distance_conv t a b ia ib :
  ami_id a = Some ia -> ami_id b = Some ib ->
  closer_than t a b = true -> (dist ia t <= dist ib t)%N.
Proof.
  intros Ha Hb. unfold closer_than, closer_cmp. rewrite Ha, Hb.
  destruct (N.compare_spec (dist ia t) (dist ib t)) as [E|L|G]; intros H;
    try discriminate H; lia.
Qed.

(* ---------- sorted set ---------- *)

Definition ss_sorted (t : N) (l : list ami) : Prop :=
  StronglySorted (fun a b => closer_cmp t a b = Lt) l.

Lemma closer_cmp_eq_l t a b c : closer_cmp t a b = Eq -> closer_cmp t a c = closer_cmp t b c.
Proof. intros H. apply closer_cmp_eq in H. subst. reflexivity. Qed.

Lemma closer_cmp_neq t a b : closer_cmp t a b <> Eq <-> a <> b.
Proof.
  split; intros H E; apply H.
  - subst. apply closer_cmp_refl.
  - exact (closer_cmp_eq _ _ _ E).
Qed.

Lemma ss_add_ins t x l : ss_add t x l = ins (closer_cmp t) x l.
Proof.
  induction l as [|y l IH]; simpl; [reflexivity|].
  destruct (closer_cmp t x y); try reflexivity. rewrite IH. reflexivity.
Qed.

Lemma ss_sorted_nil t : ss_sorted t [].
Proof. constructor. Qed.

Theorem ss_add_sorted t x l : ss_sorted t l -> ss_sorted t (ss_add t x l).
Proof.
  rewrite ss_add_ins.
  apply (ins_sorted _ _ (closer_cmp_antisym t) (closer_cmp_trans t) (closer_cmp_eq_l t)).
Qed.

Theorem ss_add_in t x l y : ss_sorted t l -> (In y (ss_add t x l) <-> y = x \/ In y l).
Proof.
  intros Hs. rewrite ss_add_ins.
  rewrite (ins_in _ _ (closer_cmp_antisym t) (closer_cmp_trans t) (closer_cmp_eq_l t) x l y Hs).
  rewrite closer_cmp_neq. split.
  - intros [H|[H _]]; auto.
  - intros [H|H]; [left; exact H|].
    destruct (closer_cmp t y x) eqn:E.
    + left. exact (closer_cmp_eq _ _ _ E).
    + right. split; [exact H|]. intros ->. rewrite closer_cmp_refl in E. discriminate.
    + right. split; [exact H|]. intros ->. rewrite closer_cmp_refl in E. discriminate.
Qed.

Lemma ss_sorted_inv t a l :
  ss_sorted t (a :: l) -> ss_sorted t l /\ forall z, In z l -> closer_cmp t a z = Lt.
Proof. apply srt_inv. Qed.

Lemma ss_delete_incl t x l y : In y (ss_delete t x l) -> In y l.
Proof.
  induction l as [|a l IH]; simpl; [tauto|].
  destruct (closer_cmp t x a); simpl; intros H.
  - right. exact H.
  - exact H.
  - destruct H as [H|H]; [left; exact H|right; exact (IH H)].
Qed.

Theorem ss_delete_sorted t x l : ss_sorted t l -> ss_sorted t (ss_delete t x l).
Proof.
  induction l as [|a l IH]; simpl; intros Hs; [exact Hs|].
  destruct (ss_sorted_inv _ _ _ Hs) as [Hl Ha].
  destruct (closer_cmp t x a).
  - exact Hl.
  - exact Hs.
  - apply srt_cons; [apply IH; exact Hl|].
    intros z Hz. apply Ha. exact (ss_delete_incl _ _ _ _ Hz).
Qed.

Theorem ss_delete_in t x l y : ss_sorted t l -> (In y (ss_delete t x l) <-> In y l /\ y <> x).
Proof.
  induction l as [|a l IH]; simpl; intros Hs; [tauto|].
  destruct (ss_sorted_inv _ _ _ Hs) as [Hl Ha].
  destruct (closer_cmp t x a) eqn:E; simpl.
  - apply closer_cmp_eq in E. subst a. split.
    + intros H. split; [right; exact H|]. intros ->.
      specialize (Ha x H). rewrite closer_cmp_refl in Ha. discriminate.
    + intros [[H|H] Hne]; [exfalso; apply Hne; symmetry; exact H|exact H].
  - split; [|tauto]. intros H. split; [exact H|]. intros ->.
    destruct H as [H|H].
    + subst a. rewrite closer_cmp_refl in E. discriminate.
    + specialize (Ha x H). rewrite (closer_cmp_antisym t x a), E in Ha. discriminate.
  - rewrite (IH Hl). split.
    + intros [H|[H Hne]]; [|tauto]. split; [left; exact H|]. intros ->. subst a.
      rewrite closer_cmp_refl in E. discriminate.
    + intros [[H|H] Hne]; [left; exact H|right; tauto].
Qed.

Theorem ss_sorted_nodup t l : ss_sorted t l -> NoDup l.
Proof. intros Hs. apply (srt_nodup _ (closer_cmp t)); [exact Hs|apply closer_cmp_refl]. Qed.

(* Next() returns the minimum *)
Theorem ss_next_min t l x :
  ss_sorted t l -> ss_next l = Some x -> In x l /\ forall y, In y l -> y <> x -> closer_than t x y = true.
Proof.
  destruct l as [|a l]; simpl; intros Hs H; [discriminate|].
  injection H as ->. destruct (ss_sorted_inv _ _ _ Hs) as [_ Ha].
  split; [left; reflexivity|]. intros y [Hy|Hy] Hne.
  - exfalso. apply Hne. symmetry. exact Hy.
  - apply closer_than_lt. apply Ha. exact Hy.
Qed.

Lemma ami_eqb_eq a b : ami_eqb a b = true <-> a = b.
Proof.
  unfold ami_eqb. rewrite andb_true_iff, ap_eqb_eq.
  destruct a as [aa [ia|]], b as [ab [ib|]]; simpl; try rewrite N.eqb_eq;
    split; try (intros [-> H]; congruence); intros H; injection H; auto; congruence.
Qed.

Lemma ami_eqb_neq a b : a <> b -> ami_eqb a b = false.
Proof.
  intros H. destruct (ami_eqb a b) eqn:E; [|reflexivity].
  exfalso. apply H. apply ami_eqb_eq. exact E.
Qed.

Theorem ss_add_len t x l :
  ss_sorted t l -> length (ss_add t x l) = if existsb (ami_eqb x) l then length l else S (length l).
Proof.
  induction l as [|a l IH]; simpl; intros Hs; [reflexivity|].
  destruct (ss_sorted_inv _ _ _ Hs) as [Hl Ha].
  destruct (closer_cmp t x a) eqn:E; simpl.
  - apply closer_cmp_eq in E. subst a.
    replace (ami_eqb x x) with true by (symmetry; apply ami_eqb_eq; reflexivity).
    reflexivity.
  - rewrite ami_eqb_neq by (intros ->; rewrite closer_cmp_refl in E; discriminate).
    simpl. destruct (existsb (ami_eqb x) l) eqn:X; [|reflexivity].
    exfalso. apply existsb_exists in X. destruct X as [z [Hz Hxz]].
    apply ami_eqb_eq in Hxz. subst z. specialize (Ha x Hz).
    rewrite (closer_cmp_antisym t x a), E in Ha. discriminate.
  - rewrite ami_eqb_neq by (intros ->; rewrite closer_cmp_refl in E; discriminate).
    simpl. rewrite (IH Hl). destruct (existsb (ami_eqb x) l); reflexivity.
Qed.

(* ---------- K nearest ---------- *)

Section KN.
  Variable D : Type.
  Variable tb : addrport -> addrport -> comparison.
  (* the seeded hash order is a strict total order on addresses (trusted: maphash injective) *)
  Hypothesis tb_refl : forall a, tb a a = Eq.
  Hypothesis tb_eq : forall a b, tb a b = Eq -> a = b.
  Hypothesis tb_antisym : forall a b, tb b a = CompOpp (tb a b).
  Hypothesis tb_trans : forall a b c, tb a b = Lt -> tb b c = Lt -> tb a c = Lt.

  Notation kelem := (kelem D).
  Notation kcmp := (@k_cmp D tb).

  Definition same_key (a b : kelem) : Prop := k_id a = k_id b /\ k_addr a = k_addr b.

  Definition kn_sorted (t : N) (l : list kelem) : Prop :=
    StronglySorted (fun a b => kcmp t a b = Lt) l.

  Lemma kcmp_eq_same_key t a b : kcmp t a b = Eq <-> same_key a b.
  Proof.
    unfold k_cmp, same_key. split.
    - destruct (N.compare_spec (dist (k_id a) t) (dist (k_id b) t)) as [E|L|G];
        try discriminate.
      intros H. split; [exact (dist_inj_l _ _ _ E)|exact (tb_eq _ _ H)].
    - intros [-> ->]. rewrite N.compare_refl. apply tb_refl.
  Qed.

  Lemma kcmp_antisym t a b : kcmp t b a = CompOpp (kcmp t a b).
  Proof.
    unfold k_cmp. rewrite (N.compare_antisym (dist (k_id a) t) (dist (k_id b) t)).
    destruct (dist (k_id a) t ?= dist (k_id b) t)%N; simpl; try reflexivity.
    apply tb_antisym.
  Qed.

  Lemma kcmp_trans t a b c : kcmp t a b = Lt -> kcmp t b c = Lt -> kcmp t a c = Lt.
  Proof.
    unfold k_cmp.
    destruct (N.compare_spec (dist (k_id a) t) (dist (k_id b) t)) as [E1|L1|G1];
      try discriminate;
      destruct (N.compare_spec (dist (k_id b) t) (dist (k_id c) t)) as [E2|L2|G2];
      try discriminate;
      intros H1 H2;
      destruct (N.compare_spec (dist (k_id a) t) (dist (k_id c) t)) as [E3|L3|G3];
      try reflexivity; try (exfalso; lia).
    exact (tb_trans _ _ _ H1 H2).
  Qed.

  Lemma kcmp_eq_l t a b c : kcmp t a b = Eq -> kcmp t a c = kcmp t b c.
  Proof.
    intros H. apply kcmp_eq_same_key in H. destruct H as [Hi Ha].
    unfold k_cmp. rewrite Hi, Ha. reflexivity.
  Qed.

  Lemma kcmp_lt_dist t a b : kcmp t a b = Lt -> (dist (k_id a) t <= dist (k_id b) t)%N.
  Proof.
    unfold k_cmp.
    destruct (N.compare_spec (dist (k_id a) t) (dist (k_id b) t)) as [E|L|G]; intros H;
      try discriminate H; lia.
  Qed.

  Lemma kn_insert_ins t x l : (@kn_insert D tb) t x l = ins (kcmp t) x l.
  Proof.
    induction l as [|y l IH]; simpl; [reflexivity|].
    destruct (kcmp t x y); try reflexivity. rewrite IH. reflexivity.
  Qed.

  Theorem kn_insert_sorted t x l : kn_sorted t l -> kn_sorted t ((@kn_insert D tb) t x l).
  Proof.
    rewrite kn_insert_ins.
    apply (ins_sorted _ _ (kcmp_antisym t) (kcmp_trans t) (kcmp_eq_l t)).
  Qed.

  (* membership after an insert: x itself, plus the old elements with a different key *)
  Theorem kn_insert_in t x l y :
    kn_sorted t l ->
    (In y ((@kn_insert D tb) t x l) <-> y = x \/ (In y l /\ ~ same_key y x)).
  Proof.
    intros Hs. rewrite kn_insert_ins.
    rewrite (ins_in _ _ (kcmp_antisym t) (kcmp_trans t) (kcmp_eq_l t) x l y Hs).
    rewrite (kcmp_eq_same_key t y x). reflexivity.
  Qed.

  Theorem kn_push_sorted t k x l : kn_sorted t l -> kn_sorted t ((@kn_push D tb) t k l x).
  Proof.
    intros Hs. unfold kn_push. apply (srt_firstn _ (kcmp t)).
    apply kn_insert_sorted. exact Hs.
  Qed.

  Theorem kn_push_length t k x l : (length ((@kn_push D tb) t k l x) <= k)%nat.
  Proof. unfold kn_push. apply firstn_le_length. Qed.

  (* the untrimmed container: every push inserted, nothing evicted *)
  Definition kn_all (t : N) (pushes : list kelem) : list kelem :=
    fold_left (fun l x => (@kn_insert D tb) t x l) pushes [].

  Definition kn_run (t : N) (k : nat) (pushes : list kelem) : list kelem :=
    fold_left ((@kn_push D tb) t k) pushes [].

  Lemma kn_all_snoc t p x : kn_all t (p ++ [x]) = (@kn_insert D tb) t x (kn_all t p).
  Proof. unfold kn_all. rewrite fold_left_app. reflexivity. Qed.

  Lemma kn_run_snoc t k p x : kn_run t k (p ++ [x]) = (@kn_push D tb) t k (kn_run t k p) x.
  Proof. unfold kn_run. rewrite fold_left_app. reflexivity. Qed.

  Theorem kn_all_sorted t pushes : kn_sorted t (kn_all t pushes).
  Proof.
    induction pushes as [|x p IH] using rev_ind.
    - constructor.
    - rewrite kn_all_snoc. apply kn_insert_sorted. exact IH.
  Qed.

  (* kn_all holds exactly the last push of every key *)
  Theorem kn_all_in t pushes y :
    In y (kn_all t pushes) <->
    exists l1 l2, pushes = l1 ++ y :: l2 /\ forall z, In z l2 -> ~ same_key z y.
  Proof.
    induction pushes as [|x p IH] using rev_ind.
    - simpl. split; [intros []|]. intros [l1 [l2 [H _]]]. destruct l1; discriminate H.
    - rewrite kn_all_snoc, (kn_insert_in t x _ y (kn_all_sorted t p)), IH. split.
      + intros [->|[[l1 [l2 [-> Hl2]]] Hk]].
        * exists p, []. split; [reflexivity|]. intros z [].
        * exists l1, (l2 ++ [x]). split; [rewrite <- app_assoc; reflexivity|].
          intros z Hz Hzy. apply in_app_or in Hz. destruct Hz as [Hz|[Hz|[]]].
          -- exact (Hl2 z Hz Hzy).
          -- subst z. apply Hk. destruct Hzy as [Hi Ha]. split; symmetry; assumption.
      + intros [l1 [l2 [Heq Hl2]]].
        destruct l2 as [|w l2] using rev_ind.
        * apply app_inj_tail in Heq. destruct Heq as [_ Heq]. left. symmetry. exact Heq.
        * clear IHl2. right.
          change (l1 ++ y :: l2 ++ [w]) with (l1 ++ (y :: l2) ++ [w]) in Heq.
          rewrite app_assoc in Heq. apply app_inj_tail in Heq. destruct Heq as [-> ->].
          split.
          -- exists l1, l2. split; [reflexivity|]. intros z Hz. apply Hl2.
             apply in_or_app. left. exact Hz.
          -- intros [Hi Ha]. apply (Hl2 w).
             ++ apply in_or_app. right. left. reflexivity.
             ++ split; symmetry; assumption.
  Qed.

  (* trimming commutes with inserting: the container always equals the first k of the
     sorted, de-duplicated pushes *)
  Lemma firstn_insert_firstn t k x l :
    kn_sorted t l ->
    firstn k ((@kn_insert D tb) t x (firstn k l)) = firstn k ((@kn_insert D tb) t x l).
  Proof. intros _. rewrite !kn_insert_ins. apply firstn_ins_firstn. Qed.

  Theorem kn_run_spec t k pushes : kn_run t k pushes = firstn k (kn_all t pushes).
  Proof.
    induction pushes as [|x p IH] using rev_ind.
    - destruct k; reflexivity.
    - rewrite kn_run_snoc, kn_all_snoc, IH. unfold kn_push.
      apply firstn_insert_firstn. apply kn_all_sorted.
  Qed.

  (* "retains exactly the K nearest, in distance order" *)
  Theorem kn_run_nearest t k pushes m e :
    In m (kn_run t k pushes) -> In e (kn_all t pushes) -> ~ In e (kn_run t k pushes) ->
    kcmp t m e = Lt /\ (dist (k_id m) t <= dist (k_id e) t)%N.
  Proof.
    rewrite kn_run_spec. intros Hm He Hne.
    assert (Hlt : kcmp t m e = Lt).
    { apply (srt_app _ (kcmp t) (firstn k (kn_all t pushes)) (skipn k (kn_all t pushes))).
      - rewrite firstn_skipn. apply kn_all_sorted.
      - exact Hm.
      - rewrite <- (firstn_skipn k (kn_all t pushes)) in He.
        apply in_app_or in He. destruct He as [He|He]; [contradiction|exact He]. }
    split; [exact Hlt|]. apply kcmp_lt_dist. exact Hlt.
  Qed.

  Theorem kn_run_sorted_by_distance t k pushes :
    StronglySorted (fun a b => (dist (k_id a) t <= dist (k_id b) t)%N) (kn_run t k pushes).
  Proof.
    rewrite kn_run_spec.
    assert (Hs : kn_sorted t (firstn k (kn_all t pushes)))
      by (apply (srt_firstn _ (kcmp t)); apply kn_all_sorted).
    induction Hs as [|a l Hl IH Ha]; constructor; [exact IH|].
    apply Forall_forall. intros z Hz. apply kcmp_lt_dist.
    rewrite Forall_forall in Ha. apply Ha. exact Hz.
  Qed.

  Theorem kn_run_length t k pushes :
    length (kn_run t k pushes) = Nat.min k (length (kn_all t pushes)).
  Proof. rewrite kn_run_spec. apply firstn_length. Qed.
End KN.

(* ---------- axiom audit ---------- *)
Print Assumptions closer_cmp_trans.
Print Assumptions closer_cmp_eq.
Print Assumptions closer_than_total.
Print Assumptions ss_add_in.
Print Assumptions ss_delete_in.
Print Assumptions ss_next_min.
Print Assumptions kn_run_spec.
Print Assumptions kn_run_nearest.
Print Assumptions kn_run_sorted_by_distance.
Print Assumptions kn_run_length.
