(* ServerHook.v — the harness event `hookrel` (blocked OnAnnouncePeer calls of the application
   return) is replayed on the model as [EAdvance 0]: the model's announce step has already delivered
   the callback AND the store update, independently of each other, so the return of the hook is not
   an event of the node at all.  This file proves that the replayed event is the identity. *)
From Dht Require Import Base Int160 Msg Server.
From DhtGen Require Import Params.
Local Open Scope Z_scope.

Section Hook.
  Variable Store : Type.
  Variable w_put : Store -> witem -> Z -> Store * put_result.
  Variable w_get : Store -> bytes -> Z -> Store * get_result.
  Variable sha1 : bytes -> bytes.
  Variable id_secure : N -> bytes -> bool.
  Variable cfg : config.

  Notation step := (step Store w_put w_get sha1 id_secure cfg).

  (* no effect, no state change, whatever the state and the (ignored) choice *)
  Lemma step_advance_zero_noop (s : sstate Store) (ch : choice) :
    step s (EAdvance 0) ch = SR Store s [].
  Proof.
    destruct s; unfold Server.step; cbn -[Z.add].
    rewrite Z.add_0_r. reflexivity.
  Qed.

  (* hence any number of releases anywhere in a history leaves the state where it was *)
  Lemma step_advance_zero_iter (s : sstate Store) (chs : list choice) :
    fold_left (fun st ch => match st with
                            | SR _ s' _ => step s' (EAdvance 0) ch
                            | other => other
                            end) chs (SR Store s []) = SR Store s [].
  Proof.
    induction chs as [|ch chs IH]; [reflexivity|].
    cbn [fold_left]. rewrite step_advance_zero_noop. exact IH.
  Qed.
End Hook.
