(* ServerBytes.v — the codec slice (Krpc.v: bytes -> message) composed with the server slice
   (Server.v: event -> step): what processPacket does with the raw datagram.

     if len(b) < 2 || b[0] != 'd' { return }          pre_check
     err := bencode.Unmarshal(b, &d)                   decode_msg_fixed
     ErrUnusedTrailingBytes: the message is used; any other error: return

   [packet_of_bytes src b] is the event the serve loop hands to the locked section for the datagram
   b read from src.  The theorems of ServerInv2.v / ServerC08.v, which quantify over an abstract
   `dec : option msg` restricted by wf_msg_in, are restated here over ALL byte strings: the
   well-formedness hypothesis is discharged by a theorem about the decoder.

   The codec's own well-formedness theorem (decode_xmsg_wf / C15_decode_wf) carries a bound on the
   input length (the decoder's string limit); the four id widths wf_msg_in asks for do not depend on
   it, so they are proved here from the decoder's definition without any bound (first part). *)
From Coq Require Import String.
From Dht Require Import Base Int160 Msg Compact Bencode Krpc.
From Dht Require Import BencodeProofs KrpcProofs KrpcRecProofs KrpcRtProofs KrpcWfProofs CodecProofs.
From Dht Require Import Server ServerDefs ServerInv ServerInv2 ServerC08.
From DhtGen Require Import Params KrpcSchema.
From Coq Require Import Lia Arith.
Close Scope string_scope.

(* ================================================================================================
   Part 1 — every id the decoder stores is exactly 20 bytes wide (no bound on the input)
   ================================================================================================ *)
Definition len20 (s : bytes) : bool := Nat.eqb (length s) 20.

(* the field-level fact: a value of kind KId (krpc.ID, int160 ids) is a 20-byte string *)
Definition idk (k : kind) (fv : fval) : bool :=
  match k with
  | KId => match fv with FStr s => len20 s | _ => false end
  | _ => true
  end.

Definition ids_args (a : msg_args) : bool := len20 (a_id a) && len20 (a_info_hash a) && len20 (a_target a).
Definition ids_ret (r : krpc_return) : bool := len20 (r_id r).

Definition idk_msg (k : kind) (fv : fval) : bool :=
  match k with
  | KPtrStruct _ =>
      match fv with
      | FArgs (Some xa) => ids_args (fst xa)
      | FRet (Some xr) => ids_ret (fst xr)
      | _ => true
      end
  | _ => true
  end.

Lemma id_unmarshal_len20 raw s : id_unmarshal raw = Some s -> length s = 20%nat.
Proof.
  unfold id_unmarshal. destruct (unmarshal_exact GStr raw) as [g|]; [|discriminate].
  destruct (conv_str g) as [s0|]; [|discriminate].
  destruct (Nat.ltb_spec (length s0) 20) as [Hlt|Hge]; [discriminate|]. intros E.
  assert (E' : s = firstn 20 s0) by congruence. rewrite E'. apply firstn_length_le. exact Hge.
Qed.

Lemma conv_kind_idk ni k v fv : conv_kind ni k v = COk fv -> idk k fv = true.
Proof.
  destruct k; try (intros _; reflexivity).
  cbn [conv_kind idk]. intros Hc.
  apply obind_ok in Hc. destruct Hc as (raw & _ & E). apply obind_ok in E. destruct E as (s & Hs & E).
  injection E as <-. apply of_opt_ok in Hs. unfold len20. apply Nat.eqb_eq. eapply id_unmarshal_len20. exact Hs.
Qed.

Lemma argsF_zero_idk fd : In fd argsF -> idk (f_kind fd) (zero_fval (f_kind fd)) = true.
Proof. intros H. unfold argsF in H. each_in H ltac:(vm_compute; reflexivity). Qed.
Lemma retF_zero_idk fd : In fd retF -> idk (f_kind fd) (zero_fval (f_kind fd)) = true.
Proof. intros H. unfold retF in H. each_in H ltac:(vm_compute; reflexivity). Qed.
Lemma msgF_zero_idk fd : In fd msgF -> idk_msg (f_kind fd) (zero_fval (f_kind fd)) = true.
Proof. intros H. unfold msgF in H. each_in H ltac:(vm_compute; reflexivity). Qed.

(* the fields of the generated schema that hold ids *)
Definition fd_args_id : field := mkField nm_ID ["i"; "d"]%byte false KId.
Definition fd_args_info_hash : field := mkField nm_InfoHash ["i"; "n"; "f"; "o"; "_"; "h"; "a"; "s"; "h"]%byte true KId.
Definition fd_args_target : field := mkField nm_Target ["t"; "a"; "r"; "g"; "e"; "t"]%byte true KId.
Definition fd_ret_id : field := mkField nm_ID ["i"; "d"]%byte false KId.
Definition fd_msg_a : field := mkField nm_A ["a"]%byte true (KPtrStruct nm_MsgArgs).
Definition fd_msg_r : field := mkField nm_R ["r"]%byte true (KPtrStruct nm_Return).

Lemma id_fields_in_schema :
  In fd_args_id argsF /\ In fd_args_info_hash argsF /\ In fd_args_target argsF /\
  In fd_ret_id retF /\ In fd_msg_a msgF /\ In fd_msg_r msgF.
Proof. repeat split; [unfold argsF | unfold argsF | unfold argsF | unfold retF | unfold msgF | unfold msgF]; in_literal. Qed.

Section Ids.
  Variable ni : bytes -> cresult node_info.
  Variable N : nat.       (* a bound on the length of the input: any *)

  Lemma conv_args_ids fs x :
    fields_ok N SArgs fs -> conv_fields SArgs (conv_kind ni) set_args fs empty_xargs = COk x ->
    ids_args (fst x) = true.
  Proof.
    intros Hfs Hc.
    destruct (conv_fields_wf N SArgs get_args set_args (conv_kind ni) idk inv_args argsF
                (in_schema_F SArgs argsF argsF_eq) argsF_nodup) with (fs := fs) (acc := empty_xargs) (x := x) as (Hw & _).
    all: try assumption.
    - intros fd fv acc acc' Hin. apply args_set_ok. exact Hin.
    - intros fd t v fv _ _ _. apply conv_kind_idk.
    - intros fd Hin. exists (zero_fval (f_kind fd)). split; [apply argsF_zero; exact Hin | apply argsF_zero_idk; exact Hin].
    - unfold inv_args. reflexivity.
    - destruct id_fields_in_schema as (I1 & I2 & I3 & _).
      destruct x as [a nn]. cbn [fst].
      destruct (Hw _ I1) as (fv1 & G1 & K1). destruct (Hw _ I2) as (fv2 & G2 & K2).
      destruct (Hw _ I3) as (fv3 & G3 & K3).
      change (get_args (f_name fd_args_id) (a, nn)) with (Some (FStr (a_id a))) in G1.
      change (get_args (f_name fd_args_info_hash) (a, nn)) with (Some (FStr (a_info_hash a))) in G2.
      change (get_args (f_name fd_args_target) (a, nn)) with (Some (FStr (a_target a))) in G3.
      injection G1 as <-. injection G2 as <-. injection G3 as <-.
      cbn [idk fd_args_id fd_args_info_hash fd_args_target f_kind] in K1, K2, K3.
      unfold ids_args. rewrite K1, K2, K3. reflexivity.
  Qed.

  Lemma conv_ret_ids fs x :
    fields_ok N SRet fs -> conv_fields SRet (conv_kind ni) set_ret fs empty_xret = COk x ->
    ids_ret (fst x) = true.
  Proof.
    intros Hfs Hc.
    destruct (conv_fields_wf N SRet get_ret set_ret (conv_kind ni) idk inv_ret retF
                (in_schema_F SRet retF retF_eq) retF_nodup) with (fs := fs) (acc := empty_xret) (x := x) as (Hw & _).
    all: try assumption.
    - intros fd fv acc acc' Hin. apply ret_set_ok. exact Hin.
    - intros fd t v fv _ _ _. apply conv_kind_idk.
    - intros fd Hin. exists (zero_fval (f_kind fd)). split; [apply retF_zero; exact Hin | apply retF_zero_idk; exact Hin].
    - unfold inv_ret. reflexivity.
    - destruct id_fields_in_schema as (_ & _ & _ & I4 & _).
      destruct x as [r nn]. cbn [fst].
      destruct (Hw _ I4) as (fv1 & G1 & K1).
      change (get_ret (f_name fd_ret_id) (r, nn)) with (Some (FStr (r_id r))) in G1. injection G1 as <-.
      cbn [idk fd_ret_id f_kind] in K1. exact K1.
  Qed.

  Lemma msg_conv_idk fd t v fv :
    In fd msgF -> ty_of_kind (f_kind fd) = Some t -> tv_ok N t v ->
    conv_kind_msg ni (f_kind fd) v = COk fv -> idk_msg (f_kind fd) fv = true.
  Proof.
    intros _ Ht Hv Hc.
    destruct (f_kind fd) eqn:Ek; try reflexivity.
    match goal with H : ty_of_kind (KPtrStruct ?n) = _ |- _ => rename n into sn end.
    cbn [ty_of_kind conv_kind_msg idk_msg] in *.
    destruct (sid_of_name sn) as [[| |]|] eqn:Es; try discriminate; injection Ht as <-;
      inversion Hv; subst; try (exfalso; eapply H; reflexivity);
      try (match goal with H : _ \/ _ |- _ => destruct H; discriminate end).
    - apply obind_ok in Hc. destruct Hc as (xa & Ha & E). injection E as <-.
      unfold conv_args in Ha. eapply conv_args_ids; eassumption.
    - apply obind_ok in Hc. destruct Hc as (xr & Hr & E). injection E as <-.
      unfold conv_ret in Hr. eapply conv_ret_ids; eassumption.
  Qed.

  Lemma conv_msg_ids fs x :
    fields_ok N SMsg fs -> conv_fields SMsg (conv_kind_msg ni) set_msg fs empty_xmsg = COk x ->
    (forall a, m_a (x_msg x) = Some a -> ids_args a = true) /\
    (forall r, m_r (x_msg x) = Some r -> ids_ret r = true).
  Proof.
    intros Hfs Hc.
    destruct (conv_fields_wf N SMsg get_msg set_msg (conv_kind_msg ni) idk_msg inv_msg msgF
                (in_schema_F SMsg msgF msgF_eq) msgF_nodup) with (fs := fs) (acc := empty_xmsg) (x := x) as (Hw & _).
    all: try assumption.
    - intros fd fv acc acc' Hin. apply msg_set_ok. exact Hin.
    - intros fd t v fv Hin. apply msg_conv_idk. exact Hin.
    - intros fd Hin. exists (zero_fval (f_kind fd)). split; [apply msgF_zero; exact Hin | apply msgF_zero_idk; exact Hin].
    - unfold inv_msg. split; reflexivity.
    - destruct id_fields_in_schema as (_ & _ & _ & _ & I5 & I6).
      destruct (Hw _ I5) as (fv1 & G1 & K1). destruct (Hw _ I6) as (fv2 & G2 & K2).
      change (get_msg (f_name fd_msg_a) x) with
        (Some (FArgs (option_map (fun a => (a, x_salt_nn x)) (m_a (x_msg x))))) in G1.
      change (get_msg (f_name fd_msg_r) x) with
        (Some (FRet (option_map (fun r => (r, x_rv_nn x)) (m_r (x_msg x))))) in G2.
      injection G1 as <-. injection G2 as <-.
      cbn [idk_msg fd_msg_a fd_msg_r f_kind] in K1, K2.
      split.
      + intros a Ea. rewrite Ea in K1. exact K1.
      + intros r Er. rewrite Er in K2. exact K2.
  Qed.

  Theorem decode_xmsg_ids b x :
    (length b <= N)%nat ->
    decode_xmsg ni b = DOk x \/ (exists n, decode_xmsg ni b = DOkTrailing x n) ->
    (forall a, m_a (x_msg x) = Some a -> ids_args a = true) /\
    (forall r, m_r (x_msg x) = Some r -> ids_ret r = true).
  Proof.
    intros Hb H. unfold decode_xmsg in H.
    destruct (parse_ty (length b) (GStruct SMsg) false b) as [[[v rest] d]|] eqn:P;
      [|destruct H as [H|(n & H)]; discriminate].
    destruct (proj1 (parse_ok N (length b)) _ _ _ _ _ _ Hb P) as (Hv & _).
    destruct (conv_msg ni v) as [x'| |] eqn:C; try (destruct H as [H|(n & H)]; discriminate).
    assert (x' = x) by (destruct rest; destruct H as [H|(n & H)]; congruence). subst x'.
    inversion Hv; subst; try (exfalso; eapply H0; reflexivity);
      try (match goal with H1 : _ \/ _ |- _ => destruct H1; discriminate end).
    unfold conv_msg in C. apply (conv_msg_ids fs x); assumption.
  Qed.
End Ids.

(* ================================================================================================
   Part 2 — processPacket's front end: pre-check, Unmarshal, trailing bytes tolerated
   ================================================================================================ *)
(* len(b) >= 2 && b[0] == 'd' *)
Definition pre_check (b : bytes) : bool :=
  match b with
  | c :: _ :: _ => byte_eqb c ch_d
  | _ => false
  end.

(* the krpc.Msg handed to the locked section of processPacket, None when the datagram is dropped *)
Definition decoded (b : bytes) : option msg :=
  if pre_check b then
    match decode_msg_fixed b with
    | DOk m => Some m
    | DOkTrailing m _ => Some m       (* ErrUnusedTrailingBytes: the message is used *)
    | DReject => None
    | DPanic => None                  (* never: decode_msg_fixed_no_panic *)
    end
  else None.

Definition packet_of_bytes (src : addr) (b : bytes) : event :=
  EPacket src (N.of_nat (length b)) (decoded b).

(* dropped before the lock is taken: not a dictionary of at least 2 bytes, or an Unmarshal error other
   than unused trailing bytes *)
Definition undecodable (b : bytes) : Prop := pre_check b = false \/ decode_msg_fixed b = DReject.

Definition ascii_bytes (s : string) : bytes := String.list_byte_of_string s.
Arguments ascii_bytes s%string.

Lemma pre_check_spec b :
  pre_check b = true <-> (2 <= length b)%nat /\ nth_error b 0 = Some ch_d.
Proof.
  destruct b as [|c [|c2 b]]; cbn [pre_check length nth_error].
  - split; [discriminate | intros [H _]; lia].
  - split; [discriminate | intros [H _]; lia].
  - rewrite byte_eqb_eq. split.
    + intros ->. split; [lia | reflexivity].
    + intros [_ H]. congruence.
Qed.

Lemma decoded_some_iff b m :
  decoded b = Some m <->
  pre_check b = true /\ (decode_msg_fixed b = DOk m \/ exists n, decode_msg_fixed b = DOkTrailing m n).
Proof.
  unfold decoded. destruct (pre_check b).
  - destruct (decode_msg_fixed b) as [m'|m' n| |]; split.
    + intros [= <-]. split; [reflexivity | left; reflexivity].
    + intros [_ [H|(n & H)]]; congruence.
    + intros [= <-]. split; [reflexivity | right; exists n; reflexivity].
    + intros [_ [H|(n' & H)]]; congruence.
    + discriminate.
    + intros [_ [H|(n' & H)]]; discriminate.
    + discriminate.
    + intros [_ [H|(n' & H)]]; discriminate.
  - split; [discriminate | intros [H _]; discriminate].
Qed.

Lemma decoded_none_iff b : decoded b = None <-> undecodable b.
Proof.
  unfold decoded, undecodable. destruct (pre_check b).
  - pose proof (decode_msg_fixed_no_panic b) as Hnp.
    destruct (decode_msg_fixed b) as [m'|m' n| |]; split; intros H;
      first [discriminate H | (right; reflexivity) | (destruct H as [H|H]; discriminate H)
            | reflexivity | (exfalso; apply Hnp; reflexivity)].
  - split; [intros _; left; reflexivity | reflexivity].
Qed.

(* ---- what the decoder produces is what the server proofs assume of a decoded message ---- *)
Theorem decoded_wf_msg_in b m :
  decode_msg_fixed b = DOk m \/ (exists n, decode_msg_fixed b = DOkTrailing m n) -> wf_msg_in m.
Proof.
  intros Hd.
  assert (Hx : exists x, x_msg x = m /\
                 (decode_xmsg_fixed b = DOk x \/ exists n, decode_xmsg_fixed b = DOkTrailing x n)).
  { unfold decode_msg_fixed, decode_msg in Hd. fold decode_xmsg_fixed in Hd.
    destruct (decode_xmsg_fixed b) as [x|x n| |]; destruct Hd as [Hd|(n' & Hd)]; try discriminate.
    - injection Hd as <-. exists x. split; [reflexivity | left; reflexivity].
    - injection Hd as <- <-. exists x. split; [reflexivity | right; exists n; reflexivity]. }
  destruct Hx as (x & <- & Hdx).
  destruct (decode_xmsg_ids nodeinfo_unmarshal (length b) b x (le_n _) Hdx) as (Ha & Hr).
  split.
  - intros a Ea. specialize (Ha a Ea). unfold ids_args, len20 in Ha.
    apply andb_prop in Ha. destruct Ha as [Ha H3]. apply andb_prop in Ha. destruct Ha as [H1 H2].
    apply Nat.eqb_eq in H1, H2, H3. repeat split; assumption.
  - intros r Er. specialize (Hr r Er). unfold ids_ret, len20 in Hr. apply Nat.eqb_eq in Hr. exact Hr.
Qed.

Corollary decoded_wf b m : decoded b = Some m -> wf_msg_in m.
Proof. intros H. apply decoded_some_iff in H. destruct H as [_ H]. exact (decoded_wf_msg_in b m H). Qed.

(* the bounded form follows from the codec's own theorem as well (C15_decode_wf): kept as a cross-check
   that the two notions of well-formedness agree on the four id widths *)
Lemma wf_xmsg_ids x : wf_xmsg x -> wf_msg_in (x_msg x).
Proof.
  unfold wf_xmsg, wf_xmsgb. intros H. apply andb_prop in H. destruct H as [H _]. apply andb_prop in H. destruct H as [Hs _].
  destruct id_fields_in_schema as (I1 & I2 & I3 & I4 & I5 & I6).
  assert (S5 : In fd_msg_a (schema_of SMsg)) by (cbn [schema_of]; unfold msg_schema; in_literal).
  assert (S6 : In fd_msg_r (schema_of SMsg)) by (cbn [schema_of]; unfold msg_schema; in_literal).
  destruct (wf_struct_in SMsg get_msg wf_fieldb_msg _ _ Hs S5) as (fv5 & G5 & W5).
  destruct (wf_struct_in SMsg get_msg wf_fieldb_msg _ _ Hs S6) as (fv6 & G6 & W6).
  change (get_msg (f_name fd_msg_a) x) with
    (Some (FArgs (option_map (fun a => (a, x_salt_nn x)) (m_a (x_msg x))))) in G5.
  change (get_msg (f_name fd_msg_r) x) with
    (Some (FRet (option_map (fun r => (r, x_rv_nn x)) (m_r (x_msg x))))) in G6.
  injection G5 as <-. injection G6 as <-.
  split.
  - intros a Ea. rewrite Ea in W5. cbn [option_map] in W5.
    change (wf_xargsb (a, x_salt_nn x) = true) in W5. unfold wf_xargsb in W5.
    apply andb_prop in W5. destruct W5 as [Wa _].
    assert (S1 : In fd_args_id (schema_of SArgs)) by (cbn [schema_of]; unfold args_schema; in_literal).
    assert (S2 : In fd_args_info_hash (schema_of SArgs)) by (cbn [schema_of]; unfold args_schema; in_literal).
    assert (S3 : In fd_args_target (schema_of SArgs)) by (cbn [schema_of]; unfold args_schema; in_literal).
    destruct (wf_struct_in SArgs get_args wf_fieldb _ _ Wa S1) as (fv1 & G1 & W1).
    destruct (wf_struct_in SArgs get_args wf_fieldb _ _ Wa S2) as (fv2 & G2 & W2).
    destruct (wf_struct_in SArgs get_args wf_fieldb _ _ Wa S3) as (fv3 & G3 & W3).
    change (get_args (f_name fd_args_id) (a, x_salt_nn x)) with (Some (FStr (a_id a))) in G1.
    change (get_args (f_name fd_args_info_hash) (a, x_salt_nn x)) with (Some (FStr (a_info_hash a))) in G2.
    change (get_args (f_name fd_args_target) (a, x_salt_nn x)) with (Some (FStr (a_target a))) in G3.
    injection G1 as <-. injection G2 as <-. injection G3 as <-.
    cbn [wf_fieldb fd_args_id fd_args_info_hash fd_args_target f_kind] in W1, W2, W3.
    apply Nat.eqb_eq in W1, W2, W3. repeat split; assumption.
  - intros r Er. rewrite Er in W6. cbn [option_map] in W6.
    change (wf_xretb (r, x_rv_nn x) = true) in W6. unfold wf_xretb in W6.
    apply andb_prop in W6. destruct W6 as [Wr _].
    assert (S4 : In fd_ret_id (schema_of SRet)) by (cbn [schema_of]; unfold return_schema; in_literal).
    destruct (wf_struct_in SRet get_ret wf_fieldb _ _ Wr S4) as (fv4 & G4 & W4).
    change (get_ret (f_name fd_ret_id) (r, x_rv_nn x)) with (Some (FStr (r_id r))) in G4.
    injection G4 as <-. cbn [wf_fieldb fd_ret_id f_kind] in W4. apply Nat.eqb_eq in W4. exact W4.
Qed.

Theorem packet_of_bytes_wf src b : wf_addr src -> wf_event (packet_of_bytes src b).
Proof.
  intros Hs. unfold packet_of_bytes. cbn [wf_event].
  destruct (decoded b) as [m|] eqn:D; [|exact Hs]. split; [exact Hs | exact (decoded_wf b m D)].
Qed.

(* ================================================================================================
   Part 3 — the server theorems over raw datagrams, for every instance of the Section parameters
   ================================================================================================ *)
Section ServerBytes.
  Variable Store : Type.
  Variable w_put : Store -> witem -> Z -> Store * put_result.
  Variable w_get : Store -> bytes -> Z -> Store * get_result.
  Variable sha1 : bytes -> bytes.
  Variable id_secure : N -> bytes -> bool.
  Variable cfg : config.

  Notation sstate := (sstate Store).
  Notation step := (step Store w_put w_get sha1 id_secure cfg).
  Notation step_result := (step_result Store).
  Notation run := (run Store w_put w_get sha1 id_secure cfg).
  Notation reachable := (reachable Store w_put w_get sha1 id_secure cfg).
  Notation wf_cfg := (wf_cfg cfg).
  Notation wf_store_get := (wf_store_get Store w_get).
  Notation SR := (SR Store).
  Notation SRPanic := (SRPanic Store).
  Notation SRBadChoice := (SRBadChoice Store).

  (* ---------------------------------------------------------------- C01: no panic, any bytes *)
  Theorem C01_total_bytes s src :
    wf_cfg -> wf_store_get -> reachable s -> wf_addr src ->
    forall (b : bytes) ch, step s (packet_of_bytes src b) ch <> SRPanic.
  Proof.
    intros Hc Hg Hr Hs b ch.
    apply (ServerInv2.C01_total Store w_put w_get sha1 id_secure cfg s (packet_of_bytes src b) Hc Hg Hr).
    apply packet_of_bytes_wf. exact Hs.
  Qed.

  (* [run] with the reason it stopped: the state after the longest prefix all of whose steps were
     accepted, the outputs of that prefix, and the result of the step that was not (None: none) *)
  Fixpoint run_trace (s : sstate) (evs : list (event * choice))
    : sstate * list (list effect) * option step_result :=
    match evs with
    | [] => (s, [], None)
    | (e, ch) :: r =>
        match step s e ch with
        | Server.SR _ s' out =>
            let '(s'', outs, stop) := run_trace s' r in (s'', out :: outs, stop)
        | bad => (s, [], Some bad)
        end
    end.

  Lemma run_trace_spec evs : forall s s1 outs1 stop,
    run_trace s evs = (s1, outs1, stop) ->
    run s (firstn (length outs1) evs) = Some (s1, outs1) /\
    match stop with
    | None => length outs1 = length evs /\ run s evs = Some (s1, outs1)
    | Some r => (exists e ch, nth_error evs (length outs1) = Some (e, ch) /\ step s1 e ch = r) /\
                (forall s' o, r <> SR s' o) /\ run s evs = None
    end.
  Proof.
    induction evs as [|[e ch] evs IH]; intros s s1 outs1 stop; cbn [run_trace].
    - intros [= <- <- <-]. cbn. repeat split.
    - destruct (Server.step _ _ _ _ _ _ s e ch) as [s' out| |] eqn:Hs.
      + destruct (run_trace s' evs) as [[s2 outs2] stop2] eqn:Ht. intros [= <- <- <-].
        destruct (IH _ _ _ _ Ht) as (Hp & Hstop). cbn [length firstn ServerDefs.run nth_error]. rewrite Hs, Hp.
        split; [reflexivity|]. destruct stop2 as [r|].
        * destruct Hstop as (He & Hn & Hrun). rewrite Hrun. repeat split; assumption.
        * destruct Hstop as (Hl & Hrun). rewrite Hrun, Hl. split; reflexivity.
      + intros [= <- <- <-]. cbn [length firstn ServerDefs.run nth_error]. rewrite Hs.
        split; [reflexivity|]. split; [exists e, ch; split; [reflexivity | exact Hs]|]. split; [discriminate | reflexivity].
      + intros [= <- <- <-]. cbn [length firstn ServerDefs.run nth_error]. rewrite Hs.
        split; [reflexivity|]. split; [exists e, ch; split; [reflexivity | exact Hs]|]. split; [discriminate | reflexivity].
  Qed.

  (* any history of well-formed events: only a rejected choice can stop it *)
  Lemma history_total evs : forall s,
    wf_cfg -> wf_store_get -> reachable s -> Forall (fun ec => wf_event (fst ec)) evs ->
    forall s1 outs1 stop, run_trace s evs = (s1, outs1, stop) ->
    reachable s1 /\ (stop = None \/ stop = Some SRBadChoice).
  Proof.
    induction evs as [|[e ch] evs IH]; intros s Hc Hg Hr Hwf s1 outs1 stop; cbn [run_trace].
    - intros [= <- <- <-]. split; [exact Hr | left; reflexivity].
    - inversion Hwf as [|? ? Hw Hwf']; subst. cbn [fst] in Hw.
      pose proof (ServerInv2.C01_total Store w_put w_get sha1 id_secure cfg s e Hc Hg Hr Hw ch) as Hnp.
      destruct (Server.step _ _ _ _ _ _ s e ch) as [s' out| |] eqn:Hs.
      + destruct (run_trace s' evs) as [[s2 outs2] stop2] eqn:Ht. intros [= <- <- <-].
        assert (Hr' : reachable s') by (eapply reach_step; eassumption).
        exact (IH s' Hc Hg Hr' Hwf' s2 outs2 stop2 Ht).
      + exfalso. apply Hnp. reflexivity.
      + intros [= <- <- <-]. split; [exact Hr | right; reflexivity].
  Qed.

  Lemma Forall_prefix {A} (P : A -> Prop) k : forall l, Forall P l -> Forall P (firstn k l).
  Proof.
    induction k as [|k IH]; intros l H; [constructor|].
    destruct H as [|x l Hx Hl]; cbn [firstn]; constructor; [exact Hx | apply IH; exact Hl].
  Qed.

  (* a history of datagrams: who sent it, its bytes, and what the implementation chose *)
  Definition datagram := (addr * bytes * choice)%type.
  Definition dg_event (d : datagram) : event * choice :=
    (packet_of_bytes (fst (fst d)) (snd (fst d)), snd d).
  Definition dg_events (dgs : list datagram) : list (event * choice) := map dg_event dgs.
  Definition wf_datagram (d : datagram) : Prop := wf_addr (fst (fst d)).

  Lemma dg_events_wf dgs : Forall wf_datagram dgs -> Forall (fun ec => wf_event (fst ec)) (dg_events dgs).
  Proof.
    induction 1 as [|[[src b] ch] dgs Hd Hds IH]; cbn [dg_events map]; constructor; [|exact IH].
    cbn [dg_event fst snd]. apply packet_of_bytes_wf. exact Hd.
  Qed.

  (* For every finite list of datagrams (arbitrary bytes, any source the socket can report, any
     choices) fed to any reachable state:
     (1) every state reached after a prefix whose steps were all accepted is reachable — so
         C01_total_bytes applies to it again;
     (2) the run as a whole either goes through (stop = None, [run] = Some) or stops at the first step
         whose observed choice the model rejects (SRBadChoice), and [stop] is that very step's result;
         it never stops at SRPanic.  In particular [run] = None only because of a rejected choice. *)
  Theorem C01_history_bytes s (dgs : list datagram) :
    wf_cfg -> wf_store_get -> reachable s -> Forall wf_datagram dgs ->
    (forall k s1 outs1, run s (firstn k (dg_events dgs)) = Some (s1, outs1) -> reachable s1) /\
    (exists s1 outs1 stop,
       run_trace s (dg_events dgs) = (s1, outs1, stop) /\ reachable s1 /\
       run s (firstn (length outs1) (dg_events dgs)) = Some (s1, outs1) /\
       (stop = None \/ stop = Some SRBadChoice) /\ stop <> Some SRPanic /\
       (stop = None <-> run s (dg_events dgs) = Some (s1, outs1)) /\
       (stop = Some SRBadChoice <-> run s (dg_events dgs) = None) /\
       (forall r, stop = Some r ->
          exists src b ch, nth_error dgs (length outs1) = Some (src, b, ch) /\
                           step s1 (packet_of_bytes src b) ch = r)).
  Proof.
    intros Hc Hg Hr Hwf. pose proof (dg_events_wf dgs Hwf) as Hev. split.
    - intros k s1 outs1 Hrun.
      apply (ServerInv2.C01_run_reachable Store w_put w_get sha1 id_secure cfg _ s s1 outs1 Hr (Forall_prefix _ k _ Hev) Hrun).
    - destruct (run_trace s (dg_events dgs)) as [[s1 outs1] stop] eqn:Ht.
      exists s1, outs1, stop. split; [reflexivity|].
      destruct (history_total _ s Hc Hg Hr Hev _ _ _ Ht) as (Hr1 & Hstop).
      destruct (run_trace_spec _ _ _ _ _ Ht) as (Hp & Hsp).
      split; [exact Hr1|]. split; [exact Hp|]. split; [exact Hstop|].
      split; [destruct Hstop as [->| ->]; discriminate|].
      destruct Hstop as [->| ->].
      + destruct Hsp as (_ & Hrun). rewrite Hrun.
        split; [split; reflexivity|]. split; [split; discriminate | discriminate].
      + destruct Hsp as ((e & ch & Hn & He) & _ & Hrun). rewrite Hrun.
        split; [split; discriminate|]. split; [split; reflexivity|].
        intros r [= <-]. unfold dg_events in Hn. rewrite nth_error_map in Hn.
        destruct (nth_error dgs (length outs1)) as [[[src b] ch']|]; [|discriminate].
        cbn [option_map dg_event fst snd] in Hn. injection Hn as <- <-.
        exists src, b, ch'. split; [reflexivity | exact He].
  Qed.

  (* the same with datagrams interleaved with every other kind of (well-formed) event: API calls,
     clock advances, query starts and ends, blocklist updates, Close *)
  Inductive input := IDatagram (src : addr) (b : bytes) | IEvent (e : event).
  Definition input_event (i : input) : event :=
    match i with IDatagram src b => packet_of_bytes src b | IEvent e => e end.
  Definition wf_input (i : input) : Prop :=
    match i with IDatagram src _ => wf_addr src | IEvent e => wf_event e end.
  Definition in_events (ins : list (input * choice)) : list (event * choice) :=
    map (fun ic => (input_event (fst ic), snd ic)) ins.

  Theorem C01_history_mixed s (ins : list (input * choice)) :
    wf_cfg -> wf_store_get -> reachable s -> Forall (fun ic => wf_input (fst ic)) ins ->
    (forall k s1 outs1, run s (firstn k (in_events ins)) = Some (s1, outs1) -> reachable s1) /\
    (forall s1 outs1 stop, run_trace s (in_events ins) = (s1, outs1, stop) ->
       reachable s1 /\ (stop = None \/ stop = Some SRBadChoice) /\
       (stop = Some SRBadChoice <-> run s (in_events ins) = None)).
  Proof.
    intros Hc Hg Hr Hwf.
    assert (Hev : Forall (fun ec => wf_event (fst ec)) (in_events ins)).
    { clear -Hwf. induction Hwf as [|[i ch] ins Hi His IH]; cbn [in_events map]; constructor; [|exact IH].
      cbn [fst snd] in *. destruct i as [src b|e]; cbn [input_event wf_input] in *;
        [apply packet_of_bytes_wf; exact Hi | exact Hi]. }
    split.
    - intros k s1 outs1 Hrun.
      apply (ServerInv2.C01_run_reachable Store w_put w_get sha1 id_secure cfg _ s s1 outs1 Hr (Forall_prefix _ k _ Hev) Hrun).
    - intros s1 outs1 stop Ht.
      destruct (history_total _ s Hc Hg Hr Hev _ _ _ Ht) as (Hr1 & Hstop).
      destruct (run_trace_spec _ _ _ _ _ Ht) as (_ & Hsp).
      split; [exact Hr1|]. split; [exact Hstop|].
      destruct Hstop as [->| ->].
      + destruct Hsp as (_ & ->). split; discriminate.
      + destruct Hsp as (_ & _ & ->). split; reflexivity.
  Qed.

  (* ---------------------------------------------------------------- C01: serve-loop filters *)
  (* a datagram that fills the whole 64 KiB read buffer, or comes from port 0, is dropped before it
     is looked at: same state, no output, for every choice — whatever its content *)
  Theorem C01_oversize_and_port0_bytes s src (b : bytes) ch :
    N.of_nat (length b) = Z.to_N udp_buf \/ port src = 0%N ->
    step s (packet_of_bytes src b) ch = SR s [].
  Proof.
    intros H. unfold packet_of_bytes. cbn [Server.step].
    destruct H as [-> | ->].
    - rewrite N.eqb_refl. reflexivity.
    - destruct (N.eqb _ _); reflexivity.
  Qed.

  (* ---------------------------------------------------------------- C08 over raw datagrams *)
  Theorem C08_bytes s src (b : bytes) ch s' out :
    step s (packet_of_bytes src b) ch = SR s' out ->
    (forall d rm k, In (ESend d rm k) out ->
       d = src /\ exists m, decoded b = Some m /\ m_y m = s_q /\ m_t rm = m_t m) /\
    (length (sends out) <= 1)%nat.
  Proof.
    intros H. split.
    - intros d rm k Hin.
      exact (C08_dest_and_t Store w_put w_get sha1 id_secure cfg s src _ _ ch s' out d rm k H Hin).
    - exact (C08_at_most_one Store w_put w_get sha1 id_secure cfg s src _ _ ch s' out H).
  Qed.

  (* what is not a KRPC dictionary, or does not decode, has no effect at all, and no choice of the
     implementation is involved *)
  Theorem C08_bytes_undecodable_total s src (b : bytes) ch :
    undecodable b -> step s (packet_of_bytes src b) ch = SR s [].
  Proof.
    intros H. apply decoded_none_iff in H. unfold packet_of_bytes. rewrite H. cbn [Server.step].
    destruct (N.eqb _ _); [reflexivity|]. destruct (N.eqb _ _); [reflexivity|].
    destruct (s_closed Store s); [reflexivity|]. destruct (blocked _ _); reflexivity.
  Qed.

  Theorem C08_bytes_silent_on_undecodable s src (b : bytes) ch s' out :
    pre_check b = false \/ decode_msg_fixed b = DReject ->
    step s (packet_of_bytes src b) ch = SR s' out -> s' = s /\ out = [].
  Proof.
    intros H Hs. rewrite (C08_bytes_undecodable_total s src b ch H) in Hs.
    injection Hs as <- <-. split; reflexivity.
  Qed.
End ServerBytes.
