(* ServerBytes.v — the codec slice (Krpc.v: bytes -> message) composed with the server slice
   (Server.v: event -> step): what processPacket does with the raw datagram.

     if len(b) < 2 || b[0] != 'd' { return }          pre_check
     err := bencode.Unmarshal(b, &d)                   decode_msg_fixed
     ErrUnusedTrailingBytes: the message is used; any other error: return

   [packet_of_bytes src b] is the event the serve loop hands to the locked section for the datagram
   b read from src.  The theorems of ServerInv2.v / ServerC08.v, which quantify over an abstract
   `dec : option msg` restricted by wf_msg_in, are restated here over ALL byte strings: the
   well-formedness hypothesis is discharged by a theorem about the decoder.

   The codec's own well-formedness theorem (decode_xmsg_wf / C15_decode_wf) carries a bound on the
   input length (the decoder's string limit); the four id widths wf_msg_in asks for do not depend on
   it, so they are proved here from the decoder's definition without any bound (first part). *)
From Coq Require Import String.
From Dht Require Import Base Int160 Msg Compact Bencode Krpc.
From Dht Require Import BencodeProofs KrpcProofs KrpcRecProofs KrpcRtProofs KrpcWfProofs CodecProofs.
From Dht Require Import Server ServerDefs ServerInv ServerInv2 ServerC08.
From DhtGen Require Import Params KrpcSchema.
From Coq Require Import Lia Arith.
Close Scope string_scope.

(* ================================================================================================
   Part 1 — every id the decoder stores is exactly 20 bytes wide (no bound on the input)
   ================================================================================================ *)
Definition len20 (s : bytes) : bool := Nat.eqb (length s) 20.

(* the field-level fact: a value of kind KId (krpc.ID, int160 ids) is a 20-byte string *)
Definition idk (k : kind) (fv : fval) : bool :=
  match k with
  | KId => match fv with FStr s => len20 s | _ => false end
  | _ => true
  end.

Definition ids_args (a : msg_args) : bool := len20 (a_id a) && len20 (a_info_hash a) && len20 (a_target a).
Definition ids_ret (r : krpc_return) : bool := len20 (r_id r).

Definition idk_msg (k : kind) (fv : fval) : bool :=
  match k with
  | KPtrStruct _ =>
      match fv with
      | FArgs (Some xa) => ids_args (fst xa)
      | FRet (Some xr) => ids_ret (fst xr)
      | _ => true
      end
  | _ => true
  end.

Lemma conv_kind_idk ni k v fv : conv_kind ni k v = COk fv -> idk k fv = true.
Proof.
  destruct k; try (intros _; reflexivity).
  cbn [conv_kind idk]. intros Hc.
  apply obind_ok in Hc. destruct Hc as (raw & _ & E). apply obind_ok in E. destruct E as (s & Hs & E).
  injection E as <-. apply of_opt_ok in Hs. unfold len20. apply Nat.eqb_eq. eapply id_unmarshal_len. exact Hs.
Qed.

Lemma argsF_zero_idk fd : In fd argsF -> idk (f_kind fd) (zero_fval (f_kind fd)) = true.
Proof. intros H. unfold argsF in H. each_in H ltac:(vm_compute; reflexivity). Qed.
Lemma retF_zero_idk fd : In fd retF -> idk (f_kind fd) (zero_fval (f_kind fd)) = true.
Proof. intros H. unfold retF in H. each_in H ltac:(vm_compute; reflexivity). Qed.
Lemma msgF_zero_idk fd : In fd msgF -> idk_msg (f_kind fd) (zero_fval (f_kind fd)) = true.
Proof. intros H. unfold msgF in H. each_in H ltac:(vm_compute; reflexivity). Qed.

(* the fields of the generated schema that hold ids *)
Definition fd_args_id : field := mkField nm_ID ["i"; "d"]%byte false KId.
Definition fd_args_info_hash : field := mkField nm_InfoHash ["i"; "n"; "f"; "o"; "_"; "h"; "a"; "s"; "h"]%byte true KId.
Definition fd_args_target : field := mkField nm_Target ["t"; "a"; "r"; "g"; "e"; "t"]%byte true KId.
Definition fd_ret_id : field := mkField nm_ID ["i"; "d"]%byte false KId.
Definition fd_msg_a : field := mkField nm_A ["a"]%byte true (KPtrStruct nm_MsgArgs).
Definition fd_msg_r : field := mkField nm_R ["r"]%byte true (KPtrStruct nm_Return).

Lemma id_fields_in_schema :
  In fd_args_id argsF /\ In fd_args_info_hash argsF /\ In fd_args_target argsF /\
  In fd_ret_id retF /\ In fd_msg_a msgF /\ In fd_msg_r msgF.
Proof. repeat split; [unfold argsF | unfold argsF | unfold argsF | unfold retF | unfold msgF | unfold msgF]; in_literal. Qed.

Section Ids.
  Variable ni : bytes -> cresult node_info.
  Variable N : nat.       (* a bound on the length of the input: any *)

  Lemma conv_args_ids fs x :
    fields_ok N SArgs fs -> conv_fields SArgs (conv_kind ni) set_args fs empty_xargs = COk x ->
    ids_args (fst x) = true.
  Proof.
    intros Hfs Hc.
    destruct (conv_fields_wf N SArgs get_args set_args (conv_kind ni) idk inv_args argsF
                (in_schema_F SArgs argsF argsF_eq) argsF_nodup) with (fs := fs) (acc := empty_xargs) (x := x) as (Hw & _).
    all: try assumption.
    - intros fd fv acc acc' Hin. apply args_set_ok. exact Hin.
    - intros fd t v fv _ _ _. apply conv_kind_idk.
    - intros fd Hin. exists (zero_fval (f_kind fd)). split; [apply argsF_zero; exact Hin | apply argsF_zero_idk; exact Hin].
    - unfold inv_args. reflexivity.
    - destruct id_fields_in_schema as (I1 & I2 & I3 & _).
      destruct x as [a nn]. cbn [fst].
      destruct (Hw _ I1) as (fv1 & G1 & K1). vm_compute in G1. injection G1 as <-.
      destruct (Hw _ I2) as (fv2 & G2 & K2). vm_compute in G2. injection G2 as <-.
      destruct (Hw _ I3) as (fv3 & G3 & K3). vm_compute in G3. injection G3 as <-.
      cbn [idk fd_args_id fd_args_info_hash fd_args_target f_kind] in K1, K2, K3.
      unfold ids_args. rewrite K1, K2, K3. reflexivity.
  Qed.

  Lemma conv_ret_ids fs x :
    fields_ok N SRet fs -> conv_fields SRet (conv_kind ni) set_ret fs empty_xret = COk x ->
    ids_ret (fst x) = true.
  Proof.
    intros Hfs Hc.
    destruct (conv_fields_wf N SRet get_ret set_ret (conv_kind ni) idk inv_ret retF
                (in_schema_F SRet retF retF_eq) retF_nodup) with (fs := fs) (acc := empty_xret) (x := x) as (Hw & _).
    all: try assumption.
    - intros fd fv acc acc' Hin. apply ret_set_ok. exact Hin.
    - intros fd t v fv _ _ _. apply conv_kind_idk.
    - intros fd Hin. exists (zero_fval (f_kind fd)). split; [apply retF_zero; exact Hin | apply retF_zero_idk; exact Hin].
    - unfold inv_ret. reflexivity.
    - destruct id_fields_in_schema as (_ & _ & _ & I4 & _).
      destruct x as [r nn]. cbn [fst].
      destruct (Hw _ I4) as (fv1 & G1 & K1). vm_compute in G1. injection G1 as <-.
      cbn [idk fd_ret_id f_kind] in K1. exact K1.
  Qed.

  Lemma msg_conv_idk fd t v fv :
    In fd msgF -> ty_of_kind (f_kind fd) = Some t -> tv_ok N t v ->
    conv_kind_msg ni (f_kind fd) v = COk fv -> idk_msg (f_kind fd) fv = true.
  Proof.
    intros _ Ht Hv Hc.
    destruct (f_kind fd) as [| | | | | | | | | | | | | | | | sn | ] eqn:Ek; try reflexivity.
    cbn [ty_of_kind conv_kind_msg idk_msg] in *.
    destruct (sid_of_name sn) as [[| |]|] eqn:Es; try discriminate; injection Ht as <-;
      inversion Hv; subst; try (exfalso; eapply H; reflexivity);
      try (match goal with H : _ \/ _ |- _ => destruct H; discriminate end).
    - apply obind_ok in Hc. destruct Hc as (xa & Ha & E). injection E as <-.
      unfold conv_args in Ha. eapply conv_args_ids; eassumption.
    - apply obind_ok in Hc. destruct Hc as (xr & Hr & E). injection E as <-.
      unfold conv_ret in Hr. eapply conv_ret_ids; eassumption.
  Qed.

  Lemma conv_msg_ids fs x :
    fields_ok N SMsg fs -> conv_fields SMsg (conv_kind_msg ni) set_msg fs empty_xmsg = COk x ->
    (forall a, m_a (x_msg x) = Some a -> ids_args a = true) /\
    (forall r, m_r (x_msg x) = Some r -> ids_ret r = true).
  Proof.
    intros Hfs Hc.
    destruct (conv_fields_wf N SMsg get_msg set_msg (conv_kind_msg ni) idk_msg inv_msg msgF
                (in_schema_F SMsg msgF msgF_eq) msgF_nodup) with (fs := fs) (acc := empty_xmsg) (x := x) as (Hw & _).
    all: try assumption.
    - intros fd fv acc acc' Hin. apply msg_set_ok. exact Hin.
    - intros fd t v fv Hin. apply msg_conv_idk. exact Hin.
    - intros fd Hin. exists (zero_fval (f_kind fd)). split; [apply msgF_zero; exact Hin | apply msgF_zero_idk; exact Hin].
    - unfold inv_msg. split; reflexivity.
    - destruct id_fields_in_schema as (_ & _ & _ & _ & I5 & I6).
      destruct (Hw _ I5) as (fv1 & G1 & K1). destruct (Hw _ I6) as (fv2 & G2 & K2).
      change (get_msg (f_name fd_msg_a) x) with
        (Some (FArgs (option_map (fun a => (a, x_salt_nn x)) (m_a (x_msg x))))) in G1.
      change (get_msg (f_name fd_msg_r) x) with
        (Some (FRet (option_map (fun r => (r, x_rv_nn x)) (m_r (x_msg x))))) in G2.
      injection G1 as <-. injection G2 as <-.
      cbn [idk_msg fd_msg_a fd_msg_r f_kind] in K1, K2.
      split.
      + intros a Ea. rewrite Ea in K1. exact K1.
      + intros r Er. rewrite Er in K2. exact K2.
  Qed.

  Theorem decode_xmsg_ids b x :
    (length b <= N)%nat ->
    decode_xmsg ni b = DOk x \/ (exists n, decode_xmsg ni b = DOkTrailing x n) ->
    (forall a, m_a (x_msg x) = Some a -> ids_args a = true) /\
    (forall r, m_r (x_msg x) = Some r -> ids_ret r = true).
  Proof.
    intros Hb H. unfold decode_xmsg in H.
    destruct (parse_ty (length b) (GStruct SMsg) false b) as [[[v rest] d]|] eqn:P;
      [|destruct H as [H|(n & H)]; discriminate].
    destruct (proj1 (parse_ok N (length b)) _ _ _ _ _ _ Hb P) as (Hv & _).
    destruct (conv_msg ni v) as [x'| |] eqn:C; try (destruct H as [H|(n & H)]; discriminate).
    assert (x' = x) by (destruct rest; destruct H as [H|(n & H)]; congruence). subst x'.
    inversion Hv; subst; try (exfalso; eapply H0; reflexivity);
      try (match goal with H1 : _ \/ _ |- _ => destruct H1; discriminate end).
    unfold conv_msg in C. apply (conv_msg_ids fs x); assumption.
  Qed.
End Ids.
