(* CodecProofs.v — the C15 theorems in their final form, assembled from CompactProofs, BencodeProofs,
   KrpcProofs, KrpcRecProofs, KrpcRtProofs and KrpcWfProofs. *)
From Coq Require Import String.
From Dht Require Import Base Msg Compact Bencode Krpc Int160Proofs CompactProofs BencodeProofs
     KrpcProofs KrpcRecProofs KrpcRtProofs KrpcWfProofs.
From DhtGen Require Import KrpcSchema.
From Coq Require Import Lia ZifyN ZifyNat ZifyBool Arith.
Close Scope string_scope.

(* the NodeInfo decoders of the two trees agree wherever the message decoder calls them *)
Definition ni_ok (ni : bytes -> cresult node_info) : Prop :=
  forall b, (22 <= length b)%nat -> ni b = nodeinfo_unmarshal b.
Lemma ni_ok_fixed : ni_ok nodeinfo_unmarshal. Proof. intros b _. reflexivity. Qed.
Lemma ni_ok_pinned : ni_ok nodeinfo_unmarshal_pinned. Proof. exact pinned_long. Qed.

(* ---------------------------------------------------------------- what the codec observes (xmsg) *)
Theorem x_roundtrip ni x : ni_ok ni -> wf_xmsg x -> exists b, encode_xmsg x = COk b /\ decode_xmsg ni b = DOk x.
Proof. intros H. apply xmsg_roundtrip. exact H. Qed.

Theorem x_fixpoint ni b x :
  ni_ok ni -> (N.of_nat (length b) <= max_str_len)%N ->
  decode_xmsg ni b = DOk x \/ (exists n, decode_xmsg ni b = DOkTrailing x n) ->
  exists b', encode_xmsg x = COk b' /\ exists x', decode_xmsg ni b' = DOk x' /\ encode_xmsg x' = COk b'.
Proof.
  intros Hni Hb Hd. pose proof (decode_xmsg_wf ni Hni b x Hb Hd) as Hwf.
  destruct (x_roundtrip ni x Hni Hwf) as (b' & He & Hd'). exists b'. split; [exact He|]. exists x. split; assumption.
Qed.

(* ---------------------------------------------------------------- the records of Msg.v *)
Lemma encode_msg_x m b : encode_msg m = Some b <-> encode_xmsg (x_of_msg m) = COk b.
Proof. unfold encode_msg. destruct (encode_xmsg (x_of_msg m)); split; congruence. Qed.

Theorem msg_roundtrip ni m : ni_ok ni -> wf_msg m -> exists b, encode_msg m = Some b /\ decode_msg ni b = DOk m.
Proof.
  intros Hni Hwf. destruct (x_roundtrip ni (x_of_msg m) Hni Hwf) as (b & He & Hd).
  exists b. split; [apply encode_msg_x; exact He|]. unfold decode_msg. rewrite Hd. reflexivity.
Qed.

(* bringing the nil-ness flags of a decoded message to their normal form keeps it well-formed *)
Ltac in_args_schema := cbn [schema_of]; unfold args_schema; cbn [In]; repeat (first [left; reflexivity | right]).
Ltac in_ret_schema := cbn [schema_of]; unfold return_schema; cbn [In]; repeat (first [left; reflexivity | right]).
Ltac in_msg_schema := cbn [schema_of]; unfold msg_schema; cbn [In]; repeat (first [left; reflexivity | right]).

Lemma norm_args_wf a nn : wf_xargsb (a, nn) = true -> wf_xargsb (a, negb (is_nil (a_salt a))) = true.
Proof.
  unfold wf_xargsb. intros H. apply andb_prop in H. destruct H as [Hs Hn]. cbn [fst snd] in *.
  apply andb_true_intro. split; [|destruct (a_salt a); reflexivity].
  apply (all_wf_structb SArgs get_args wf_fieldb argsF (in_schema_F SArgs argsF argsF_eq)).
  intros fd Hin. unfold argsF in Hin.
  destruct a as [id ih tg tok port imp want noseed scrape v seq cas k salt sg]. cbn [a_salt] in *.
  destruct nn; destruct salt as [|s0 salt]; try discriminate Hn;
  each_in Hin ltac:(idtac;
    match goal with |- exists fv, get_args (f_name ?fd) _ = _ /\ _ =>
      let fv := fresh "fv" in let Hg := fresh "Hg" in let Hw := fresh "Hw" in
      let Hsch := fresh "Hsch" in
      assert (Hsch : In fd (schema_of SArgs)) by (in_args_schema);
      destruct (wf_struct_in SArgs get_args wf_fieldb _ fd Hs Hsch) as (fv & Hg & Hw);
      vm_compute in Hg; injection Hg as <-;
      eexists; split; [vm_compute; reflexivity | first [exact Hw | reflexivity]]
    end).
Qed.

Lemma norm_ret_wf r nn : wf_xretb (r, nn) = true -> wf_xretb (r, negb (is_nil (r_v r))) = true.
Proof.
  unfold wf_xretb. intros H. apply andb_prop in H. destruct H as [Hs Hn]. cbn [fst snd] in *.
  apply andb_true_intro. split; [|destruct (r_v r); reflexivity].
  apply (all_wf_structb SRet get_ret wf_fieldb retF (in_schema_F SRet retF retF_eq)).
  intros fd Hin. unfold retF in Hin.
  destruct r as [id nodes nodes6 tok values bfsd bfpe interval num samples v k sg seq]. cbn [r_v] in *.
  destruct nn; destruct v as [|v0 v]; try discriminate Hn;
  each_in Hin ltac:(idtac;
    match goal with |- exists fv, get_ret (f_name ?fd) _ = _ /\ _ =>
      let fv := fresh "fv" in let Hg := fresh "Hg" in let Hw := fresh "Hw" in
      let Hsch := fresh "Hsch" in
      assert (Hsch : In fd (schema_of SRet)) by (in_ret_schema);
      destruct (wf_struct_in SRet get_ret wf_fieldb _ fd Hs Hsch) as (fv & Hg & Hw);
      vm_compute in Hg; injection Hg as <-;
      eexists; split; [vm_compute; reflexivity | first [exact Hw | reflexivity | (vm_compute in Hw; discriminate Hw)]]
    end).
Qed.

Lemma norm_ip_wf nn a :
  wf_fieldb_msg KNodeAddr (FAddr nn a) = true ->
  wf_fieldb_msg KNodeAddr
    (FAddr (negb (match na_ip a with [] => true | _ => false end && Z.eqb (na_port a) 0)) a) = true.
Proof.
  cbn [wf_fieldb_msg wf_fieldb]. unfold is_nil.
  destruct (match na_ip a with [] => true | _ => false end && Z.eqb (na_port a) 0) eqn:C; cbn [negb].
  - intros _. reflexivity.
  - destruct nn; [auto | intros H; discriminate H].
Qed.

Lemma norm_a_wf n o snn :
  wf_fieldb_msg (KPtrStruct n) (FArgs (option_map (fun a => (a, snn)) o)) = true ->
  wf_fieldb_msg (KPtrStruct n)
    (FArgs (option_map (fun a => (a, match o with
                                     | Some a => match a_salt a with [] => false | _ => true end
                                     | None => false
                                     end)) o)) = true.
Proof.
  cbn [wf_fieldb_msg]. destruct (sid_of_name n) as [[| |]|]; try discriminate.
  destruct o as [a|]; [|reflexivity]. cbn [option_map]. intros H. apply norm_args_wf in H.
  destruct (a_salt a); exact H.
Qed.

Lemma norm_r_wf n o rnn :
  wf_fieldb_msg (KPtrStruct n) (FRet (option_map (fun r => (r, rnn)) o)) = true ->
  wf_fieldb_msg (KPtrStruct n)
    (FRet (option_map (fun r => (r, match o with
                                    | Some r => match r_v r with [] => false | _ => true end
                                    | None => false
                                    end)) o)) = true.
Proof.
  cbn [wf_fieldb_msg]. destruct (sid_of_name n) as [[| |]|]; try discriminate.
  destruct o as [r|]; [|reflexivity]. cbn [option_map]. intros H. apply norm_ret_wf in H.
  destruct (r_v r); exact H.
Qed.

Theorem norm_msg_wf x : wf_xmsg x -> wf_msg (x_msg x).
Proof.
  unfold wf_xmsg, wf_msg, wf_xmsgb. intros H. apply andb_prop in H. destruct H as [H _]. apply andb_prop in H. destruct H as [Hs _].
  apply andb_true_intro. split; [apply andb_true_intro; split|].
  - apply (all_wf_structb SMsg get_msg wf_fieldb_msg msgF (in_schema_F SMsg msgF msgF_eq)).
    intros fd Hin. unfold msgF in Hin.
    each_in Hin ltac:(idtac;
      match goal with |- exists fv, get_msg (f_name ?fd) _ = _ /\ _ =>
        let fv := fresh "fv" in let Hg := fresh "Hg" in let Hw := fresh "Hw" in
        let Hsch := fresh "Hsch" in
        assert (Hsch : In fd (schema_of SMsg)) by (in_msg_schema);
        destruct (wf_struct_in SMsg get_msg wf_fieldb_msg _ fd Hs Hsch) as (fv & Hg & Hw);
        first [ (exists fv; split; [exact Hg | exact Hw])
              | (vm_compute in Hg; injection Hg as <-; eexists; split; [reflexivity|];
                 cbn [f_kind x_of_msg x_msg x_ip_nn x_salt_nn x_rv_nn];
                 first [ apply norm_ip_wf with (nn := x_ip_nn x); exact Hw
                       | apply norm_a_wf with (snn := x_salt_nn x); exact Hw
                       | apply norm_r_wf with (rnn := x_rv_nn x); exact Hw ]) ]
      end).
  - cbn [x_of_msg x_msg x_salt_nn]. destruct (m_a (x_msg x)); [apply Bool.orb_true_r | reflexivity].
  - cbn [x_of_msg x_msg x_rv_nn]. destruct (m_r (x_msg x)); [apply Bool.orb_true_r | reflexivity].
Qed.

(* ---- the fixpoint clause on the records of Msg.v ---- *)
Theorem msg_fixpoint ni b m :
  ni_ok ni -> (N.of_nat (length b) <= max_str_len)%N ->
  decode_msg ni b = DOk m \/ (exists n, decode_msg ni b = DOkTrailing m n) ->
  exists b', encode_msg m = Some b' /\ exists m', decode_msg ni b' = DOk m' /\ encode_msg m' = Some b'.
Proof.
  intros Hni Hb Hd.
  assert (Hx : exists x, x_msg x = m /\ (decode_xmsg ni b = DOk x \/ exists n, decode_xmsg ni b = DOkTrailing x n)).
  { unfold decode_msg in Hd. destruct (decode_xmsg ni b) as [x|x n| |]; destruct Hd as [Hd|(n' & Hd)]; try discriminate.
    - injection Hd as <-. exists x. split; [reflexivity | left; reflexivity].
    - injection Hd as <- <-. exists x. split; [reflexivity | right; exists n; reflexivity]. }
  destruct Hx as (x & <- & Hdx).
  pose proof (norm_msg_wf x (decode_xmsg_wf ni Hni b x Hb Hdx)) as Hwf.
  destruct (msg_roundtrip ni (x_msg x) Hni Hwf) as (b' & He & Hd').
  exists b'. split; [exact He|]. exists (x_msg x). split; assumption.
Qed.

(* ---- no decoder of the model panics ---- *)
Theorem no_panic_all :
  (forall b, decode_msg_fixed b <> DPanic) /\ (forall b, decode_msg_pinned b <> DPanic) /\
  (forall b, addrs4_dec b <> CPanic) /\ (forall b, addrs6_dec b <> CPanic) /\
  (forall b, infos4_dec b <> CPanic) /\ (forall b, infos6_dec b <> CPanic) /\
  (forall b, hashes_dec b <> CPanic) /\
  (forall b, nodeaddr_unmarshal b <> CPanic) /\ (forall b, nodeinfo_unmarshal b <> CPanic) /\
  (forall b, nodes_file_read b <> CPanic).
Proof.
  repeat split; intros b.
  - apply decode_msg_fixed_no_panic.
  - apply decode_msg_pinned_no_panic.
  - apply addrs4_no_panic.
  - apply addrs6_no_panic.
  - apply infos4_no_panic.
  - apply infos6_no_panic.
  - apply hashes_no_panic.
  - apply nodeaddr_unmarshal_no_panic.
  - apply nodeinfo_unmarshal_no_panic.
  - apply (proj1 (nodes_file_read_no_panic b)).
Qed.

(* the UnmarshalBencode methods of the compact types, NodeAddr, ID and Error *)
Theorem no_panic_unmarshal_bencode raw :
  compact_unmarshal_benc addrs4_dec raw <> CPanic /\ compact_unmarshal_benc addrs6_dec raw <> CPanic /\
  compact_unmarshal_benc infos4_dec raw <> CPanic /\ compact_unmarshal_benc infos6_dec raw <> CPanic /\
  compact_unmarshal_benc hashes_dec raw <> CPanic /\ nodeaddr_unmarshal_benc raw <> CPanic.
Proof.
  unfold compact_unmarshal_benc.
  repeat split; try (apply obind_no_panic; [apply benc_string_of_raw_no_panic | intros s _]).
  - apply addrs4_no_panic.
  - apply addrs6_no_panic.
  - apply infos4_no_panic.
  - apply infos6_no_panic.
  - apply hashes_no_panic.
  - apply nodeaddr_unmarshal_benc_no_panic.
Qed.
