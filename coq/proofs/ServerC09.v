(* ServerC09.v — C09: the node lists of find_node / get_peers / get replies hold at most K distinct
   contacts, all good in the responder's table and of the requested address family, chosen from the
   target's bucket first and then from successively farther buckets. *)
From Dht Require Import Base Int160 Msg Server ServerDefs Int160Proofs ServerC06.
From Dht Require Compact.
From DhtGen Require Import Params.
From Coq Require Import ZifyN ZifyNat ZifyBool Permutation.
Local Arguments N.pow : simpl never.
Local Arguments Ok {A} _.
Local Arguments Panic {A}.

(* ------------------------------------------------------------------ list helpers *)
Lemma NoDup_app_intro {A} (l1 l2 : list A) :
  NoDup l1 -> NoDup l2 -> (forall x, In x l1 -> In x l2 -> False) -> NoDup (l1 ++ l2).
Proof.
  induction l1 as [|a l1 IH]; cbn; intros H1 H2 Hd; [exact H2|].
  inversion H1 as [|? ? Hn H1']; subst. constructor.
  - rewrite in_app_iff. intros [F|F]; [auto|]. apply (Hd a); auto.
  - apply IH; auto. intros x Hx1 Hx2. apply (Hd x); auto.
Qed.

Lemma NoDup_app_l {A} (l1 l2 : list A) : NoDup (l1 ++ l2) -> NoDup l1.
Proof.
  induction l1 as [|a l1 IH]; cbn; intros H; [constructor|].
  inversion H as [|? ? Hn H']; subst. constructor; [|auto].
  intros F. apply Hn. apply in_app_iff; auto.
Qed.

Lemma skipn_app_exact {A} (l x : list A) : skipn (length l) (l ++ x) = x.
Proof. induction l; cbn; auto. Qed.

Lemma NoDup_map_filter {A B} (f : A -> B) p l : NoDup (map f l) -> NoDup (map f (filter p l)).
Proof.
  induction l as [|a l IH]; cbn; intros H; [constructor|].
  inversion H as [|? ? Hn H']; subst. destruct (p a); cbn; [constructor|]; auto.
  intros F. apply Hn. apply in_map_iff in F as (x & Hx1 & Hx2). apply filter_In in Hx2 as [Hx2 _].
  rewrite <- Hx1. apply in_map; exact Hx2.
Qed.

Lemma NoDup_map_transfer {A B C} (f : A -> B) (g : A -> C) l :
  (forall a b, In a l -> In b l -> g a = g b -> f a = f b) -> NoDup (map f l) -> NoDup (map g l).
Proof.
  induction l as [|a l IH]; cbn; intros Hinj H; [constructor|].
  inversion H as [|? ? Hn H']; subst. constructor.
  - intros F. apply Hn. apply in_map_iff in F as (x & Hx1 & Hx2).
    rewrite (Hinj a x); auto. apply in_map; exact Hx2.
  - apply IH; auto.
Qed.

(* ------------------------------------------------------------------ net.IP.To4 / To16 by length *)
Lemma ip_cases (b : bytes) :
  (length b = 4%nat /\ to4 b = Some b /\ to16 b = Some (v4_prefix ++ b)) \/
  (length b = 16%nat /\ to16 b = Some b /\
   to4 b = if bytes_eqb (firstn 12 b) v4_prefix then Some (skipn 12 b) else None) \/
  (length b <> 4%nat /\ length b <> 16%nat /\ to4 b = None /\ to16 b = None).
Proof.
  unfold to4, to16. remember (length b) as L eqn:HL. clear HL.
  do 4 (destruct L as [|L]; [right; right; repeat split; discriminate|]).
  destruct L as [|L]; [left; auto|].
  do 11 (destruct L as [|L]; [right; right; repeat split; discriminate|]).
  destruct L as [|L]; [right; left; auto|].
  right; right; repeat split; discriminate.
Qed.

Lemma to4_length b x : to4 b = Some x -> length x = 4%nat.
Proof.
  destruct (ip_cases b) as [(H1 & H2 & _)|[(H1 & _ & H2)|(_ & _ & H2 & _)]]; rewrite H2.
  - intros H; inversion H; subst; exact H1.
  - destruct (bytes_eqb _ _); [|discriminate]. intros H.
    assert (Hx : x = skipn 12 b) by congruence. rewrite Hx, skipn_length, H1. reflexivity.
  - discriminate.
Qed.

Lemma to16_of_non4 b : to4 b = None -> match to16 b with Some x => x | None => b end = b.
Proof.
  destruct (ip_cases b) as [(H1 & H2 & _)|[(H1 & H2 & _)|(_ & _ & _ & H2)]]; rewrite H2; auto.
  congruence.
Qed.

Lemma pow_256_20 : (256 ^ N.of_nat 20 = 2 ^ 160)%N.
Proof. reflexivity. Qed.

Lemma ofN20_inj a b : (a < 2 ^ 160)%N -> (b < 2 ^ 160)%N -> ofN 20 a = ofN 20 b -> a = b.
Proof.
  intros Ha Hb E. rewrite <- (toN_ofN 20 a), <- (toN_ofN 20 b); [congruence| |];
    rewrite pow_256_20; assumption.
Qed.

(* ------------------------------------------------------------------ node_info equality, remove_ni, take_from *)
Lemma ni_eqb_eq a b : ni_eqb a b = true <-> a = b.
Proof.
  unfold ni_eqb. rewrite !andb_true_iff, !bytes_eqb_eq, Z.eqb_eq.
  destruct a as [ia [pa qa]], b as [ib [pb qb]]; cbn.
  split; [intros [[-> ->] ->]; reflexivity | intros H; inversion H; auto].
Qed.

Lemma remove_ni_spec x c c' :
  remove_ni x c = Some c' -> exists l1 l2, c = l1 ++ x :: l2 /\ c' = l1 ++ l2.
Proof.
  revert c'. induction c as [|y c IH]; cbn [remove_ni]; intros c' H; [discriminate|].
  destruct (ni_eqb x y) eqn:E.
  - apply ni_eqb_eq in E. subst y. inversion H; subst. exists [], c'. auto.
  - destruct (remove_ni x c) as [c0|]; [|discriminate]. cbn in H. inversion H; subst.
    destruct (IH c0 eq_refl) as (l1 & l2 & -> & ->). exists (y :: l1), l2. auto.
Qed.

Lemma take_from_spec obs : forall c fuel rest ex,
  take_from c obs fuel = Some (rest, ex) ->
  exists used cfin, obs = used ++ rest /\ Permutation c (used ++ cfin) /\
                    (ex = true -> cfin = []) /\ (ex = false -> rest = []).
Proof.
  induction obs as [|x obs IH]; intros c fuel rest ex H.
  - destruct c as [|c0 cs]; destruct fuel; cbn [take_from] in H; inversion H; subst.
    + exists [], []. repeat split; auto.
    + exists [], []. repeat split; auto.
    + exists [], (c0 :: cs). repeat split; auto. discriminate.
    + exists [], (c0 :: cs). repeat split; auto. discriminate.
  - destruct c as [|c0 cs].
    + destruct fuel; cbn [take_from] in H; inversion H; subst; exists [], []; repeat split; auto; discriminate.
    + destruct fuel as [|f]; cbn [take_from] in H; [discriminate|].
      destruct (remove_ni x (c0 :: cs)) as [c'|] eqn:Er; [|discriminate].
      apply remove_ni_spec in Er as (l1 & l2 & E1 & E2).
      destruct (IH _ _ _ _ H) as (used & cfin & -> & Hp & H1 & H2).
      exists (x :: used), cfin. repeat split; auto.
      rewrite E1. cbn. etransitivity; [symmetry; apply Permutation_middle|].
      constructor. rewrite <- E2. exact Hp.
Qed.

Section C09.
  Variable Store : Type.
  Variable w_put : Store -> witem -> Z -> Store * put_result.
  Variable w_get : Store -> bytes -> Z -> Store * get_result.
  Variable sha1 : bytes -> bytes.
  Variable id_secure : N -> bytes -> bool.
  Variable cfg : config.

  Notation sstate := (sstate Store).
  Notation step := (step Store w_put w_get sha1 id_secure cfg).
  Notation update_node := (update_node Store id_secure cfg).
  Notation dispatch := (dispatch Store w_put w_get sha1 id_secure cfg).
  Notation handle_query := (handle_query Store w_put w_get sha1 id_secure cfg).
  Notation node_bad := (node_bad id_secure cfg).
  Notation node_good := (node_good id_secure cfg).
  Notation cands := (cands Store id_secure cfg).
  Notation accept_walk := (accept_walk Store id_secure cfg).
  Notation accept_closest := (accept_closest Store id_secure cfg).
  Notation set_return_nodes := (set_return_nodes Store id_secure cfg).
  Notation start_bucket := (start_bucket cfg).
  Notation Inv := (Inv Store cfg).
  Notation s_nodes := (s_nodes Store).
  Notation s_now := (s_now Store).
  Notation SR := (SR Store).
  Notation HQ := (HQ Store).

  (* ---------------------------------------------------------------- definitions used in statements *)
  (* the address family a table entry is offered under: IPv4 iff net.IP.To4 succeeds *)
  Definition family (v6 : bool) (n : node) : bool :=
    if v6 then match to4 (ip (n_addr n)) with Some _ => false | None => true end
    else match to4 (ip (n_addr n)) with Some _ => true | None => false end.

  (* the target a query names: info_hash for get_peers, target for find_node and get *)
  Definition target_of (m : msg) (a : msg_args) : N :=
    if bytes_eqb (m_q m) s_get_peers then id_of (a_info_hash a) else id_of (a_target a).

  (* ---------------------------------------------------------------- candidates of a bucket *)
  Lemma cands_in s v6 i c :
    In c (cands s v6 i) <->
    exists n, In n (s_nodes s) /\ n_slot n = i /\ node_good (s_now s) n = true /\ family v6 n = true /\
              c = wire_info v6 n.
  Proof.
    unfold Server.cands, bucket. rewrite in_map_iff. split.
    - intros (n & <- & Hn). apply filter_In in Hn as [Hn Hp]. apply filter_In in Hn as [Hn Hs].
      apply andb_true_iff in Hp as [Hg Hf]. apply Nat.eqb_eq in Hs.
      exists n. repeat split; auto.
    - intros (n & Hn & Hs & Hg & Hf & ->). exists n. split; [reflexivity|].
      apply filter_In. split; [apply filter_In; split; [exact Hn|apply Nat.eqb_eq; exact Hs]|].
      apply andb_true_iff. split; [exact Hg|exact Hf].
  Qed.

  (* for an entry of the family, the wire form is (id, normalised ip, port) *)
  Lemma wire_info_family v6 n :
    family v6 n = true ->
    wire_info v6 n = mkNI (ofN 20 (n_id n)) (mkNA (norm_ip (ip (n_addr n))) (Z.of_N (port (n_addr n)))).
  Proof.
    unfold family, wire_info, norm_ip. destruct v6.
    - destruct (to4 (ip (n_addr n))) eqn:E; [discriminate|]. intros _.
      rewrite (to16_of_non4 _ E). reflexivity.
    - destruct (to4 (ip (n_addr n))); [reflexivity|discriminate].
  Qed.

  Lemma wire_info_inj v6 n n' :
    family v6 n = true -> family v6 n' = true -> (n_id n < 2 ^ 160)%N -> (n_id n' < 2 ^ 160)%N ->
    wire_info v6 n = wire_info v6 n' -> node_key n = node_key n'.
  Proof.
    intros Hf Hf' Hb Hb' E. rewrite (wire_info_family _ _ Hf), (wire_info_family _ _ Hf') in E.
    pose proof (f_equal ni_id E) as E1. pose proof (f_equal (fun x => na_ip (ni_addr x)) E) as E2.
    pose proof (f_equal (fun x => na_port (ni_addr x)) E) as E3.
    cbn [ni_id ni_addr na_ip na_port] in E1, E2, E3.
    apply ofN20_inj in E1; auto. apply N2Z.inj in E3.
    unfold node_key, addr_key. congruence.
  Qed.

  (* an entry whose wire form equals that of an entry of the family is of the family itself *)
  Lemma wire_info_family_any v6 n n' :
    family v6 n = true -> wire_info v6 n = wire_info v6 n' -> family v6 n' = true.
  Proof.
    intros Hf E. pose proof (f_equal (fun x => na_ip (ni_addr x)) E) as E2.
    unfold family in *. unfold wire_info in E2. cbn [ni_addr na_ip] in E2. destruct v6.
    - destruct (to4 (ip (n_addr n))) eqn:E4; [discriminate|]. rewrite (to16_of_non4 _ E4) in E2.
      destruct (to4 (ip (n_addr n'))) as [y|] eqn:E4'; [exfalso|reflexivity].
      destruct (ip_cases (ip (n_addr n'))) as [(H1 & _ & H2)|[(H1 & H2 & _)|(_ & _ & H2 & _)]].
      + rewrite H2 in E2.
        destruct (ip_cases (ip (n_addr n))) as [(G1 & _)|[(_ & _ & G2)|(_ & G1 & _)]].
        * rewrite E2, app_length, H1 in G1. discriminate G1.
        * rewrite E4 in G2. rewrite E2 in G2 at 1. rewrite firstn_app in G2.
          change (firstn 12 v4_prefix) with v4_prefix in G2.
          change (12 - length v4_prefix)%nat with 0%nat in G2. rewrite firstn_O, app_nil_r in G2.
          assert (Hb : bytes_eqb v4_prefix v4_prefix = true) by (apply bytes_eqb_eq; reflexivity).
          rewrite Hb in G2. discriminate.
        * rewrite E2, app_length, H1 in G1. apply G1. reflexivity.
      + rewrite H2 in E2. congruence.
      + congruence.
    - destruct (to4 (ip (n_addr n))) as [x|] eqn:E4; [|discriminate].
      destruct (to4 (ip (n_addr n'))) as [y|] eqn:E4'; [reflexivity|exfalso].
      pose proof (to4_length _ _ E4) as Hx. rewrite E2 in Hx.
      destruct (ip_cases (ip (n_addr n'))) as [(_ & H2 & _)|[(H1 & _)|(H1 & _)]]; congruence.
  Qed.

  Lemma wire_info_node s v6 n n' :
    Inv s -> In n (s_nodes s) -> In n' (s_nodes s) -> family v6 n = true -> family v6 n' = true ->
    wire_info v6 n = wire_info v6 n' -> n = n'.
  Proof.
    intros HI Hn Hn' Hf Hf' E.
    apply (NoDup_map_inj node_key (s_nodes s)); auto; [apply (inv_nodup _ _ _ HI)|].
    apply (wire_info_inj v6); auto.
    - destruct (inv_slot _ _ _ HI n Hn) as (_ & H & _); exact H.
    - destruct (inv_slot _ _ _ HI n' Hn') as (_ & H & _); exact H.
  Qed.

  Lemma cands_nodup s v6 i : Inv s -> NoDup (cands s v6 i).
  Proof.
    intros HI. unfold Server.cands, bucket.
    match goal with |- NoDup (map _ (filter ?p (filter ?q _))) =>
      apply (NoDup_map_transfer node_key (wire_info v6) (filter p (filter q (s_nodes s)))) end.
    - intros a b Ha Hb E.
      apply filter_In in Ha as [Ha Hpa]. apply filter_In in Ha as [Ha _].
      apply filter_In in Hb as [Hb Hpb]. apply filter_In in Hb as [Hb _].
      apply andb_true_iff in Hpa as [_ Hfa]. apply andb_true_iff in Hpb as [_ Hfb].
      f_equal. apply (wire_info_node s v6); auto.
    - apply NoDup_map_filter, NoDup_map_filter. apply (inv_nodup _ _ _ HI).
  Qed.

  Lemma cands_disjoint s v6 i j c : Inv s -> In c (cands s v6 i) -> In c (cands s v6 j) -> i = j.
  Proof.
    intros HI Hi Hj. apply cands_in in Hi as (n & Hn & Hs & _ & Hf & Hc).
    apply cands_in in Hj as (n' & Hn' & Hs' & _ & Hf' & Hc').
    assert (n = n') by (apply (wire_info_node s v6); auto; congruence). congruence.
  Qed.

  (* ---------------------------------------------------------------- the bucket walk *)
  Lemma accept_walk_eq s v6 k i collected obs fuel :
    accept_walk s v6 k i collected obs fuel =
    if Nat.leb k collected then match obs with [] => true | _ => false end
    else
      let c := cands s v6 i in
      let room := (k - collected)%nat in
      match take_from c (firstn room obs) (S (length c)) with
      | None => false
      | Some (rest, exhausted) =>
          let used := (length (firstn room obs) - length rest)%nat in
          if Nat.ltb (length c) room || Nat.eqb (length c) room then
            exhausted && Nat.eqb used (length c) &&
            match i, fuel with
            | O, _ => match skipn used obs with [] => true | _ => false end
            | S j, S f => accept_walk s v6 k j (collected + used) (skipn used obs) f
            | S _, O => false
            end
          else Nat.eqb used room && Nat.eqb (length obs) room
      end.
  Proof. destruct i, fuel; reflexivity. Qed.

  Lemma accept_walk_sound s v6 k :
    Inv s ->
    forall i fuel collected obs,
      accept_walk s v6 k i collected obs fuel = true -> (collected <= k)%nat ->
      (length obs + collected <= k)%nat /\
      (forall c, In c obs -> exists j, (j <= i)%nat /\ In c (cands s v6 j)) /\
      NoDup obs /\
      (forall j c, (j <= i)%nat -> In c (cands s v6 j) -> ~ In c obs ->
         (length obs + collected = k)%nat /\
         forall c', In c' obs -> exists j', (j <= j')%nat /\ (j' <= i)%nat /\ In c' (cands s v6 j')).
  Proof.
    intros HI. induction i as [|i IH]; intros fuel collected obs H Hck;
      rewrite accept_walk_eq in H; cbv zeta in H.
    all: destruct (Nat.leb k collected) eqn:Ek;
      [ apply Nat.leb_le in Ek; destruct obs; [|discriminate];
        cbn [length In]; repeat split; try constructor; try lia; intros; tauto | ].
    all: apply Nat.leb_gt in Ek.
    all: destruct (take_from _ _ _) as [[rest ex]|] eqn:Et; [|discriminate].
    all: destruct (take_from_spec _ _ _ _ _ Et) as (used & cfin & Hobs & Hperm & Hex1 & Hex2).
    all: assert (Hul : (length (firstn (k - collected) obs) - length rest = length used)%nat)
      by (rewrite Hobs, app_length; lia).
    all: rewrite Hul in H.
    all: assert (Hused : forall c, In c used -> In c (cands s v6 _))
      by (intros c Hc; eapply Permutation_in; [symmetry; exact Hperm|apply in_app_iff; auto]).
    all: assert (Hndu : NoDup used)
      by (apply (NoDup_app_l used cfin); eapply Permutation_NoDup; [exact Hperm|apply cands_nodup; exact HI]).
    all: destruct (_ || _) eqn:Efit.
    (* i = 0, the bucket fits *)
    - apply andb_true_iff in H as [H H3]. apply andb_true_iff in H as [H1 H2].
      subst ex. specialize (Hex1 eq_refl). subst cfin. rewrite app_nil_r in Hperm.
      apply Nat.eqb_eq in H2.
      assert (Hobs' : obs = used ++ skipn (length used) obs).
      { rewrite <- (firstn_skipn (k - collected) obs) at 1 2. rewrite Hobs, <- app_assoc.
        rewrite skipn_app_exact. reflexivity. }
      destruct (skipn (length used) obs) eqn:Esk; [|discriminate]. rewrite app_nil_r in Hobs'.
      subst obs. clear Esk.
      assert (Hfit : (length (cands s v6 0) <= k - collected)%nat).
      { apply orb_true_iff in Efit as [E|E]; [apply Nat.ltb_lt in E|apply Nat.eqb_eq in E]; lia. }
      split; [lia|]. split; [intros c Hc; exists 0%nat; split; [lia|auto]|]. split; [exact Hndu|].
      intros j c Hj Hc Hnc. exfalso. apply Hnc. assert (j = 0)%nat by lia. subst j.
      eapply Permutation_in; [exact Hperm|exact Hc].
    (* i = 0, the bucket is cut *)
    - apply andb_true_iff in H as [H1 H2]. apply Nat.eqb_eq in H1, H2.
      assert (Hf : firstn (k - collected) obs = obs) by (apply firstn_all2; lia).
      rewrite Hf in Hobs. assert (rest = []).
      { destruct rest; [reflexivity|]. rewrite Hobs, app_length in H2. cbn in H2. lia. }
      subst rest. rewrite app_nil_r in Hobs. subst obs.
      split; [lia|]. split; [intros c Hc; exists 0%nat; split; [lia|auto]|]. split; [exact Hndu|].
      intros j c Hj Hc Hnc. split; [lia|]. intros c' Hc'. exists 0%nat. repeat split; auto; lia.
    (* i = S i, the bucket fits *)
    - apply andb_true_iff in H as [H H3]. apply andb_true_iff in H as [H1 H2].
      subst ex. specialize (Hex1 eq_refl). subst cfin. rewrite app_nil_r in Hperm.
      apply Nat.eqb_eq in H2.
      assert (Hobs' : obs = used ++ skipn (length used) obs).
      { rewrite <- (firstn_skipn (k - collected) obs) at 1 2. rewrite Hobs, <- app_assoc.
        rewrite skipn_app_exact. reflexivity. }
      assert (Hfit : (length (cands s v6 (S i)) <= k - collected)%nat).
      { apply orb_true_iff in Efit as [E|E]; [apply Nat.ltb_lt in E|apply Nat.eqb_eq in E]; lia. }
      destruct fuel as [|f]; [discriminate|].
      remember (skipn (length used) obs) as obs' eqn:Eobs'. clear Eobs'.
      apply IH in H3; [|lia]. destruct H3 as (Ha & Hb & Hc & Hd).
      subst obs. rewrite app_length.
      split; [lia|]. split; [|split].
      + intros c Hc0. apply in_app_iff in Hc0 as [Hc0|Hc0].
        * exists (S i). split; [lia|auto].
        * destruct (Hb c Hc0) as (j & Hj & Hcj). exists j. split; [lia|auto].
      + apply NoDup_app_intro; auto. intros x Hx1 Hx2.
        destruct (Hb x Hx2) as (j & Hj & Hcj).
        assert (S i = j) by (apply (cands_disjoint s v6 _ _ x); auto). lia.
      + intros j c Hj Hcj Hnc.
        assert (Hj' : (j <= i)%nat).
        { destruct (Nat.eq_dec j (S i)) as [->|]; [|lia]. exfalso. apply Hnc.
          apply in_app_iff. left. eapply Permutation_in; [exact Hperm|exact Hcj]. }
        assert (Hnc' : ~ In c obs') by (intros F; apply Hnc; apply in_app_iff; auto).
        destruct (Hd j c Hj' Hcj Hnc') as (Hlen & Hall). split; [lia|].
        intros c' Hc'. apply in_app_iff in Hc' as [Hc'|Hc'].
        * exists (S i). repeat split; auto; lia.
        * destruct (Hall c' Hc') as (j' & H1' & H2' & H3'). exists j'. repeat split; auto; lia.
    (* i = S i, the bucket is cut *)
    - apply andb_true_iff in H as [H1 H2]. apply Nat.eqb_eq in H1, H2.
      assert (Hf : firstn (k - collected) obs = obs) by (apply firstn_all2; lia).
      rewrite Hf in Hobs. assert (rest = []).
      { destruct rest; [reflexivity|]. rewrite Hobs, app_length in H2. cbn in H2. lia. }
      subst rest. rewrite app_nil_r in Hobs. subst obs.
      split; [lia|]. split; [intros c Hc; exists (S i); split; [lia|auto]|]. split; [exact Hndu|].
      intros j c Hj Hc Hnc. split; [lia|]. intros c' Hc'. exists (S i). repeat split; auto; lia.
  Qed.

  (* ================================================================ C09: what an accepted list is *)
  Lemma good_facts now n :
    node_good now n = true -> n_lr n <> None /\ n_id n <> c_root cfg.
  Proof.
    intros H. destruct (node_good_facts id_secure cfg _ _ H) as [Hb Hlr]. split; [exact Hlr|].
    apply (node_bad_false id_secure cfg) in Hb. tauto.
  Qed.

  (* The observed list [obs] accepted as the `nodes` (v6 = false) / `nodes6` (v6 = true) value for
     [target]: no repetition, at most K entries; every entry is the wire form of a table entry that
     is good now, has answered a query of this node, is not the node itself, is of the requested
     family and lies in the target's bucket or a farther one; a good contact of that range that was
     left out means the list is full (K entries) and no listed contact is from a farther bucket. *)
  Theorem accept_closest_sound s v6 target obs :
    Inv s -> accept_closest s v6 target obs = true ->
    NoDup obs /\ (length obs <= reply_k)%nat /\
    (forall c, In c obs ->
       exists n, In n (s_nodes s) /\ c = wire_info v6 n /\ node_good (s_now s) n = true /\
                 n_lr n <> None /\ n_id n <> c_root cfg /\
                 (n_slot n <= start_bucket target)%nat /\ family v6 n = true) /\
    (forall n, In n (s_nodes s) -> node_good (s_now s) n = true -> family v6 n = true ->
               (n_slot n <= start_bucket target)%nat -> ~ In (wire_info v6 n) obs ->
       length obs = reply_k /\
       forall n', In n' (s_nodes s) -> In (wire_info v6 n') obs -> (n_slot n <= n_slot n')%nat).
  Proof.
    intros HI H. unfold Server.accept_closest in H.
    apply (accept_walk_sound s v6 reply_k HI) in H; [|lia].
    destruct H as (Ha & Hb & Hc & Hd). split; [exact Hc|]. split; [lia|]. split.
    - intros c Hin. destruct (Hb c Hin) as (j & Hj & Hcj).
      apply cands_in in Hcj as (n & Hn & Hs & Hg & Hf & ->).
      destruct (good_facts _ _ Hg) as [Hlr Hroot].
      exists n. repeat split; auto. lia.
    - intros n Hn Hg Hf Hs Hout.
      assert (Hcn : In (wire_info v6 n) (cands s v6 (n_slot n))).
      { apply cands_in. exists n. repeat split; auto. }
      destruct (Hd _ _ Hs Hcn Hout) as (Hlen & Hall). split; [lia|].
      intros n' Hn' Hin'. destruct (Hall _ Hin') as (j' & H1 & H2 & H3).
      apply cands_in in H3 as (n'' & Hn'' & Hs'' & _ & Hf'' & E).
      assert (Hf' : family v6 n' = true) by (apply (wire_info_family_any v6 n'' n'); auto).
      assert (n' = n'') by (apply (wire_info_node s v6); auto). subst n''. lia.
  Qed.

  (* acceptance looks only at the table and the clock *)
  Lemma cands_ext s1 s2 v6 i :
    s_nodes s1 = s_nodes s2 -> s_now s1 = s_now s2 -> cands s1 v6 i = cands s2 v6 i.
  Proof. intros H1 H2. unfold Server.cands. rewrite H1, H2. reflexivity. Qed.

  Lemma accept_walk_ext s1 s2 v6 k :
    s_nodes s1 = s_nodes s2 -> s_now s1 = s_now s2 ->
    forall i fuel collected obs,
      accept_walk s1 v6 k i collected obs fuel = accept_walk s2 v6 k i collected obs fuel.
  Proof.
    intros H1 H2. induction i as [|i IH]; intros fuel collected obs;
      rewrite (accept_walk_eq s1), (accept_walk_eq s2); cbv zeta;
      rewrite (cands_ext s1 s2 v6 _ H1 H2); [reflexivity|].
    destruct fuel as [|f]; [reflexivity|].
    destruct (Nat.leb k collected); [reflexivity|].
    destruct (take_from _ _ _) as [[rest ex]|]; [|reflexivity].
    destruct (_ || _); [|reflexivity]. rewrite IH. reflexivity.
  Qed.

  Lemma accept_closest_ext s1 s2 v6 target obs :
    s_nodes s1 = s_nodes s2 -> s_now s1 = s_now s2 ->
    accept_closest s1 v6 target obs = accept_closest s2 v6 target obs.
  Proof. intros H1 H2. apply accept_walk_ext; assumption. Qed.

  (* ================================================================ C09: what the handlers send *)
  Lemma write_rated_sends (s : sstate) d0 m0 k0 s2 o d rm k :
    write_rated Store s d0 m0 k0 = (s2, o) -> In (ESend d rm k) o -> d = d0 /\ rm = m0 /\ k = k0.
  Proof.
    unfold write_rated. destruct (Server.s_closed Store s).
    { intros H; inversion H; subst. intros [F|[]]; discriminate. }
    destruct (blocked _ _).
    { intros H; inversion H; subst. intros [F|[]]; discriminate. }
    destruct (Server.s_budget Store s) as [[|p]|]; intros H; inversion H; subst;
      intros [F|[]]; inversion F; auto.
  Qed.

  Definition lists_from (s : sstate) (src : addr) (m : msg) (ch : choice) (r : krpc_return) : Prop :=
    (r_nodes r = None /\ r_nodes6 r = None) \/
    exists a rb r1,
      m_a m = Some a /\ (m_q m = s_find_node \/ m_q m = s_get_peers \/ m_q m = s_get) /\
      set_return_nodes s src a (target_of m a) ch rb = Some r1 /\
      r_nodes r = r_nodes r1 /\ r_nodes6 r = r_nodes6 r1.

  Lemma dispatch_sends s src m ch s' out d rm k r :
    dispatch s src m ch = HQ s' out -> In (ESend d rm k) out -> m_r rm = Some r ->
    d = src /\ k = SReply /\ lists_from s src m ch r.
  Proof.
    intros H Hin Hr. unfold Server.dispatch in H.
    repeat match type of H with
           | context[match ?x with _ => _ end] => destruct x eqn:?
           end;
      try discriminate;
      repeat match goal with
             | H0 : (if ?c then _ else _) = _ |- _ => destruct c eqn:?
             | H0 : match ?x with _ => _ end = _ |- _ => destruct x eqn:?
             | H0 : Some _ = Some _ |- _ => inversion H0; subst; clear H0
             end;
      try discriminate;
      unfold lift, reply, send_error in *;
      repeat match type of H with
             | context[write_rated Store ?a ?b ?c ?e] =>
                 let E := fresh "Ew" in destruct (write_rated Store a b c e) as [? ?] eqn:E
             end;
      cbn [fst snd] in H;
      inversion H; subst; clear H;
      repeat match goal with
             | H0 : In _ (_ ++ _) |- _ => apply in_app_iff in H0 as [H0|H0]
             | H0 : In _ (_ :: _) |- _ => destruct H0 as [H0|H0]; [discriminate|]
             | H0 : In _ [] |- _ => destruct H0
             end;
      match goal with
      | Ew : write_rated Store _ _ _ _ = (_, ?o), H0 : In _ ?o |- _ =>
          destruct (write_rated_sends _ _ _ _ _ _ _ _ _ Ew H0) as (-> & -> & ->)
      end;
      cbn [m_r reply_msg error_msg] in Hr; try discriminate; inversion Hr; subst; clear Hr;
      (split; [reflexivity|]); (split; [reflexivity|]).
    all: try (left; cbn; split; reflexivity).
    all: right.
    all: repeat match goal with
                | H0 : bytes_eqb _ _ = true |- _ => apply bytes_eqb_eq in H0
                end.
    all: match goal with
         | H0 : set_return_nodes _ _ ?a ?t _ ?rb = Some ?r1 |- _ =>
             exists a, rb, r1; split; [assumption|]; split; [auto|]; split;
             [unfold target_of;
              repeat match goal with H1 : bytes_eqb _ _ = false |- _ => rewrite H1 end;
              try match goal with H1 : m_q _ = s_get_peers |- _ => rewrite H1 end;
              exact H0|cbn; auto]
         end.
  Qed.

  (* a datagram of an EPacket step is sent only by the query handlers, after the sender's table update *)
  Lemma step_packet_sends s src size m ch s' out d rm k :
    step s (EPacket src size (Some m)) ch = SR s' out -> In (ESend d rm k) out ->
    passes_filters Store s src size /\ m_y m = s_q /\
    exists s1 r,
      update_node s src (option_map id_of (sender_id m)) (negb (m_ro m)) UQuery (ch_victim ch) = Ok (s1, r) /\
      r <> BadChoice /\ dispatch s1 src m ch = HQ s' out.
  Proof.
    unfold Server.step. intros H Hin.
    destruct (N.eqb size (Z.to_N udp_buf)) eqn:E1; [inversion H; subst; destruct Hin|].
    destruct (N.eqb (port src) 0) eqn:E2; [inversion H; subst; destruct Hin|].
    destruct (Server.s_closed Store s) eqn:E3; [inversion H; subst; destruct Hin|].
    destruct (blocked _ _) eqn:E4; [inversion H; subst; destruct Hin|].
    apply N.eqb_neq in E1, E2.
    split; [unfold passes_filters; auto|].
    destruct (bytes_eqb (m_y m) s_q) eqn:Ey.
    - apply bytes_eqb_eq in Ey. split; [exact Ey|].
      unfold Server.handle_query in H.
      destruct (update_node s src _ _ UQuery _) as [[s1 r]|] eqn:Eu; [|discriminate].
      exists s1, r. split; [reflexivity|].
      destruct r; try discriminate; (split; [discriminate|]);
        (destruct (negb (c_hook cfg m)); [inversion H; subst; destruct Hin|];
         destruct (c_passive cfg); [inversion H; subst; destruct Hin|];
         destruct (dispatch s1 src m ch); try discriminate; inversion H; subst; reflexivity).
    - exfalso. destruct (find _ _); [|inversion H; subst; destruct Hin].
      destruct (update_node _ src _ _ UResponse _) as [[s1 r]|]; [|discriminate].
      destruct r; try discriminate; inversion H; subst; destruct Hin as [F|[]]; discriminate.
  Qed.

  (* ================================================================ C09: the reply's node lists *)
  (* Every datagram a step sends that carries a return dictionary goes to the asker; its node lists
     are absent, or the query is find_node / get_peers / get with arguments and each list present
     was wanted (BEP 32: explicit want, else the source's family) and is accepted by
     [accept_closest] for the target the method names, against the table and clock of the state
     after the sender's own table update (which are those of the post-state s'). *)
  Theorem C09_reply_lists s src size m ch s' out d rm k r :
    step s (EPacket src size (Some m)) ch = SR s' out -> In (ESend d rm k) out -> m_r rm = Some r ->
    d = src /\ k = SReply /\ m_y m = s_q /\
    ((r_nodes r = None /\ r_nodes6 r = None) \/
     exists a,
       m_a m = Some a /\ (m_q m = s_find_node \/ m_q m = s_get_peers \/ m_q m = s_get) /\
       (forall l, r_nodes r = Some l ->
          l <> [] /\ should_return_nodes (want_list a) (ip src) = true /\
          accept_closest s' false (target_of m a) l = true) /\
       (forall l, r_nodes6 r = Some l ->
          l <> [] /\ should_return_nodes6 (want_list a) (ip src) = true /\
          accept_closest s' true (target_of m a) l = true)).
  Proof.
    intros Hstep Hin Hr.
    destruct (step_packet_sends _ _ _ _ _ _ _ _ _ _ Hstep Hin) as (_ & Hy & s1 & r0 & _ & _ & Hd).
    destruct (dispatch_frame Store w_put w_get sha1 id_secure cfg _ _ _ _ _ _ Hd) as [Hn Ht].
    destruct (dispatch_sends _ _ _ _ _ _ _ _ _ _ Hd Hin Hr) as (-> & -> & Hl).
    split; [reflexivity|]. split; [reflexivity|]. split; [exact Hy|].
    destruct Hl as [Hl|(a & rb & r1 & Ha & Hq & Hs & E4 & E6)]; [left; exact Hl|right].
    exists a. split; [exact Ha|]. split; [exact Hq|].
    unfold Server.set_return_nodes in Hs.
    match type of Hs with (if ?c then _ else _) = _ => destruct c eqn:Eok; [|discriminate] end.
    inversion Hs; subst r1; clear Hs. cbn [Msg.r_nodes Msg.r_nodes6] in E4, E6.
    apply andb_true_iff in Eok as [Eok4 Eok6].
    split.
    - intros l Hl. rewrite (accept_closest_ext s' s1) by assumption. rewrite E4 in Hl. destruct (ch_nodes ch) as [|c0 cs] eqn:Ec; [discriminate|].
      cbn in Hl. inversion Hl; subst l. split; [discriminate|].
      destruct (should_return_nodes _ _); [auto|discriminate].
    - intros l Hl. rewrite (accept_closest_ext s' s1) by assumption. rewrite E6 in Hl. destruct (ch_nodes6 ch) as [|c0 cs] eqn:Ec; [discriminate|].
      cbn in Hl. inversion Hl; subst l. split; [discriminate|].
      destruct (should_return_nodes6 _ _); [auto|discriminate].
  Qed.

  (* ================================================================ C09: entry widths *)
  Lemma compact_to4_eq b : Compact.to4 b = to4 b.
  Proof. reflexivity. Qed.
  Lemma compact_to16_eq b : Compact.to16 b = to16 b.
  Proof. reflexivity. Qed.

  Lemma port_enc_length p : length (Compact.port_enc p) = 2%nat.
  Proof. reflexivity. Qed.

  (* `nodes`: every accepted entry has a 20-byte id and a 4-byte address and is written by the
     CompactIPv4NodeInfo encoder as exactly elem_CompactIPv4NodeInfo = 26 bytes *)
  Theorem C09_gate_ipv4_26_bytes s target obs c :
    accept_closest s false target obs = true -> Inv s -> In c obs ->
    length (ni_id c) = 20%nat /\ length (na_ip (ni_addr c)) = 4%nat /\
    Z.of_nat (length (Compact.nodeinfo_marshal (Compact.info4_conv c))) = elem_CompactIPv4NodeInfo.
  Proof.
    intros H HI Hin. destruct (accept_closest_sound _ _ _ _ HI H) as (_ & _ & Hb & _).
    destruct (Hb c Hin) as (n & _ & -> & _ & _ & _ & _ & Hf).
    unfold family in Hf. destruct (to4 (ip (n_addr n))) as [x|] eqn:E4; [|discriminate].
    pose proof (to4_length _ _ E4) as Hx.
    assert (Hw : wire_info false n = mkNI (ofN 20 (n_id n)) (mkNA x (Z.of_N (port (n_addr n))))).
    { unfold wire_info. rewrite E4. reflexivity. }
    rewrite Hw. cbn [ni_id ni_addr na_ip]. split; [apply ofN_length|]. split; [exact Hx|].
    unfold Compact.nodeinfo_marshal, Compact.info4_conv, Compact.nodeaddr_marshal.
    cbn [ni_id ni_addr na_ip na_port]. rewrite compact_to4_eq.
    destruct (ip_cases x) as [(_ & Hx4 & _)|[(F & _)|(F & _)]]; [|congruence|congruence].
    rewrite Hx4. cbn [Compact.ip_or_nil]. rewrite !app_length, ofN_length, Hx, port_enc_length.
    reflexivity.
  Qed.

  (* `nodes6`: 20-byte id, 16-byte address, elem_CompactIPv6NodeInfo = 38 bytes *)
  Theorem C09_gate_ipv6_38_bytes s target obs c :
    accept_closest s true target obs = true -> Inv s -> In c obs ->
    length (ni_id c) = 20%nat /\ length (na_ip (ni_addr c)) = 16%nat /\
    Z.of_nat (length (Compact.nodeinfo_marshal (Compact.info6_conv c))) = elem_CompactIPv6NodeInfo.
  Proof.
    intros H HI Hin. destruct (accept_closest_sound _ _ _ _ HI H) as (_ & _ & Hb & _).
    destruct (Hb c Hin) as (n & Hn & -> & _ & _ & _ & _ & Hf).
    pose proof (inv_addr _ _ _ HI n Hn) as Hwf. unfold wf_addr, wf_ip in Hwf.
    unfold family in Hf. destruct (to4 (ip (n_addr n))) as [x|] eqn:E4; [discriminate|].
    destruct (ip_cases (ip (n_addr n))) as [(_ & F & _)|[(H16 & Hto16 & _)|(F1 & F2 & _)]];
      [congruence| |destruct Hwf; congruence].
    assert (Hw : wire_info true n = mkNI (ofN 20 (n_id n)) (mkNA (ip (n_addr n)) (Z.of_N (port (n_addr n))))).
    { unfold wire_info. rewrite Hto16. reflexivity. }
    rewrite Hw. cbn [ni_id ni_addr na_ip]. split; [apply ofN_length|]. split; [exact H16|].
    unfold Compact.nodeinfo_marshal, Compact.info6_conv, Compact.nodeaddr_marshal.
    cbn [ni_id ni_addr na_ip na_port]. rewrite compact_to16_eq, Hto16.
    cbn [Compact.ip_or_nil]. rewrite !app_length, ofN_length, H16, port_enc_length.
    reflexivity.
  Qed.

  (* the two lists never mix families: an IPv4 contact is never offered in nodes6 nor vice versa *)
  Theorem C09_families_disjoint s target l4 l6 c :
    Inv s -> accept_closest s false target l4 = true -> accept_closest s true target l6 = true ->
    In c l4 -> In c l6 -> False.
  Proof.
    intros HI H4 H6 Hc4 Hc6.
    destruct (C09_gate_ipv4_26_bytes _ _ _ _ H4 HI Hc4) as (_ & F4 & _).
    destruct (C09_gate_ipv6_38_bytes _ _ _ _ H6 HI Hc6) as (_ & F6 & _). congruence.
  Qed.

  Theorem C09_pin : reply_k = 8%nat /\ K = 8%nat.
  Proof. split; reflexivity. Qed.

  (* ================================================================ C09: end to end *)
  (* the content of [accept_closest_sound], as a predicate on the list *)
  Definition closest_spec (s : sstate) (v6 : bool) (target : N) (obs : list node_info) : Prop :=
    NoDup obs /\ (length obs <= reply_k)%nat /\
    (forall c, In c obs ->
       exists n, In n (s_nodes s) /\ c = wire_info v6 n /\ node_good (s_now s) n = true /\
                 n_lr n <> None /\ n_id n <> c_root cfg /\
                 (n_slot n <= start_bucket target)%nat /\ family v6 n = true) /\
    (forall n, In n (s_nodes s) -> node_good (s_now s) n = true -> family v6 n = true ->
               (n_slot n <= start_bucket target)%nat -> ~ In (wire_info v6 n) obs ->
       length obs = reply_k /\
       forall n', In n' (s_nodes s) -> In (wire_info v6 n') obs -> (n_slot n <= n_slot n')%nat).

  Theorem C09_reply_contacts s src size m ch s' out d rm k r (v6 : bool) l :
    Inv s' ->
    step s (EPacket src size (Some m)) ch = SR s' out -> In (ESend d rm k) out -> m_r rm = Some r ->
    (if v6 then r_nodes6 r else r_nodes r) = Some l ->
    exists a,
      m_a m = Some a /\ m_y m = s_q /\ (m_q m = s_find_node \/ m_q m = s_get_peers \/ m_q m = s_get) /\
      (if v6 then should_return_nodes6 (want_list a) (ip src)
       else should_return_nodes (want_list a) (ip src)) = true /\
      l <> [] /\ closest_spec s' v6 (target_of m a) l /\
      (forall c, In c l -> length (ni_id c) = 20%nat /\
                           length (na_ip (ni_addr c)) = (if v6 then 16%nat else 4%nat)).
  Proof.
    intros HI Hstep Hin Hr Hl.
    destruct (C09_reply_lists _ _ _ _ _ _ _ _ _ _ _ Hstep Hin Hr) as (_ & _ & Hy & Hc).
    destruct Hc as [[H4 H6]|(a & Ha & Hq & Hn4 & Hn6)].
    { destruct v6; congruence. }
    exists a. split; [exact Ha|]. split; [exact Hy|]. split; [exact Hq|].
    destruct v6.
    - destruct (Hn6 l Hl) as (Hne & Hw & Hacc). split; [exact Hw|]. split; [exact Hne|].
      split; [exact (accept_closest_sound _ _ _ _ HI Hacc)|].
      intros c Hc. destruct (C09_gate_ipv6_38_bytes _ _ _ _ Hacc HI Hc) as (G1 & G2 & _). auto.
    - destruct (Hn4 l Hl) as (Hne & Hw & Hacc). split; [exact Hw|]. split; [exact Hne|].
      split; [exact (accept_closest_sound _ _ _ _ HI Hacc)|].
      intros c Hc. destruct (C09_gate_ipv4_26_bytes _ _ _ _ Hacc HI Hc) as (G1 & G2 & _). auto.
  Qed.

End C09.
