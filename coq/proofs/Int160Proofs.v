(* Int160Proofs.v — refinement of the byte-level int160 model to N and the metric /
   bucket-index laws used by C18 (and by C05, C09, C02). *)
From Dht Require Import Base Int160.
From Coq Require Import ZifyN ZifyNat ZifyBool.

Local Open Scope N_scope.

(* ---------- byte strings as numbers ---------- *)

Local Arguments N.pow : simpl never.
Local Arguments N.mul : simpl never.
Local Arguments N.add : simpl never.
Local Arguments N.div : simpl never.
Local Arguments N.modulo : simpl never.

Lemma pow_of_nat_S b n : b ^ N.of_nat (S n) = b * b ^ N.of_nat n.
Proof. rewrite Nat2N.inj_succ, N.pow_succ_r'. reflexivity. Qed.

Lemma toN_fold_acc b acc :
  fold_left (fun acc x => acc * 256 + Byte.to_N x) b acc
  = acc * 256 ^ N.of_nat (length b) + toN b.
Proof.
  unfold toN. revert acc. induction b as [|x b IH]; intros acc.
  - simpl. rewrite N.pow_0_r. lia.
  - cbn [fold_left length]. rewrite pow_of_nat_S.
    rewrite (IH (acc * 256 + Byte.to_N x)), (IH (0 * 256 + Byte.to_N x)).
    generalize (256 ^ N.of_nat (length b)). intros p. ring.
Qed.

Lemma toN_app a b : toN (a ++ b) = toN a * 256 ^ N.of_nat (length b) + toN b.
Proof.
  unfold toN at 1. rewrite fold_left_app. apply toN_fold_acc.
Qed.

Lemma toN_nil : toN [] = 0.
Proof. reflexivity. Qed.

Lemma toN_cons x a : toN (x :: a) = Byte.to_N x * 256 ^ N.of_nat (length a) + toN a.
Proof.
  change (x :: a) with ([x] ++ a). rewrite toN_app. f_equal.
Qed.

Lemma toN_snoc a x : toN (a ++ [x]) = toN a * 256 + Byte.to_N x.
Proof. unfold toN. rewrite fold_left_app. reflexivity. Qed.

Lemma byte_lt x : Byte.to_N x < 256.
Proof. pose proof (Byte.to_N_bounded x). lia. Qed.

Lemma toN_bound a : toN a < 256 ^ N.of_nat (length a).
Proof.
  induction a as [|x a IH].
  - rewrite toN_nil. cbn [length]. rewrite N.pow_0_r. lia.
  - rewrite toN_cons. cbn [length]. rewrite pow_of_nat_S.
    pose proof (byte_lt x). revert IH. generalize (256 ^ N.of_nat (length a)) (toN a).
    intros p r Hr. nia.
Qed.

Lemma pow256 n : 256 ^ n = 2 ^ (8 * n).
Proof. rewrite N.pow_mul_r. reflexivity. Qed.

Lemma to_N_byte_of_N v : Byte.to_N (byte_of_N v) = v mod 256.
Proof.
  unfold byte_of_N. destruct (Byte.of_N (v mod 256)) eqn:E.
  - apply Byte.to_of_N. exact E.
  - apply Byte.of_N_None_iff in E. pose proof (N.mod_lt v 256). lia.
Qed.

Lemma byte_of_to_N x : byte_of_N (Byte.to_N x) = x.
Proof.
  unfold byte_of_N. rewrite N.mod_small by apply byte_lt. rewrite Byte.of_to_N. reflexivity.
Qed.

Lemma to_N_inj x y : Byte.to_N x = Byte.to_N y -> x = y.
Proof. intros H. rewrite <- (byte_of_to_N x), <- (byte_of_to_N y), H. reflexivity. Qed.

Lemma ofN_S k v : ofN (S k) v = ofN k (v / 256) ++ [byte_of_N v].
Proof. reflexivity. Qed.

Lemma toN_bound_20 a : length a = 20%nat -> toN a < 2 ^ 160.
Proof.
  intros H. pose proof (toN_bound a) as B. rewrite H, pow256 in B. exact B.
Qed.

Lemma toN_ofN n v : v < 256 ^ N.of_nat n -> toN (ofN n v) = v.
Proof.
  revert v. induction n as [|n IH]; intros v Hv.
  - cbn [ofN]. rewrite toN_nil. rewrite N.pow_0_r in Hv. lia.
  - rewrite ofN_S, toN_snoc, to_N_byte_of_N. rewrite pow_of_nat_S in Hv.
    rewrite IH by (apply N.div_lt_upper_bound; [lia | exact Hv]).
    pose proof (N.div_mod v 256). lia.
Qed.

Lemma ofN_length n v : length (ofN n v) = n.
Proof.
  revert v. induction n as [|n IH]; intros v.
  - reflexivity.
  - rewrite ofN_S, app_length, IH. cbn [length]. lia.
Qed.

Lemma ofN_toN a : ofN (length a) (toN a) = a.
Proof.
  induction a as [|x a IH] using rev_ind.
  - reflexivity.
  - rewrite app_length. cbn [length]. rewrite Nat.add_1_r, ofN_S, toN_snoc.
    pose proof (byte_lt x) as Hx.
    replace ((toN a * 256 + Byte.to_N x) / 256) with (toN a).
    2:{ rewrite N.div_add_l by lia. rewrite N.div_small by exact Hx. lia. }
    rewrite IH. f_equal. f_equal.
    unfold byte_of_N.
    replace ((toN a * 256 + Byte.to_N x) mod 256) with (Byte.to_N x).
    2:{ rewrite N.add_comm, N.mod_add by lia. rewrite N.mod_small by exact Hx. reflexivity. }
    rewrite Byte.of_to_N. reflexivity.
Qed.

Lemma toN_inj a b : length a = length b -> toN a = toN b -> a = b.
Proof.
  intros HL HE. rewrite <- (ofN_toN a), <- (ofN_toN b), HL, HE. reflexivity.
Qed.

(* ---------- bit-level helpers on N ---------- *)

Lemma bits_above x n m : x < 2 ^ n -> n <= m -> N.testbit x m = false.
Proof.
  intros Hx Hm. destruct (N.eq_dec x 0) as [->|Hz].
  - apply N.bits_0.
  - apply N.bits_above_log2. apply N.log2_lt_pow2 in Hx; lia.
Qed.

Lemma lt_pow2_bits x n : (forall m, n <= m -> N.testbit x m = false) -> x < 2 ^ n.
Proof.
  intros H. destruct (N.eq_dec x 0) as [->|Hz].
  - apply N.neq_0_lt_0, N.pow_nonzero. lia.
  - apply N.log2_lt_pow2; [lia|].
    destruct (N.lt_ge_cases (N.log2 x) n) as [Hlt|Hge]; [exact Hlt|].
    pose proof (N.bit_log2 x Hz) as B.
    rewrite (H _ Hge) in B. discriminate.
Qed.

Lemma testbit_mul_add x k r n :
  r < 2 ^ k ->
  N.testbit (x * 2 ^ k + r) n = if n <? k then N.testbit r n else N.testbit x (n - k).
Proof.
  intros Hr. assert (Hp : 2 ^ k <> 0) by (apply N.pow_nonzero; lia).
  destruct (N.ltb_spec n k) as [Hlt|Hge].
  - rewrite <- (N.mod_pow2_bits_low (x * 2 ^ k + r) k n Hlt).
    rewrite N.add_comm, N.mod_add by exact Hp. rewrite N.mod_small by exact Hr. reflexivity.
  - replace n with ((n - k) + k) at 1 by lia.
    rewrite <- N.div_pow2_bits. rewrite N.div_add_l by exact Hp.
    rewrite N.div_small by exact Hr. rewrite N.add_0_r. reflexivity.
Qed.

Lemma lxor_bound a b n : a < 2 ^ n -> b < 2 ^ n -> N.lxor a b < 2 ^ n.
Proof.
  intros Ha Hb. apply lt_pow2_bits. intros m Hm.
  rewrite N.lxor_spec, (bits_above a n m Ha Hm), (bits_above b n m Hb Hm). reflexivity.
Qed.

Lemma lxor_mul_add x y k r s :
  r < 2 ^ k -> s < 2 ^ k ->
  N.lxor (x * 2 ^ k + r) (y * 2 ^ k + s) = N.lxor x y * 2 ^ k + N.lxor r s.
Proof.
  intros Hr Hs. apply N.bits_inj. intros n.
  rewrite N.lxor_spec, !testbit_mul_add by (try apply lxor_bound; assumption).
  destruct (n <? k); rewrite N.lxor_spec; reflexivity.
Qed.

Lemma toN_bound2 a : toN a < 2 ^ (8 * N.of_nat (length a)).
Proof. rewrite <- pow256. apply toN_bound. Qed.

(* ---------- refinement of int160.T operations ---------- *)

Lemma xorl_length a b : length a = length b -> length (xorl a b) = length a.
Proof.
  revert b. induction a as [|x a IH]; intros [|y b] H; try discriminate; cbn [xorl length].
  - reflexivity.
  - f_equal. apply IH. cbn [length] in H. lia.
Qed.

Theorem toN_xorl a b : length a = length b -> toN (xorl a b) = N.lxor (toN a) (toN b).
Proof.
  revert b. induction a as [|x a IH]; intros [|y b] H; try discriminate; cbn [xorl].
  - reflexivity.
  - cbn [length] in H. assert (H' : length a = length b) by lia.
    rewrite !toN_cons, xorl_length, IH by exact H'. rewrite <- H'.
    rewrite !pow256. rewrite lxor_mul_add by apply toN_bound2 || (rewrite H'; apply toN_bound2).
    f_equal. f_equal. unfold bxor. rewrite to_N_byte_of_N. apply N.mod_small.
    change 256 with (2 ^ 8). apply lxor_bound; apply byte_lt.
Qed.

Theorem lex_cmp_toN a b : length a = length b -> lex_cmp a b = N.compare (toN a) (toN b).
Proof.
  revert b. induction a as [|x a IH]; intros [|y b] H; try discriminate; cbn [lex_cmp].
  - reflexivity.
  - cbn [length] in H. assert (H' : length a = length b) by lia.
    rewrite !toN_cons, <- H'. rewrite (IH b H').
    pose proof (toN_bound a) as Ba. pose proof (toN_bound b) as Bb. rewrite <- H' in Bb.
    revert Ba Bb. generalize (256 ^ N.of_nat (length a)) (toN a) (toN b) (Byte.to_N x) (Byte.to_N y).
    intros p ra rb u v Ba Bb.
    destruct (N.compare_spec u v) as [->|Hlt|Hgt].
    + destruct (N.compare_spec ra rb) as [->|Hl|Hg].
      * symmetry. apply N.compare_refl.
      * symmetry. apply N.compare_lt_iff. lia.
      * symmetry. apply N.compare_gt_iff. lia.
    + symmetry. apply N.compare_lt_iff.
      assert ((u + 1) * p <= v * p) by (apply N.mul_le_mono_r; lia). lia.
    + symmetry. apply N.compare_gt_iff.
      assert ((v + 1) * p <= u * p) by (apply N.mul_le_mono_r; lia). lia.
Qed.

Theorem is_zero_toN a : is_zero a = N.eqb (toN a) 0.
Proof.
  unfold is_zero. induction a as [|x a IH].
  - reflexivity.
  - cbn [all_zero]. rewrite IH, toN_cons.
    assert (Hp : 256 ^ N.of_nat (length a) <> 0) by (apply N.pow_nonzero; lia).
    revert Hp. generalize (256 ^ N.of_nat (length a)) (toN a) (Byte.to_N x). intros p r u Hp.
    destruct (N.eqb_spec u 0) as [->|Hu]; cbn [andb].
    + rewrite N.mul_0_l, N.add_0_l. reflexivity.
    + symmetry. apply N.eqb_neq. intros E.
      apply N.eq_add_0 in E. destruct E as [E _]. apply N.eq_mul_0 in E. tauto.
Qed.

Theorem bytes_eqb_eq a b : bytes_eqb a b = true <-> a = b.
Proof.
  revert b. induction a as [|x a IH]; intros [|y b]; cbn [bytes_eqb]; split; intros H;
    try discriminate; try reflexivity.
  - apply andb_true_iff in H. destruct H as [H1 H2]. unfold byte_eqb in H1.
    apply N.eqb_eq, to_N_inj in H1. apply IH in H2. subst. reflexivity.
  - injection H as -> ->. apply andb_true_iff. split.
    + unfold byte_eqb. apply N.eqb_refl.
    + apply IH. reflexivity.
Qed.

(* bit [8 * (length a - 1 - k) + j] of [toN a] is bit [j] of byte [k] *)
Lemma toN_testbit a k j :
  (k < length a)%nat -> (j < 8)%nat ->
  N.testbit (toN a) (N.of_nat (8 * (length a - 1 - k) + j))
  = N.testbit (Byte.to_N (nth k a x00)) (N.of_nat j).
Proof.
  revert k. induction a as [|x a IH]; intros k Hk Hj; cbn [length] in *; [lia|].
  rewrite toN_cons, pow256, testbit_mul_add by apply toN_bound2.
  destruct k as [|k]; cbn [nth].
  - destruct (N.ltb_spec (N.of_nat (8 * (S (length a) - 1 - 0) + j)) (8 * N.of_nat (length a))); [lia|].
    f_equal. lia.
  - destruct (N.ltb_spec (N.of_nat (8 * (S (length a) - 1 - S k) + j)) (8 * N.of_nat (length a))); [|lia].
    rewrite <- IH by lia. f_equal. lia.
Qed.

Lemma toN_testbit_20 a n :
  length a = 20%nat -> n < 160 ->
  N.testbit (toN a) n
  = N.testbit (Byte.to_N (nth (19 - N.to_nat n / 8) a x00)) (N.of_nat (N.to_nat n mod 8)).
Proof.
  intros Ha Hn.
  pose proof (Nat.div_mod (N.to_nat n) 8 ltac:(lia)) as Hd.
  pose proof (Nat.mod_upper_bound (N.to_nat n) 8 ltac:(lia)) as Hm.
  revert Hd Hm. generalize (N.to_nat n / 8)%nat (N.to_nat n mod 8)%nat. intros q r Hd Hm.
  rewrite <- toN_testbit by lia. f_equal. lia.
Qed.

Theorem get_bit_toN a i :
  length a = 20%nat -> (i < 160)%nat -> get_bit a i = bitN (toN a) i.
Proof.
  intros Ha Hi. unfold get_bit, bitN.
  pose proof (Nat.div_mod i 8 ltac:(lia)) as Hd.
  pose proof (Nat.mod_upper_bound i 8 ltac:(lia)) as Hm.
  revert Hd Hm. generalize (i / 8)%nat (i mod 8)%nat. intros q r Hd Hm.
  rewrite <- toN_testbit by lia. f_equal. lia.
Qed.

Lemma upd_nth_length {A} (l : list A) i v : length (upd_nth l i v) = length l.
Proof.
  revert i. induction l as [|x l IH]; intros [|i]; cbn [upd_nth length]; try reflexivity.
  f_equal. apply IH.
Qed.

Lemma nth_upd_nth {A} (l : list A) m v k d :
  (m < length l)%nat ->
  nth k (upd_nth l m v) d = if Nat.eqb k m then v else nth k l d.
Proof.
  revert m k. induction l as [|x l IH]; intros m k Hm; cbn [length] in Hm; [lia|].
  destruct m as [|m], k as [|k]; cbn [upd_nth nth Nat.eqb]; try reflexivity.
  apply IH. lia.
Qed.

Theorem set_bit_length a i v : length (set_bit a i v) = length a.
Proof. unfold set_bit. apply upd_nth_length. Qed.

Lemma testbit_byte_of_N nb j :
  j < 8 -> N.testbit (Byte.to_N (byte_of_N nb)) j = N.testbit nb j.
Proof.
  intros Hj. rewrite to_N_byte_of_N. change 256 with (2 ^ 8).
  apply N.mod_pow2_bits_low. exact Hj.
Qed.

Theorem set_bit_toN a i v :
  length a = 20%nat -> (i < 160)%nat -> toN (set_bit a i v) = set_bitN (toN a) i v.
Proof.
  intros Ha Hi. pose proof (toN_bound_20 a Ha) as Ba.
  pose proof (toN_bound_20 (set_bit a i v) ltac:(rewrite set_bit_length; exact Ha)) as Bs.
  apply N.bits_inj. intros n.
  destruct (N.lt_ge_cases n 160) as [Hn|Hn].
  - rewrite toN_testbit_20 by (rewrite ?set_bit_length; assumption).
    assert (R : N.testbit (set_bitN (toN a) i v) n =
                if N.of_nat (159 - i) =? n then v else N.testbit (toN a) n).
    { unfold set_bitN. destruct v; rewrite ?N.setbit_eqb, ?N.clearbit_eqb;
        destruct (N.of_nat (159 - i) =? n); cbn [orb andb negb];
        rewrite ?andb_true_r, ?andb_false_r; reflexivity. }
    rewrite R. rewrite (toN_testbit_20 a n Ha Hn). clear R Ba Bs.
    unfold set_bit.
    pose proof (Nat.div_mod (N.to_nat n) 8 ltac:(lia)) as Hd.
    pose proof (Nat.mod_upper_bound (N.to_nat n) 8 ltac:(lia)) as Hm.
    pose proof (Nat.div_mod i 8 ltac:(lia)) as Hd'.
    pose proof (Nat.mod_upper_bound i 8 ltac:(lia)) as Hm'.
    revert Hd Hm Hd' Hm'.
    generalize (N.to_nat n / 8)%nat (N.to_nat n mod 8)%nat (i / 8)%nat (i mod 8)%nat.
    intros q r q' r' Hd Hm Hd' Hm'.
    rewrite nth_upd_nth by lia.
    destruct (Nat.eqb_spec (19 - q) q') as [E|E].
    + rewrite testbit_byte_of_N by lia. rewrite E.
      assert (R : (N.of_nat (159 - i) =? n) = (N.of_nat (7 - r') =? N.of_nat r)).
      { destruct (N.eqb_spec (N.of_nat (159 - i)) n), (N.eqb_spec (N.of_nat (7 - r')) (N.of_nat r));
          try reflexivity; lia. }
      rewrite R.
      destruct v; rewrite ?N.setbit_eqb, ?N.clearbit_eqb;
        destruct (N.of_nat (7 - r') =? N.of_nat r); cbn [orb andb negb];
        rewrite ?andb_true_r, ?andb_false_r; reflexivity.
    + destruct (N.eqb_spec (N.of_nat (159 - i)) n); [lia|]. reflexivity.
  - rewrite (bits_above _ _ _ Bs Hn).
    unfold set_bitN. destruct v; rewrite ?N.setbit_eqb, ?N.clearbit_eqb;
      rewrite (bits_above _ _ _ Ba Hn); clear Ba Bs.
    + destruct (N.eqb_spec (N.of_nat (159 - i)) n); [lia|]. reflexivity.
    + reflexivity.
Qed.

Lemma copy_bits_length root id n : length (copy_bits root id n) = length id.
Proof.
  induction n as [|n IH]; cbn [copy_bits]; [reflexivity|].
  rewrite set_bit_length. exact IH.
Qed.

Theorem random_in_bucket_bytes_length root base i :
  length (random_in_bucket_bytes root base i) = length base.
Proof.
  unfold random_in_bucket_bytes. rewrite set_bit_length. apply copy_bits_length.
Qed.

Lemma copy_bits_toN root id n :
  length root = 20%nat -> length id = 20%nat -> (n <= 160)%nat ->
  toN (copy_bits root id n) = copy_bitsN (toN root) (toN id) n.
Proof.
  intros Hr Hi. induction n as [|n IH]; intros Hn; cbn [copy_bits copy_bitsN]; [reflexivity|].
  rewrite set_bit_toN by (rewrite ?copy_bits_length; lia).
  rewrite IH by lia. rewrite get_bit_toN by lia. reflexivity.
Qed.

Theorem random_in_bucket_bytes_toN root base i :
  length root = 20%nat -> length base = 20%nat -> (i < 160)%nat ->
  toN (random_in_bucket_bytes root base i) = random_in_bucket (toN root) (toN base) i.
Proof.
  intros Hr Hb Hi. unfold random_in_bucket_bytes, random_in_bucket.
  rewrite set_bit_toN by (rewrite ?copy_bits_length; lia).
  rewrite copy_bits_toN by lia. rewrite get_bit_toN by lia. reflexivity.
Qed.

Theorem bucket_index_bytes_spec root id :
  length root = 20%nat -> length id = 20%nat ->
  bucket_index_bytes root id =
    if N.eqb (toN root) (toN id) then None else Some (bucket_index (toN root) (toN id)).
Proof.
  intros Hr Hi. unfold bucket_index_bytes, bucket_index, bitlen.
  rewrite toN_xorl by congruence.
  destruct (bytes_eqb root id) eqn:E.
  - apply bytes_eqb_eq in E. subst. rewrite N.eqb_refl. reflexivity.
  - destruct (N.eqb_spec (toN root) (toN id)) as [E'|E']; [|reflexivity].
    apply toN_inj in E'; [|congruence]. apply bytes_eqb_eq in E'. congruence.
Qed.

(* ---------- metric laws at spec level ---------- *)

Theorem dist_sym a b : dist a b = dist b a.
Proof. apply N.lxor_comm. Qed.

Theorem dist_zero_iff a b : dist a b = 0 <-> a = b.
Proof.
  unfold dist. split.
  - apply N.lxor_eq.
  - intros ->. apply N.lxor_nilpotent.
Qed.

Theorem dist_inj t a b : dist a t = dist b t -> a = b.
Proof.
  unfold dist. intros H.
  rewrite <- (N.lxor_0_r a), <- (N.lxor_0_r b), <- (N.lxor_nilpotent t).
  rewrite <- !N.lxor_assoc. rewrite H. reflexivity.
Qed.

Theorem dist_bound a b : a < 2 ^ 160 -> b < 2 ^ 160 -> dist a b < 2 ^ 160.
Proof. apply lxor_bound. Qed.

(* the byte-wise order on distances is the order on unsigned 160-bit integers *)
Theorem cmp160_dist_spec t a b :
  length t = 20%nat -> length a = 20%nat -> length b = 20%nat ->
  cmp160 (distance a t) (distance b t) = N.compare (dist (toN a) (toN t)) (dist (toN b) (toN t)).
Proof.
  intros Ht Ha Hb. unfold cmp160, distance, dist.
  rewrite lex_cmp_toN by (rewrite !xorl_length; congruence).
  rewrite !toN_xorl by congruence. reflexivity.
Qed.

(* ---------- bucket index = shared prefix length ---------- *)

Lemma bucket_index_log2 root id :
  root < 2 ^ 160 -> id < 2 ^ 160 -> root <> id ->
  N.lxor root id <> 0 /\ N.log2 (N.lxor root id) < 160 /\
  bucket_index root id = (159 - N.to_nat (N.log2 (N.lxor root id)))%nat.
Proof.
  intros Hr Hi Hne.
  assert (Hx : N.lxor root id <> 0) by (intros E; apply N.lxor_eq in E; contradiction).
  pose proof (lxor_bound _ _ _ Hr Hi) as Bx.
  apply N.log2_lt_pow2 in Bx; [|apply N.neq_0_lt_0; exact Hx].
  split; [exact Hx|]. split; [exact Bx|].
  unfold bucket_index. rewrite N.size_log2 by exact Hx. clear Hr Hi. lia.
Qed.

Theorem bucket_index_lt root id :
  root < 2 ^ 160 -> id < 2 ^ 160 -> root <> id -> (bucket_index root id < 160)%nat.
Proof.
  intros Hr Hi Hne. destruct (bucket_index_log2 root id Hr Hi Hne) as (_ & HL & ->).
  clear Hr Hi. lia.
Qed.

Lemma bucket_index_bits_aux root id :
  root < 2 ^ 160 -> id < 2 ^ 160 -> root <> id ->
  (forall j, (j < bucket_index root id)%nat -> bitN root j = bitN id j) /\
  bitN root (bucket_index root id) <> bitN id (bucket_index root id).
Proof.
  intros Hr Hi Hne. destruct (bucket_index_log2 root id Hr Hi Hne) as (Hx & HL & ->).
  clear Hr Hi. unfold bitN. split.
  - intros j Hj.
    assert (B : N.testbit (N.lxor root id) (N.of_nat (159 - j)) = false)
      by (apply N.bits_above_log2; lia).
    rewrite N.lxor_spec in B.
    destruct (N.testbit root _), (N.testbit id _); try reflexivity; discriminate.
  - replace (N.of_nat (159 - (159 - N.to_nat (N.log2 (N.lxor root id)))))
      with (N.log2 (N.lxor root id)) by lia.
    pose proof (N.bit_log2 _ Hx) as B. rewrite N.lxor_spec in B.
    intros E. rewrite E, xorb_nilpotent in B. discriminate.
Qed.

Lemma shared_prefix_from_spec a b d :
  forall j fuel, (d < fuel)%nat ->
  (forall k, (j <= k < j + d)%nat -> bitN a k = bitN b k) ->
  bitN a (j + d) <> bitN b (j + d) ->
  shared_prefix_from a b j fuel = d.
Proof.
  induction d as [|d IH]; intros j fuel Hf Heq Hne;
    (destruct fuel as [|f]; [lia|]); cbn [shared_prefix_from].
  - rewrite Nat.add_0_r in Hne.
    destruct (Bool.eqb (bitN a j) (bitN b j)) eqn:E; [|reflexivity].
    apply eqb_prop in E. contradiction.
  - rewrite (Heq j) by lia. rewrite eqb_reflx. f_equal.
    apply IH.
    + lia.
    + intros k Hk. apply Heq. lia.
    + replace (S j + d)%nat with (j + S d)%nat by lia. exact Hne.
Qed.

Theorem bucket_index_shared_prefix root id :
  root < 2 ^ 160 -> id < 2 ^ 160 -> root <> id ->
  bucket_index root id = shared_prefix_len root id.
Proof.
  intros Hr Hi Hne. symmetry. unfold shared_prefix_len.
  destruct (bucket_index_bits_aux root id Hr Hi Hne) as [Heq Hd].
  apply shared_prefix_from_spec.
  - apply bucket_index_lt; assumption.
  - intros k Hk. apply Heq. lia.
  - exact Hd.
Qed.

(* characterisation used by the routing-table proofs: the first [bucket_index] bits agree and
   the next one differs *)
Theorem bucket_index_bits root id :
  root < 2 ^ 160 -> id < 2 ^ 160 -> root <> id ->
  (forall j, (j < bucket_index root id)%nat -> bitN root j = bitN id j) /\
  bitN root (bucket_index root id) <> bitN id (bucket_index root id).
Proof. apply bucket_index_bits_aux. Qed.

Lemma set_bitN_testbit x j v n :
  N.testbit (set_bitN x j v) n = if N.of_nat (159 - j) =? n then v else N.testbit x n.
Proof.
  unfold set_bitN. destruct v; rewrite ?N.setbit_eqb, ?N.clearbit_eqb;
    destruct (N.of_nat (159 - j) =? n); cbn [orb andb negb];
    rewrite ?andb_true_r, ?andb_false_r; reflexivity.
Qed.

Lemma set_bitN_bitN x j v k :
  (j < 160)%nat -> (k < 160)%nat ->
  bitN (set_bitN x j v) k = if Nat.eqb j k then v else bitN x k.
Proof.
  intros Hj Hk. unfold bitN. rewrite set_bitN_testbit.
  destruct (N.eqb_spec (N.of_nat (159 - j)) (N.of_nat (159 - k))), (Nat.eqb_spec j k);
    try reflexivity; lia.
Qed.

Lemma set_bitN_bound x j v : x < 2 ^ 160 -> set_bitN x j v < 2 ^ 160.
Proof.
  intros Hx. apply lt_pow2_bits. intros m Hm. rewrite set_bitN_testbit.
  rewrite (bits_above _ _ _ Hx Hm). clear Hx.
  destruct (N.eqb_spec (N.of_nat (159 - j)) m); [lia|reflexivity].
Qed.

Lemma copy_bitsN_bound root id n : id < 2 ^ 160 -> copy_bitsN root id n < 2 ^ 160.
Proof.
  intros Hi. induction n as [|n IH]; cbn [copy_bitsN]; [exact Hi|].
  apply set_bitN_bound. exact IH.
Qed.

Lemma copy_bitsN_bitN root id n k :
  (n <= 160)%nat -> (k < 160)%nat ->
  bitN (copy_bitsN root id n) k = if Nat.ltb k n then bitN root k else bitN id k.
Proof.
  intros Hn Hk. induction n as [|n IH]; cbn [copy_bitsN]; [reflexivity|].
  rewrite set_bitN_bitN by lia. rewrite IH by lia.
  destruct (Nat.eqb_spec n k), (Nat.ltb_spec k n), (Nat.ltb_spec k (S n));
    try reflexivity; try lia. subst. reflexivity.
Qed.

Theorem random_in_bucket_bound root base i :
  root < 2 ^ 160 -> base < 2 ^ 160 -> (i < 160)%nat -> random_in_bucket root base i < 2 ^ 160.
Proof.
  intros _ Hb _. unfold random_in_bucket. apply set_bitN_bound, copy_bitsN_bound. exact Hb.
Qed.

Lemma random_in_bucket_bitN root base i k :
  (i < 160)%nat -> (k <= i)%nat ->
  bitN (random_in_bucket root base i) k = if Nat.eqb i k then negb (bitN root i) else bitN root k.
Proof.
  intros Hi Hk. unfold random_in_bucket.
  rewrite set_bitN_bitN by lia. rewrite copy_bitsN_bitN by lia.
  destruct (Nat.eqb_spec i k); [reflexivity|].
  destruct (Nat.ltb_spec k i); [reflexivity|lia].
Qed.

Theorem random_in_bucket_index root base i :
  root < 2 ^ 160 -> base < 2 ^ 160 -> (i < 160)%nat ->
  random_in_bucket root base i <> root /\
  bucket_index root (random_in_bucket root base i) = i.
Proof.
  intros Hr Hb Hi.
  pose proof (random_in_bucket_bound root base i Hr Hb Hi) as By.
  assert (Hi' : bitN (random_in_bucket root base i) i = negb (bitN root i)).
  { rewrite random_in_bucket_bitN by lia. rewrite Nat.eqb_refl. reflexivity. }
  assert (Hne : random_in_bucket root base i <> root).
  { intros E. rewrite E in Hi'. destruct (bitN root i); discriminate. }
  split; [exact Hne|].
  destruct (bucket_index_bits root _ Hr By (not_eq_sym Hne)) as [Heq Hd].
  clear Hr Hb By.
  destruct (Nat.lt_trichotomy (bucket_index root (random_in_bucket root base i)) i)
    as [Hlt|[He|Hgt]].
  - exfalso. apply Hd. rewrite random_in_bucket_bitN by lia.
    destruct (Nat.eqb_spec i (bucket_index root (random_in_bucket root base i))); [lia|reflexivity].
  - exact He.
  - exfalso. specialize (Heq i Hgt). rewrite Hi' in Heq. destruct (bitN root i); discriminate.
Qed.

Print Assumptions toN_xorl.
Print Assumptions lex_cmp_toN.
Print Assumptions set_bit_toN.
Print Assumptions bucket_index_shared_prefix.
Print Assumptions random_in_bucket_index.
Print Assumptions bucket_index_bytes_spec.
Print Assumptions random_in_bucket_bytes_toN.
