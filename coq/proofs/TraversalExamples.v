(* TraversalExamples.v — one small concrete lookup used by the non-vacuity Examples of
   Props/C02.v, C03.v, C04.v: a three-node honest network, K = 2, Alpha = 2, target 0.
   Definitions only (every fact about them is established by vm_compute in Props). *)
From Dht Require Import Base Int160 Order Traversal.

Definition ex_a1 : addrport := mkAP 32 1 6881.
Definition ex_a2 : addrport := mkAP 32 2 6881.
Definition ex_a3 : addrport := mkAP 32 3 6881.
Definition ex_n1 : ninfo := (1%N, ex_a1).
Definition ex_n2 : ninfo := (2%N, ex_a2).
Definition ex_n3 : ninfo := (5%N, ex_a3).
Definition ex_net : list ninfo := [ex_n1; ex_n2; ex_n3].
Definition ex_nk : list ninfo := [ex_n1; ex_n2].          (* the 2 nodes closest to target 0 *)

Definition ex_resp (n : ninfo) (d : N) : response N := mkResp (Some (n, d)) [ex_n1; ex_n2] [].
Definition ex_complete (i : nat) (n : ninfo) (d : N) : list (label N) :=
  [LDoQueryReturn i (ex_resp n d); LResp i; LAddN i; LAddN6 i; LDone i].

(* seed: the address of node 3 with unknown ID *)
Definition ex_seed : ami := mkAmi ex_a3 None.

(* the seed is queried, answers; both closest nodes are now in flight (outstanding = Alpha) *)
Definition ex_sched_mid : list (label N) :=
  [LAddNodes [ex_seed]; LRun] ++ ex_complete 0 ex_n3 30 ++ [LWake; LRun].
(* ... they answer in the order 2, 1; the loop wakes and offers the stall *)
Definition ex_sched_stall : list (label N) :=
  ex_sched_mid ++ ex_complete 2 ex_n2 20 ++ ex_complete 1 ex_n1 10 ++ [LWake; LRun].
(* Stop while two queries are in flight *)
Definition ex_sched_stop : list (label N) := ex_sched_mid ++ [LStop].
Definition ex_sched_stopped : list (label N) :=
  ex_sched_stop ++ [LCancel 1; LCancel 2; LWake; LRun] ++
  ex_complete 1 ex_n1 10 ++ ex_complete 2 ex_n2 20 ++ [LStopWait].

Definition ex_run (ls : list (label N)) : state N :=
  run N (fun _ => true) (fun _ => true) ap_cmp true 0%N 2 2 ls.
