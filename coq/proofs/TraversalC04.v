(* TraversalC04.v — C04: bounded fan-out, once per address, filter first, cancellation on stop.
   All statements are about the repaired algorithm (prune_front = true), for every schedule
   (label list), every response function (responses are label arguments), every K, Alpha, filter. *)
From Dht Require Import Base Int160 Order OrderProofs Traversal TraversalInv.
From Coq Require Import Sorting.Sorted ZifyN ZifyNat ZifyBool.
Local Arguments ap_mem : simpl never.
Local Arguments Nat.ltb : simpl never.
Local Arguments kn_run : simpl never.
Local Arguments kn_push : simpl never.
Local Arguments have_query_on : simpl never.

Section C04.
  Variable D : Type.
  Variable node_filter : ami -> bool.
  Variable data_filter : D -> bool.
  Variable tb : addrport -> addrport -> comparison.
  Hypothesis tb_refl : forall a, tb a a = Eq.
  Hypothesis tb_eq : forall a b, tb a b = Eq -> a = b.
  Hypothesis tb_antisym : forall a b, tb b a = CompOpp (tb a b).
  Hypothesis tb_trans : forall a b c, tb a b = Lt -> tb b c = Lt -> tb a c = Lt.
  Variable target : N.
  Variable k : nat.
  Variable alpha : nat.

  Notation state := (state D).
  Notation label := (label D).
  Notation TInv := (TInv D node_filter data_filter tb target k alpha).
  Notation do_prune := (do_prune D true).
  Notation start_query := (start_query D).
  Notation start_loop := (start_loop D true target k alpha).
  Notation enabled := (enabled D).
  Notation step := (step D node_filter data_filter tb true target k alpha).
  Notation step_en := (step_en D node_filter data_filter tb true target k alpha).
  Notation exec := (exec D node_filter data_filter tb true target k alpha).
  Notation run := (run D node_filter data_filter tb true target k alpha).
  Notation inv_run := (inv_run D node_filter data_filter tb tb_refl tb_eq tb_antisym tb_trans target k alpha).

  (* never more than Alpha queries in flight; the counter is the number of in-flight queries *)
  Theorem C04_alpha sched :
    st_out (run sched) <= alpha /\ st_out (run sched) = length (st_inflight (run sched)).
  Proof.
    pose proof (inv_run sched) as H. split; [exact (inv_alpha _ _ _ _ _ _ _ _ H)|exact (inv_out _ _ _ _ _ _ _ _ H)].
  Qed.

  (* st_started is the list of candidates popped by startQuery, i.e. the DoQuery calls in order *)
  Theorem C04_once sched : NoDup (map ami_addr (st_started (run sched))).
  Proof. exact (inv_started_nodup _ _ _ _ _ _ _ _ (inv_run sched)). Qed.

  Theorem C04_filtered sched c : In c (st_started (run sched)) -> node_filter c = true.
  Proof. exact (inv_started_filter _ _ _ _ _ _ _ _ (inv_run sched) c). Qed.

  (* every in-flight query belongs to a started candidate *)
  Theorem C04_inflight_started sched q :
    In q (st_inflight (run sched)) -> In (q_cand q) (st_started (run sched)).
  Proof. exact (inv_qcand _ _ _ _ _ _ _ _ (inv_run sched) q). Qed.

  (* ---- cancellation ---- *)
  Lemma inflight_same_id (s : state) q q' :
    TInv s -> In q (st_inflight s) -> In q' (st_inflight s) -> q_id q' = q_id q -> q' = q.
  Proof.
    intros H Hq Hq' Hid.
    pose proof (In_find_q D _ q (inv_qids _ _ _ _ _ _ _ _ H) Hq) as E1.
    pose proof (In_find_q D _ q' (inv_qids _ _ _ _ _ _ _ _ H) Hq') as E2.
    rewrite Hid, E1 in E2. congruence.
  Qed.

  Lemma start_loop_inflight fuel : forall (s : state) q',
    In q' (st_inflight (start_loop fuel s)) ->
    In q' (st_inflight s) \/ length (st_started s) <= q_id q'.
  Proof.
    induction fuel as [|f IH]; intros s q' Hq'; [left; exact Hq'|].
    rewrite (start_loop_S D target k alpha) in Hq'.
    destruct (Nat.ltb (st_out s) alpha); [|left; exact Hq'].
    destruct (have_query_on D target k (st_unq (do_prune s)) (st_closest (do_prune s))).
    - apply IH in Hq'. revert Hq'. unfold Traversal.start_query.
      destruct (st_unq (do_prune s)) as [|c u]; cbn.
      + tauto.
      + rewrite app_length. simpl. intros [Hq'|Hq'].
        * apply in_app_or in Hq'. destruct Hq' as [Hq'|[Hq'|[]]]; [left; exact Hq'|].
          subst q'. right. simpl. lia.
        * right. lia.
    - left. exact Hq'.
  Qed.

  Lemma step_inflight_cancel_stable (s : state) l q q' :
    TInv s -> enabled s l = true ->
    In q (st_inflight s) -> q_cancelled q = true ->
    In q' (st_inflight (step s l)) -> q_id q' = q_id q -> q_cancelled q' = true.
  Proof.
    intros H En Hq Hc Hq' Hid.
    assert (Hsame : In q' (st_inflight s) -> q_cancelled q' = true).
    { intros Hin. rewrite (inflight_same_id s q q' H Hq Hin Hid). exact Hc. }
    assert (Hupd : forall i f (s1 : state),
               st_inflight s1 = st_inflight s ->
               (forall x, q_id (f x) = q_id x) ->
               (forall x, q_cancelled x = true -> q_cancelled (f x) = true) ->
               In q' (upd_q D i f (st_inflight s1)) -> q_cancelled q' = true).
    { intros i f s1 Hs1 Hfid Hfc Hin. rewrite Hs1 in Hin.
      apply In_upd_q in Hin. destruct Hin as [x [Hx [->|[_ ->]]]].
      - exact (Hsame Hx).
      - rewrite Hfid in Hid. rewrite (inflight_same_id s q x H Hq Hx Hid). apply Hfc. exact Hc. }
    destruct l as [| | |i r|i|i|i|i|ns| | |i]; cbn [Traversal.step Traversal.enabled] in *.
    - (* LRun *)
      unfold Traversal.run_step in Hq'. destruct (st_stopping s); [exact (Hsame Hq')|].
      unfold Traversal.run_body in Hq'. cbn in Hq'.
      apply start_loop_inflight in Hq'. destruct Hq' as [Hq'|Hq']; [exact (Hsame Hq')|].
      pose proof (inv_qfresh _ _ _ _ _ _ _ _ H q Hq). lia.
    - exact (Hsame Hq').
    - exact (Hsame Hq').
    - cbn in Hq'. apply (Hupd i (q_returned D r) s eq_refl); [reflexivity|reflexivity|exact Hq'].
    - cbn in Hq'. destruct (r_from (resp_of D s i)) as [x|].
      + apply (Hupd i (q_set_pc D QAddN) (add_closest D node_filter data_filter tb target k s x));
          [exact (proj1 (add_closest_frame D node_filter data_filter tb target k s x))
          |reflexivity|intros y Hy; exact Hy|exact Hq'].
      + apply (Hupd i (q_set_pc D QAddN) s eq_refl); [reflexivity|intros y Hy; exact Hy|exact Hq'].
    - cbn in Hq'.
      apply (Hupd i (q_set_pc D QAddN6) (add_nodes D node_filter target s (map ni_ami (r_nodes (resp_of D s i)))));
        [exact (proj1 (add_nodes_frame D node_filter target _ s))|reflexivity|intros y Hy; exact Hy|exact Hq'].
    - cbn in Hq'.
      apply (Hupd i (q_set_pc D QDone) (add_nodes D node_filter target s (map ni_ami (r_nodes6 (resp_of D s i)))));
        [exact (proj1 (add_nodes_frame D node_filter target _ s))|reflexivity|intros y Hy; exact Hy|exact Hq'].
    - cbn in Hq'. apply Hsame. exact (del_q_incl D i _ q' Hq').
    - rewrite (proj1 (add_nodes_frame D node_filter target ns s)) in Hq'. exact (Hsame Hq').
    - exact (Hsame Hq').
    - exact (Hsame Hq').
    - cbn in Hq'. apply (Hupd i (q_cancel D) s eq_refl); [reflexivity|reflexivity|exact Hq'].
  Qed.

  (* C04_cancel, four parts *)
  (* (1) once stopping, the watcher of every in-flight query whose ctx is not yet cancelled can fire *)
  Theorem C04_cancel_enabled sched q :
    forall s, s = run sched ->
    st_stopping s = true -> In q (st_inflight s) -> q_cancelled q = false ->
    enabled s (LCancel (q_id q)) = true.
  Proof.
    intros s -> Hst Hq Hc. cbn [Traversal.enabled]. rewrite Hst.
    rewrite (In_find_q D _ q (inv_qids _ _ _ _ _ _ _ _ (inv_run sched)) Hq).
    rewrite Hc. reflexivity.
  Qed.

  (* (2) firing it cancels exactly that query's ctx *)
  Theorem C04_cancel_effect sched q q' :
    forall s, s = run sched ->
    st_stopping s = true -> In q (st_inflight s) ->
    In q' (st_inflight (step_en s (LCancel (q_id q)))) -> q_id q' = q_id q -> q_cancelled q' = true.
  Proof.
    intros s Es Hst Hq Hq' Hid. unfold Traversal.step_en in Hq'.
    pose proof (inv_run sched) as H. rewrite <- Es in H.
    destruct (enabled s (LCancel (q_id q))) eqn:En.
    - cbn [Traversal.step st_inflight set_inflight] in Hq'. unfold upd_q in Hq'.
      apply in_map_iff in Hq'. destruct Hq' as [x [He Hx]].
      destruct (Nat.eqb (q_id x) (q_id q)) eqn:E.
      + subst q'. reflexivity.
      + subst q'. apply Nat.eqb_neq in E. contradiction.
    - cbn [Traversal.enabled] in En. rewrite Hst in En.
      rewrite (In_find_q D _ q (inv_qids _ _ _ _ _ _ _ _ H) Hq) in En. simpl in En.
      rewrite (inflight_same_id s q q' H Hq Hq' Hid).
      destruct (q_cancelled q); [reflexivity|discriminate].
  Qed.

  (* (3) cancellation is never undone, whatever happens next *)
  Theorem C04_cancel_stable sched l q q' :
    forall s, s = run sched ->
    In q (st_inflight s) -> q_cancelled q = true ->
    In q' (st_inflight (step_en s l)) -> q_id q' = q_id q -> q_cancelled q' = true.
  Proof.
    intros s Es Hq Hc Hq' Hid. pose proof (inv_run sched) as H. rewrite <- Es in H.
    unfold Traversal.step_en in Hq'. destruct (enabled s l) eqn:En.
    - exact (step_inflight_cancel_stable s l q q' H En Hq Hc Hq' Hid).
    - rewrite (inflight_same_id s q q' H Hq Hq' Hid). exact Hc.
  Qed.

  (* a query whose DoQuery has returned has had its ctx cancelled (cancel() after DoQuery) *)
  Theorem C04_cancel_after_return sched q :
    In q (st_inflight (run sched)) -> q_pc q <> QWait -> q_cancelled q = true.
  Proof. exact (inv_qcancel _ _ _ _ _ _ _ _ (inv_run sched) q). Qed.

  (* (4) the Stop goroutine finishes only when nothing is in flight, and then stopped is set *)
  Theorem C04_stopwait sched :
    forall s, s = run sched ->
    enabled s LStopWait = true ->
    st_out s = 0 /\ st_inflight s = [] /\ st_stopped (step s LStopWait) = true.
  Proof.
    intros s Es En. cbn [Traversal.enabled] in En.
    apply andb_true_iff in En. destruct En as [_ Ho]. apply Nat.eqb_eq in Ho.
    split; [exact Ho|]. split; [|reflexivity].
    pose proof (inv_out _ _ _ _ _ _ _ _ (inv_run sched)) as Hl. rewrite <- Es in Hl.
    rewrite Ho in Hl. destruct (st_inflight s); [reflexivity|discriminate].
  Qed.

  (* stopped is only ever set with nothing in flight, and nothing is started afterwards *)
  Theorem C04_stopped_quiet sched :
    st_stopped (run sched) = true -> st_stopping (run sched) = true /\ st_out (run sched) = 0.
  Proof. exact (inv_stopped _ _ _ _ _ _ _ _ (inv_run sched)). Qed.
End C04.

Print Assumptions C04_alpha.
Print Assumptions C04_once.
Print Assumptions C04_filtered.
Print Assumptions C04_cancel_stable.
