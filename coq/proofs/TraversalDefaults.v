(* TraversalDefaults.v — the thin layer that depends on gen/Params.v (defaults of traversal.Start
   as found in the source now), and the concrete witness that the PINNED algorithm
   (prune_front = false) queries one address twice (defect D3). *)
From Dht Require Import Base Int160 Order Traversal.
From DhtGen Require Import Params.
From Coq Require Import Lia.

Lemma eff_k_pos K : 1 <= eff_k K.
Proof. destruct K; [vm_compute; lia|simpl; lia]. Qed.

Lemma eff_alpha_pos A : 1 <= eff_alpha A.
Proof. destruct A; [vm_compute; lia|simpl; lia]. Qed.

Lemma eff_k_nonzero K : K <> 0 -> eff_k K = K.
Proof. destruct K; [congruence|reflexivity]. Qed.

Lemma eff_alpha_nonzero A : A <> 0 -> eff_alpha A = A.
Proof. destruct A; [congruence|reflexivity]. Qed.

(* ---- D3: one reply lists the address v under two IDs; the pinned code queries v twice ---- *)
Definition d3_seed : ami := mkAmi (mkAP 32 1 6881) (Some 9%N).
Definition d3_victim : addrport := mkAP 32 2 6881.
Definition d3_reply : response N :=
  mkResp (Some ((9%N, mkAP 32 1 6881), 1%N)) [(5%N, d3_victim); (6%N, d3_victim)] [].
Definition d3_sched : list (label N) :=
  [LAddNodes [d3_seed]; LRun; LDoQueryReturn 0 d3_reply; LResp 0; LAddN 0; LAddN6 0; LDone 0;
   LWake; LRun].

Definition d3_run (prune_front : bool) : state N :=
  run N (fun _ => true) (fun _ => true) ap_cmp prune_front 0%N (eff_k 0) (eff_alpha 0) d3_sched.

(* pinned: DoQuery is started for v twice (positions 1 and 2 of the start order) *)
Lemma d3_pinned_twice :
  map ami_addr (st_started (d3_run false)) = [mkAP 32 1 6881; d3_victim; d3_victim].
Proof. vm_compute. reflexivity. Qed.

(* repaired: once; the stale second entry is discarded when it reaches the front *)
Lemma d3_repaired_once :
  map ami_addr (st_started (d3_run true)) = [mkAP 32 1 6881; d3_victim]
  /\ st_unq (d3_run true) = [] /\ st_out (d3_run true) = 1.
Proof. vm_compute. repeat split; reflexivity. Qed.

Lemma pinned_not_once :
  exists sched : list (label N),
    ~ NoDup (map ami_addr (st_started (run N (fun _ => true) (fun _ => true) ap_cmp false 0%N
                                           (eff_k 0) (eff_alpha 0) sched))).
Proof.
  exists d3_sched. intros H.
  assert (E : map ami_addr (st_started (run N (fun _ => true) (fun _ => true) ap_cmp false 0%N
                                            (eff_k 0) (eff_alpha 0) d3_sched))
              = [mkAP 32 1 6881; d3_victim; d3_victim]) by (vm_compute; reflexivity).
  rewrite E in H.
  inversion H as [|? ? _ H2]. inversion H2 as [|? ? H3 _].
  apply H3. left. reflexivity.
Qed.

Print Assumptions pinned_not_once.
