(* ServerExamples.v — a concrete instance of the server model's Section parameters and a concrete
   reachable state with a populated table (one full bucket) and two queries in flight; used by the
   non-vacuity Examples of Props/C05.v, C01.v, C07.v. *)
From Dht Require Import Base Int160 Msg Server ServerDefs ServerInv ServerInv2.
From DhtGen Require Import Params.
Local Open Scope N_scope.

Definition wp0 (st : unit) (_ : witem) (_ : Z) : unit * put_result := (st, PutOk).
Definition wg0 (st : unit) (_ : bytes) (_ : Z) : unit * get_result := (st, GetNotFound).
Definition sha0 (b : bytes) : bytes := firstn 20 b.
Definition sec0 (_ : N) (_ : bytes) : bool := true.
Definition root0 : N := 2 ^ 159.
Definition cfg0 : config := mkCfg root0 false false true true (fun _ => true) false [x2a].
Definition ip4 : bytes := [x0a; x00; x00; x01].
Definition dstA : addr := mkAddr ip4 7000.

(* ten AddNode calls (ids 1..8 fill bucket 0, id 9 finds it full, 2^159+1 lands in bucket 159),
   two pings to the same destination, some elapsed time *)
Definition evs0 : list (event * choice) :=
  map (fun i => (EAddNode ip4 (6880 + i) i, no_choice)) [1; 2; 3; 4; 5; 6; 7; 8; 9; 2 ^ 159 + 1]
  ++ [(EQueryStart 1 dstA s_ping empty_args false [x00], no_choice);
      (EQueryStart 2 dstA s_ping empty_args false [x01], no_choice);
      (EAdvance 1000, no_choice)].

Definition init0 : sstate unit := init_state unit tt 0 [] None.
Definition run0 := run unit wp0 wg0 sha0 sec0 cfg0 init0 evs0.
Definition s0 : sstate unit := match run0 with Some (s, _) => s | None => init0 end.
Definition outs0 : list (list effect) := match run0 with Some (_, o) => o | None => [] end.
Definition step0 := step unit wp0 wg0 sha0 sec0 cfg0.

(* a response with transaction id t from a node claiming id [id] *)
Definition resp (t : bytes) (id : N) : msg :=
  mkMsg [] None t s_r
        (Some (mkRet (ofN 20 id) None None None None None None None None None [] zero32 zero64 None))
        None empty_na false [].
Definition ping0 : msg := mkMsg s_ping (Some empty_args) [x61; x61] s_q None None empty_na false [].
(* announce_peer without an `a` dictionary (defect D1 of DESIGN.md, repaired in the model) *)
Definition bad_announce : msg := mkMsg s_announce_peer None [x61] s_q None None empty_na false [].
(* the eviction the implementation must report when the response of id 77 displaces entry 1 *)
Definition evict1 : choice := mkChoice (Some ((ip4, 6881), 1)) [] [] [].

Lemma cfg0_wf : wf_cfg cfg0.
Proof. split; [vm_compute; reflexivity|apply Nat.ltb_lt; vm_compute; reflexivity]. Qed.

Lemma wg0_wf : wf_store_get unit wg0.
Proof. intros st t now st' i H. unfold wg0 in H. inversion H. Qed.

Lemma run0_eq : run unit wp0 wg0 sha0 sec0 cfg0 init0 evs0 = Some (s0, outs0).
Proof. vm_compute. reflexivity. Qed.

Lemma evs0_wf : Forall (fun ec => wf_event (fst ec)) evs0.
Proof.
  unfold evs0. cbn [map app].
  repeat (apply Forall_cons;
          [cbn [fst wf_event]; first [exact I | split; [left; reflexivity|vm_compute; reflexivity] | left; reflexivity]|]).
  apply Forall_nil.
Qed.

Lemma s0_reachable : reachable unit wp0 wg0 sha0 sec0 cfg0 s0.
Proof.
  apply (C01_run_reachable unit wp0 wg0 sha0 sec0 cfg0 evs0 init0 s0 outs0).
  - apply reach_init.
  - exact evs0_wf.
  - exact run0_eq.
Qed.
