(* KrpcRtProofs.v — a well-formed message encodes, and decoding the encoding gives it back:
   struct by struct from the generic lemma of KrpcProofs.v, then the whole message. *)
From Coq Require Import String.
From Dht Require Import Base Msg Compact Bencode Krpc Int160Proofs CompactProofs BencodeProofs KrpcProofs KrpcRecProofs.
From DhtGen Require Import KrpcSchema.
From Coq Require Import Lia Arith.
Close Scope string_scope.

Lemma wf_struct_in {R} s (get : bytes -> R -> option fval) wfk (x : R) fd :
  wf_structb s get wfk x = true -> In fd (schema_of s) ->
  exists fv, get (f_name fd) x = Some fv /\ wfk (f_kind fd) fv = true.
Proof.
  unfold wf_structb. rewrite forallb_forall. intros H Hin. specialize (H fd Hin).
  destruct (get (f_name fd) x) as [fv|]; [eauto | discriminate].
Qed.

Lemma in_encF s fd : In fd (enc_fields_of s) -> In fd (schema_of s).
Proof. unfold enc_fields_of. apply In_sort_fields. Qed.

Section Roundtrip.
  Variable ni : bytes -> cresult node_info.
  Hypothesis ni_long : forall b, (22 <= length b)%nat -> ni b = nodeinfo_unmarshal b.

  (* ---- fields of MsgArgs and Return: all of non-struct kinds ---- *)
  Lemma flat_field_rt {R} s (get : bytes -> R -> option fval) (init x : R) F :
    F = enc_fields_of s ->
    wf_structb s get wf_fieldb x = true ->
    (forall fd, In fd F -> get (f_name fd) init = Some (zero_fval (f_kind fd))) ->
    (forall fd, In fd F -> f_omit fd = false -> total_kind (f_kind fd) = true) ->
    forall fd, In fd F ->
    exists fv e enc, get (f_name fd) x = Some fv /\ emit_kind (f_kind fd) fv = COk (e, enc) /\
      (f_omit fd && e = true -> get (f_name fd) init = Some fv) /\
      (f_omit fd && e = false -> pback (conv_kind ni) (f_kind fd) enc fv).
  Proof.
    intros HF Hwf Hzero Htot fd Hin.
    destruct (wf_struct_in s get wf_fieldb x fd Hwf) as (fv & Hg & Hw); [apply in_encF; rewrite <- HF; exact Hin|].
    destruct (kind_rt ni ni_long _ _ Hw) as (e & enc & He & Hz & Hp).
    exists fv, e, enc. split; [exact Hg|]. split; [exact He|]. split.
    - intros Ho. apply andb_prop in Ho. destruct Ho as [_ ->]. rewrite (Hzero fd Hin), (Hz eq_refl). reflexivity.
    - intros Ho. apply Hp. destruct (f_omit fd) eqn:Eo; [left; exact Ho | right; apply Htot; assumption].
  Qed.

  Theorem args_rt x :
    wf_xargsb x = true ->
    exists body asg,
      emit_struct get_args emit_kind argsF x = COk body /\
      (forall fuel rest dirty, (length (benc_dict_body body) <= fuel)%nat ->
         exists d', parse_ty fuel (GStruct SArgs) dirty (benc_dict_body body ++ rest) = Some (VStruct asg, rest, d')) /\
      conv_fields SArgs (conv_kind ni) set_args asg empty_xargs = COk x.
  Proof.
    intros Hwf. unfold wf_xargsb in Hwf. apply andb_prop in Hwf. destruct Hwf as [Hs Hn].
    assert (Hx : inv_args x).
    { unfold inv_args. intros E. rewrite E in Hn. simpl in Hn. destruct (a_salt (fst x)); [reflexivity | discriminate]. }
    apply (struct_rt SArgs get_args set_args emit_kind (conv_kind ni) empty_xargs x inv_args argsF
             argsF_lookup argsF_keys argsF_nodup).
    - apply (flat_field_rt SArgs get_args empty_xargs x argsF (eq_sym argsF_eq) Hs argsF_zero argsF_total).
    - intros fd fv Hin Hg. apply (args_set_law x fd fv Hin Hg).
    - intros acc Hi H. apply args_ext; assumption.
    - unfold inv_args. reflexivity.
  Qed.

  Theorem ret_rt x :
    wf_xretb x = true ->
    exists body asg,
      emit_struct get_ret emit_kind retF x = COk body /\
      (forall fuel rest dirty, (length (benc_dict_body body) <= fuel)%nat ->
         exists d', parse_ty fuel (GStruct SRet) dirty (benc_dict_body body ++ rest) = Some (VStruct asg, rest, d')) /\
      conv_fields SRet (conv_kind ni) set_ret asg empty_xret = COk x.
  Proof.
    intros Hwf. unfold wf_xretb in Hwf. apply andb_prop in Hwf. destruct Hwf as [Hs Hn].
    assert (Hx : inv_ret x).
    { unfold inv_ret. intros E. rewrite E in Hn. simpl in Hn. destruct (r_v (fst x)); [reflexivity | discriminate]. }
    apply (struct_rt SRet get_ret set_ret emit_kind (conv_kind ni) empty_xret x inv_ret retF
             retF_lookup retF_keys retF_nodup).
    - apply (flat_field_rt SRet get_ret empty_xret x retF (eq_sym retF_eq) Hs retF_zero retF_total).
    - intros fd fv Hin Hg. apply (ret_set_law x fd fv Hin Hg).
    - intros acc Hi H. apply ret_ext; assumption.
    - unfold inv_ret. reflexivity.
  Qed.

  (* ---- fields of Msg: the non-struct kinds behave as before, the two sub-structs by the above ---- *)
  Lemma msg_kind_flat k fv :
    (forall n, k <> KPtrStruct n) ->
    wf_fieldb_msg k fv = wf_fieldb k fv /\ emit_kind_msg k fv = emit_kind k fv /\
    (forall v, conv_kind_msg ni k v = conv_kind ni k v).
  Proof.
    intros H. destruct k; try (exfalso; eapply H; reflexivity); (split; [|split]); try reflexivity;
      destruct fv; reflexivity.
  Qed.

  Lemma sid_of_name_args n : sid_of_name n = Some SArgs -> n = nm_MsgArgs.
  Proof.
    unfold sid_of_name. destruct (bytes_eqb n nm_MsgArgs) eqn:E; [intros _; apply bytes_eqb_eq; exact E|].
    destruct (bytes_eqb n nm_Return); discriminate.
  Qed.
  Lemma sid_of_name_ret n : sid_of_name n = Some SRet -> n = nm_Return.
  Proof.
    unfold sid_of_name. destruct (bytes_eqb n nm_MsgArgs) eqn:E; [discriminate|].
    destruct (bytes_eqb n nm_Return) eqn:E2; [intros _; apply bytes_eqb_eq; exact E2 | discriminate].
  Qed.

  Lemma msg_field_rt_flat fd fv :
    In fd msgF -> (forall n, f_kind fd <> KPtrStruct n) ->
    wf_fieldb_msg (f_kind fd) fv = true ->
    exists e enc, emit_kind_msg (f_kind fd) fv = COk (e, enc) /\
      (f_omit fd && e = true -> get_msg (f_name fd) empty_xmsg = Some fv) /\
      (f_omit fd && e = false -> pback (conv_kind_msg ni) (f_kind fd) enc fv).
  Proof.
    intros Hin Hflat Hw.
    destruct (msg_kind_flat (f_kind fd) fv Hflat) as (W & E & C).
    rewrite W in Hw. rewrite E.
    destruct (kind_rt ni ni_long _ _ Hw) as (e & enc & He & Hz & Hp).
    exists e, enc. split; [exact He|]. split.
    - intros Ho. apply andb_prop in Ho. destruct Ho as [_ ->]. rewrite (msgF_zero fd Hin), (Hz eq_refl). reflexivity.
    - intros Ho.
      assert (Hpb : parses_back ni (f_kind fd) enc fv).
      { apply Hp. destruct (f_omit fd) eqn:Eo; [left; exact Ho | right; apply msgF_total; assumption]. }
      destruct Hpb as (t & gv & Ht & Hst & Hpt & Hcv).
      exists t, gv. split; [exact Ht|]. split; [exact Hst|]. split; [exact Hpt | rewrite C; exact Hcv].
  Qed.

  Lemma msg_field_rt x :
    wf_structb SMsg get_msg wf_fieldb_msg x = true ->
    forall fd, In fd msgF ->
    exists fv e enc, get_msg (f_name fd) x = Some fv /\ emit_kind_msg (f_kind fd) fv = COk (e, enc) /\
      (f_omit fd && e = true -> get_msg (f_name fd) empty_xmsg = Some fv) /\
      (f_omit fd && e = false -> pback (conv_kind_msg ni) (f_kind fd) enc fv).
  Proof.
    intros Hwf fd Hin.
    destruct (wf_struct_in SMsg get_msg wf_fieldb_msg x fd Hwf) as (fv & Hg & Hw); [apply in_encF; rewrite msgF_eq; exact Hin|].
    assert (Hk : (forall n, f_kind fd <> KPtrStruct n) \/ exists sn, f_kind fd = KPtrStruct sn).
    { destruct (f_kind fd); try (left; discriminate). right. eauto. }
    destruct Hk as [Hflat | (sn & Ek)].
    { destruct (msg_field_rt_flat fd fv Hin Hflat Hw) as (e & enc & H). exists fv, e, enc. split; [exact Hg | exact H]. }
    rewrite Ek in *.
    (* KPtrStruct *)
    simpl in Hw. destruct fv; try discriminate Hw.
    - (* MsgArgs *)
      destruct (sid_of_name sn) as [[| |]|] eqn:Es; try discriminate Hw.
      pose proof (sid_of_name_args sn Es) as ->.
      destruct o as [xa|].
      + destruct (args_rt xa Hw) as (body & asg & He & Hp & Hc).
        exists (FArgs (Some xa)), false, (benc_dict_body body). split; [exact Hg|]. split.
        { cbn [emit_kind_msg]. rewrite Es. unfold encode_args. rewrite argsF_eq, He. reflexivity. }
        split; [rewrite Bool.andb_false_r; discriminate|]. intros _.
        exists (GStruct SArgs), (VStruct asg). split; [cbn [ty_of_kind]; rewrite Es; reflexivity|].
        split; [eexists _, _; split; reflexivity|]. split.
        * intros fuel rest Hf. apply Hp. exact Hf.
        * cbn [conv_kind_msg]. rewrite Es. unfold conv_args. rewrite Hc. reflexivity.
      + exists (FArgs None), true, []. split; [exact Hg|]. split; [cbn [emit_kind_msg]; rewrite Es; reflexivity|].
        split.
        * intros _. rewrite (msgF_zero fd Hin), Ek. reflexivity.
        * intros Ho. rewrite Bool.andb_true_r in Ho. pose proof (msgF_total fd Hin Ho) as T. rewrite Ek in T. discriminate.
    - (* Return *)
      destruct (sid_of_name sn) as [[| |]|] eqn:Es; try discriminate Hw.
      pose proof (sid_of_name_ret sn Es) as ->.
      destruct o as [xr|].
      + destruct (ret_rt xr Hw) as (body & asg & He & Hp & Hc).
        exists (FRet (Some xr)), false, (benc_dict_body body). split; [exact Hg|]. split.
        { cbn [emit_kind_msg]. rewrite Es. unfold encode_ret. rewrite retF_eq, He. reflexivity. }
        split; [rewrite Bool.andb_false_r; discriminate|]. intros _.
        exists (GStruct SRet), (VStruct asg). split; [cbn [ty_of_kind]; rewrite Es; reflexivity|].
        split; [eexists _, _; split; reflexivity|]. split.
        * intros fuel rest Hf. apply Hp. exact Hf.
        * cbn [conv_kind_msg]. rewrite Es. unfold conv_ret. rewrite Hc. reflexivity.
      + exists (FRet None), true, []. split; [exact Hg|]. split; [cbn [emit_kind_msg]; rewrite Es; reflexivity|].
        split.
        * intros _. rewrite (msgF_zero fd Hin), Ek. reflexivity.
        * intros Ho. rewrite Bool.andb_true_r in Ho. pose proof (msgF_total fd Hin Ho) as T. rewrite Ek in T. discriminate.
  Qed.

  Lemma wf_xmsg_inv x : wf_xmsgb x = true -> inv_msg x.
  Proof.
    unfold wf_xmsgb, inv_msg. intros H. apply andb_prop in H. destruct H as [H H2]. apply andb_prop in H. destruct H as [_ H1].
    split; intros E; rewrite E in *; simpl in *.
    - destruct (x_salt_nn x); [discriminate | reflexivity].
    - destruct (x_rv_nn x); [discriminate | reflexivity].
  Qed.

  (* ---- the whole message ---- *)
  Theorem xmsg_roundtrip x :
    wf_xmsg x -> exists b, encode_xmsg x = COk b /\ decode_xmsg ni b = DOk x.
  Proof.
    intros Hwf. unfold wf_xmsg in Hwf. pose proof (wf_xmsg_inv x Hwf) as Hi.
    unfold wf_xmsgb in Hwf. apply andb_prop in Hwf. destruct Hwf as [Hwf _]. apply andb_prop in Hwf. destruct Hwf as [Hs _].
    destruct (struct_rt SMsg get_msg set_msg emit_kind_msg (conv_kind_msg ni) empty_xmsg x inv_msg msgF
                msgF_lookup msgF_keys msgF_nodup (msg_field_rt x Hs)
                (fun fd fv Hin Hg => msg_set_law x fd fv Hin Hg)
                (fun acc Ha H => msg_ext x acc Hi Ha H)) as (body & asg & He & Hp & Hc).
    { unfold inv_msg. split; reflexivity. }
    exists (benc_dict_body body). split.
    - unfold encode_xmsg. rewrite msgF_eq, He. reflexivity.
    - unfold decode_xmsg.
      destruct (Hp (length (benc_dict_body body)) [] false (le_n _)) as (d' & P).
      rewrite app_nil_r in P. rewrite P. unfold conv_msg. rewrite Hc. reflexivity.
  Qed.
End Roundtrip.
